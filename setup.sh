#!/bin/bash
# Builds the harness binaries (plain and -race) from files on disk only.
set -e
cd "$(dirname "$0")"
export PATH=/root/go/pkg/mod/golang.org/toolchain@v0.0.1-go1.23.8.linux-amd64/bin:$PATH
export GOTOOLCHAIN=local GOFLAGS=-mod=mod GOPROXY=off GOSUMDB=off
mkdir -p .build evidence replay work
cd harness
go build -tags verif -o ../.build/vh ./cmd/vh
go build -tags verif -race -o ../.build/vh-race ./cmd/vh
echo setup ok
