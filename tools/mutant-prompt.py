#!/usr/bin/env python3
"""Prints the prompt for an independent 'seeded change' sub-agent for one property (property text only)."""
import json,sys
pid=sys.argv[1]; tag=sys.argv[2] if len(sys.argv)>2 else 'a'
p=[json.loads(l) for l in open('/verif/properties.jsonl') if json.loads(l)['id']==pid][0]
wt=f"/tmp/mut-{pid}-{tag}"
# ideas of earlier rounds for this property (their authors' own summaries, shortened): not to be repeated
import glob
used=[]
for m in sorted(glob.glob(f'/verif/seeded/{pid}-*/meta.json')):
    try: used.append(json.load(open(m))['summary'][:330])
    except Exception: pass
excl=""
if used:
    excl=" Ideas that have ALREADY been used and must NOT be repeated (choose a different file/function and a different mechanism): \"" + " ".join(f"({i+1}) {u}" for i,u in enumerate(used)) + "\"."
excl+=" Do NOT use `git stash` (the stash is shared between all worktrees of /repo): use `git diff > /tmp/<file>.diff; git checkout -- <files>` and `git apply` instead. Do not read anything under /verif or under /root/.claude. The machine is shared and loaded: instead of the whole test suite you may run the packages you touched plus the integration test directories of the affected areas, and say so in meta.json."
print(f"""You are testing how robust a Go code base is against subtle regressions. The repository is sourcenetwork/defradb (DefraDB: peer-to-peer document database built on Merkle CRDTs over IPLD, GraphQL-style query language, planner, secondary indexes, access control, libp2p sync), checked out at /repo. Do NOT modify /repo itself. Work only in your own git worktree:

    git -C /repo worktree add --detach {wt} HEAD
    cd {wt}

Environment for every shell command (no network is available, nothing can be downloaded):

    export PATH=/root/go/pkg/mod/golang.org/toolchain@v0.0.1-go1.23.8.linux-amd64/bin:$PATH GOTOOLCHAIN=local GOFLAGS=-mod=mod GOPROXY=off GOSUMDB=off

Here is a semantic property that the code base is supposed to satisfy:

PROPERTY {p['id']} — {p['title']}
{p['statement']}
Quantified over: {p['quantifier']['text']}
Code anchors: {', '.join(p.get('anchors',{}).get('files',[]))}

YOUR TASK: produce ONE realistic change to the repository source (non-test .go files under {wt}) that BREAKS this property while the code still compiles and the existing test suite still passes. The change should look like a plausible refactoring slip or "optimisation" a developer could make (a dropped condition, a wrong variable, an off-by-one, a reordered pair of statements, a skipped step on one path, two sites that each look fine alone), not sabotage that ordinary use would expose at once: it must need something specific to manifest — a particular interleaving or delivery order, a crash or storage fault at a particular point, a multi-step sequence of operations, an unusual input or value, or a particular configuration. Prefer a change different from the most obvious one.{excl}

Then write a DEMONSTRATION: a Go test file (put it in the most suitable existing package directory of your worktree, file name `zz_demo_{pid.lower()}_test.go`, or a small `package main` program under `{wt}/zz_demo/`) that FAILS with your change applied and PASSES on the unmodified code. Verify both directions yourself: `git stash` (or `git diff > /tmp/x.diff; git checkout -- .`) to test without the change, then re-apply.

Also verify the existing tests still pass WITH your change: at minimum run the packages you touched and the integration tests of the affected area, e.g. `go test -vet=off -count=1 ./internal/... ./client/... ./net/... 2>&1 | tail -40` and the relevant `./tests/integration/<area>/...` directories (the whole suite `go test -vet=off -count=1 -timeout 25m ./...` takes ~5-10 minutes on this shared machine; run it once at the end if you can; 48 tests fail even on the unmodified tree — those are listed in /root/.vp/BASELINE.json under "always_fail"; ignore exactly those). If your change makes an existing test fail, choose a different change.

DELIVERABLE — when done, leave these files in {wt}/zz_out/ (create the directory):
  * patch.diff   — `git diff` of the source change only (no demo/test files in it), applying cleanly to /repo HEAD with `git apply`
  * the demonstration file(s) (copy)
  * meta.json    — {{"property": "{pid}", "summary": "<one paragraph: what the change is>", "needs": "<what is needed for it to manifest>", "demo_cmd": "<exact command, run from the worktree root, that runs the demonstration>", "demo_fails_with_patch": true, "demo_passes_without_patch": true, "suite": "<which test commands you ran with the change applied and their result>"}}
Do not remove the worktree (I will). Keep everything else you create inside {wt}. Your final message: the contents of meta.json plus the patch.""")
