#!/bin/bash
# tools/recheck-seeded.sh [ids...] — re-runs every stored seeded change against /repo HEAD: the patch must
# apply and the quick tier of its property's check must report a VIOLATION. One line per change.
cd /verif
IDS=${@:-$(ls seeded)}
BAD=0
for d in $IDS; do
  P=${d%%-*}
  OUT=$(tools/try-mutant.sh seeded/$d/patch.diff $P 2>&1)
  if echo "$OUT" | grep -q "PATCH DOES NOT APPLY"; then echo "$d NOAPPLY"; BAD=1; continue; fi
  N=$(echo "$OUT" | grep -c "^VIOLATION")
  S=$(echo "$OUT" | grep -m1 "signature=" | sed 's/ witnesses.*//;s/^ *//')
  if [ "$N" -gt 0 ]; then echo "$d caught ($N) $S"; else echo "$d MISSED $(echo "$OUT" | grep "tier=" | cut -c1-120)"; BAD=1; fi
done
exit $BAD
