#!/bin/bash
# Runs the repository's baseline suite with the verif guard OFF and compares with BASELINE.json:
# every stable_pass test must pass. Usage: tools/baseline.sh [outfile]
export PATH=/root/go/pkg/mod/golang.org/toolchain@v0.0.1-go1.23.8.linux-amd64/bin:$PATH
export GOTOOLCHAIN=local GOFLAGS=-mod=mod GOPROXY=off GOSUMDB=off
OUT=${1:-/tmp/baseline.gotest.json}
cd /repo && go test -json -vet=off -count=1 -timeout 25m ./... > "$OUT" 2>/tmp/baseline.stderr
python3 - "$OUT" <<'PY'
import json,sys
b=json.load(open('/root/.vp/BASELINE.json'))
res={}
for l in open(sys.argv[1]):
    try: e=json.loads(l)
    except Exception: continue
    if e.get('Test') and e.get('Action') in ('pass','fail','skip'):
        res[e['Package']+'::'+e['Test']]=e['Action']
bad=[t for t in b['stable_pass'] if res.get(t)!='pass']
newfail=[t for t,a in res.items() if a=='fail' and t not in b['always_fail'] and t not in b.get('flaky',[])]
print('tests seen',len(res),'stable_pass not passing',len(bad),'failing outside always_fail/flaky',len(newfail))
for t in bad[:40]: print('  NOT-PASS',t,res.get(t))
for t in newfail[:40]: print('  FAIL',t)
sys.exit(1 if bad else 0)
PY
