#!/bin/bash
# tools/sweep.sh [tier] [seeds...] — runs every check registered in MANIFEST.json at the given seeds,
# sequentially, from fresh processes; prints one line per run; exit 1 if any run is not exit 0.
cd /verif
TIER=${1:-quick}; shift
SEEDS=${@:-1 2 3}
IDS=$(python3 -c "import json;print(' '.join(c['property_id'] for c in json.load(open('MANIFEST.json'))['checks']))")
BAD=0
for s in $SEEDS; do for i in $IDS; do
  OUT=$(VERIF_SEED=$s VERIF_OUT=/tmp/vo-sweep ./check $i $TIER 2>&1); RC=$?
  echo "seed=$s $i rc=$RC $(echo "$OUT" | grep "^$i tier" | cut -c1-160)"
  if [ $RC -ne 0 ]; then BAD=1; echo "$OUT" | grep -A2 "^VIOLATION\|^INCONCLUSIVE" | head -20; fi
done; done
rm -rf /tmp/vo-sweep
exit $BAD
