#!/bin/bash
# tools/store-mutant.sh <PROP> <tag> "<detected-by text>" [extra-history-text]
# Confirms the demo in the agent's worktree /tmp/mut-<PROP>-<tag> in both directions, stores
# patch.diff + demo + meta.json under /verif/seeded/<PROP>-<tag>/ and removes the worktree.
P=$1; T=$2; DET=$3; HIST=${4:-}
WT=/tmp/mut-$P-$T
export PATH=/root/go/pkg/mod/golang.org/toolchain@v0.0.1-go1.23.8.linux-amd64/bin:$PATH GOTOOLCHAIN=local GOFLAGS=-mod=mod GOPROXY=off GOSUMDB=off
cd $WT || exit 1
rm -rf /tmp/mut-out-$P-$T; mv zz_out /tmp/mut-out-$P-$T
CMD=$(python3 -c "import json;print(json.load(open('/tmp/mut-out-$P-$T/meta.json'))['demo_cmd'])" | sed 's/#.*//; s/^PATH=[^ ]* GOTOOLCHAIN=local GOFLAGS=-mod=mod GOPROXY=off GOSUMDB=off //')
echo "demo cmd: $CMD"
W=$(bash -c "$CMD" 2>&1 | tail -1)
# (git stash is shared between all worktrees of /repo: do not use it here)
git diff > /tmp/mut-out-$P-$T/.wt.diff
git checkout -q -- .
WO=$(bash -c "$CMD" 2>&1 | tail -1)
git apply /tmp/mut-out-$P-$T/.wt.diff
echo "with patch: $W"; echo "without patch: $WO"
DEMO=$(git status --short | grep '^??' | awk '{print $2}' | grep -v zz_ | head -5 | tr '\n' ' ')
[ -z "$DEMO" ] && DEMO=$(git status --short | grep '^??' | awk '{print $2}' | head -5 | tr '\n' ' ')
mkdir -p /verif/seeded/$P-$T
cp /tmp/mut-out-$P-$T/patch.diff /verif/seeded/$P-$T/
for f in /tmp/mut-out-$P-$T/*_test.go /tmp/mut-out-$P-$T/*.go; do [ -f "$f" ] && cp "$f" /verif/seeded/$P-$T/; done
python3 - "$P" "$T" "$W" "$WO" "$DEMO" "$DET" "$HIST" <<'PY'
import json,sys
P,T,W,WO,DEMO,DET,HIST=sys.argv[1:8]
m=json.load(open(f'/tmp/mut-out-{P}-{T}/meta.json'))
m['demo_file_location']=DEMO.strip()
m['confirmed_by_me']={'demo_with_patch':W,'demo_without_patch':WO,'suite':'as reported by the authoring agent in "suite" (re-run by me only for the demo); patch applies to /repo HEAD'}
m['detected_by']=DET
if HIST: m['history']=HIST
json.dump(m,open(f'/verif/seeded/{P}-{T}/meta.json','w'),indent=1)
PY
cd /; git -C /repo worktree remove --force $WT; rm -rf /tmp/mut-out-$P-$T
ls /verif/seeded/$P-$T
