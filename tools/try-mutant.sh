#!/bin/bash
# tools/try-mutant.sh <patch.diff> <ID> [ID...]  — run checks against /repo HEAD + patch in a scratch worktree
# (nothing is changed in /repo; evidence/replay go to a scratch dir). Env: TIER (quick), VERIF_SEED, VERIF_LIMIT.
P=$(readlink -f "$1"); shift
WT=/tmp/wt-try-$$; OUT=/tmp/vo-try-$$
git -C /repo worktree add --detach $WT HEAD -q || exit 2
if ! git -C $WT apply "$P"; then echo "PATCH DOES NOT APPLY"; git -C /repo worktree remove --force $WT; exit 2; fi
cd /verif
for ID in "$@"; do
  echo "== $ID against $(basename $P)"
  VERIF_OUT=$OUT VERIF_REPO=$WT ./check $ID ${TIER:-quick} 2>&1 | grep -v "^  observed\|^KNOWN-FINDING" | grep -A2 "^VIOLATION\|^INCONCLUSIVE\|^C[0-9][0-9] tier" | cut -c1-400
done
git -C /repo worktree remove --force $WT
rm -rf $OUT /verif/.build/vh-alt-* /verif/.build/vh-race-alt-* /verif/harness/go.alt-*
