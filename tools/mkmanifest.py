#!/usr/bin/env python3
"""Regenerates /verif/MANIFEST.json from the table below (keeps the file valid at all times)."""
import json, subprocess
props=[json.loads(l) for l in open('/verif/properties.jsonl')]
ids=[p['id'] for p in props]
GO="PATH=/root/go/pkg/mod/golang.org/toolchain@v0.0.1-go1.23.8.linux-amd64/bin:$PATH GOTOOLCHAIN=local GOFLAGS=-mod=mod GOPROXY=off GOSUMDB=off"
# id -> (level, technique, level text, level note, design ref)
CHECKS={
 "C01":("exploration","runtime monitoring: agreement oracle over simulated replica histories (real nodes, block-closure delivery + synchronous merge hook)",
        "Held on the explored set: hundreds (quick) / thousands (thorough) of generated multi-replica histories with reordered and duplicated deliveries; every merge error and every disagreement of documents, showDeleted view or head sets at quiescence is a violation. Exploration is the right level: the property quantifies over unbounded histories and schedules.",
        "Delivery is simulated by copying the ancestor+link closure of a commit and calling executeMerge through hook H1 (what syncDAG guarantees before it raises the merge event); corekv/badger commits are atomic.","6/C01"),
 "C02":("exploration","runtime monitoring: reference-model monitor (fold over merged commits read from the blocks) checked after every step of simulated replica histories",
        "Held on the explored set: after every single local operation and delivery the touched document is compared with fold(M_r): counters exact, registers within the causally-maximal merged writes, deletion iff a merged delete, no resurrection; failing merges must not change state.",
        "Ancestry is read from stored blocks; written values come from the harness's write log keyed by commit cid; M_r grows only by deliveries whose merge returned nil.","6/C02"),
 "C04":("exploration","runtime monitoring: structural invariant auditor (full raw-store scan at quiescent points) over simulated replica histories + genesis byte-equality across nodes",
        "Held on the explored set: after every step the auditor re-hashes every stored block, resolves every link of every merged commit, re-derives heights, and compares stored head sets (raw and latestCommits) with the maximal merged commits; genesis blocks of the same document on two nodes are byte-compared (unsigned and shared ed25519 identity).",
        "Merged set = commits whose creation or merge returned success (ancestor closed); audits run with no concurrent writer, so no transient state is judged.","6/C04"),
 "C06":("exploration","runtime monitoring: lock-step snapshot-isolation reference model over deterministic single-goroutine interleavings of explicit transactions (all interleavings of bounded program pairs + random 3-transaction schedules), raw-store and event-bus side monitors",
        "Held on the explored set: every in-transaction read equals snapshot + own writes, every observer read equals the committed state, raw store and event bus change only at a successful commit, failed/discarded transactions leave no trace, and of two overlapping writers of one document the second commit fails. Spurious conflicts are counted, never flagged.",
        "Schedules are sequences of API calls from one goroutine (thread-level interleavings are C16's business). The corekv memory store violates snapshot reads (dependency defect, known finding); badger is the store the verdict is about.","6/C06"),
 "C11":("exploration","runtime monitoring: unique-token secrets + byte-level scanner over the raw block store and every update event, with a positive control in every case; key-holding and key-less receivers fed by block-closure copy + merge hook",
        "Held on the explored set: after every operation no encoding (UTF-8, CBOR int/float image, JSON text) of any secret written to an encrypted field occurs in /db/blocks or in an update event's block, key bytes occur only under /db/enc, key-holding receivers read back exactly, key-less receivers store nothing in clear. A case whose positive control (token in a non-encrypted field) is not found does not count.",
        "The receiver's enc-keys-request is answered by the harness from the writer's key store, as internal/kms does. One recorded known finding (field declared encrypted but unset at create).","6/C11"),
 "C12":("exploration","runtime monitoring: tamper matrix over every signed block (21 single-field mutations x 2 key types) checked against DB.VerifySignature and the receive path (hook VerifSyncDAG with an offline block service), with an untampered negative control",
        "Held on the explored set: every signed block verifies under the signer's key and fails under a fresh key of the same and of the other type; every tampered re-encoding fails verification, is rejected by the receive path and leaves the receiver's documents and heads unchanged; the untampered block is accepted and changes the receiver.",
        "Receive path exercised through hook H2 (syncDAG) + H1 (merge) without a network. A rejected forged block remaining as an unreachable orphan in the block store is a note, not a violation.","6/C12"),
 "C15":("exploration","runtime monitoring: real libp2p nodes on loopback with outage/restart/patch schedules, each paired with its outage-free control; clock-free quiescence criterion over the sender's peer store, in-flight pushes (gRPC interceptors) and receiver merge events",
        "Bounded restatement of 'eventually': a schedule is a violation only if B lacks a head of A while nothing remains in the system that could ever deliver it (no retry record, no push or merge in flight, observed unchanged 14 times), or the same push fails repeatedly without progress (livelock), and the control converged; pending work at the deadline is inconclusive, never a violation.",
        "Liveness is decided only within the explored schedules and bound; libp2p over 127.0.0.1; two recorded known findings (pubsub-only has no redelivery; reconnect during peer start-up livelock).","6/C15"),
 "C16":("exploration","Go race detector (-race build, reports parsed from GORACE logs and de-duplicated by outermost DefraDB frame pair) + porcupine linearizability check of recorded per-document histories + conservation monitor, under concurrent mixed workloads with storage-call yield injection",
        "Held on the executions produced: no race report or crash with a DefraDB frame, every per-document history of acknowledged operations is linearizable against a register+counter model (checker timeout = inconclusive partition), successful writes are present, failed ones absent, counters equal the acknowledged increments; incoming merges run through the unhooked asynchronous bus path.",
        "Absence of a race report is not absence of races; covers the interleavings that repeated randomized runs produce at GOMAXPROCS 2/8/16. Two recorded known findings (create vs CreateIndex phantom).","6/C16"),
 "C14":("exploration","runtime monitoring: lock-step twin (file-store node closed/reopened vs never-restarted in-memory node) + replay of every commit-boundary crash prefix from a recorded commit log",
        "Held on the explored set: generated histories of schema, index, document, ACP and peer-configuration operations with 1-4 restarts; after each restart the full dump (documents incl. deleted, commits, collections incl. inactive versions, schemas, indexes, identifier tables, peer configuration) equals the pre-close dump and the twin's, and every later operation result (assigned ids, docIDs, cids, errors) equals the twin's; for crash histories a DB is opened on the store as of every completed commit and compared with the dump recorded at that operation boundary.",
        "Crash points are commit boundaries of the key-value store: the atomicity of a corekv/badger commit is trusted (torn writes inside a commit are not generated). Counters/signing are not generated so that cids agree across twins.","6/C14"),
}
REASONS={}
def main():
    hooks=subprocess.run("git -C /repo log --format=%h --grep='^verif hook' ",shell=True,capture_output=True,text=True).stdout.split()
    m={"version":1,"setup_cmd":"./setup.sh",
       "hooks":{"guard":"verif","enable":"go build -tags verif (harness module: replace github.com/sourcenetwork/defradb => /repo)",
                "baseline_off_cmd":f"cd /repo && {GO} go test -json -vet=off -count=1 -timeout 25m ./...",
                "source_commits":hooks[::-1],"add_only":True},
       "engines":[{"name":"vh","path":"harness/cmd/vh","serves_properties":sorted(CHECKS),"kind_free_text":"Go harness binary built against /repo (tag verif): supervisor + worker processes running runtime monitors over the real code; known findings in known-findings.txt"}],
       "checks":[],"not_applicable":[],
       "notes":"Technique family: runtime monitoring and sanitizers. See DESIGN.md. exit 0 held / 1 VIOLATION / 3 INCONCLUSIVE."}
    for i in ids:
        if i in CHECKS:
            lvl,tech,text,note,ref=CHECKS[i]
            m["checks"].append({"property_id":i,"quick_cmd":f"./check {i} quick","thorough_cmd":f"./check {i} thorough",
              "evidence_file":f"/verif/evidence/{i}.json","replay_cmd_template":f"./check {i} --replay {{path}}","engine":"vh",
              "level_claimed":{"category":lvl,"text":text,"design_ref":"DESIGN.md section "+ref},"level_note":note,"technique":tech})
        else:
            m["not_applicable"].append({"property_id":i,"reason":REASONS.get(i,"monitor still being built in this round (design in DESIGN.md section 6); not claimed until its check is silent on the unchanged tree")})
    json.dump(m,open('/verif/MANIFEST.json','w'),indent=1)
    print("checks:",[c["property_id"] for c in m["checks"]],"n/a:",len(m["not_applicable"]))
main()
