#!/bin/bash
# tools/agent-sandbox.sh <name>: private copy of the harness for a helper working on one check.
set -e
N=${1:?name}
D=/tmp/vh-$N
rm -rf $D; mkdir -p $D
rsync -a --exclude .build --exclude work --exclude 'go.alt-*' /verif/harness $D/
cp /verif/check /verif/known-findings.txt $D/
mkdir -p $D/.build $D/evidence $D/replay $D/work
echo $D
