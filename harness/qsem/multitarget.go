package qsem

import (
	"context"
	"fmt"
	"math/rand/v2"
	"strings"

	"github.com/sourcenetwork/defradb/client"
	"github.com/sourcenetwork/defradb/verifharness/core"
)

// Schema and data of the multi-target aggregate cases of C08: a parent collection P that offers
// six aggregate targets of different natures - four inline numeric arrays (nillable / non-nillable
// elements, Int / Float) and two one-to-many relations to B and C - so that one aggregate can list
// two or three targets (`_min(bs: {field: v}, cs: {field: f}, x: {})`). B and C also serve as the
// targets of top-level multi-collection aggregates (`_sum(B: {field: v}, C: {field: v})`).
const MTSDL = `type P { k: Int  c: Int  x: [Int]  y: [Int!]  z: [Float]  w: [Float!]  bs: [B]  cs: [C] }
type B { k: Int  v: Int  f: Float  p: P }
type C { k: Int  v: Int  f: Float  p: P }`

// MTDataset: P documents carry k, c and the four arrays ([]any or nil); B and C documents carry
// k, v, f and "p" = index into P or -1.
type MTDataset struct {
	P []Doc `json:"p"`
	B []Doc `json:"b"`
	C []Doc `json:"c"`
}

var (
	mtIntNillable   = []any{nil, []any{}, []any{int64(1)}, []any{int64(4), int64(7)}, []any{int64(0), int64(3)}, []any{nil, int64(2)}, []any{int64(-1), nil, int64(5)}, []any{nil}}
	mtIntRequired   = []any{nil, []any{}, []any{int64(2)}, []any{int64(3), int64(1)}, []any{int64(-2), int64(6)}, []any{int64(9), int64(2), int64(2)}}
	mtFloatNillable = []any{nil, []any{}, []any{0.5}, []any{1.5, -0.5}, []any{nil, 2.0}, []any{2.25, nil, -3.0}, []any{8.0}}
	mtFloatRequired = []any{nil, []any{}, []any{-1.0}, []any{0.25, 3.5}, []any{6.0, 1.0, 1.0}}
	mtV             = []any{int64(-2), int64(-1), int64(0), int64(1), int64(2), int64(3), int64(5)}
	mtF             = []any{-1.5, 0.0, 0.5, 2.0, 4.25}
)

// MTArrays lists the inline-array targets of P: name, element kind, nillable elements.
var MTArrays = []struct {
	Name     string
	Kind     Kind
	Nillable bool
}{{"x", KInt, true}, {"y", KInt, false}, {"z", KFloat, true}, {"w", KFloat, false}}

func pick(rng *rand.Rand, dom []any) any { return dom[rng.IntN(len(dom))] }

// GenMTData: nP parents, nB / nC children; a child field is null with probability 1/5, a child has
// no parent with probability 1/5.
func GenMTData(rng *rand.Rand, nP, nB, nC int) MTDataset {
	var ds MTDataset
	for k := 0; k < nP; k++ {
		ds.P = append(ds.P, Doc{"k": int64(k), "c": int64(rng.IntN(2)),
			"x": pick(rng, mtIntNillable), "y": pick(rng, mtIntRequired), "z": pick(rng, mtFloatNillable), "w": pick(rng, mtFloatRequired)})
	}
	child := func(k int) Doc {
		d := Doc{"k": int64(k), "v": nil, "f": nil, "p": -1}
		if rng.IntN(5) > 0 {
			d["v"] = pick(rng, mtV)
		}
		if rng.IntN(5) > 0 {
			d["f"] = pick(rng, mtF)
		}
		if nP > 0 && rng.IntN(5) > 0 {
			d["p"] = rng.IntN(nP)
		}
		return d
	}
	for k := 0; k < nB; k++ {
		ds.B = append(ds.B, child(k))
	}
	for k := 0; k < nC; k++ {
		ds.C = append(ds.C, child(100+k))
	}
	return ds
}

// MTAnchorData: P0 has both relations and all arrays non-empty with pairwise different minima and
// maxima (bs.v {3,5}, cs.v {1,2,null}, x [4,7], y [2,9,2], z [1.5,-0.5], w [0.25,3.5]); P1 has one
// non-empty target per nature; P2 has nothing; one child without a parent in each collection.
func MTAnchorData() MTDataset {
	p := func(k int, c int, x, y, z, w any) Doc {
		return Doc{"k": int64(k), "c": int64(c), "x": x, "y": y, "z": z, "w": w}
	}
	ch := func(k int, v, f any, pi int) Doc { return Doc{"k": int64(k), "v": v, "f": f, "p": pi} }
	return MTDataset{
		P: []Doc{
			p(0, 0, []any{int64(4), int64(7)}, []any{int64(9), int64(2), int64(2)}, []any{1.5, -0.5}, []any{0.25, 3.5}),
			p(1, 0, []any{nil, int64(2)}, nil, []any{}, []any{6.0, 1.0, 1.0}),
			p(2, 1, nil, []any{}, nil, nil),
			p(3, 1, []any{int64(-1), nil, int64(5)}, []any{int64(3), int64(1)}, []any{2.25, nil, -3.0}, []any{-1.0}),
		},
		B: []Doc{ch(0, int64(3), 2.0, 0), ch(1, int64(5), 0.5, 0), ch(2, int64(0), nil, 1), ch(3, int64(2), 4.25, -1), ch(4, int64(-2), -1.5, 3), ch(5, nil, 0.0, 3)},
		C: []Doc{ch(100, int64(1), 4.25, 0), ch(101, int64(2), -1.5, 0), ch(102, nil, 0.0, 0), ch(103, int64(5), 2.0, -1), ch(104, int64(3), 0.5, 3)},
	}
}

// Normalize restores generator types after a JSON round trip.
func (ds *MTDataset) Normalize() {
	for _, l := range [][]Doc{ds.P, ds.B, ds.C} {
		for _, d := range l {
			for _, f := range []string{"k", "c", "v"} {
				if v, ok := d[f].(float64); ok {
					d[f] = int64(v)
				}
			}
			if _, ok := d["p"]; ok {
				d["p"] = pIndex(d)
			}
		}
	}
}

func pIndex(d Doc) int {
	switch x := d["p"].(type) {
	case int:
		return x
	case int64:
		return int(x)
	case float64:
		return int(x)
	}
	return -1
}

// LoadMT creates the documents through the collection API.
func LoadMT(ctx context.Context, n *core.Node, ds MTDataset) error {
	pcol := n.Col(ctx, "P")
	var pids []string
	for _, p := range ds.P {
		doc, err := client.NewDocFromMap(map[string]any(p), pcol.Definition())
		if err != nil {
			return fmt.Errorf("%v: %w", p, err)
		}
		if err := pcol.Create(ctx, doc); err != nil {
			return err
		}
		pids = append(pids, doc.ID().String())
	}
	for name, docs := range map[string][]Doc{"B": ds.B, "C": ds.C} {
		col := n.Col(ctx, name)
		for _, d := range docs {
			m := map[string]any{}
			for k, v := range d {
				if k == "p" {
					if pi := pIndex(d); pi >= 0 {
						m["p_id"] = pids[pi]
					}
					continue
				}
				m[k] = v
			}
			doc, err := client.NewDocFromMap(m, col.Definition())
			if err != nil {
				return fmt.Errorf("%v: %w", m, err)
			}
			if err := col.Create(ctx, doc); err != nil {
				return err
			}
		}
	}
	return nil
}

func (ds MTDataset) Signature() string {
	var ps []string
	for _, p := range ds.P {
		nb, nc := 0, 0
		for _, b := range ds.B {
			if pIndex(b) == int(p["k"].(int64)) {
				nb++
			}
		}
		for _, c := range ds.C {
			if pIndex(c) == int(p["k"].(int64)) {
				nc++
			}
		}
		al := func(v any) int { l, _ := v.([]any); return len(l) }
		ps = append(ps, fmt.Sprintf("%d%d%d%d%d%d", al(p["x"]), al(p["y"]), al(p["z"]), al(p["w"]), nb, nc))
	}
	return fmt.Sprintf("p%d/b%d/c%d/%s", len(ds.P), len(ds.B), len(ds.C), strings.Join(ps, "."))
}

// ItemFilter is an operator block applied to the items of an inline array (`{_gt: 1}`).
type ItemFilter struct {
	Cmp string `json:"cmp"`
	Val any    `json:"val"` // int64 / float64; nil only with _ne (`{_ne: null}`)
}

func (f ItemFilter) GQL() string { return fmt.Sprintf("{%s: %s}", f.Cmp, lit(f.Val)) }

// Eval: the documented comparison of one item; Unknown when null is compared with a value.
func (f ItemFilter) Eval(k Kind, item any) Tri {
	if f.Val == nil {
		r := False
		if item == nil {
			r = True
		}
		if f.Cmp == "_ne" {
			return triNot(r)
		}
		return r
	}
	if item == nil {
		return Unknown
	}
	c, ok := Cmp(KFloat, item, f.Val)
	if !ok {
		return Unknown
	}
	var r bool
	switch f.Cmp {
	case "_eq":
		r = c == 0
	case "_ne":
		r = c != 0
	case "_gt":
		r = c > 0
	case "_ge":
		r = c >= 0
	case "_lt":
		r = c < 0
	case "_le":
		r = c <= 0
	default:
		return Unknown
	}
	if r {
		return True
	}
	return False
}

// GenItemFilter: a comparison for the items of an array of the given element kind.
func GenItemFilter(rng *rand.Rand, k Kind) ItemFilter {
	if rng.IntN(6) == 0 {
		return ItemFilter{Cmp: "_ne", Val: nil}
	}
	op := []string{"_gt", "_ge", "_lt", "_le", "_ne", "_eq"}[rng.IntN(6)]
	if k == KInt {
		return ItemFilter{Cmp: op, Val: int64(rng.IntN(6) - 1)}
	}
	return ItemFilter{Cmp: op, Val: []any{-0.5, 0.5, 1.0, 2.0}[rng.IntN(4)]}
}

// GenChildFilter: a filter on the documents of B / C (fields k, v, f), as GraphQL text.
func GenChildFilter(rng *rand.Rand) string {
	switch rng.IntN(6) {
	case 0:
		return fmt.Sprintf(`{v: {%s: %d}}`, []string{"_gt", "_ge", "_lt", "_le", "_ne", "_eq"}[rng.IntN(6)], rng.IntN(5)-1)
	case 1:
		return fmt.Sprintf(`{f: {%s: %s}}`, []string{"_gt", "_ge", "_lt", "_le"}[rng.IntN(4)], lit(pick(rng, mtF)))
	case 2:
		return fmt.Sprintf(`{k: {%s: %d}}`, []string{"_gt", "_lt", "_ne"}[rng.IntN(3)], []int{1, 3, 101, 103}[rng.IntN(4)])
	case 3:
		return fmt.Sprintf(`{%s: {_ne: null}}`, []string{"v", "f"}[rng.IntN(2)])
	case 4:
		return fmt.Sprintf(`{_or: [{v: {_in: [%d, %d]}}, {f: {_lt: 0.25}}]}`, rng.IntN(4), rng.IntN(4)+2)
	}
	return fmt.Sprintf(`{_not: {v: {_eq: %d}}}`, rng.IntN(4))
}
