package qsem

import (
	"encoding/json"
	"fmt"
	"math"
	"math/big"
	"sort"
	"strings"
	"time"
)

// Kind of a scalar field.
type Kind int

const (
	KInt Kind = iota
	KFloat
	KString
	KBool
	KTime
)

func (k Kind) String() string {
	return [...]string{"Int", "Float", "String", "Boolean", "DateTime"}[k]
}

// ToFloat converts a JSON / generator number.
func ToFloat(v any) (float64, bool) {
	switch x := v.(type) {
	case json.Number:
		f, err := x.Float64()
		return f, err == nil
	case float64:
		return x, true
	case float32:
		return float64(x), true
	case int:
		return float64(x), true
	case int64:
		return float64(x), true
	}
	return 0, false
}

// ToBig converts an integer-valued JSON / generator number exactly.
func ToBig(v any) (*big.Int, bool) {
	switch x := v.(type) {
	case json.Number:
		b, ok := new(big.Int).SetString(x.String(), 10)
		return b, ok
	case int:
		return big.NewInt(int64(x)), true
	case int64:
		return big.NewInt(x), true
	}
	return nil, false
}

func parseTime(v any) (time.Time, bool) {
	s, ok := v.(string)
	if !ok {
		return time.Time{}, false
	}
	t, err := time.Parse(time.RFC3339Nano, s)
	return t, err == nil
}

// Cmp compares two values of the given kind; nil (null) is the smallest value.
// ok=false when a value is not of the kind (the caller reports it).
func Cmp(k Kind, a, b any) (int, bool) {
	if a == nil || b == nil {
		switch {
		case a == nil && b == nil:
			return 0, true
		case a == nil:
			return -1, true
		}
		return 1, true
	}
	switch k {
	case KInt:
		x, ok1 := ToBig(a)
		y, ok2 := ToBig(b)
		if !ok1 || !ok2 {
			return 0, false
		}
		return x.Cmp(y), true
	case KFloat:
		x, ok1 := ToFloat(a)
		y, ok2 := ToFloat(b)
		if !ok1 || !ok2 {
			return 0, false
		}
		switch {
		case x < y:
			return -1, true
		case x > y:
			return 1, true
		}
		return 0, true
	case KString:
		x, ok1 := a.(string)
		y, ok2 := b.(string)
		if !ok1 || !ok2 {
			return 0, false
		}
		return strings.Compare(x, y), true
	case KBool:
		x, ok1 := a.(bool)
		y, ok2 := b.(bool)
		if !ok1 || !ok2 {
			return 0, false
		}
		switch {
		case x == y:
			return 0, true
		case !x:
			return -1, true
		}
		return 1, true
	case KTime:
		x, ok1 := parseTime(a)
		y, ok2 := parseTime(b)
		if !ok1 || !ok2 {
			return 0, false
		}
		return x.Compare(y), true
	}
	return 0, false
}

// OrderKey is one element of an order argument.
type OrderKey struct {
	Path []string `json:"path"` // ["i"] or ["g","w"]
	Kind Kind     `json:"kind"`
	Desc bool     `json:"desc"`
}

func (o OrderKey) GQL() string {
	dir := "ASC"
	if o.Desc {
		dir = "DESC"
	}
	s := dir
	for i := len(o.Path) - 1; i >= 0; i-- {
		s = "{" + o.Path[i] + ": " + s + "}"
	}
	return s
}

// Select renders the selection that returns the key's value.
func (o OrderKey) Select() string {
	s := o.Path[len(o.Path)-1]
	for i := len(o.Path) - 2; i >= 0; i-- {
		s = o.Path[i] + " { " + s + " }"
	}
	return s
}

func OrderGQL(keys []OrderKey) string {
	var parts []string
	for _, k := range keys {
		parts = append(parts, k.GQL())
	}
	if len(parts) == 1 {
		return parts[0]
	}
	return "[" + strings.Join(parts, ", ") + "]"
}

// Lookup follows a path through nested objects; a missing / null intermediate object gives nil.
func Lookup(row map[string]any, path []string) any {
	var cur any = row
	for _, p := range path {
		m, ok := cur.(map[string]any)
		if !ok || m == nil {
			return nil
		}
		cur = m[p]
	}
	return cur
}

// Sortedness symptoms.
const (
	SortOK            = ""
	SortFirstKey      = "first-key-out-of-order"
	SortTieNotBroken  = "tie-on-earlier-keys-not-broken-by-later-key"
	SortIncomparable  = "value-of-unexpected-type"
	SortNotPermutaton = "not-a-permutation"
)

// CheckSorted verifies that rows are lexicographically non-decreasing under keys. It returns the
// symptom and the position of the first offending adjacent pair. The first key is judged first:
// any adjacent inversion on key1 is SortFirstKey; an inversion on key i+1 among rows that tie on
// key1..i is SortTieNotBroken. hasFirstKeyTie tells whether some adjacent rows tie on the first key.
func CheckSorted(rows []map[string]any, keys []OrderKey) (symptom string, at int, hasFirstKeyTie bool) {
	cmpKey := func(k OrderKey, a, b map[string]any) (int, bool) {
		c, ok := Cmp(k.Kind, Lookup(a, k.Path), Lookup(b, k.Path))
		if k.Desc {
			c = -c
		}
		return c, ok
	}
	tieSym, tieAt := SortOK, -1
	for i := 0; i+1 < len(rows); i++ {
		for ki, k := range keys {
			c, ok := cmpKey(k, rows[i], rows[i+1])
			if !ok {
				return SortIncomparable, i, hasFirstKeyTie
			}
			if c < 0 {
				break
			}
			if c > 0 {
				if ki == 0 {
					return SortFirstKey, i, hasFirstKeyTie
				}
				if tieSym == SortOK {
					tieSym, tieAt = SortTieNotBroken, i
				}
				break
			}
			if ki == 0 {
				hasFirstKeyTie = true
			}
		}
	}
	// a first key that is sorted only between neighbours is sorted overall (total preorder), so
	// adjacent checks suffice.
	return tieSym, tieAt, hasFirstKeyTie
}

// KeyTuple renders the sort-key values of a row.
func KeyTuple(row map[string]any, keys []OrderKey) string {
	var parts []string
	for _, k := range keys {
		parts = append(parts, canonVal(Lookup(row, k.Path)))
	}
	return strings.Join(parts, "|")
}

func canonVal(v any) string {
	if f, ok := ToFloat(v); ok {
		if f == math.Trunc(f) && math.Abs(f) < 1e15 {
			return fmt.Sprintf("%d", int64(f))
		}
		return fmt.Sprintf("%g", f)
	}
	b, _ := json.Marshal(v)
	return string(b)
}

// IDs extracts the string rendering of field id from each row, in order.
func IDs(rows []map[string]any, id string) []string {
	out := make([]string, 0, len(rows))
	for _, r := range rows {
		out = append(out, canonVal(r[id]))
	}
	return out
}

func SortedCopy(a []string) []string {
	b := append([]string{}, a...)
	sort.Strings(b)
	return b
}

// SameMultiset compares two id lists as multisets.
func SameMultiset(a, b []string) bool {
	if len(a) != len(b) {
		return false
	}
	x, y := SortedCopy(a), SortedCopy(b)
	for i := range x {
		if x[i] != y[i] {
			return false
		}
	}
	return true
}

func SameSeq(a, b []string) bool {
	if len(a) != len(b) {
		return false
	}
	for i := range a {
		if a[i] != b[i] {
			return false
		}
	}
	return true
}

func ToSet(a []string) map[string]bool {
	m := make(map[string]bool, len(a))
	for _, x := range a {
		m[x] = true
	}
	return m
}

// ---------------------------------------------------------------------------------------
// aggregate arithmetic over listed values

// Agg is the arithmetic result over a list of (possibly null) numbers.
type Agg struct {
	Count    int // rows listed
	NonNull  int
	Sum      float64
	SumInt   *big.Int // exact, when all values are integers
	Min, Max float64
}

func Arithmetic(vals []any) Agg {
	a := Agg{SumInt: new(big.Int), Min: math.Inf(1), Max: math.Inf(-1)}
	allInt := true
	for _, v := range vals {
		a.Count++
		if v == nil {
			continue
		}
		f, ok := ToFloat(v)
		if !ok {
			continue
		}
		a.NonNull++
		a.Sum += f
		if b, ok := ToBig(v); ok && allInt {
			a.SumInt.Add(a.SumInt, b)
		} else {
			allInt = false
		}
		a.Min = math.Min(a.Min, f)
		a.Max = math.Max(a.Max, f)
	}
	if !allInt {
		a.SumInt = nil
	}
	return a
}

// NumEq compares with the tolerance the design allows for float aggregates (1e-9 relative).
func NumEq(got any, want float64) bool {
	g, ok := ToFloat(got)
	if !ok {
		return false
	}
	if g == want {
		return true
	}
	d := math.Abs(g - want)
	return d <= 1e-9*math.Max(math.Abs(g), math.Abs(want)) || d < 1e-12
}

// CheckAgg compares the value the database returned for aggregate fn with the arithmetic over the
// listed values. It returns "" when they agree, "skip" when the arithmetic is not defined by the
// documentation (average / minimum / maximum of no values), else a description.
func CheckAgg(fn string, got any, a Agg) string {
	switch fn {
	case "_count":
		if !NumEq(got, float64(a.Count)) {
			return fmt.Sprintf("_count=%v, listed rows=%d", got, a.Count)
		}
	case "_sum":
		if a.SumInt != nil {
			if gb, ok := ToBig(got); ok {
				if gb.Cmp(a.SumInt) != 0 {
					return fmt.Sprintf("_sum=%v, sum of listed values=%s", got, a.SumInt)
				}
				return ""
			}
		}
		if !NumEq(got, a.Sum) {
			return fmt.Sprintf("_sum=%v, sum of listed values=%v", got, a.Sum)
		}
	case "_avg":
		if a.NonNull == 0 {
			return "skip"
		}
		if !NumEq(got, a.Sum/float64(a.NonNull)) {
			return fmt.Sprintf("_avg=%v, sum/non-null count of listed values=%v (sum %v, non-null %d, rows %d)", got, a.Sum/float64(a.NonNull), a.Sum, a.NonNull, a.Count)
		}
	case "_min":
		if a.NonNull == 0 {
			return "skip"
		}
		if !NumEq(got, a.Min) {
			return fmt.Sprintf("_min=%v, minimum of listed values=%v", got, a.Min)
		}
	case "_max":
		if a.NonNull == 0 {
			return "skip"
		}
		if !NumEq(got, a.Max) {
			return fmt.Sprintf("_max=%v, maximum of listed values=%v", got, a.Max)
		}
	}
	return ""
}

var AggFns = []string{"_count", "_sum", "_avg", "_min", "_max"}
