// Package qsem holds what the C08 (query semantics) and C09 (relations) monitors share:
// a request executor with recover() and a per-operation watchdog, a small schema with
// small value domains, a filter AST with a three-valued reference evaluator for the
// documented core, the sortedness oracle, aggregate arithmetic and the token-level
// request mutator. It is self-contained (it does not depend on harness/qgen).
package qsem

import (
	"context"
	"encoding/json"
	"fmt"
	"runtime"
	"sort"
	"strings"
	"sync/atomic"
	"syscall"
	"time"

	"github.com/sourcenetwork/defradb/client"
	"github.com/sourcenetwork/defradb/verifharness/core"
)

// Exec runs requests against one node. Every request runs under recover() and under a
// per-operation watchdog; a panic becomes the violation panic/<first defradb frame>, a request
// that does not return becomes hang/<Kind> and sets Hung (the caller must then abandon the case:
// the request goroutine is still inside the database).
type Exec struct {
	Ctx     context.Context
	N       *core.Node
	R       *core.Rec
	Kind    string        // used in the hang signature
	Timeout time.Duration // per-operation watchdog (default 60 s)
	Hung    bool
	Opts    []client.RequestOption
	// PanicClass (optional) maps a panic of a request to a signature and message of its own, for
	// defects that surface in many frames; "" keeps the default panic/<first defradb frame>.
	PanicClass func(req, stack string) (sig, msg string)

	lat    []time.Duration // latencies of the last requests (watchdog scaling only, never an oracle)
	median time.Duration
}

// watchdog returns the per-operation deadline: at least Timeout (default 60 s) and at least
// 1000 x the median latency observed so far on this node (DESIGN.md section 3), so that a
// machine that is merely overloaded does not produce hang reports.
func (e *Exec) watchdog() time.Duration {
	t := e.Timeout
	if t == 0 {
		t = 60 * time.Second
	}
	if m := 1000 * e.median; m > t {
		t = m
	}
	return t
}

func (e *Exec) observe(d time.Duration) {
	e.lat = append(e.lat, d)
	if len(e.lat) > 64 {
		e.lat = e.lat[len(e.lat)-64:]
	}
	if len(e.lat)%8 == 0 {
		c := append([]time.Duration{}, e.lat...)
		sort.Slice(c, func(i, j int) bool { return c[i] < c[j] })
		e.median = c[len(c)/2]
	}
}

// Result of one request.
type Result struct {
	Data  any // JSON-normalised (json.Number) value of GQL.Data
	Errs  []string
	Panic string // non-empty: the request panicked (already reported)
	Hang  bool
}

func (r Result) OK() bool { return r.Panic == "" && !r.Hang && len(r.Errs) == 0 }

func (r Result) Err() string {
	switch {
	case r.Panic != "":
		return "panic: " + FirstLine(r.Panic)
	case r.Hang:
		return "hang"
	case len(r.Errs) > 0:
		return r.Errs[0]
	}
	return ""
}

// Rows returns the list under the top-level field name (nil if absent or not a list).
func (r Result) Rows(name string) []map[string]any {
	m, _ := r.Data.(map[string]any)
	if m == nil {
		return nil
	}
	l, _ := m[name].([]any)
	out := make([]map[string]any, 0, len(l))
	for _, x := range l {
		if xm, ok := x.(map[string]any); ok {
			out = append(out, xm)
		}
	}
	return out
}

// Field returns the top-level value name (e.g. a top-level aggregate).
func (r Result) Field(name string) (any, bool) {
	m, _ := r.Data.(map[string]any)
	if m == nil {
		return nil, false
	}
	v, ok := m[name]
	return v, ok
}

type rawResult struct {
	data  any
	errs  []string
	panic string
}

// Do executes one request.
func (e *Exec) Do(req string, opts ...client.RequestOption) Result {
	if e.Hung {
		return Result{Hang: true}
	}
	timeout := e.watchdog()
	start := time.Now()
	ch := make(chan rawResult, 1)
	var gid atomic.Int64
	go func() {
		gid.Store(curGoroutineID())
		var out rawResult
		defer func() {
			if p := recover(); p != nil {
				buf := make([]byte, 16<<10)
				buf = buf[:runtime.Stack(buf, false)]
				out.panic = fmt.Sprintf("%v\n%s", p, buf)
			}
			ch <- out
		}()
		all := append(append([]client.RequestOption{}, e.Opts...), opts...)
		res := e.N.DB.ExecRequest(e.Ctx, req, all...)
		for _, er := range res.GQL.Errors {
			out.errs = append(out.errs, er.Error())
		}
		if res.Subscription != nil {
			// a (mutated) request may be a subscription: never leave it un-drained
			go func() {
				for range res.Subscription {
				}
			}()
		}
		b, err := json.Marshal(res.GQL.Data)
		if err != nil {
			out.errs = append(out.errs, "marshal: "+err.Error())
			return
		}
		dec := json.NewDecoder(strings.NewReader(string(b)))
		dec.UseNumber()
		if err := dec.Decode(&out.data); err != nil {
			out.errs = append(out.errs, "decode: "+err.Error())
		}
	}()
	var raw rawResult
	switch verdict, why := waitResult(ch, timeout, &raw, e.R, &gid); verdict {
	case waitHang:
		e.Hung = true
		buf := make([]byte, 1<<20)
		buf = buf[:runtime.Stack(buf, true)]
		e.R.Count("requests", 1)
		e.R.Count("requests_hung", 1)
		e.R.Violate("hang/"+e.Kind, fmt.Sprintf("request did not return within %s (per-operation watchdog): %s", timeout, why),
			map[string]any{"request": req, "store": e.N.Opts.Store, "evidence": why, "goroutines": trimDump(string(buf))})
		return Result{Hang: true}
	case waitStalled:
		e.Hung = true
		return Result{Hang: true}
	}
	e.observe(time.Since(start))
	e.R.Count("requests", 1)
	if raw.panic != "" {
		e.R.Count("requests_panicked", 1)
		sig, msg := "panic/"+PanicSig(raw.panic), "request made the database panic: "+FirstLine(raw.panic)
		if e.PanicClass != nil {
			if s, m := e.PanicClass(req, raw.panic); s != "" {
				sig, msg = s, m+": "+FirstLine(raw.panic)
			}
		}
		e.R.Violate(sig, msg, map[string]any{"request": req, "stack": raw.panic, "store": e.N.Opts.Store})
		return Result{Panic: raw.panic}
	}
	if len(raw.errs) > 0 {
		e.R.Count("requests_answered_error", 1)
	} else {
		e.R.Count("requests_answered_data", 1)
	}
	return Result{Data: raw.data, Errs: raw.errs}
}

// Verdicts of waitResult.
const (
	waitOK      = iota
	waitHang    // the operation is deadlocked or spinning
	waitStalled // the operation did not return but there is no evidence that it hangs (starved machine): not judged
)

// waitResult waits for the operation's result. Wall-clock time alone is not accepted as evidence of
// a hang: on an overloaded or thrashing machine a request that needs milliseconds of CPU can be
// stalled for minutes (observed: load average 350 on 16 cores, no free memory). After the watchdog
// period the operation's goroutine is therefore examined every 15 s, and a hang is reported only if
//   - the goroutine is BLOCKED (lock / channel / condition wait) with an identical stack at two
//     successive examinations (deadlock), or
//   - the process has burned >= 20 s of CPU time since the operation started (spinning; operations
//     need milliseconds).
//
// If neither becomes true within 5 more minutes the operation is abandoned as "stalled" and the case
// is not judged (a note is recorded).
func waitResult[T any](ch chan T, timeout time.Duration, out *T, r *core.Rec, gid *atomic.Int64) (int, string) {
	cpu0 := processCPU()
	t := time.NewTimer(timeout)
	defer t.Stop()
	select {
	case v := <-ch:
		*out = v
		return waitOK, ""
	case <-t.C:
	}
	for round := 0; round < 20; round++ {
		st1, frames1 := goroutineState(gid.Load())
		g := time.NewTimer(15 * time.Second)
		select {
		case v := <-ch:
			g.Stop()
			*out = v
			r.Note("operation_returned_late_after_the_watchdog_period")
			return waitOK, ""
		case <-g.C:
		}
		st2, frames2 := goroutineState(gid.Load())
		if isBlocked(st1) && isBlocked(st2) && frames1 == frames2 && frames1 != "" {
			return waitHang, "goroutine blocked [" + st2 + "] with an unchanged stack"
		}
		if used := processCPU() - cpu0; used >= 20*time.Second {
			return waitHang, fmt.Sprintf("operation still running after %s of process CPU time", used.Round(time.Second))
		}
	}
	r.Note("operation_stalled_without_lock_wait_or_cpu_use__case_not_judged")
	return waitStalled, ""
}

func processCPU() time.Duration {
	var ru syscall.Rusage
	if err := syscall.Getrusage(syscall.RUSAGE_SELF, &ru); err != nil {
		return 0
	}
	return time.Duration(ru.Utime.Nano() + ru.Stime.Nano())
}

func curGoroutineID() int64 {
	buf := make([]byte, 64)
	buf = buf[:runtime.Stack(buf, false)]
	var id int64
	_, _ = fmt.Sscanf(string(buf), "goroutine %d ", &id)
	return id
}

// goroutineState returns the scheduler state and the function names of the stack of goroutine id.
func goroutineState(id int64) (state, frames string) {
	if id == 0 {
		return "", ""
	}
	buf := make([]byte, 4<<20)
	buf = buf[:runtime.Stack(buf, true)]
	head := fmt.Sprintf("goroutine %d [", id)
	for _, g := range strings.Split(string(buf), "\n\n") {
		if !strings.HasPrefix(g, head) {
			continue
		}
		lines := strings.Split(g, "\n")
		state = strings.TrimPrefix(lines[0], head)
		if k := strings.IndexAny(state, ",]"); k >= 0 {
			state = state[:k]
		}
		var fs []string
		for _, l := range lines[1:] {
			if !strings.HasPrefix(l, "\t") {
				if k := strings.LastIndex(l, "("); k > 0 {
					l = l[:k]
				}
				fs = append(fs, l)
			}
		}
		return state, strings.Join(fs, ";")
	}
	return "gone", ""
}

func isBlocked(state string) bool {
	switch state {
	case "", "gone", "running", "runnable", "syscall", "sleep":
		return false
	}
	return !strings.HasPrefix(state, "GC")
}

// Guard runs fn (a write through the collection API) under recover and the watchdog.
// It returns fn's error, or a non-empty panic text / hang flag.
func (e *Exec) Guard(what string, fn func() error) (err error, panicked string, hung bool) {
	if e.Hung {
		return nil, "", true
	}
	timeout := e.watchdog()
	type out struct {
		err   error
		panic string
	}
	ch := make(chan out, 1)
	var gid atomic.Int64
	go func() {
		gid.Store(curGoroutineID())
		var o out
		defer func() {
			if p := recover(); p != nil {
				buf := make([]byte, 16<<10)
				buf = buf[:runtime.Stack(buf, false)]
				o.panic = fmt.Sprintf("%v\n%s", p, buf)
			}
			ch <- o
		}()
		o.err = fn()
	}()
	var o out
	verdict, why := waitResult(ch, timeout, &o, e.R, &gid)
	if verdict == waitOK {
		return o.err, o.panic, false
	}
	e.Hung = true
	if verdict == waitHang {
		buf := make([]byte, 1<<20)
		buf = buf[:runtime.Stack(buf, true)]
		e.R.Violate("hang/"+e.Kind, fmt.Sprintf("%s did not return within %s (per-operation watchdog): %s", what, timeout, why),
			map[string]any{"operation": what, "store": e.N.Opts.Store, "evidence": why, "goroutines": trimDump(string(buf))})
	}
	return nil, "", true
}

func FirstLine(s string) string {
	if i := strings.IndexByte(s, '\n'); i >= 0 {
		return s[:i]
	}
	return s
}

// PanicSig builds a stable signature from a panic stack: the first defradb frame (function name).
func PanicSig(stack string) string {
	for _, l := range strings.Split(stack, "\n") {
		l = strings.TrimSpace(l)
		if strings.HasPrefix(l, "github.com/sourcenetwork/defradb/") && !strings.Contains(l, "verifharness") {
			if i := strings.LastIndex(l, "("); i > 0 {
				l = l[:i]
			}
			return strings.TrimPrefix(l, "github.com/sourcenetwork/defradb/")
		}
	}
	return "unknown-frame"
}

func trimDump(s string) string {
	gs := strings.Split(s, "\n\n")
	var rel, other []string
	for _, g := range gs {
		if strings.Contains(g, "sourcenetwork/") && !strings.Contains(g, "handleMessages") && !strings.Contains(g, "core.RunWorker") {
			rel = append(rel, g)
		} else {
			other = append(other, g)
		}
	}
	s = strings.Join(append(rel, other...), "\n\n")
	if len(s) > 40000 {
		return s[:40000] + "\n...[truncated]"
	}
	return s
}
