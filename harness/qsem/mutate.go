package qsem

import (
	"fmt"
	"math/rand/v2"
	"strings"
	"unicode"
)

// Tokenize splits a GraphQL request into lexical tokens (names, numbers, strings, punctuators,
// `...`, `$name`, `@name`). Whitespace and commas separate tokens and are dropped.
func Tokenize(req string) []string {
	var toks []string
	rs := []rune(req)
	for i := 0; i < len(rs); {
		r := rs[i]
		switch {
		case unicode.IsSpace(r) || r == ',':
			i++
		case r == '"':
			j := i + 1
			for j < len(rs) && rs[j] != '"' {
				if rs[j] == '\\' {
					j++
				}
				j++
			}
			if j >= len(rs) {
				j = len(rs) - 1
			}
			toks = append(toks, string(rs[i:j+1]))
			i = j + 1
		case r == '.' && i+2 < len(rs) && rs[i+1] == '.' && rs[i+2] == '.':
			toks = append(toks, "...")
			i += 3
		case r == '_' || r == '$' || r == '@' || r == '-' || unicode.IsLetter(r) || unicode.IsDigit(r):
			j := i + 1
			for j < len(rs) && (rs[j] == '_' || rs[j] == '.' || unicode.IsLetter(rs[j]) || unicode.IsDigit(rs[j])) {
				if rs[j] == '.' && j+1 < len(rs) && rs[j+1] == '.' {
					break
				}
				j++
			}
			toks = append(toks, string(rs[i:j]))
			i = j
		default:
			toks = append(toks, string(r))
			i++
		}
	}
	return toks
}

// Pool of replacement / insertion tokens.
var tokenPool = []string{
	"{", "}", "(", ")", "[", "]", ":", "!", "=", "|", "&", "...", "$", "@", "#",
	"null", "true", "false", "0", "-1", "1", "2", "-0", "1.5", "1e3", "1e400", "-1e400", "0x10", "007",
	"9223372036854775807", "9223372036854775808", "-9223372036854775809", "99999999999999999999", "2147483648", "-2147483649",
	`""`, `"a"`, `"%"`, `"\u0000"`, `"\uD800"`, `"bae-00000000-0000-0000-0000-000000000000"`, `"2020-01-01T00:00:00Z"`, `"not a date"`, `"`,
	"U", "G", "k", "i", "d", "s", "f", "b", "t", "a", "j", "g", "g_id", "us", "name", "w", "x", "nosuchfield",
	"_docID", "_version", "_deleted", "_group", "_count", "_sum", "_avg", "_min", "_max", "_similarity", "__typename", "__schema", "__type",
	"filter", "order", "limit", "offset", "groupBy", "docID", "docIDs", "cid", "showDeleted", "field", "fieldName", "depth", "input", "encrypt",
	"_eq", "_ne", "_gt", "_ge", "_lt", "_le", "_in", "_nin", "_like", "_nlike", "_ilike", "_nilike", "_and", "_or", "_not", "_any", "_all", "_none", "_alias",
	"ASC", "DESC", "commits", "latestCommits", "height", "delta", "links", "signature", "identity", "value", "type", "schemaVersionId", "collectionID",
	"query", "fragment", "on", "subscription", "$v", "$w", "Int", "String", "[Int!]", "UFilterArg", "@skip", "@include", "if", "@explain", "@deprecated", "execute", "simple", "debug", "predict",
}

// Mutate applies n token-level mutations to a request.
func Mutate(rng *rand.Rand, req string, n int) (string, []string) {
	toks := Tokenize(req)
	var ops []string
	for m := 0; m < n; m++ {
		if len(toks) == 0 {
			toks = append(toks, tokenPool[rng.IntN(len(tokenPool))])
			continue
		}
		i := rng.IntN(len(toks))
		switch op := rng.IntN(9); op {
		case 0: // delete
			ops = append(ops, "delete")
			toks = append(toks[:i:i], toks[i+1:]...)
		case 1: // duplicate
			ops = append(ops, "duplicate")
			toks = append(toks[:i+1:i+1], toks[i:]...)
		case 2: // replace with a pool token
			ops = append(ops, "replace")
			toks[i] = tokenPool[rng.IntN(len(tokenPool))]
		case 3: // insert a pool token
			ops = append(ops, "insert")
			t := tokenPool[rng.IntN(len(tokenPool))]
			toks = append(toks[:i:i], append([]string{t}, toks[i:]...)...)
		case 4: // swap two tokens
			ops = append(ops, "swap")
			j := rng.IntN(len(toks))
			toks[i], toks[j] = toks[j], toks[i]
		case 5: // truncate (unbalanced braces)
			ops = append(ops, "truncate")
			toks = toks[:i]
		case 6: // drop every closing token of one kind / add stray opening tokens
			ops = append(ops, "unbalance")
			c := []string{"}", ")", "]", "{", "(", "["}[rng.IntN(6)]
			if rng.IntN(2) == 0 {
				var nt []string
				for _, t := range toks {
					if t != c {
						nt = append(nt, t)
					}
				}
				toks = nt
			} else {
				toks = append(toks[:i:i], append([]string{c, c, c}, toks[i:]...)...)
			}
		case 7: // wrong argument type: replace a literal by a literal of another type
			ops = append(ops, "retype")
			for j := 0; j < len(toks); j++ {
				p := (i + j) % len(toks)
				t := toks[p]
				if t == "" {
					continue
				}
				if t[0] == '"' || unicode.IsDigit(rune(t[0])) || t[0] == '-' || t == "true" || t == "false" || t == "null" || t == "ASC" || t == "DESC" {
					toks[p] = []string{`"str"`, "1", "1.5", "true", "null", "[1]", "{x: 1}", "[]", "{}", "ASC", "$v", `[[1]]`, "-99999999999999999999"}[rng.IntN(13)]
					break
				}
			}
		default: // duplicate a whole bracketed span
			ops = append(ops, "dupspan")
			j := i + 1 + rng.IntN(6)
			if j > len(toks) {
				j = len(toks)
			}
			span := append([]string{}, toks[i:j]...)
			toks = append(toks[:j:j], append(span, toks[j:]...)...)
		}
	}
	return strings.Join(toks, " "), ops
}

// FragmentCycles: requests whose fragments reference themselves (kept apart from Pathological: on a
// tree where validation recurses without bound they kill the process, not just the request).
var FragmentCycles = []string{
	"query { U { ...F } } fragment F on U { ...F }",
	"query { U { ...F } } fragment F on U { k ...H } fragment H on U { i ...F }",
	"query { G { us { ...F } } } fragment F on U { g { us { ...F } } }",
}

// Pathological builds pathological but finite requests: deep nesting, huge / negative limits, overflow ints.
func Pathological(gid string) []string {
	nest := func(open, close string, n int, core string) string {
		return strings.Repeat(open, n) + core + strings.Repeat(close, n)
	}
	reqs := []string{
		"", " ", "{", "}", "query", "query {", "query { }", "{ U }", "{ U { } }", "query { U { k } ", "query { U { k } } }", "\x00", "query { U { k\x00 } }",
		"query { U { ‮ k } }", "query { U(filter: {s: {_eq: \"\xff\xfe\"}}) { k } }", "# only a comment", "query { U { k } } # trailing",
		"query { U(limit: 9223372036854775807) { k } }", "query { U(limit: 2147483647, offset: 2147483647) { k } }", "query { U(limit: -1) { k } }",
		"query { U(offset: -5) { k } }", "query { U(limit: 0, offset: 0) { k } }", "query { U(limit: 1e3) { k } }", "query { U(limit: 99999999999999999999) { k } }",
		"query { U(offset: 9223372036854775807, limit: 9223372036854775807) { k } }",
		"query { U(filter: {i: {_eq: 9223372036854775808}}) { k } }", "query { U(filter: {i: {_gt: -9223372036854775808}}) { k } }",
		"query { U(filter: {f: {_lt: 1e400}}) { k } }", "query { U(filter: {f: {_eq: -0.0}}) { k } }", "query { U(filter: {f: {_in: [1e308, -1e308, 5e-324]}}) { k } }",
		"query { U(filter: {i: {_in: []}}) { k } }", "query { U(filter: {i: {_nin: []}}) { k } }", "query { U(filter: {_and: []}) { k } }", "query { U(filter: {_or: []}) { k } }",
		"query { U(filter: {_not: {}}) { k } }", "query { U(filter: {_and: null}) { k } }", "query { U(filter: {_or: null}) { k } }", "query { U(filter: {_not: null}) { k } }", "query { U(filter: null) { k } }",
		"query { U(order: null) { k } }", "query { U(order: []) { k } }", "query { U(order: {}) { k } }", "query { U(order: [{}, {}]) { k } }", "query { U(order: {i: null}) { k } }",
		"query { U(order: {i: ASC, s: DESC}) { k } }", "query { U(order: [{i: ASC}, {i: DESC}]) { k } }", "query { U(order: {g: {}}) { k } }", "query { U(order: {g: {us: {i: ASC}}}) { k } }",
		"query { U(order: {a: ASC}) { k } }", "query { U(order: {j: DESC}) { k } }", "query { U(order: {_docID: DESC}) { k } }", "query { U(order: {g_id: ASC}) { k } }",
		"query { U(groupBy: []) { _count(_group: {}) } }", "query { U(groupBy: [i, i]) { i } }", "query { U(groupBy: [g]) { g { name } } }", "query { U(groupBy: [a]) { a } }", "query { U(groupBy: [j]) { j _count(_group: {}) } }",
		"query { U(groupBy: [i]) { k } }", "query { U(groupBy: [i]) { i _group { _group { k } } } }", "query { U(groupBy: [i]) { i _group(groupBy: [s]) { s _group { k } } } }",
		"query { U { _group { k } } }", "query { U { _count(_group: {}) } }", "query { _count }", "query { _sum(U: {}) }", "query { _sum(U: {field: s}) }", "query { _avg(U: {field: a}) }", "query { _max(U: {field: t}) }",
		"query { _count(U: {limit: 0}) }", "query { _count(U: {limit: -1, offset: -1}) }", "query { _sum(U: {field: a}) _sum(G: {field: w}) }", "query { U { _sum(a: {}) _avg(a: {limit: 1}) _min(a: {offset: 9}) _count(a: {filter: {_gt: 0}}) } }",
		"query { G { _sum(us: {field: _count}) } }", "query { G { _sum(us: {field: a}) } }", "query { G { _avg(us: {field: i, order: {s: ASC}, limit: 1}) } }",
		"query { a: U { k } a: U { i } }", "query { a: U { k } a: G { name } }", "query { U { x: k x: i } }", "query { U { k: i } }", "query { U { _docID: k } }",
		"query { U { ...F } } fragment F on U { k }", "query { U { ...F } }",
		"query { U { ... on U { k } } }", "query { U { ... on G { name } } }", "query { U { ... { k } } }", "fragment F on U { k }", "query A { U { k } } query B { G { name } }", "query A { U { k } } query A { U { i } }",
		"query ($v: Int) { U(limit: $v) { k } }", "query ($v: Int!) { U(limit: $v) { k } }", "query ($v: Int = 1) { U(limit: $v) { k } }", "query ($v: [Int!] = [1]) { U(filter: {i: {_in: $v}}) { k } }",
		"query ($v: UFilterArg) { U(filter: $v) { k } }", "query ($v: Nope) { U(filter: $v) { k } }", "query ($v: Int, $v: Int) { U(limit: $v) { k } }", "query { U(limit: $undefined) { k } }",
		"query { U { k @skip(if: true) } }", "query { U { k @include(if: false) i } }", "query { U @skip(if: true) { k } }", "query { U { k @skip(if: 1) } }", "query { U { k @nosuch } }", "query @nosuch { U { k } }",
		"query @explain { U { k } }", "query @explain(type: execute) { U(order: {i: ASC}, limit: 1) { k } }", "query @explain(type: debug) { U { k } }", "query @explain(type: predict) { U { k } }", "query @explain(type: nosuch) { U { k } }",
		"query @explain { _count(U: {}) }", "query @explain(type: execute) { G { _sum(us: {field: i}) } }", "query @explain { commits { cid } }", "query @explain(type: execute) { latestCommits(docID: \"" + gid + "\") { cid } }",
		"query { __typename }", "query { U { __typename g { __typename } } }", "query { __type(name: \"U\") { name fields { name type { name kind ofType { name } } } } }", "query { __schema { queryType { name } types { name } } }",
		"query { __type(name: \"UFilterArg\") { inputFields { name } } }", "query { __type(name: 1) { name } }",
		"query { commits(depth: -1) { cid } }", "query { commits(depth: 0) { cid } }", "query { commits(depth: 9223372036854775807) { cid } }", "query { commits(limit: -1, offset: -1) { cid } }", "query { commits(cid: \"\") { cid } }",
		"query { commits(cid: \"bafybeigdyrzt5sfp7udm7hu76uh7y26nf3efuylqabf3oclgtqy55fbzdi\") { cid } }", "query { commits(cid: \"not-a-cid\") { cid } }", "query { commits(docID: \"\") { cid } }", "query { commits(docID: \"not-a-docid\") { cid } }",
		"query { commits(docID: \"" + gid + "\", fieldName: \"nosuch\") { cid } }", "query { commits(fieldName: \"_C\") { cid links { cid name } } }", "query { commits(fieldName: \"\") { cid } }", "query { commits(order: {height: ASC, cid: DESC}) { cid } }",
		"query { commits(groupBy: [height, cid, docID, fieldName]) { height _group { cid } } }", "query { commits(groupBy: [height]) { height _count(_group: {}) } }", "query { commits { _count(field: links) } }", "query { commits { _count } }",
		"query { latestCommits { cid } }", "query { latestCommits(docID: null) { cid } }", "query { latestCommits(docID: \"\") { cid } }", "query { latestCommits(docID: \"bae-00000000-0000-0000-0000-000000000000\") { cid links { cid } } }",
		"query { latestCommits(docID: \"" + gid + "\", fieldName: \"name\") { cid height delta fieldName docID schemaVersionId signature { type } } }",
		"query { U(cid: \"bafybeigdyrzt5sfp7udm7hu76uh7y26nf3efuylqabf3oclgtqy55fbzdi\") { k } }", "query { U(cid: \"x\", docID: \"y\") { k } }", "query { U(docID: \"" + gid + "\") { k } }", "query { U(docID: \"\") { k } }", "query { U(docID: [\"a\"]) { k } }",
		"query { G(docID: \"" + gid + "\") { name us(limit: 1, offset: 1, order: {k: DESC}) { k g { us { k } } } } }", "query { G(docIDs: []) { name } }", "query { G(docIDs: [\"" + gid + "\", \"" + gid + "\"]) { name } }", "query { U(showDeleted: true) { k _deleted } }",
		"query { U { _version { cid height docID fieldName delta schemaVersionId links { cid name } signature { type identity value } _count(field: links) } } }",
		"query { U { _version(limit: 1) { cid } } }", "query { U { g_id _version { cid } } }", "query { U { _version { cid } g { name } } }", "query { U { g { name } _version { cid } } }", "query { G { us { k } _version { cid } } }", "query { U { _similarity(a: {vector: [1, 2]}) } }", "query { U { _similarity(a: {vector: []}) } }",
		"query { G { us(filter: {g: {us: {g: {name: {_eq: \"g0\"}}}}}) { k } } }", "query { G(filter: {us: {g: {us: {k: {_eq: 0}}}}}) { name } }", "query { G(filter: {_not: {us: {_not: {i: {_eq: 1}}}}}) { name } }",
		"query { G(filter: {us: {_and: [{i: {_eq: 1}}, {s: {_eq: \"a\"}}]}}) { name } }", "query { G(filter: {us: {}}) { name } }", "query { G(filter: {us: null}) { name } }", "query { U(filter: {g: null}) { k } }", "query { U(filter: {g: {}}) { k } }",
		"query { U(filter: {_alias: {x: {_eq: 1}}}) { x: i } }", "query { U(filter: {_alias: {x: {k: 1}}}) { x: i } }", "query { U(filter: {_alias: {x: {a: true}}}) { x: i } }", "query { G { name us(filter: {_alias: {x: {k: 1}}}) { x: i } } }", "query { U(filter: {_alias: {x: {k: {_eq: 1}}}}) { x: j } }", "query { U(filter: {_alias: {nosuch: {_eq: 1}}}) { k } }", "query { U(filter: {_alias: null}) { k } }", "query { U(filter: {_alias: {c: {_gt: 0}}}) { c: _count(a: {}) } }",
		"subscription { U { k } }", "subscription { U(filter: {i: {_eq: 1}}) { k } }", "subscription { commits { cid } }",
		"mutation { create_U(input: {k: 1e400}) { k } }", "mutation { update_U(filter: {k: {_eq: -99}}, input: {i: 1}) { k } }", "mutation { delete_U(filter: {k: {_eq: -99}}) { k } }", "mutation { delete_U(docID: \"not-a-docid\") { k } }",
		"mutation { create_U(input: []) { k } }", "mutation { create_U(input: [{}, {}]) { k } }", "mutation { create_U(input: {g_id: \"not-a-docid\"}) { k } }", "mutation { update_U(docID: \"" + gid + "\", input: {k: 1}) { k } }", "mutation { upsert_U(filter: {k: {_eq: -98}}, add: {k: -98}, update: {i: 1}) { k } }",
		"mutation { create_U(input: {a: [1, null]}) { k } }", "mutation { create_U(input: {j: {a: {b: {c: [1, {d: null}]}}}}) { k } }", "mutation { create_U(input: {t: \"not a date\"}) { k } }", "mutation { create_U(input: {k: 9223372036854775808}) { k } }",
	}
	for _, n := range []int{8, 64} {
		reqs = append(reqs,
			"query { U(filter: "+nest("{_not: ", "}", n, "{i: {_eq: 1}}")+") { k } }",
			"query { U(filter: "+nest("{_and: [", "]}", n, "{i: {_eq: 1}}")+") { k } }",
			"query { U(filter: "+nest("{_or: [{s: {_eq: \"zz\"}}, ", "]}", n, "{i: {_eq: 1}}")+") { k } }",
			"query { U(filter: {a: "+nest("{_any: ", "}", n, "{_eq: 1}")+"}) { k } }",
			"query { U(filter: {j: "+nest("{x: ", "}", n, "{_eq: 1}")+"}) { k } }",
			"query { U(filter: {i: {_in: "+nest("[", "]", n, "1")+"}}) { k } }",
			"query { U { k "+strings.Repeat("k i s ", n)+"} }",
			"query { "+nest("U { k ...on U { ", "} } ", n, "k")+"}",
			fmt.Sprintf("query { %s }", func() string {
				var sb strings.Builder
				for i := 0; i < n; i++ {
					fmt.Fprintf(&sb, "a%d: U(limit: 1) { k } ", i)
				}
				return sb.String()
			}()),
			fmt.Sprintf("query { U(order: [%s]) { k } }", strings.TrimSuffix(strings.Repeat("{i: ASC}, {s: DESC}, ", n), ", ")),
			fmt.Sprintf("query { U(groupBy: [%s]) { i } }", strings.TrimSuffix(strings.Repeat("i, s, ", n), ", ")),
		)
	}
	// relation nesting is kept shallow: g{us{g{us…}}} legitimately grows exponentially with depth
	reqs = append(reqs,
		"query { "+nest("U(limit: 2) { k g { us(limit: 2) { k g { us: ", "} } } } ", 1, "us(limit: 1) { k }")+"}",
		"query { G { us { g { us { g { us { g { name } } } } } } } }",
		"query { U(filter: {g: {us: {g: {us: {g: {us: {g: {name: {_eq: \"g0\"}}}}}}}}}) { k } }",
		"query { U(order: {g: {name: ASC}}, groupBy: [g]) { g { name _count(us: {}) } _sum(_group: {field: i}) } }",
		fmt.Sprintf("query { U(filter: {s: {_eq: \"%s\"}}) { k } }", strings.Repeat("a", 100000)),
		fmt.Sprintf("query { %s: U { k } }", strings.Repeat("a", 10000)),
		fmt.Sprintf("query { U(filter: {i: {_in: [%s]}}) { k } }", strings.TrimSuffix(strings.Repeat("1, ", 5000), ", ")),
	)
	return reqs
}
