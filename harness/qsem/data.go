package qsem

import (
	"context"
	"encoding/json"
	"fmt"
	"math/rand/v2"
	"sort"
	"strings"
	"time"

	"github.com/sourcenetwork/defradb/client"
	"github.com/sourcenetwork/defradb/verifharness/core"
)

// SDL of the C08 data sets: one multi-kind collection U (k is unique per document and makes an
// order total) related many-to-one to G. No secondary indexes (index agreement is C07's twin).
const SDL = `type U { k: Int  i: Int  d: Int  s: String  f: Float  b: Boolean  t: DateTime  a: [Int]  j: JSON  g: G }
type G { name: String  w: Int  us: [U] }`

// FieldDef describes a scalar field of U with its small value domain (null is always possible).
type FieldDef struct {
	Name   string
	Kind   Kind
	Domain []any
}

var UFields = []FieldDef{
	{"i", KInt, []any{int64(-2), int64(-1), int64(0), int64(1), int64(2), int64(3)}},
	{"d", KInt, []any{int64(0), int64(1), int64(2)}},
	{"s", KString, []any{"", "a", "ab", "b", "B"}},
	{"f", KFloat, []any{-1.5, 0.0, 0.5, 2.0}},
	{"b", KBool, []any{true, false}},
	{"t", KTime, []any{"2020-01-01T00:00:00Z", "2021-06-15T12:30:00Z", "2021-06-15T12:30:00.5Z"}},
}

func UField(name string) FieldDef {
	if name == "k" {
		return FieldDef{"k", KInt, nil}
	}
	for _, f := range UFields {
		if f.Name == name {
			return f
		}
	}
	panic("no field " + name)
}

// Doc is one generated U document: scalar values as int64 / float64 / string / bool / nil,
// "a" as []any or nil, "j" any JSON value, "g" = index into Dataset.G or -1.
type Doc map[string]any

type Dataset struct {
	G []Doc `json:"g"`
	U []Doc `json:"u"`
}

var arrayDomain = []any{nil, []any{}, []any{int64(1)}, []any{int64(1), int64(2)}, []any{int64(0), int64(3)}}
var jsonDomain = []any{nil, int64(1), int64(2), "x", true, map[string]any{"x": int64(1)}, []any{int64(1)}}

// GenData: n documents over the small domains; null with probability ~1/4 per field.
// jsonMixed=false keeps the JSON field to numbers (ordering a JSON field that holds values of
// different types is a separate known defect which must not take every data set down).
func GenData(rng *rand.Rand, nU, nG int, jsonMixed bool) Dataset {
	var ds Dataset
	for g := 0; g < nG; g++ {
		ds.G = append(ds.G, Doc{"name": fmt.Sprintf("g%d", g), "w": int64(rng.IntN(2))})
	}
	for k := 0; k < nU; k++ {
		d := Doc{"k": int64(k)}
		for _, f := range UFields {
			if rng.IntN(4) == 0 {
				d[f.Name] = nil
			} else {
				d[f.Name] = f.Domain[rng.IntN(len(f.Domain))]
			}
		}
		d["a"] = arrayDomain[rng.IntN(len(arrayDomain))]
		if jsonMixed {
			d["j"] = jsonDomain[rng.IntN(len(jsonDomain))]
		} else {
			d["j"] = []any{nil, int64(1), int64(2), int64(1)}[rng.IntN(4)]
		}
		d["g"] = -1
		if nG > 0 && rng.IntN(4) > 0 {
			d["g"] = rng.IntN(nG)
		}
		ds.U = append(ds.U, d)
	}
	return ds
}

// gIndex reads the "g" entry (int after generation, float64 after a JSON round trip).
func gIndex(d Doc) int {
	switch x := d["g"].(type) {
	case int:
		return x
	case float64:
		return int(x)
	case int64:
		return int(x)
	}
	return -1
}

// Normalize restores generator types after a JSON round trip of the case parameters.
func (ds *Dataset) Normalize() {
	for _, d := range ds.U {
		for _, f := range append([]FieldDef{{Name: "k", Kind: KInt}}, UFields...) {
			if v, ok := d[f.Name].(float64); ok && f.Kind == KInt {
				d[f.Name] = int64(v)
			}
		}
		d["g"] = gIndex(d)
	}
	for _, g := range ds.G {
		if v, ok := g["w"].(float64); ok {
			g["w"] = int64(v)
		}
	}
}

// Load creates the documents through the collection API; it returns the docIDs of G.
func Load(ctx context.Context, n *core.Node, ds Dataset) ([]string, error) {
	gcol := n.Col(ctx, "G")
	ucol := n.Col(ctx, "U")
	var gids []string
	for _, g := range ds.G {
		doc, err := client.NewDocFromMap(map[string]any(g), gcol.Definition())
		if err != nil {
			return nil, err
		}
		if err := gcol.Create(ctx, doc); err != nil {
			return nil, err
		}
		gids = append(gids, doc.ID().String())
	}
	for _, u := range ds.U {
		m := map[string]any{}
		for k, v := range u {
			if k == "g" {
				if gi := gIndex(u); gi >= 0 {
					m["g_id"] = gids[gi]
				}
				continue
			}
			m[k] = v
		}
		doc, err := client.NewDocFromMap(m, ucol.Definition())
		if err != nil {
			return nil, fmt.Errorf("%v: %w", m, err)
		}
		if err := ucol.Create(ctx, doc); err != nil {
			return nil, err
		}
	}
	return gids, nil
}

// Signature of a data set for the distinct-case key: size + null count + tie structure on i.
func (ds Dataset) Signature() string {
	nulls := 0
	iv := map[string]int{}
	for _, d := range ds.U {
		for _, f := range UFields {
			if d[f.Name] == nil {
				nulls++
			}
		}
		iv[fmt.Sprint(d["i"])]++
	}
	var ties []int
	for _, c := range iv {
		ties = append(ties, c)
	}
	sort.Ints(ties)
	return fmt.Sprintf("n%d/g%d/nulls%d/ties%v", len(ds.U), len(ds.G), nulls, ties)
}

// ---------------------------------------------------------------------------------------
// filters

// Tri is a Kleene truth value: the reference evaluator says Unknown wherever the documentation
// does not fix the answer (comparisons that involve null), and the oracle then skips that row.
type Tri int

const (
	False Tri = iota
	True
	Unknown
)

func triNot(a Tri) Tri {
	switch a {
	case True:
		return False
	case False:
		return True
	}
	return Unknown
}

// F is a filter expression.
type F struct {
	Op    string `json:"op"`              // leaf | and | or | not | implicit-and | raw
	Field string `json:"field,omitempty"` // leaf
	Cmp   string `json:"cmp,omitempty"`   // leaf operator
	Val   any    `json:"val,omitempty"`   // leaf operand (scalar, nil, or []any for _in/_nin)
	Sub   []*F   `json:"sub,omitempty"`
	Raw   string `json:"raw,omitempty"` // raw: GraphQL text of a leaf outside the reference core
}

func lit(v any) string {
	switch x := v.(type) {
	case nil:
		return "null"
	case string:
		b, _ := json.Marshal(x)
		return string(b)
	case float64:
		s := fmt.Sprintf("%g", x)
		if !strings.ContainsAny(s, ".e") {
			s += ".0"
		}
		return s
	case []any:
		var ps []string
		for _, e := range x {
			ps = append(ps, lit(e))
		}
		return "[" + strings.Join(ps, ", ") + "]"
	}
	return fmt.Sprint(v)
}

func (f *F) GQL() string {
	switch f.Op {
	case "leaf":
		return fmt.Sprintf("{%s: {%s: %s}}", f.Field, f.Cmp, lit(f.Val))
	case "raw":
		return f.Raw
	case "not":
		return "{_not: " + f.Sub[0].GQL() + "}"
	case "and", "or":
		var ps []string
		for _, s := range f.Sub {
			ps = append(ps, s.GQL())
		}
		return "{_" + f.Op + ": [" + strings.Join(ps, ", ") + "]}"
	case "implicit-and":
		// two leaves on different fields inside one object: documented as a conjunction
		var ps []string
		for _, s := range f.Sub {
			g := s.GQL()
			ps = append(ps, g[1:len(g)-1])
		}
		return "{" + strings.Join(ps, ", ") + "}"
	}
	panic("bad filter op " + f.Op)
}

// Skeleton: operators and shape without operands.
func (f *F) Skeleton() string {
	switch f.Op {
	case "leaf":
		nul := ""
		if f.Val == nil {
			nul = "null"
		}
		return f.Field + f.Cmp + nul
	case "raw":
		return "raw:" + strings.Map(func(r rune) rune {
			if r >= '0' && r <= '9' {
				return -1
			}
			return r
		}, f.Raw)
	}
	var ps []string
	for _, s := range f.Sub {
		ps = append(ps, s.Skeleton())
	}
	return f.Op + "(" + strings.Join(ps, ",") + ")"
}

// Ops lists the leaf operators used (for signatures).
func (f *F) Ops(into map[string]bool) {
	if f.Op == "leaf" {
		into[f.Cmp] = true
	}
	for _, s := range f.Sub {
		s.Ops(into)
	}
}

func (f *F) HasRaw() bool {
	if f.Op == "raw" {
		return true
	}
	for _, s := range f.Sub {
		if s.HasRaw() {
			return true
		}
	}
	return false
}

func normVal(k Kind, v any) any {
	if k == KInt {
		if x, ok := v.(float64); ok {
			return int64(x)
		}
	}
	return v
}

func eqScalar(k Kind, a, b any) bool {
	c, ok := Cmp(k, a, b)
	return ok && c == 0
}

// Eval is the reference evaluator for the documented core.
func (f *F) Eval(d Doc) Tri {
	switch f.Op {
	case "leaf":
		fd := UField(f.Field)
		data := d[f.Field]
		switch f.Cmp {
		case "_eq", "_ne":
			var r Tri
			switch {
			case f.Val == nil:
				r = False
				if data == nil {
					r = True
				}
			case data == nil:
				return Unknown // comparison of null with a value: not fixed by the documentation
			default:
				r = False
				if eqScalar(fd.Kind, data, normVal(fd.Kind, f.Val)) {
					r = True
				}
			}
			if f.Cmp == "_ne" {
				return triNot(r)
			}
			return r
		case "_gt", "_ge", "_lt", "_le":
			if data == nil || f.Val == nil {
				return Unknown
			}
			c, ok := Cmp(fd.Kind, data, normVal(fd.Kind, f.Val))
			if !ok {
				return Unknown
			}
			var r bool
			switch f.Cmp {
			case "_gt":
				r = c > 0
			case "_ge":
				r = c >= 0
			case "_lt":
				r = c < 0
			default:
				r = c <= 0
			}
			if r {
				return True
			}
			return False
		case "_in", "_nin":
			list, _ := f.Val.([]any)
			if data == nil {
				return Unknown
			}
			r := False
			for _, e := range list {
				if e == nil {
					continue
				}
				if eqScalar(fd.Kind, data, normVal(fd.Kind, e)) {
					r = True
				}
			}
			if f.Cmp == "_nin" {
				return triNot(r)
			}
			return r
		}
		return Unknown
	case "raw":
		return Unknown
	case "not":
		return triNot(f.Sub[0].Eval(d))
	case "and", "implicit-and":
		r := True
		for _, s := range f.Sub {
			switch s.Eval(d) {
			case False:
				return False
			case Unknown:
				r = Unknown
			}
		}
		return r
	case "or":
		r := False
		for _, s := range f.Sub {
			switch s.Eval(d) {
			case True:
				return True
			case Unknown:
				r = Unknown
			}
		}
		return r
	}
	return Unknown
}

var cmpOps = map[Kind][]string{
	KInt:    {"_eq", "_ne", "_gt", "_ge", "_lt", "_le", "_in", "_nin"},
	KFloat:  {"_eq", "_ne", "_gt", "_ge", "_lt", "_le", "_in", "_nin"},
	KTime:   {"_eq", "_ne", "_gt", "_ge", "_lt", "_le", "_in", "_nin"},
	KString: {"_eq", "_ne", "_in", "_nin"},
	KBool:   {"_eq", "_ne", "_in", "_nin"},
}

// GenLeaf: a leaf of the reference core.
func GenLeaf(rng *rand.Rand) *F {
	fd := UFields[rng.IntN(len(UFields))]
	ops := cmpOps[fd.Kind]
	op := ops[rng.IntN(len(ops))]
	pick := func() any { return fd.Domain[rng.IntN(len(fd.Domain))] }
	switch op {
	case "_in", "_nin":
		n := 1 + rng.IntN(3)
		var l []any
		for i := 0; i < n; i++ {
			l = append(l, pick())
		}
		if rng.IntN(5) == 0 {
			l = append(l, nil)
		}
		return &F{Op: "leaf", Field: fd.Name, Cmp: op, Val: l}
	case "_eq", "_ne":
		if rng.IntN(4) == 0 {
			return &F{Op: "leaf", Field: fd.Name, Cmp: op, Val: nil}
		}
	}
	v := pick()
	if fd.Kind == KFloat && rng.IntN(4) == 0 {
		v = []any{0.25, 1.0, -3.0}[rng.IntN(3)] // off-domain operands
	}
	return &F{Op: "leaf", Field: fd.Name, Cmp: op, Val: v}
}

var rawLeaves = []string{
	`{s: {_like: "a%"}}`, `{s: {_like: "%b"}}`, `{s: {_like: "%"}}`, `{s: {_nlike: "a%"}}`, `{s: {_ilike: "b"}}`, `{s: {_nilike: "%B%"}}`, `{s: {_like: ""}}`,
	`{a: {_any: {_eq: 1}}}`, `{a: {_all: {_gt: 0}}}`, `{a: {_none: {_eq: 2}}}`, `{a: {_any: {_in: [0, 2]}}}`,
	`{g: {name: {_eq: "g0"}}}`, `{g: {w: {_eq: 1}}}`, `{g: {w: {_ne: 0}}}`, `{g: {name: {_in: ["g1", "g2"]}}}`, `{g: {us: {i: {_eq: 1}}}}`,
	`{g_id: {_eq: null}}`, `{g_id: {_ne: null}}`,
	`{j: {_eq: 1}}`, `{j: {_ne: null}}`, `{j: {_gt: 1}}`, `{j: {_eq: null}}`, `{j: {_in: [1, 2]}}`,
	`{i: {_gt: null}}`, `{f: {_le: null}}`, `{k: {_ge: 3}}`, `{k: {_in: [0, 2, 4, 6]}}`, `{_docID: {_ne: "bae-x"}}`,
	`{}`,
}

// GenRawLeaf: a leaf outside the reference core (only metamorphic relations apply).
func GenRawLeaf(rng *rand.Rand) *F {
	return &F{Op: "raw", Raw: rawLeaves[rng.IntN(len(rawLeaves))]}
}

// GenFilter: depth-bounded filter; rawProb = probability that a leaf is outside the reference core.
func GenFilter(rng *rand.Rand, depth int, rawProb float64) *F {
	leaf := func() *F {
		if rng.Float64() < rawProb {
			return GenRawLeaf(rng)
		}
		return GenLeaf(rng)
	}
	if depth <= 0 || rng.IntN(3) == 0 {
		return leaf()
	}
	switch rng.IntN(7) {
	case 0, 1:
		return &F{Op: "and", Sub: []*F{GenFilter(rng, depth-1, rawProb), GenFilter(rng, depth-1, rawProb)}}
	case 2, 3:
		return &F{Op: "or", Sub: []*F{GenFilter(rng, depth-1, rawProb), GenFilter(rng, depth-1, rawProb)}}
	case 4, 5:
		return &F{Op: "not", Sub: []*F{GenFilter(rng, depth-1, rawProb)}}
	default:
		a, b := GenLeaf(rng), GenLeaf(rng)
		if a.Field == b.Field {
			return &F{Op: "and", Sub: []*F{a, b}}
		}
		return &F{Op: "implicit-and", Sub: []*F{a, b}}
	}
}

// RFC3339 sanity for the time domain (fails fast if the domain is edited badly).
func init() {
	for _, v := range UField("t").Domain {
		if _, err := time.Parse(time.RFC3339Nano, v.(string)); err != nil {
			panic(err)
		}
	}
}
