package checks

import (
	"context"
	"encoding/json"
	"fmt"
	"math/rand/v2"
	"sort"
	"strings"

	"github.com/sourcenetwork/defradb/client"
	"github.com/sourcenetwork/defradb/verifharness/core"
	"github.com/sourcenetwork/defradb/verifharness/qsem"
)

// C09, second workload — filters through a relation that put SEVERAL conditions on the related
// collection inside ONE relation clause.
//
// One case = one data set over one relation shape (one-to-many, self-referencing one-to-many,
// one-to-one), loaded into TWIN databases: the plain twin carries no index, the indexed twin an
// index on exactly ONE of the related collection's filtered fields (w, u or t; optionally also on the
// foreign key). That single index is what lets the planner invert the join: the child-side index
// scan then has to carry the WHOLE relation clause, not only the condition on the indexed field.
// For a list of relation clauses (2-3 conditions on different fields, two operators on one field,
// nested _and / _or / _not inside the clause) the parents are selected
//   (i)   without rendering the relation          P(filter: {cs: F}) { _docID } / { name }
//   (ii)  rendering it                            P(filter: {cs: F}) { _docID cs { _docID } }
//   (iii) rendering it with a filter of its own   P(filter: {cs: F}) { _docID cs(filter: G) { _docID } }
//   (iv)  together with a condition on the parent P(filter: {v: .., cs: F}) { _docID }
// and judged by: the ground truth of the plain field dumps (a parent matches iff SOME of its
// children satisfies ALL conditions of the clause), the child-side query
// Child(filter: F) { parent { _docID } }, and the comparison of the twins. The data is checked after
// loading and again after a few updates / re-links / deletes.

type c09mcShape struct {
	Name       string
	PCol, CCol string
	PtoC, CtoP string
	Many       bool
}

func (s c09mcShape) self() bool { return s.PCol == s.CCol }

var c09mcShapes = map[string]c09mcShape{
	"one-many":  {Name: "one-many", PCol: "P", CCol: "C", PtoC: "cs", CtoP: "p", Many: true},
	"self-many": {Name: "self-many", PCol: "P", CCol: "P", PtoC: "cs", CtoP: "boss", Many: true},
	"one-one":   {Name: "one-one", PCol: "P", CCol: "C", PtoC: "c", CtoP: "p", Many: false},
	// both halves of the relation carry the same field name, the primary side is declared first
	"one-many-same-name": {Name: "one-many-same-name", PCol: "P", CCol: "C", PtoC: "link", CtoP: "link", Many: true},
}

var c09mcShapeNames = []string{"one-many", "self-many", "one-one", "one-many-same-name"}

// SDL: indexed = the one child field that carries an index ("" = none), fk = index on the foreign key.
func (s c09mcShape) SDL(indexed string, fk bool) string {
	ix := func(f string) string {
		if f == indexed || (f == "fk" && fk && indexed != "") {
			return " @index"
		}
		return ""
	}
	cf := fmt.Sprintf("w: Int%s  u: Int%s  t: String%s", ix("w"), ix("u"), ix("t"))
	switch s.Name {
	case "self-many":
		return fmt.Sprintf("type P { name: String  v: Int  %s  boss: P @relation(name: \"bm\")%s  cs: [P] @relation(name: \"bm\") }", cf, ix("fk"))
	case "one-one":
		return fmt.Sprintf("type P { name: String  v: Int  c: C }\ntype C { name: String  %s  p: P @primary%s }", cf, ix("fk"))
	case "one-many-same-name":
		return fmt.Sprintf("type C { name: String  %s  link: P%s }\ntype P { name: String  v: Int  link: [C] }", cf, ix("fk"))
	}
	return fmt.Sprintf("type P { name: String  v: Int  cs: [C] }\ntype C { name: String  %s  p: P%s }", cf, ix("fk"))
}

type c09mcDoc struct {
	Col  string `json:"col"`
	Name string `json:"name"`
	V    int    `json:"v"`
	W    int    `json:"w"`
	U    int    `json:"u"`
	T    string `json:"t,omitempty"`
	To   string `json:"to,omitempty"` // name of the parent ("" = none)
}

type c09mcMut struct {
	Kind  string `json:"kind"` // set | relink | delete
	Col   string `json:"col"`
	Doc   string `json:"doc"`
	Field string `json:"field,omitempty"`
	IVal  int    `json:"ival,omitempty"`
	SVal  string `json:"sval,omitempty"`
	To    string `json:"to,omitempty"`
}

// c09mcF: one node of a relation clause. Op = a comparison operator (leaf: Field, Val), "all" (the
// implicit conjunction of the entries of one filter object), "_and", "_or" (lists) or "_not".
type c09mcF struct {
	Op    string   `json:"op"`
	Field string   `json:"field,omitempty"`
	Val   any      `json:"val,omitempty"`
	Subs  []c09mcF `json:"subs,omitempty"`
}

func (f c09mcF) leaf() bool {
	return f.Op != "all" && f.Op != "_and" && f.Op != "_or" && f.Op != "_not"
}

func mcLeaf(field, op string, val any) c09mcF { return c09mcF{Op: op, Field: field, Val: val} }
func mcAll(subs ...c09mcF) c09mcF             { return c09mcF{Op: "all", Subs: subs} }
func mcAnd(subs ...c09mcF) c09mcF             { return c09mcF{Op: "_and", Subs: subs} }
func mcOr(subs ...c09mcF) c09mcF              { return c09mcF{Op: "_or", Subs: subs} }
func mcNot(sub c09mcF) c09mcF                 { return c09mcF{Op: "_not", Subs: []c09mcF{sub}} }

// inner renders the entries of the filter object (without the braces).
func (f c09mcF) inner() string {
	switch {
	case f.leaf():
		b, _ := json.Marshal(f.Val)
		return fmt.Sprintf("%s: {%s: %s}", f.Field, f.Op, b)
	case f.Op == "all":
		var parts []string
		byField := map[string][]string{} // several operators on one field share one entry
		for _, s := range f.Subs {
			if s.leaf() {
				b, _ := json.Marshal(s.Val)
				byField[s.Field] = append(byField[s.Field], fmt.Sprintf("%s: %s", s.Op, b))
			}
		}
		done := map[string]bool{}
		for _, s := range f.Subs {
			if s.leaf() {
				if !done[s.Field] {
					done[s.Field] = true
					parts = append(parts, fmt.Sprintf("%s: {%s}", s.Field, strings.Join(byField[s.Field], ", ")))
				}
			} else {
				parts = append(parts, s.inner())
			}
		}
		return strings.Join(parts, ", ")
	case f.Op == "_not":
		return "_not: " + f.Subs[0].GQL()
	default:
		var parts []string
		for _, s := range f.Subs {
			parts = append(parts, s.GQL())
		}
		return f.Op + ": [" + strings.Join(parts, ", ") + "]"
	}
}

func (f c09mcF) GQL() string { return "{" + f.inner() + "}" }

type c09mcChild struct {
	id, name, fk string
	w, u         int64
	t            string
}

func (c c09mcChild) val(field string) any {
	switch field {
	case "w":
		return c.w
	case "u":
		return c.u
	case "name":
		return c.name
	}
	return c.t
}

func mcNum(v any) (float64, bool) {
	switch x := v.(type) {
	case int:
		return float64(x), true
	case int64:
		return float64(x), true
	case float64:
		return x, true
	case json.Number:
		f, err := x.Float64()
		return f, err == nil
	}
	return 0, false
}

// mcCmp: -1 / 0 / +1 between two values of one field (numbers or strings; the data holds no nulls).
func mcCmp(a, b any) int {
	if x, ok := mcNum(a); ok {
		y, _ := mcNum(b)
		switch {
		case x < y:
			return -1
		case x > y:
			return 1
		}
		return 0
	}
	return strings.Compare(fmt.Sprint(a), fmt.Sprint(b))
}

func mcList(v any) []any {
	switch x := v.(type) {
	case []any:
		return x
	case []int:
		out := make([]any, len(x))
		for i := range x {
			out[i] = x[i]
		}
		return out
	case []string:
		out := make([]any, len(x))
		for i := range x {
			out[i] = x[i]
		}
		return out
	}
	return nil
}

// Eval: two-valued (the generated data holds no nulls in the filtered fields).
func (f c09mcF) Eval(c c09mcChild) bool {
	switch f.Op {
	case "all", "_and":
		for _, s := range f.Subs {
			if !s.Eval(c) {
				return false
			}
		}
		return true
	case "_or":
		for _, s := range f.Subs {
			if s.Eval(c) {
				return true
			}
		}
		return false
	case "_not":
		return !f.Subs[0].Eval(c)
	}
	v := c.val(f.Field)
	switch f.Op {
	case "_eq":
		return mcCmp(v, f.Val) == 0
	case "_ne":
		return mcCmp(v, f.Val) != 0
	case "_gt":
		return mcCmp(v, f.Val) > 0
	case "_ge":
		return mcCmp(v, f.Val) >= 0
	case "_lt":
		return mcCmp(v, f.Val) < 0
	case "_le":
		return mcCmp(v, f.Val) <= 0
	case "_in", "_nin":
		in := false
		for _, x := range mcList(f.Val) {
			if mcCmp(v, x) == 0 {
				in = true
			}
		}
		return in == (f.Op == "_in")
	}
	panic("C09 multi-condition: unknown operator " + f.Op)
}

// andLeaves: the leaf conditions that every matching child must satisfy (reached through filter
// objects and _and lists only).
func (f c09mcF) andLeaves() []c09mcF {
	switch {
	case f.leaf():
		return []c09mcF{f}
	case f.Op == "all" || f.Op == "_and":
		var out []c09mcF
		for _, s := range f.Subs {
			out = append(out, s.andLeaves()...)
		}
		return out
	}
	return nil
}

func (f c09mcF) has(op string) bool {
	if f.Op == op {
		return true
	}
	for _, s := range f.Subs {
		if s.has(op) {
			return true
		}
	}
	return false
}

func (f c09mcF) fields(into map[string]bool) {
	if f.leaf() {
		into[f.Field] = true
	}
	for _, s := range f.Subs {
		s.fields(into)
	}
}

func (f c09mcF) leaves() int {
	if f.leaf() {
		return 1
	}
	n := 0
	for _, s := range f.Subs {
		n += s.leaves()
	}
	return n
}

// class: the form of the clause, reported in the detail of a violation.
func (f c09mcF) class() string {
	switch {
	case f.has("_not"):
		return "clause-with-not"
	case f.has("_or"):
		return "clause-with-or"
	}
	return "conjunctive-clause"
}

// skeleton: the clause with its values removed (distinct non-trivial case key).
func (f c09mcF) skeleton() string {
	if f.leaf() {
		return f.Field + f.Op
	}
	var parts []string
	for _, s := range f.Subs {
		parts = append(parts, s.skeleton())
	}
	return f.Op + "(" + strings.Join(parts, ",") + ")"
}

type c09mcParams struct {
	Shape   string     `json:"shape"`
	Indexed string     `json:"indexed"`  // the child field indexed on the indexed twin: w | u | t
	FKIndex bool       `json:"fk_index"` // the indexed twin also indexes the foreign key
	Docs    []c09mcDoc `json:"docs"`
	Muts    []c09mcMut `json:"muts,omitempty"`
	Filters []c09mcF   `json:"filters"`
}

// ---------------------------------------------------------------------------------------
// generators

var c09mcIntOps = []string{"_eq", "_ne", "_gt", "_ge", "_lt", "_le", "_in", "_nin"}
var c09mcStrOps = []string{"_eq", "_ne", "_in", "_nin"} // String has no ordering operators
var c09mcT = []string{"a", "b", "c"}

func c09mcGenLeaf(rng *rand.Rand, field string) c09mcF {
	if field == "t" {
		op := c09mcStrOps[rng.IntN(len(c09mcStrOps))]
		if op == "_in" || op == "_nin" {
			a := rng.IntN(3)
			return mcLeaf(field, op, []any{c09mcT[a], c09mcT[(a+1+rng.IntN(2))%3]})
		}
		return mcLeaf(field, op, c09mcT[rng.IntN(3)])
	}
	dom := 4
	if field == "u" {
		dom = 3
	}
	op := c09mcIntOps[rng.IntN(len(c09mcIntOps))]
	// ranges that keep several values alive are the interesting ones for the index order
	switch op {
	case "_in", "_nin":
		a := rng.IntN(dom)
		return mcLeaf(field, op, []any{a, (a + 1 + rng.IntN(dom-1)) % dom})
	case "_gt", "_ge":
		return mcLeaf(field, op, rng.IntN(2))
	case "_lt", "_le":
		return mcLeaf(field, op, dom-1-rng.IntN(2))
	}
	return mcLeaf(field, op, rng.IntN(dom))
}

// c09mcGenFilter: a relation clause; the indexed field takes part in most of them.
func c09mcGenFilter(rng *rand.Rand, indexed string) c09mcF {
	others := []string{}
	for _, f := range []string{"w", "u", "t"} {
		if f != indexed {
			others = append(others, f)
		}
	}
	rng.Shuffle(len(others), func(i, j int) { others[i], others[j] = others[j], others[i] })
	first := indexed
	if rng.IntN(10) == 0 {
		// no condition on the indexed field at all: nothing to invert the join by
		return mcAll(c09mcGenLeaf(rng, others[0]), c09mcGenLeaf(rng, others[1]))
	}
	idx := c09mcGenLeaf(rng, first)
	// a range or a set on the indexed field keeps several index entries per parent in play
	if first == indexed && rng.IntN(3) > 0 && first != "t" {
		idx = mcLeaf(first, []string{"_gt", "_ge", "_ne", "_le"}[rng.IntN(4)], []int{0, 0, 3, 2}[rng.IntN(4)])
		if idx.Op == "_gt" || idx.Op == "_ge" {
			idx.Val = rng.IntN(2)
		} else if idx.Op == "_le" {
			idx.Val = 2 + rng.IntN(2)
		}
	}
	o1, o2 := c09mcGenLeaf(rng, others[0]), c09mcGenLeaf(rng, others[1])
	switch x := rng.IntN(100); {
	case x < 40:
		if rng.IntN(2) == 0 {
			return mcAll(o1, idx) // the indexed condition is not always spelled first
		}
		return mcAll(idx, o1)
	case x < 60:
		subs := []c09mcF{idx, o1, o2}
		rng.Shuffle(3, func(i, j int) { subs[i], subs[j] = subs[j], subs[i] })
		return mcAll(subs...)
	case x < 68:
		return mcAll(mcAnd(idx, o1))
	case x < 74:
		return mcAll(idx, mcAnd(o1, o2))
	case x < 78:
		return mcAll(o1, mcAnd(idx, o2))
	case x < 84:
		return mcAll(idx, mcOr(o1, o2))
	// _or only over the fields WITHOUT index: an indexed field constrained inside an _or loses rows on a
	// single collection already (known finding of C07, index/_or-over-indexed-field/rows-missing)
	case x < 88:
		return mcAll(o1, idx, mcOr(c09mcGenLeaf(rng, others[0]), o2))
	case x < 91:
		return mcAll(idx, mcOr(mcAll(o1, o2), mcAll(c09mcGenLeaf(rng, others[0]), c09mcGenLeaf(rng, others[1]))))
	case x < 95:
		return mcAll(idx, mcNot(o1))
	default:
		// two operators on the indexed field plus a sibling condition
		if first == "t" {
			return mcAll(mcLeaf("t", "_in", []any{"a", "b", "c"}), mcLeaf("t", "_ne", c09mcT[rng.IntN(3)]), o1)
		}
		return mcAll(mcLeaf(first, "_ge", rng.IntN(2)), mcLeaf(first, "_le", 2+rng.IntN(2)), o1)
	}
}

func c09mcGenData(rng *rand.Rand, s c09mcShape) []c09mcDoc {
	var docs []c09mcDoc
	child := func(col, name, to string) c09mcDoc {
		return c09mcDoc{Col: col, Name: name, V: rng.IntN(3), W: rng.IntN(4), U: rng.IntN(3), T: c09mcT[rng.IntN(3)], To: to}
	}
	if s.self() {
		n := 6 + rng.IntN(5)
		for i := 0; i < n; i++ {
			to := ""
			if i > 0 && rng.IntN(10) < 8 {
				// few bosses with several reports each
				to = fmt.Sprintf("p%d", rng.IntN(min(i, 3)))
			}
			docs = append(docs, child("P", fmt.Sprintf("p%d", i), to))
		}
		return docs
	}
	nP := 3 + rng.IntN(3)
	for i := 0; i < nP; i++ {
		docs = append(docs, c09mcDoc{Col: "P", Name: fmt.Sprintf("p%d", i), V: rng.IntN(3)})
	}
	var cs []c09mcDoc
	k := 0
	for i := 0; i < nP; i++ {
		n := []int{0, 1, 2, 2, 3, 3, 4}[rng.IntN(7)]
		if !s.Many {
			n = min(n, 1)
			if rng.IntN(4) > 0 {
				n = 1
			}
		}
		for j := 0; j < n; j++ {
			cs = append(cs, child("C", fmt.Sprintf("c%d", k), fmt.Sprintf("p%d", i)))
			k++
		}
	}
	for j, n := 0, 1+rng.IntN(2); j < n; j++ {
		cs = append(cs, child("C", fmt.Sprintf("c%d", k), ""))
		k++
	}
	rng.Shuffle(len(cs), func(i, j int) { cs[i], cs[j] = cs[j], cs[i] })
	return append(docs, cs...)
}

func c09mcGenMuts(rng *rand.Rand, s c09mcShape, docs []c09mcDoc) []c09mcMut {
	var parents, children []string
	for _, d := range docs {
		if d.Col == s.CCol {
			children = append(children, d.Name)
		}
		if d.Col == s.PCol {
			parents = append(parents, d.Name)
		}
	}
	var muts []c09mcMut
	for i, n := 0, 2+rng.IntN(4); i < n; i++ {
		c := children[rng.IntN(len(children))]
		switch x := rng.IntN(10); {
		case x < 5:
			f := []string{"w", "u", "t"}[rng.IntN(3)]
			m := c09mcMut{Kind: "set", Col: s.CCol, Doc: c, Field: f}
			switch f {
			case "w":
				m.IVal = rng.IntN(4)
			case "u":
				m.IVal = rng.IntN(3)
			default:
				m.SVal = c09mcT[rng.IntN(3)]
			}
			muts = append(muts, m)
		case x < 8:
			to := parents[rng.IntN(len(parents))]
			if rng.IntN(5) == 0 {
				to = ""
			}
			muts = append(muts, c09mcMut{Kind: "relink", Col: s.CCol, Doc: c, To: to})
		case x < 9:
			muts = append(muts, c09mcMut{Kind: "delete", Col: s.CCol, Doc: c})
		default:
			muts = append(muts, c09mcMut{Kind: "delete", Col: s.PCol, Doc: parents[rng.IntN(len(parents))]})
		}
	}
	return muts
}

// c09mcAnchorData: every parent with two children has one child that satisfies only one of the
// conditions of the anchor clauses and one that satisfies all of them, in BOTH index orders:
//
//	p0: c0 (w1 u0 a)  c1 (w2 u2 b)      p1: c2 (w1 u2 b)  c3 (w2 u0 a)
//	p2: c4 (w2 u1 a)  c5 (w0 u2 b)      p3: no children    c6 (w2 u2 b): no parent
func c09mcAnchorData(s c09mcShape) []c09mcDoc {
	pc := s.PCol
	docs := []c09mcDoc{{Col: pc, Name: "p0", V: 1, W: 0, U: 0, T: "c"}, {Col: pc, Name: "p1", V: 2, W: 0, U: 0, T: "c"},
		{Col: pc, Name: "p2", V: 0, W: 0, U: 0, T: "c"}, {Col: pc, Name: "p3", V: 1, W: 0, U: 0, T: "c"}}
	cc := s.CCol
	kids := []c09mcDoc{
		{Col: cc, Name: "c0", W: 1, U: 0, T: "a", To: "p0"}, {Col: cc, Name: "c1", W: 2, U: 2, T: "b", To: "p0"},
		{Col: cc, Name: "c2", W: 1, U: 2, T: "b", To: "p1"}, {Col: cc, Name: "c3", W: 2, U: 0, T: "a", To: "p1"},
		{Col: cc, Name: "c4", W: 2, U: 1, T: "a", To: "p2"}, {Col: cc, Name: "c5", W: 0, U: 2, T: "b", To: "p2"},
		{Col: cc, Name: "c6", W: 2, U: 2, T: "b"},
	}
	if !s.Many {
		kids = []c09mcDoc{kids[1], kids[2], kids[4], kids[6]}
	}
	return append(docs, kids...)
}

func c09mcAnchorFilters(indexed string) []c09mcF {
	leafFor := map[string]c09mcF{"w": mcLeaf("w", "_gt", 0), "u": mcLeaf("u", "_eq", 2), "t": mcLeaf("t", "_ne", "a")}
	var others []c09mcF
	for _, f := range []string{"w", "u", "t"} {
		if f != indexed {
			others = append(others, leafFor[f])
		}
	}
	return []c09mcF{
		// index on w: p0's first child in index order (c0) fails u, c1 passes; p1's first passes, the later one fails
		mcAll(mcLeaf("w", "_gt", 0), mcLeaf("u", "_eq", 2)),
		// index on t: same pattern through t (a < b)
		mcAll(mcLeaf("t", "_in", []any{"a", "b"}), mcLeaf("u", "_eq", 2)),
		mcAll(mcLeaf("t", "_in", []any{"a", "b"}), mcLeaf("w", "_eq", 1)),
		// index on u
		mcAll(mcLeaf("u", "_ge", 0), mcLeaf("w", "_eq", 2)),
		mcAll(mcLeaf("w", "_eq", 2), mcLeaf("u", "_ne", 1)),
		// three conditions
		mcAll(mcLeaf("w", "_gt", 0), mcLeaf("u", "_eq", 2), mcLeaf("t", "_eq", "b")),
		mcAll(mcLeaf("t", "_ne", "c"), mcLeaf("u", "_le", 2), mcLeaf("w", "_in", []any{2, 3})),
		// nested _and, alone and beside a condition
		mcAll(mcAnd(mcLeaf("w", "_gt", 0), mcLeaf("u", "_eq", 2))),
		mcAll(mcLeaf("w", "_gt", 0), mcAnd(mcLeaf("u", "_ge", 2), mcLeaf("t", "_ne", "a"))),
		mcAll(mcLeaf("u", "_ge", 1), mcAnd(mcLeaf("w", "_ge", 2), mcLeaf("t", "_in", []any{"a", "b"}))),
		// two operators on one field
		mcAll(mcLeaf("w", "_gt", 0), mcLeaf("w", "_le", 2), mcLeaf("u", "_eq", 2)),
		// nested _or over the fields without index (see c09mcGenFilter)
		mcAll(leafFor[indexed], mcOr(others[0], others[1])),
		mcAll(leafFor[indexed], mcOr(mcAll(others[0], others[1]), mcLeaf(others[1].Field, "_eq", map[string]any{"w": 1, "u": 0, "t": "a"}[others[1].Field]))),
		// _not
		mcAll(mcLeaf("w", "_gt", 0), mcNot(mcLeaf("u", "_ne", 2))),
	}
}

func c09mcAnchorMuts(s c09mcShape) []c09mcMut {
	muts := []c09mcMut{
		{Kind: "set", Col: s.CCol, Doc: "c1", Field: "u", IVal: 1}, // p0 loses its only match for u == 2
		{Kind: "set", Col: s.CCol, Doc: "c4", Field: "u", IVal: 2}, // p2 gains one; c5 (w0) is first in the w index
		{Kind: "set", Col: s.CCol, Doc: "c2", Field: "t", SVal: "a"},
	}
	if s.Many {
		muts = append(muts, c09mcMut{Kind: "relink", Col: s.CCol, Doc: "c6", To: "p0"}, // p0 matches again through c6; c0 stays first
			c09mcMut{Kind: "delete", Col: s.CCol, Doc: "c3"})
	}
	return muts
}

func c09mcCases(seed uint64, tier string) (anchors, random []core.Case) {
	for _, a := range []struct {
		shape, indexed string
		fk             bool
	}{{"one-many", "w", false}, {"one-many", "u", true}, {"one-many", "t", false}, {"self-many", "w", true}, {"self-many", "u", false},
		{"one-many-same-name", "w", false}, {"one-one", "w", true}} {
		s := c09mcShapes[a.shape]
		anchors = append(anchors, core.MkCase("anchor-multi-condition/"+a.shape+"/index-on-"+a.indexed, 1,
			c09mcParams{Shape: a.shape, Indexed: a.indexed, FKIndex: a.fk, Docs: c09mcAnchorData(s), Muts: c09mcAnchorMuts(s), Filters: c09mcAnchorFilters(a.indexed)}))
	}
	rng := rand.New(rand.NewPCG(seed, 9092))
	for i, n := 0, tierN(tier, 120, 2800); i < n; i++ {
		shape := []string{"one-many", "one-many", "one-many", "self-many", "self-many", "one-many-same-name", "one-one"}[i%7]
		s := c09mcShapes[shape]
		r := rand.New(rand.NewPCG(rng.Uint64(), 92))
		p := c09mcParams{Shape: shape, Indexed: []string{"w", "u", "t", "w"}[r.IntN(4)], FKIndex: r.IntN(2) == 0, Docs: c09mcGenData(r, s)}
		if r.IntN(2) == 0 {
			p.Muts = c09mcGenMuts(r, s, p.Docs)
		}
		for j, m := 0, 6+r.IntN(3); j < m; j++ {
			p.Filters = append(p.Filters, c09mcGenFilter(r, p.Indexed))
		}
		random = append(random, core.MkCase("multi-condition/"+shape, rng.Uint64(), p))
	}
	return anchors, random
}

var c09mcFloors = []string{
	"filter_through_relation_multi_condition", "filter_through_relation_multi_condition_relation_not_rendered",
	"filter_through_relation_multi_condition_relation_rendered", "filter_through_relation_multi_condition_relation_rendered_with_own_filter",
	"filter_through_relation_multi_condition_with_parent_condition", "filter_through_relation_multi_condition_child_side",
	"filter_through_relation_multi_condition_three_conditions", "filter_through_relation_multi_condition_nested_and",
	"filter_through_relation_multi_condition_nested_or", "filter_through_relation_multi_condition_two_operators_on_one_field",
	"filter_through_relation_multi_condition_first_indexed_child_fails_sibling_condition",
	"filter_through_relation_multi_condition_later_indexed_child_fails_sibling_condition",
	"filter_through_relation_multi_condition_after_mutations", "filter_through_relation_multi_condition_in_histories",
	"inverted_join_plans_by_multi_condition_filter", "relation_clause_list_with_shared_field_name_checks",
	"multi_condition_index_on_w", "multi_condition_index_on_u", "multi_condition_index_on_t",
	"multi_condition_shape_one-many", "multi_condition_shape_self-many", "multi_condition_shape_one-one", "multi_condition_shape_one-many-same-name",
}

// ---------------------------------------------------------------------------------------
// execution

type c09mcEnv struct {
	ctx   context.Context
	r     *core.Rec
	p     c09mcParams
	s     c09mcShape
	twins [2]*c09Twin
	ids   map[string]string // "Col/name" -> docID
	nontr bool
}

func c09mcRun(ctx context.Context, c core.Case, r *core.Rec) {
	var p c09mcParams
	c.P(&p)
	s, known := c09mcShapes[p.Shape]
	if !known {
		panic("C09 multi-condition: unknown shape " + p.Shape)
	}
	e := &c09mcEnv{ctx: ctx, r: r, p: p, s: s, ids: map[string]string{}}
	for i, tag := range []string{"plain", "indexed"} {
		n := core.NewNode(ctx, core.NodeOpts{})
		defer n.Close()
		sdl := s.SDL("", false)
		if i == 1 {
			sdl = s.SDL(p.Indexed, p.FKIndex)
		}
		_, err := n.DB.AddSchema(ctx, sdl)
		core.Must(err)
		e.twins[i] = &c09Twin{tag: tag, n: n, ex: &qsem.Exec{Ctx: ctx, N: n, R: r, Kind: c.Kind}}
	}
	r.Count("multi_condition_index_on_"+p.Indexed, 1)
	r.Count("multi_condition_shape_"+p.Shape, 1)
	if !e.load() {
		return
	}
	r.Count("evaluations", 1)
	e.round("after loading", nil)
	if len(p.Muts) > 0 && !e.hung() {
		applied := 0
		for _, m := range p.Muts {
			if e.mutate(m) {
				applied++
			}
		}
		if applied > 0 && !e.hung() {
			r.Count("evaluations", 1)
			e.round(fmt.Sprintf("after %d mutations", len(p.Muts)), p.Muts)
		}
	}
	if !e.hung() {
		e.explain()
	}
	if c.Index%40 == 0 {
		var fs []string
		for _, f := range p.Filters {
			fs = append(fs, f.GQL())
		}
		r.Sample(map[string]any{"kind": c.Kind, "sdl_indexed": s.SDL(p.Indexed, p.FKIndex), "docs": p.Docs, "muts": p.Muts, "relation_clauses": fs})
	}
}

func (e *c09mcEnv) hung() bool { return e.twins[0].ex.Hung || e.twins[1].ex.Hung }

func (e *c09mcEnv) docMap(d c09mcDoc) map[string]any {
	m := map[string]any{"name": d.Name}
	if d.Col == e.s.PCol {
		m["v"] = d.V
	}
	if d.Col == e.s.CCol {
		m["w"], m["u"], m["t"] = d.W, d.U, d.T
		if d.To != "" {
			if id := e.ids[e.s.PCol+"/"+d.To]; id != "" {
				m[e.s.CtoP+"_id"] = id
			}
		}
	}
	return m
}

func (e *c09mcEnv) load() bool {
	for _, d := range e.p.Docs {
		var newID [2]string
		for i, tw := range e.twins {
			col := tw.n.Col(e.ctx, d.Col)
			err, pn, hung := tw.ex.Guard("create", func() error {
				doc, err := client.NewDocFromMap(e.docMap(d), col.Definition())
				if err != nil {
					return err
				}
				newID[i] = doc.ID().String()
				return col.Create(e.ctx, doc)
			})
			switch {
			case hung:
				return false
			case pn != "":
				e.r.Violate("write-panic/create/"+tw.tag+"/"+qsem.PanicSig(pn), "a local write panicked: "+qsem.FirstLine(pn), map[string]any{"doc": d, "twin": tw.tag, "stack": pn})
				return false
			case err != nil:
				e.r.Violate("multi-condition/load-failed/"+tw.tag, "creating a document of the data set failed: "+err.Error(), map[string]any{"doc": d, "params": e.p})
				return false
			}
		}
		if newID[0] != newID[1] {
			e.r.Violate("twin/docid-differs", "the same document gets different docIDs on the twins", map[string]any{"doc": d, "ids": newID})
			return false
		}
		e.ids[d.Col+"/"+d.Name] = newID[0]
	}
	return true
}

// mutate applies one mutation to both twins through the collection API; the twins must agree on
// the outcome. Returns whether it succeeded.
func (e *c09mcEnv) mutate(m c09mcMut) bool {
	id := e.ids[m.Col+"/"+m.Doc]
	if id == "" {
		return false
	}
	var outcome, errText [2]string
	for i, tw := range e.twins {
		col := tw.n.Col(e.ctx, m.Col)
		err, pn, hung := tw.ex.Guard(m.Kind, func() error {
			docID, err := client.NewDocIDFromString(id)
			if err != nil {
				return err
			}
			if m.Kind == "delete" {
				ok, err := col.Delete(e.ctx, docID)
				if err == nil && !ok {
					return fmt.Errorf("delete returned false")
				}
				return err
			}
			doc, err := col.Get(e.ctx, docID, false)
			if err != nil {
				return err
			}
			switch {
			case m.Kind == "relink":
				var v any
				if m.To != "" {
					if pid := e.ids[e.s.PCol+"/"+m.To]; pid != "" {
						v = pid
					}
				}
				err = doc.Set(e.s.CtoP+"_id", v)
			case m.Field == "t":
				err = doc.Set("t", m.SVal)
			default:
				err = doc.Set(m.Field, m.IVal)
			}
			if err != nil {
				return err
			}
			return col.Update(e.ctx, doc)
		})
		switch {
		case hung:
			return false
		case pn != "":
			e.r.Violate("write-panic/"+m.Kind+"/"+tw.tag+"/"+qsem.PanicSig(pn), "a local write panicked: "+qsem.FirstLine(pn), map[string]any{"mutation": m, "twin": tw.tag, "stack": pn, "params": e.p})
			outcome[i] = "panic"
		case err != nil:
			outcome[i], errText[i] = "error", err.Error()
		default:
			outcome[i] = "ok"
		}
	}
	if outcome[0] != outcome[1] {
		e.r.Violate("twin/write-outcome-differs/"+m.Kind, fmt.Sprintf("the same write ends differently on the twins: plain=%s indexed=%s", outcome[0], outcome[1]),
			map[string]any{"mutation": m, "errors": errText, "params": e.p})
	}
	return outcome[0] == "ok"
}

func mcStr(v any) string { s, _ := v.(string); return s }

func mcInt(v any) int64 { f, _ := qsem.ToFloat(v); return int64(f) }

// round: every relation clause, every selection form, on both twins.
func (e *c09mcEnv) round(when string, muts []c09mcMut) {
	s := e.s
	fk := s.CtoP + "_id"
	answers := [2]map[string]*c09Answer{{}, {}}
	var order []string
	for ti, tw := range e.twins {
		ans := answers[ti]
		viol := func(qid, sig, msg string, detail map[string]any) {
			detail["when"], detail["twin"], detail["query"] = when, tw.tag, qid
			detail["shape"], detail["indexed_field"], detail["fk_index"], detail["docs"], detail["mutations_applied"] = s.Name, e.p.Indexed, e.p.FKIndex, e.p.Docs, muts
			detail["sdl"] = s.SDL(map[bool]string{false: "", true: e.p.Indexed}[ti == 1], e.p.FKIndex)
			e.r.Violate(sig+"/"+tw.tag, msg, detail)
			if a := ans[qid]; a != nil {
				a.flagged = true
			}
		}
		nestedList := false // the clause under test holds an _and / _or list
		run := func(qid, req, top string) ([]map[string]any, bool) {
			if ti == 0 {
				order = append(order, qid)
			}
			res := tw.ex.Do(req)
			a := &c09Answer{req: req}
			ans[qid] = a
			if res.Panic != "" || res.Hang {
				a.flagged = true
				return nil, false
			}
			if len(res.Errs) > 0 {
				a.canon, a.ok = "ERR "+res.Errs[0], true
				if nestedList && strings.Contains(res.Errs[0], "field or alias not found") && strings.Contains(qid, "multi-condition-") && !strings.Contains(qid, "child-side") {
					// a defect of its own: the keys inside an _and / _or LIST of a relation clause are resolved against
					// the mapping of the HOST collection (mapper.toFilterMap hands the child mapping on only when the
					// value is an object), so the request fails as soon as a related document is evaluated
					e.r.Count("relation_clause_with_nested_list_rejected", 1)
					a.flagged = true
					e.r.Violate("filter-through-relation/and-or-list-inside-relation-clause/rejected-with-field-or-alias-not-found",
						"a parent filter whose relation clause holds an _and / _or list (accepted by the schema, and answered when no related document exists) fails with: "+res.Errs[0],
						map[string]any{"request": req, "when": when, "twin": tw.tag, "shape": s.Name, "docs": e.p.Docs, "sdl": s.SDL(map[bool]string{false: "", true: e.p.Indexed}[ti == 1], e.p.FKIndex)})
					return nil, false
				}
				viol(qid, "valid-request-rejected", "a well-formed relation query was answered with an error: "+res.Errs[0], map[string]any{"request": req})
				return nil, false
			}
			rows := res.Rows(top)
			a.ok = true
			rs := make([]string, 0, len(rows))
			for _, row := range rows {
				rs = append(rs, core.Canon(row))
			}
			sort.Strings(rs)
			a.canon = strings.Join(rs, ";")
			return rows, true
		}
		// ground truth: the plain field dumps
		crow, ok1 := run("dump-child", fmt.Sprintf(`query { %s { _docID name w u t %s } }`, s.CCol, fk), s.CCol)
		prow, ok2 := run("dump-parent", fmt.Sprintf(`query { %s { _docID name v } }`, s.PCol), s.PCol)
		if !ok1 || !ok2 {
			continue
		}
		pv, pname := map[string]int64{}, map[string]string{}
		for _, p := range prow {
			id := mcStr(p["_docID"])
			pv[id], pname[id] = mcInt(p["v"]), mcStr(p["name"])
		}
		var kids []c09mcChild
		children := map[string][]c09mcChild{} // live parent -> its children
		for _, c := range crow {
			k := c09mcChild{id: mcStr(c["_docID"]), name: mcStr(c["name"]), fk: mcStr(c[fk]), w: mcInt(c["w"]), u: mcInt(c["u"]), t: mcStr(c["t"])}
			kids = append(kids, k)
			if _, live := pv[k.fk]; live && k.fk != "" {
				children[k.fk] = append(children[k.fk], k)
			}
		}
		idsOf := func(rows []map[string]any) []string {
			out := make([]string, 0, len(rows))
			for _, row := range rows {
				out = append(out, mcStr(row["_docID"]))
			}
			return out
		}
		names := func(ids []string) []string {
			out := make([]string, 0, len(ids))
			for _, id := range ids {
				out = append(out, pname[id])
			}
			return qsem.SortedCopy(out)
		}
		relKids := func(row map[string]any) []string {
			if s.Many {
				l, _ := row[s.PtoC].([]any)
				out := make([]string, 0, len(l))
				for _, c := range l {
					out = append(out, idOf(c))
				}
				return out
			}
			if c := idOf(row[s.PtoC]); c != "" {
				return []string{c}
			}
			return nil
		}
		// runP: a parent-side query. One-to-one: a parent WITHOUT related document is not judged and not
		// compared (whether {c: {u: {_ne: 1}}} holds for a null object is undocumented, and the inverted
		// plan reaches parents through their children only - the same corner as the listed known finding
		// about children without parent); it is dropped from the answer.
		runP := func(qid, req string) ([]map[string]any, bool) {
			rows, ok := run(qid, req, s.PCol)
			if !ok || s.Many {
				return rows, ok
			}
			kept := rows[:0:0]
			var rs []string
			for _, row := range rows {
				if len(children[mcStr(row["_docID"])]) > 0 {
					kept = append(kept, row)
					rs = append(rs, core.Canon(row))
				}
			}
			sort.Strings(rs)
			ans[qid].canon = strings.Join(rs, ";")
			return kept, true
		}
		for fi, f := range e.p.Filters {
			clause := f.GQL()
			class := f.class()
			nestedList = f.has("_and") || f.has("_or")
			base := "filter-through-relation/multi-condition" // the clause's form (class) goes into the detail, not the signature
			// ground truth: a parent matches iff SOME child satisfies the WHOLE clause
			var wantP, wantC, wantCP []string
			for _, k := range kids {
				if f.Eval(k) {
					wantC = append(wantC, k.id)
				}
			}
			for p, cs := range children {
				for _, k := range cs {
					if f.Eval(k) {
						wantP = append(wantP, p)
						break
					}
				}
			}
			sort.Strings(wantP)
			wantCP = wantP
			if ti == 0 {
				e.cover(f, children, wantP, muts != nil)
			}
			detail := func(extra map[string]any) map[string]any {
				extra["relation_clause"] = clause
				extra["clause_form"] = class
				extra["want_parents"] = names(wantP)
				return extra
			}
			// child side: Child(filter: F) { parent { _docID } }
			childOK := false
			var childSideParents []string
			qid := fmt.Sprintf("multi-condition-child-side/%d", fi)
			req := fmt.Sprintf(`query { %s(filter: %s) { _docID %s { _docID } } }`, s.CCol, clause, s.CtoP)
			if rows, ok := run(qid, req, s.CCol); ok {
				e.r.Count("filter_through_relation_multi_condition_child_side", 1)
				got := idsOf(rows)
				seen := map[string]bool{}
				for _, row := range rows {
					if p := idOf(row[s.CtoP]); p != "" && !seen[p] {
						seen[p] = true
						childSideParents = append(childSideParents, p)
					}
				}
				sort.Strings(childSideParents)
				if !qsem.SameMultiset(got, wantC) {
					viol(qid, base+"/child-side/differs-from-child-fields", "Child(filter: F) is not the set of children whose own fields satisfy F",
						detail(map[string]any{"request": req, "got": qsem.SortedCopy(got), "want": qsem.SortedCopy(wantC)}))
				} else if !qsem.SameMultiset(childSideParents, wantCP) {
					viol(qid, base+"/child-side/parents-differ-from-child-fields", "the parents rendered by Child(filter: F) { parent { _docID } } are not the live parents the matching children point to",
						detail(map[string]any{"request": req, "got": names(childSideParents), "want": names(wantCP)}))
				} else {
					childOK = true
				}
			}
			// judge one parent-side answer
			judge := func(qid, sel, req string, rows []map[string]any, want []string, kidsWant func(p string) []string) {
				e.r.Count("filter_through_relation_multi_condition", 1)
				e.r.Count("filter_through_relation_multi_condition_"+strings.ReplaceAll(sel, "-", "_"), 1)
				if sel == "with-parent-condition" {
					sel = "relation-not-rendered" // one more form of it: same signature
					e.r.Count("filter_through_relation_multi_condition_relation_not_rendered", 1)
				}
				if muts != nil {
					e.r.Count("filter_through_relation_multi_condition_after_mutations", 1)
				}
				got := idsOf(rows)
				if !qsem.SameMultiset(got, want) {
					d := detail(map[string]any{"request": req, "got_parents": names(got), "want_parents": names(want), "selection": sel})
					if childOK && sel != "relation-rendered-with-own-filter" && !strings.Contains(qid, "with-parent-condition") {
						d["child_side_request"] = fmt.Sprintf(`query { %s(filter: %s) { _docID %s { _docID } } }`, s.CCol, clause, s.CtoP)
						d["child_side_parents"] = names(childSideParents)
					}
					viol(qid, base+"/"+sel+"/parent-side-differs-from-child-fields-and-child-side",
						"Parent(filter: {children: F}) is not the set of parents that have a child satisfying every condition of F (ground truth from the plain dumps; the child-side query agrees with the dumps)", d)
					return
				}
				if kidsWant == nil {
					return
				}
				for _, row := range rows {
					p := mcStr(row["_docID"])
					if g, w := relKids(row), kidsWant(p); !qsem.SameMultiset(g, w) {
						viol(qid, base+"/"+sel+"/rendered-children-differ-from-child-fields",
							"under a multi-condition parent filter through the relation, the rendered relation does not list exactly the documents whose relation field points to that parent (and satisfy the sub-selection's own filter)",
							detail(map[string]any{"request": req, "parent": pname[p], "got": qsem.SortedCopy(g), "want": qsem.SortedCopy(w), "selection": sel}))
						return
					}
				}
			}
			// (i) relation not rendered
			sel := []string{"_docID", "_docID name", "name _docID v"}[(fi+len(muts))%3]
			qid = fmt.Sprintf("multi-condition-not-rendered/%d", fi)
			req = fmt.Sprintf(`query { %s(filter: {%s: %s}) { %s } }`, s.PCol, s.PtoC, clause, sel)
			if rows, ok := runP(qid, req); ok {
				judge(qid, "relation-not-rendered", req, rows, wantP, nil)
			}
			// (ii) relation rendered
			qid = fmt.Sprintf("multi-condition-rendered/%d", fi)
			req = fmt.Sprintf(`query { %s(filter: {%s: %s}) { _docID %s { _docID } } }`, s.PCol, s.PtoC, clause, s.PtoC)
			if rows, ok := runP(qid, req); ok {
				judge(qid, "relation-rendered", req, rows, wantP, func(p string) []string {
					var out []string
					for _, k := range children[p] {
						out = append(out, k.id)
					}
					return out
				})
			}
			// (iii) relation rendered with a filter of its own: the parent filter then sees the children that
			// pass the sub-selection's filter G, so a parent matches iff some child satisfies G and F
			if s.Many {
				var g c09mcF
				switch leaves := f.andLeaves(); {
				case (fi+len(muts))%3 == 0 && len(leaves) > 0:
					g = leaves[fi%len(leaves)] // one of F's own conditions
				case (fi+len(muts))%3 == 1:
					g = mcLeaf("u", "_ne", fi%3)
				default:
					g = mcLeaf("w", "_ge", 1+fi%2)
				}
				var wantG []string
				for p, cs := range children {
					for _, k := range cs {
						if f.Eval(k) && g.Eval(k) {
							wantG = append(wantG, p)
							break
						}
					}
				}
				qid = fmt.Sprintf("multi-condition-rendered-own-filter/%d", fi)
				req = fmt.Sprintf(`query { %s(filter: {%s: %s}) { _docID %s(filter: %s) { _docID } } }`, s.PCol, s.PtoC, clause, s.PtoC, mcAll(g).GQL())
				if rows, ok := run(qid, req, s.PCol); ok {
					judge(qid, "relation-rendered-with-own-filter", req, rows, wantG, func(p string) []string {
						var out []string
						for _, k := range children[p] {
							if g.Eval(k) {
								out = append(out, k.id)
							}
						}
						return out
					})
				}
			}
			// (iv) beside a condition on the parent itself
			if fi%2 == 0 {
				vmin := int64(1 + fi%2)
				var wantV []string
				for _, p := range wantP {
					if pv[p] >= vmin {
						wantV = append(wantV, p)
					}
				}
				qid = fmt.Sprintf("multi-condition-with-parent-condition/%d", fi)
				req = fmt.Sprintf(`query { %s(filter: {v: {_ge: %d}, %s: %s}) { _docID } }`, s.PCol, vmin, s.PtoC, clause)
				if fi%4 == 0 {
					req = fmt.Sprintf(`query { %s(filter: {%s: %s, v: {_ge: %d}}) { name _docID } }`, s.PCol, s.PtoC, clause, vmin)
				}
				if rows, ok := runP(qid, req); ok {
					judge(qid, "with-parent-condition", req, rows, wantV, nil)
				}
			}
		}
		// a one-element _and / _or list around a condition is that condition. The field used here (name)
		// exists on BOTH collections: keys inside the list must still mean the related collection's field.
		var target *c09mcChild
		for i := range kids {
			if len(children[kids[i].fk]) > 0 {
				target = &kids[i]
				break
			}
		}
		if target != nil {
			listOp := []string{"_and", "_or"}[len(muts)%2]
			e.r.Count("relation_clause_list_with_shared_field_name_checks", 1)
			reqA := fmt.Sprintf(`query { %s(filter: {%s: {name: {_eq: %q}}}) { _docID } }`, s.PCol, s.PtoC, target.name)
			reqB := fmt.Sprintf(`query { %s(filter: {%s: {%s: [{name: {_eq: %q}}]}}) { _docID } }`, s.PCol, s.PtoC, listOp, target.name)
			rowsA, okA := runP("multi-condition-shared-name/object", reqA)
			nestedList = true
			rowsB, okB := runP("multi-condition-shared-name/list", reqB)
			nestedList = false
			if okA && !qsem.SameMultiset(idsOf(rowsA), []string{target.fk}) {
				viol("multi-condition-shared-name/object", "filter-through-relation/parent-side/differs-from-child-fields", "Parent(filter: {children: {name: {_eq: n}}}) is not the parent of the child called n",
					map[string]any{"request": reqA, "got": names(idsOf(rowsA)), "want": names([]string{target.fk})})
			} else if okA && okB && !qsem.SameMultiset(idsOf(rowsA), idsOf(rowsB)) {
				// (same on both twins: no twin tag in the signature)
				ans["multi-condition-shared-name/list"].flagged = true
				e.r.Violate("filter-through-relation/and-or-list-inside-relation-clause/field-name-shared-with-host-collection/differs-from-the-clause-without-the-list",
					"wrapping the only condition of a relation clause into a one-element "+listOp+" list changes the answer when the field name also exists on the host collection (the key is resolved against the host's mapping)",
					map[string]any{"request_without_list": reqA, "request_with_list": reqB, "without_list": names(idsOf(rowsA)), "with_list": names(idsOf(rowsB)),
						"when": when, "twin": tw.tag, "shape": s.Name, "docs": e.p.Docs, "sdl": s.SDL(map[bool]string{false: "", true: e.p.Indexed}[ti == 1], e.p.FKIndex)})
			}
		}
	}
	for _, qid := range order {
		a, b := answers[0][qid], answers[1][qid]
		if a == nil || b == nil || !a.ok || !b.ok {
			continue
		}
		e.r.Count("twin_comparisons", 1)
		if a.canon != b.canon && !a.flagged && !b.flagged {
			class := qid
			if i := strings.Index(qid, "/"); i > 0 {
				class = qid[:i]
			}
			e.r.Violate("twin/"+class+"/indexed-differs-from-plain", "the same relation query is answered differently with and without an index on one of the filtered fields of the related collection",
				map[string]any{"query": qid, "request": a.req, "plain": a.canon, "indexed": b.canon, "when": when, "params": e.p})
		}
	}
}

// cover: coverage counters of one clause over the current data (ground truth of the plain twin).
func (e *c09mcEnv) cover(f c09mcF, children map[string][]c09mcChild, wantP []string, afterMuts bool) {
	flds := map[string]bool{}
	f.fields(flds)
	if len(flds) >= 3 {
		e.r.Count("filter_through_relation_multi_condition_three_conditions", 1)
	}
	if f.has("_and") {
		e.r.Count("filter_through_relation_multi_condition_nested_and", 1)
	}
	if f.has("_or") {
		e.r.Count("filter_through_relation_multi_condition_nested_or", 1)
	}
	if f.has("_not") {
		e.r.Count("filter_through_relation_multi_condition_nested_not", 1)
	}
	if f.leaves() > len(flds) && !f.has("_or") {
		e.r.Count("filter_through_relation_multi_condition_two_operators_on_one_field", 1)
	}
	// the conditions on the indexed field that every matching child satisfies: the index scan of an
	// inverted join delivers the children that pass them in (value, docID) order
	var onIndexed []c09mcF
	for _, l := range f.andLeaves() {
		if l.Field == e.p.Indexed {
			onIndexed = append(onIndexed, l)
		}
	}
	if len(onIndexed) == 0 || !e.s.Many {
		return
	}
	want := qsem.ToSet(wantP)
	firstFails, laterFails := false, false
	for p, cs := range children {
		if !want[p] {
			continue
		}
		var cand []c09mcChild
		for _, k := range cs {
			if mcAll(onIndexed...).Eval(k) {
				cand = append(cand, k)
			}
		}
		if len(cand) < 2 {
			continue
		}
		sort.Slice(cand, func(i, j int) bool {
			if c := mcCmp(cand[i].val(e.p.Indexed), cand[j].val(e.p.Indexed)); c != 0 {
				return c < 0
			}
			return cand[i].id < cand[j].id
		})
		if !f.Eval(cand[0]) {
			firstFails = true
		} else {
			for _, k := range cand[1:] {
				if !f.Eval(k) {
					laterFails = true
				}
			}
		}
	}
	if firstFails {
		e.r.Count("filter_through_relation_multi_condition_first_indexed_child_fails_sibling_condition", 1)
		e.r.Nontrivial(fmt.Sprintf("multi-condition|%s|index-on-%s|fk=%v|%s|mut=%v", e.s.Name, e.p.Indexed, e.p.FKIndex, f.skeleton(), afterMuts))
	}
	if laterFails {
		e.r.Count("filter_through_relation_multi_condition_later_indexed_child_fails_sibling_condition", 1)
	}
}

// explain: count the clauses for which the indexed twin really inverted the join (its sub-type scan
// carries a filter although the relation is only filtered on) while the plain twin did not.
func (e *c09mcEnv) explain() {
	subScanFilter := func(tw *c09Twin, req string) (has, ok bool) {
		res := tw.ex.Do(req)
		if !res.OK() {
			return false, false
		}
		sub, found := findKey(res.Data, "subType")
		if !found {
			return false, true
		}
		scan, found := findKey(sub, "scanNode")
		if !found {
			return false, true
		}
		m, _ := scan.(map[string]any)
		return m != nil && m["filter"] != nil, true
	}
	n := 0
	for _, f := range e.p.Filters {
		if f.class() != "conjunctive-clause" || n >= 2 {
			continue
		}
		n++
		q := fmt.Sprintf(`query @explain { %s(filter: {%s: %s}) { _docID } }`, e.s.PCol, e.s.PtoC, f.GQL())
		ph, ok1 := subScanFilter(e.twins[0], q)
		xh, ok2 := subScanFilter(e.twins[1], q)
		if ok1 && ok2 && xh && !ph {
			e.r.Count("inverted_join_plans_by_multi_condition_filter", 1)
		}
	}
}
