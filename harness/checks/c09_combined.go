package checks

import (
	"context"
	"encoding/json"
	"fmt"
	"math/rand/v2"
	"sort"
	"strings"

	"github.com/sourcenetwork/defradb/client"
	"github.com/sourcenetwork/defradb/verifharness/core"
	"github.com/sourcenetwork/defradb/verifharness/qsem"
)

// C09, third workload — COMBINED request shapes: one request carries SEVERAL clauses that reach
// through (or sit beside) a relation, so that more than one of the planner's join decisions
// (inversion by filter, inversion by order, index on the host collection's own scan) applies to the
// same join:
//
//	own-and-relation-filter                      Col(filter: {own: .., rel: {f: ..}})   also _and / _or nestings of the two
//	two-relation-conditions                      Col(filter: {rel: {f: .., g: ..}})     also _and: [{rel: {f}}, {rel: {g}}]
//	relation-filter-and-relation-order           Col(filter: {rel: {f: ..}}, order: {rel: {f|g: DIR}}, limit)
//	own-filter-and-relation-order                Col(filter: {own: ..},      order: {rel: {g: DIR}}, limit)
//	relation-filter-and-own-order                Col(filter: {rel: {f: ..}}, order: {own: DIR}, limit)
//	own-and-relation-filter-and-relation-order   Col(filter: {own: .., rel: {f: ..}}, order: {rel: {g: DIR}})
//	own-and-relation-filter-and-own-order        Col(filter: {own: .., rel: {f: ..}}, order: {own: DIR})
//
// each from the PRIMARY side (the collection holding the foreign key) and from the SECONDARY side,
// over a one-to-many, a one-to-one and a self-referencing one-to-many relation. One case = one data
// set (with / without documents lacking a related document), loaded into TWIN databases: no index /
// indexes on a chosen subset of {P.v, P.s, C.w, C.u, foreign key}. Oracles, per request and twin:
// the reference computed from the twin's own plain listings (three-valued: a row whose verdict rests on
// a negative operator applied to a MISSING related document is not judged), the order / limit checked
// on keys taken from the listings, the rendered relation against the foreign keys; the two twins
// against each other; and the two SIDES against each other (the primary-side answer equals the
// flattened related documents of the mirrored secondary-side request).

type c09cbShape struct {
	Name       string
	PCol, CCol string // secondary side / primary side (holds the foreign key)
	PtoC, CtoP string
	Many       bool
}

func (s c09cbShape) self() bool { return s.PCol == s.CCol }

var c09cbShapes = map[string]c09cbShape{
	"one-many":  {Name: "one-many", PCol: "P", CCol: "C", PtoC: "cs", CtoP: "p", Many: true},
	"one-one":   {Name: "one-one", PCol: "P", CCol: "C", PtoC: "c", CtoP: "p", Many: false},
	"self-many": {Name: "self-many", PCol: "P", CCol: "P", PtoC: "cs", CtoP: "boss", Many: true},
}

var c09cbShapeNames = []string{"one-many", "one-one", "self-many"}

// every collection carries the same four Int fields; v, s are used as the SECONDARY side's fields,
// w, u as the PRIMARY side's fields
var c09cbFieldsOf = map[string][2]string{"secondary": {"v", "s"}, "primary": {"w", "u"}}

func cbHas(l []string, x string) bool {
	for _, y := range l {
		if x == y {
			return true
		}
	}
	return false
}

// SDL: ixP / ixC = the indexed fields of the secondary / primary collection, fk = index on the foreign key.
func (s c09cbShape) SDL(ixP, ixC []string, fk bool) string {
	fields := func(col string) string {
		var parts []string
		for _, f := range []string{"v", "s", "w", "u"} {
			ix := ""
			if (col == s.PCol && cbHas(ixP, f)) || (col == s.CCol && cbHas(ixC, f)) {
				ix = " @index"
			}
			parts = append(parts, fmt.Sprintf("%s: Int%s", f, ix))
		}
		return "name: String  " + strings.Join(parts, "  ")
	}
	fkx := ""
	if fk {
		fkx = " @index"
	}
	switch s.Name {
	case "self-many":
		return fmt.Sprintf("type P { %s  boss: P @relation(name: \"bm\")%s  cs: [P] @relation(name: \"bm\") }", fields("P"), fkx)
	case "one-one":
		return fmt.Sprintf("type P { %s  c: C }\ntype C { %s  p: P @primary%s }", fields("P"), fields("C"), fkx)
	}
	return fmt.Sprintf("type P { %s  cs: [C] }\ntype C { %s  p: P%s }", fields("P"), fields("C"), fkx)
}

type c09cbDoc struct {
	Col  string `json:"col"`
	Name string `json:"name"`
	V    int    `json:"v"`
	S    int    `json:"s"`
	W    int    `json:"w"`
	U    int    `json:"u"`
	To   string `json:"to,omitempty"`
}

// c09cbF: one node of a filter over the QUERIED collection. Op = a comparison operator (leaf on one of
// the queried collection's own fields), "rel" (ONE relation clause: Subs are leaves over the RELATED
// collection's fields, all inside one object), "all" (the entries of one filter object), "_and", "_or".
type c09cbF struct {
	Op    string   `json:"op"`
	Field string   `json:"field,omitempty"`
	Val   any      `json:"val,omitempty"`
	Subs  []c09cbF `json:"subs,omitempty"`
}

func (f c09cbF) leaf() bool { return f.Op != "all" && f.Op != "_and" && f.Op != "_or" && f.Op != "rel" }

func cbLeaf(field, op string, val any) c09cbF { return c09cbF{Op: op, Field: field, Val: val} }
func cbRel(leaves ...c09cbF) c09cbF           { return c09cbF{Op: "rel", Subs: leaves} }
func cbAll(subs ...c09cbF) c09cbF             { return c09cbF{Op: "all", Subs: subs} }
func cbAnd(subs ...c09cbF) c09cbF             { return c09cbF{Op: "_and", Subs: subs} }
func cbOr(subs ...c09cbF) c09cbF              { return c09cbF{Op: "_or", Subs: subs} }

// cbLeaves renders leaf conditions as object entries; several operators on one field share one entry.
func cbLeaves(leaves []c09cbF) []string {
	byField := map[string][]string{}
	var order []string
	for _, l := range leaves {
		b, _ := json.Marshal(l.Val)
		if _, seen := byField[l.Field]; !seen {
			order = append(order, l.Field)
		}
		byField[l.Field] = append(byField[l.Field], fmt.Sprintf("%s: %s", l.Op, b))
	}
	var out []string
	for _, f := range order {
		out = append(out, fmt.Sprintf("%s: {%s}", f, strings.Join(byField[f], ", ")))
	}
	return out
}

// cbConj renders a conjunction of leaves as one filter object; when one (field, operator) pair occurs
// twice the leaves go into an _and list (an object cannot hold the same key twice).
func cbConj(leaves []c09cbF) string {
	seen := map[string]bool{}
	for _, l := range leaves {
		if seen[l.Field+l.Op] {
			var parts []string
			for _, x := range leaves {
				parts = append(parts, "{"+strings.Join(cbLeaves([]c09cbF{x}), "")+"}")
			}
			return "{_and: [" + strings.Join(parts, ", ") + "]}"
		}
		seen[l.Field+l.Op] = true
	}
	return "{" + strings.Join(cbLeaves(leaves), ", ") + "}"
}

// entries: the entries this node contributes to the filter object that holds it.
func (f c09cbF) entries(relField string) []string {
	switch {
	case f.leaf():
		return cbLeaves([]c09cbF{f})
	case f.Op == "rel":
		return []string{fmt.Sprintf("%s: {%s}", relField, strings.Join(cbLeaves(f.Subs), ", "))}
	case f.Op == "all":
		var out []string
		var leaves []c09cbF
		flush := func() {
			if len(leaves) > 0 {
				out = append(out, cbLeaves(leaves)...)
				leaves = nil
			}
		}
		for _, s := range f.Subs {
			if s.leaf() {
				leaves = append(leaves, s)
				continue
			}
			flush()
			out = append(out, s.entries(relField)...)
		}
		flush()
		return out
	}
	var parts []string
	for _, s := range f.Subs {
		parts = append(parts, s.GQL(relField))
	}
	return []string{f.Op + ": [" + strings.Join(parts, ", ") + "]"}
}

func (f c09cbF) GQL(relField string) string {
	return "{" + strings.Join(f.entries(relField), ", ") + "}"
}

const (
	cbFalse = iota
	cbTrue
	cbUnknown
)

// cbFK: the name of a leaf's field standing for the relation id field of the primary collection; its value is
// the NAME of a document of the secondary collection (or a list of names), resolved to docIDs at run time.
const cbFK = "$fk"

// cbResolveFK returns the leaves with every cbFK leaf rewritten to the real field name and docID values.
func cbResolveFK(leaves []c09cbF, fkField string, idOf func(name string) string) []c09cbF {
	out := make([]c09cbF, 0, len(leaves))
	for _, l := range leaves {
		if l.Field == cbFK {
			l.Field = fkField
			if names := mcList(l.Val); names != nil {
				var ids []any
				for _, n := range names {
					ids = append(ids, idOf(fmt.Sprint(n)))
				}
				l.Val = ids
			} else {
				l.Val = idOf(fmt.Sprint(l.Val))
			}
		}
		out = append(out, l)
	}
	return out
}

func cbPositive(op string) bool { return op != "_ne" && op != "_nin" }

func cbLeafHolds(l c09cbF, vals map[string]int64) bool {
	v := vals[l.Field]
	switch l.Op {
	case "_eq":
		return mcCmp(v, l.Val) == 0
	case "_ne":
		return mcCmp(v, l.Val) != 0
	case "_gt":
		return mcCmp(v, l.Val) > 0
	case "_ge":
		return mcCmp(v, l.Val) >= 0
	case "_lt":
		return mcCmp(v, l.Val) < 0
	case "_le":
		return mcCmp(v, l.Val) <= 0
	case "_in", "_nin":
		in := false
		for _, x := range mcList(l.Val) {
			if mcCmp(v, x) == 0 {
				in = true
			}
		}
		return in == (l.Op == "_in")
	}
	panic("C09 combined: unknown operator " + l.Op)
}

// eval: three-valued. A relation clause holds iff SOME live related document satisfies all its
// conditions; over NO related document it is false when every operator is positive (_eq, _gt, _in ..)
// and unknown otherwise (whether {_ne: 1} holds for a missing object is not documented).
func (f c09cbF) eval(own map[string]int64, rel []map[string]int64) int {
	return f.evalOpt(own, rel, false)
}

// evalOpt: ignoreOwn = every condition on the queried collection's own fields counts as satisfied (the
// model of a plan that lost them).
func (f c09cbF) evalOpt(own map[string]int64, rel []map[string]int64, ignoreOwn bool) int {
	switch f.Op {
	case "rel":
		if len(rel) == 0 {
			for _, l := range f.Subs {
				if !cbPositive(l.Op) {
					return cbUnknown
				}
			}
			return cbFalse
		}
		for _, r := range rel {
			all := true
			for _, l := range f.Subs {
				if !cbLeafHolds(l, r) {
					all = false
					break
				}
			}
			if all {
				return cbTrue
			}
		}
		return cbFalse
	case "all", "_and":
		res := cbTrue
		for _, s := range f.Subs {
			switch s.evalOpt(own, rel, ignoreOwn) {
			case cbFalse:
				return cbFalse
			case cbUnknown:
				res = cbUnknown
			}
		}
		return res
	case "_or":
		res := cbFalse
		for _, s := range f.Subs {
			switch s.evalOpt(own, rel, ignoreOwn) {
			case cbTrue:
				return cbTrue
			case cbUnknown:
				res = cbUnknown
			}
		}
		return res
	}
	if ignoreOwn || cbLeafHolds(f, own) {
		return cbTrue
	}
	return cbFalse
}

func (f c09cbF) has(op string) bool {
	if f.Op == op {
		return true
	}
	for _, s := range f.Subs {
		if s.has(op) {
			return true
		}
	}
	return false
}

// walk visits every node; inRel tells whether the node sits inside a relation clause.
func (f c09cbF) walk(inRel bool, fn func(n c09cbF, inRel bool)) {
	fn(f, inRel)
	for _, s := range f.Subs {
		s.walk(inRel || f.Op == "rel", fn)
	}
}

// relBesideListNamingRel: some filter object holds a relation clause AND an _and / _or list whose elements
// name the relation again ({rel: {..}, _and: [{rel: {..}}]}).
func (f c09cbF) relBesideListNamingRel() bool {
	if f.Op == "all" {
		rel, list := false, false
		for _, s := range f.Subs {
			if s.Op == "rel" {
				rel = true
			}
			if (s.Op == "_and" || s.Op == "_or") && s.has("rel") {
				list = true
			}
		}
		if rel && list {
			return true
		}
	}
	for _, s := range f.Subs {
		if s.relBesideListNamingRel() {
			return true
		}
	}
	return false
}

func (f c09cbF) skeleton() string {
	if f.leaf() {
		return f.Field + f.Op
	}
	var parts []string
	for _, s := range f.Subs {
		parts = append(parts, s.skeleton())
	}
	return f.Op + "(" + strings.Join(parts, ",") + ")"
}

// conjunctive: own leaves and relation clauses joined by filter objects / _and lists only; returns them.
func (f c09cbF) conjunctive() (own []c09cbF, rels []c09cbF, ok bool) {
	switch {
	case f.leaf():
		return []c09cbF{f}, nil, true
	case f.Op == "rel":
		return nil, []c09cbF{f}, true
	case f.Op == "all" || f.Op == "_and":
		for _, s := range f.Subs {
			o, r, k := s.conjunctive()
			if !k {
				return nil, nil, false
			}
			own, rels = append(own, o...), append(rels, r...)
		}
		return own, rels, true
	}
	return nil, nil, false
}

type c09cbReq struct {
	Side   string  `json:"side"` // primary: the collection holding the foreign key is queried | secondary
	F      *c09cbF `json:"filter,omitempty"`
	Ord    string  `json:"order_scope,omitempty"` // own | rel
	OrdF   string  `json:"order_field,omitempty"`
	Desc   bool    `json:"desc,omitempty"`
	Limit  int     `json:"limit,omitempty"`
	Render bool    `json:"render,omitempty"` // the relation is selected as well
	// SubF: conditions on the related collection's fields given as the filter OF THE RENDERED RELATION
	// (Col { rel(filter: {..}) { .. } }). When the request's filter holds a relation clause as well, that clause
	// sees the related documents that pass SubF (both plans of the database do so)
	SubF []c09cbF `json:"relation_filter,omitempty"`
}

func (q c09cbReq) uses() (ownLeaf, relClauses, relLeaves int, ownFields, relFields map[string]bool) {
	ownFields, relFields = map[string]bool{}, map[string]bool{}
	if q.F != nil {
		q.F.walk(false, func(n c09cbF, inRel bool) {
			switch {
			case n.Op == "rel":
				relClauses++
			case n.leaf() && inRel:
				relLeaves++
				relFields[n.Field] = true
			case n.leaf():
				ownLeaf++
				ownFields[n.Field] = true
			}
		})
	}
	switch q.Ord {
	case "own":
		ownFields[q.OrdF] = true
	case "rel":
		relFields[q.OrdF] = true
	}
	for _, l := range q.SubF {
		if l.Field != cbFK {
			relFields[l.Field] = true
		}
	}
	return
}

// shape: the combined shape the request belongs to (signature / coverage class).
func (q c09cbReq) shape() string {
	ownLeaf, relClauses, _, _, _ := q.uses()
	filt := ""
	switch {
	case ownLeaf > 0 && relClauses > 0:
		filt = "own-and-relation-filter"
	case relClauses > 0:
		filt = "relation-filter"
	case ownLeaf > 0:
		filt = "own-filter"
	}
	for _, l := range q.SubF {
		if l.Field == cbFK {
			return "related-objects-filtered-by-the-relation-id"
		}
	}
	if len(q.SubF) > 0 {
		ord := map[string]string{"": "", "own": "-and-own-order", "rel": "-and-relation-order"}[q.Ord]
		if filt == "" {
			return "filtered-related-object" + ord
		}
		return filt + "-and-filtered-related-object" + ord
	}
	switch q.Ord {
	case "rel":
		return filt + "-and-relation-order"
	case "own":
		return filt + "-and-own-order"
	}
	if filt == "relation-filter" {
		return "two-relation-conditions"
	}
	return filt
}

var c09cbShapeKinds = []string{"own-and-relation-filter", "two-relation-conditions", "relation-filter-and-relation-order", "own-filter-and-relation-order",
	"relation-filter-and-own-order", "own-and-relation-filter-and-relation-order", "own-and-relation-filter-and-own-order",
	"filtered-related-object", "own-filter-and-filtered-related-object", "relation-filter-and-filtered-related-object", "related-objects-filtered-by-the-relation-id"}

func (q c09cbReq) GQL(s c09cbShape) string {
	col, relField := s.CCol, s.CtoP
	relSel := fmt.Sprintf("%s { _docID v s }", s.CtoP)
	if q.Side == "secondary" {
		col, relField = s.PCol, s.PtoC
		relSel = fmt.Sprintf("%s { _docID w u }", s.PtoC)
	}
	var args []string
	if q.F != nil {
		args = append(args, "filter: "+q.F.GQL(relField))
	}
	dir := map[bool]string{false: "ASC", true: "DESC"}[q.Desc]
	switch q.Ord {
	case "own":
		args = append(args, fmt.Sprintf("order: {%s: %s}", q.OrdF, dir))
	case "rel":
		args = append(args, fmt.Sprintf("order: {%s: {%s: %s}}", relField, q.OrdF, dir))
	}
	if q.Limit > 0 {
		args = append(args, fmt.Sprintf("limit: %d", q.Limit))
	}
	sel := "_docID name"
	if len(q.SubF) > 0 {
		relSel = strings.Replace(relSel, " {", "(filter: "+cbConj(q.SubF)+") {", 1)
	}
	if q.Render || len(q.SubF) > 0 {
		sel += " " + relSel
	}
	if len(args) == 0 {
		return fmt.Sprintf("query { %s { %s } }", col, sel)
	}
	return fmt.Sprintf("query { %s(%s) { %s } }", col, strings.Join(args, ", "), sel)
}

type c09cbParams struct {
	Shape string     `json:"shape"`
	IxP   []string   `json:"index_secondary_fields"` // indexed fields of the secondary collection (v, s)
	IxC   []string   `json:"index_primary_fields"`   // indexed fields of the primary collection (w, u)
	FK    bool       `json:"fk_index"`
	Docs  []c09cbDoc `json:"docs"`
	Muts  []c09mcMut `json:"muts,omitempty"`
	Reqs  []c09cbReq `json:"requests"`
}

// indexClass: which of the fields the request names carry an index on the indexed twin.
func (q c09cbReq) indexClass(p c09cbParams, s c09cbShape) string {
	_, _, _, ownFields, relFields := q.uses()
	ownIx, relIx := p.IxC, p.IxP
	if q.Side == "secondary" {
		ownIx, relIx = p.IxP, p.IxC
	}
	if s.self() {
		ownIx = append(append([]string{}, p.IxP...), p.IxC...)
		relIx = ownIx
	}
	o, r := false, false
	for f := range ownFields {
		o = o || cbHas(ownIx, f)
	}
	for f := range relFields {
		r = r || cbHas(relIx, f)
	}
	switch {
	case o && r:
		return "own+related"
	case o:
		return "own"
	case r:
		return "related"
	}
	return "none"
}

// ---------------------------------------------------------------------------------------
// generators

// c09cbRequests: the systematic list used by the anchors: every combined shape, from both sides.
func c09cbRequests(s c09cbShape) []c09cbReq {
	var out []c09cbReq
	for _, side := range []string{"primary", "secondary"} {
		own, rel := c09cbFieldsOf[side], c09cbFieldsOf[map[string]string{"primary": "secondary", "secondary": "primary"}[side]]
		o1, o2, r1, r2 := own[0], own[1], rel[0], rel[1]
		f := func(x c09cbF) *c09cbF { return &x }
		reqs := []c09cbReq{
			// own-and-relation-filter
			{F: f(cbAll(cbLeaf(o1, "_gt", 1), cbRel(cbLeaf(r1, "_eq", 1))))},
			{F: f(cbAll(cbRel(cbLeaf(r1, "_in", []any{1, 2})), cbLeaf(o1, "_le", 2)))},
			{F: f(cbAll(cbLeaf(o1, "_eq", 2), cbRel(cbLeaf(r1, "_gt", 0))))},
			{F: f(cbAll(cbLeaf(o2, "_ge", 1), cbRel(cbLeaf(r2, "_le", 1))))},
			{F: f(cbAnd(cbLeaf(o1, "_ge", 1), cbRel(cbLeaf(r1, "_ge", 1))))},
			{F: f(cbOr(cbLeaf(o1, "_eq", 1), cbRel(cbLeaf(r1, "_eq", 2))))},
			{F: f(cbAll(cbLeaf(o2, "_ge", 1), cbOr(cbLeaf(o1, "_eq", 0), cbRel(cbLeaf(r1, "_le", 1)))))},
			{F: f(cbOr(cbAll(cbLeaf(o1, "_eq", 1), cbRel(cbLeaf(r1, "_ge", 1))), cbLeaf(o2, "_eq", 0)))},
			{F: f(cbAll(cbLeaf(o1, "_ne", 0), cbRel(cbLeaf(r1, "_ne", 1))))},
			{F: f(cbAll(cbLeaf(o1, "_ge", 1), cbLeaf(o1, "_le", 2), cbRel(cbLeaf(r1, "_ge", 1), cbLeaf(r1, "_le", 2))))},
			// two-relation-conditions
			{F: f(cbAll(cbRel(cbLeaf(r1, "_ge", 1), cbLeaf(r2, "_le", 1))))},
			{F: f(cbAnd(cbRel(cbLeaf(r1, "_ge", 1)), cbRel(cbLeaf(r2, "_ge", 1))))},
			{F: f(cbAll(cbRel(cbLeaf(r2, "_eq", 2)), cbAnd(cbRel(cbLeaf(r1, "_gt", 0)))))},
			{F: f(cbOr(cbRel(cbLeaf(r1, "_eq", 1)), cbRel(cbLeaf(r2, "_eq", 0))))},
			// relation-filter-and-own-order
			{F: f(cbAll(cbRel(cbLeaf(r1, "_gt", 0)))), Ord: "own", OrdF: o1, Desc: true},
			{F: f(cbAll(cbRel(cbLeaf(r1, "_eq", 1)))), Ord: "own", OrdF: o2, Limit: 2},
			{F: f(cbAll(cbRel(cbLeaf(r2, "_le", 2)))), Ord: "own", OrdF: o1},
			// own-and-relation-filter-and-own-order
			{F: f(cbAll(cbLeaf(o1, "_ge", 1), cbRel(cbLeaf(r1, "_ge", 1)))), Ord: "own", OrdF: o1, Desc: true},
			{F: f(cbAll(cbLeaf(o2, "_le", 1), cbRel(cbLeaf(r1, "_gt", 0)))), Ord: "own", OrdF: o1, Limit: 2},
		}
		reqs = append(reqs,
			// filtered-related-object / own-filter-and-filtered-related-object
			c09cbReq{SubF: []c09cbF{cbLeaf(r1, "_eq", 1)}},
			c09cbReq{SubF: []c09cbF{cbLeaf(r1, "_ge", 2)}},
			c09cbReq{SubF: []c09cbF{cbLeaf(r2, "_le", 1), cbLeaf(r1, "_ge", 1)}},
			c09cbReq{F: f(cbAll(cbLeaf(o1, "_ge", 1))), SubF: []c09cbF{cbLeaf(r1, "_in", []any{1, 2})}},
			c09cbReq{F: f(cbAll(cbLeaf(o2, "_le", 2))), SubF: []c09cbF{cbLeaf(r2, "_ne", 1)}},
			// relation-filter-and-filtered-related-object
			c09cbReq{F: f(cbAll(cbRel(cbLeaf(r1, "_ge", 1)))), SubF: []c09cbF{cbLeaf(r2, "_ge", 1)}},
			c09cbReq{F: f(cbAll(cbRel(cbLeaf(r1, "_eq", 1)))), SubF: []c09cbF{cbLeaf(r2, "_le", 1)}},
			c09cbReq{F: f(cbAll(cbRel(cbLeaf(r2, "_in", []any{1, 2})))), SubF: []c09cbF{cbLeaf(r1, "_eq", 2)}},
			c09cbReq{F: f(cbAll(cbRel(cbLeaf(r1, "_le", 2)))), SubF: []c09cbF{cbLeaf(r1, "_ge", 1)}},
		)
		if side == "secondary" {
			// related-objects-filtered-by-the-relation-id: the filter of the rendered relation constrains the relation id field itself
			reqs = append(reqs,
				c09cbReq{SubF: []c09cbF{cbLeaf(cbFK, "_eq", "p1")}},
				c09cbReq{SubF: []c09cbF{cbLeaf(cbFK, "_ne", "p0")}},
				c09cbReq{SubF: []c09cbF{cbLeaf(cbFK, "_in", []any{"p1", "p2"})}},
				c09cbReq{F: f(cbAll(cbLeaf(o1, "_ge", 1))), SubF: []c09cbF{cbLeaf(cbFK, "_eq", "p0"), cbLeaf(r1, "_ge", 1)}},
			)
		}
		if side == "primary" || !s.Many {
			// a list relation offers no order argument: these only where the relation is an object
			reqs = append(reqs,
				// relation-filter-and-relation-order
				c09cbReq{F: f(cbAll(cbRel(cbLeaf(r1, "_in", []any{1, 2})))), Ord: "rel", OrdF: r1, Desc: true},
				c09cbReq{F: f(cbAll(cbRel(cbLeaf(r1, "_eq", 1)))), Ord: "rel", OrdF: r1},
				c09cbReq{F: f(cbAll(cbRel(cbLeaf(r1, "_ge", 1)))), Ord: "rel", OrdF: r2},
				c09cbReq{F: f(cbAll(cbRel(cbLeaf(r2, "_le", 2)))), Ord: "rel", OrdF: r1, Desc: true, Limit: 2},
				c09cbReq{F: f(cbAll(cbRel(cbLeaf(r1, "_gt", 0)))), Ord: "rel", OrdF: r1, Limit: 1},
				c09cbReq{F: f(cbAll(cbRel(cbLeaf(r1, "_ne", 1)))), Ord: "rel", OrdF: r2, Desc: true},
				// own-filter-and-relation-order
				c09cbReq{F: f(cbAll(cbLeaf(o1, "_ge", 1))), Ord: "rel", OrdF: r1},
				c09cbReq{F: f(cbAll(cbLeaf(o1, "_in", []any{1, 2}))), Ord: "rel", OrdF: r2, Desc: true, Limit: 2},
				c09cbReq{F: f(cbAll(cbLeaf(o2, "_le", 1))), Ord: "rel", OrdF: r1, Desc: true},
				// own-and-relation-filter-and-relation-order
				c09cbReq{F: f(cbAll(cbLeaf(o1, "_ge", 1), cbRel(cbLeaf(r1, "_ge", 1)))), Ord: "rel", OrdF: r1, Desc: true},
				c09cbReq{F: f(cbAll(cbRel(cbLeaf(r1, "_le", 2)), cbLeaf(o1, "_gt", 0))), Ord: "rel", OrdF: r2, Limit: 2},
			)
		}
		for i := range reqs {
			reqs[i].Side = side
			reqs[i].Render = i%2 == 0
		}
		out = append(out, reqs...)
	}
	return out
}

var c09cbIntOps = []string{"_eq", "_eq", "_ne", "_gt", "_ge", "_lt", "_le", "_in", "_nin"}

func c09cbGenLeaf(rng *rand.Rand, field string) c09cbF {
	op := c09cbIntOps[rng.IntN(len(c09cbIntOps))]
	switch op {
	case "_in", "_nin":
		a := rng.IntN(4)
		return cbLeaf(field, op, []any{a, (a + 1 + rng.IntN(3)) % 4})
	case "_gt", "_ge":
		return cbLeaf(field, op, rng.IntN(2)+rng.IntN(2))
	case "_lt", "_le":
		return cbLeaf(field, op, 3-rng.IntN(2)-rng.IntN(2))
	}
	return cbLeaf(field, op, rng.IntN(4))
}

func c09cbGenReq(rng *rand.Rand, s c09cbShape, kind string) c09cbReq {
	q := c09cbReq{Side: []string{"primary", "secondary"}[rng.IntN(2)], Render: rng.IntN(2) == 0}
	if strings.HasSuffix(kind, "relation-order") && s.Many {
		q.Side = "primary"
	}
	own, rel := c09cbFieldsOf[q.Side], c09cbFieldsOf[map[string]string{"primary": "secondary", "secondary": "primary"}[q.Side]]
	of := func() string { return own[rng.IntN(2)] }
	rf := func() string { return rel[rng.IntN(2)] }
	ownL := func() c09cbF { return c09cbGenLeaf(rng, of()) }
	relC := func() c09cbF {
		if rng.IntN(4) == 0 {
			return cbRel(c09cbGenLeaf(rng, rel[0]), c09cbGenLeaf(rng, rel[1]))
		}
		return cbRel(c09cbGenLeaf(rng, rf()))
	}
	var f c09cbF
	switch {
	case strings.HasPrefix(kind, "own-and-relation-filter"):
		a, b := ownL(), relC()
		switch x := rng.IntN(20); {
		case x < 6:
			f = cbAll(a, b)
		case x < 10:
			f = cbAll(b, a)
		case x < 12:
			f = cbAnd(a, b)
		case x < 14:
			f = cbOr(a, b)
		case x < 16:
			f = cbAll(ownL(), cbOr(a, b))
		case x < 17:
			f = cbOr(cbAll(a, b), ownL())
		case x < 18:
			f = cbAll(b, cbAnd(a, ownL()))
		case x < 19:
			f = cbAnd(cbOr(a, ownL()), b)
		default:
			other := own[0]
			if a.Field == other {
				other = own[1]
			}
			f = cbAll(a, c09cbGenLeaf(rng, other), b)
		}
	case kind == "two-relation-conditions" || (strings.HasPrefix(kind, "relation-filter") && !strings.HasSuffix(kind, "related-object")):
		a, b := c09cbGenLeaf(rng, rel[0]), c09cbGenLeaf(rng, rel[1])
		switch x := rng.IntN(10); {
		case kind != "two-relation-conditions" && x < 6:
			f = cbAll(relC())
		case x < 6:
			if rng.IntN(2) == 0 {
				a, b = b, a
			}
			f = cbAll(cbRel(a, b))
		case x < 8:
			f = cbAnd(cbRel(a), cbRel(b))
		case x < 9:
			f = cbAll(cbRel(a), cbAnd(cbRel(b)))
		default:
			f = cbOr(cbRel(a), cbRel(b))
		}
	case kind == "filtered-related-object":
		q.SubF = relC().Subs
		return q
	case kind == "relation-filter-and-filtered-related-object":
		// positive operators only: whether the join is inverted then depends on the indexes alone
		pos := func() c09cbF {
			l := c09cbGenLeaf(rng, rf())
			for !cbPositive(l.Op) {
				l = c09cbGenLeaf(rng, rf())
			}
			return l
		}
		f = cbAll(cbRel(pos()))
		q.F = &f
		q.SubF = []c09cbF{pos()}
		return q
	case kind == "related-objects-filtered-by-the-relation-id":
		q.Side = "secondary"
		pn := func() string { return fmt.Sprintf("p%d", rng.IntN(4)) }
		switch rng.IntN(4) {
		case 0:
			q.SubF = []c09cbF{cbLeaf(cbFK, "_ne", pn())}
		case 1:
			q.SubF = []c09cbF{cbLeaf(cbFK, "_in", []any{pn(), pn()})}
		case 2:
			q.SubF = []c09cbF{cbLeaf(cbFK, "_eq", pn()), c09cbGenLeaf(rng, []string{"w", "u"}[rng.IntN(2)])}
		default:
			q.SubF = []c09cbF{cbLeaf(cbFK, "_eq", pn())}
		}
		return q
	default: // own-filter-...
		if strings.HasSuffix(kind, "filtered-related-object") {
			q.SubF = relC().Subs
		}
		f = cbAll(ownL())
		if rng.IntN(3) == 0 {
			f = cbAll(c09cbGenLeaf(rng, own[0]), c09cbGenLeaf(rng, own[1]))
		}
	}
	q.F = &f
	switch {
	case strings.HasSuffix(kind, "relation-order"):
		q.Ord, q.OrdF = "rel", rf()
	case strings.HasSuffix(kind, "own-order"):
		q.Ord, q.OrdF = "own", of()
	}
	if q.Ord != "" {
		q.Desc = rng.IntN(2) == 0
		if rng.IntN(3) == 0 {
			q.Limit = 1 + rng.IntN(3)
		}
	}
	return q
}

// c09cbAnchorData: complete = every document has a related document (no orphan, no childless parent).
//
//	p0 (v1 s2): c0 (w1 u0)  c1 (w2 u2)      p1 (v2 s1): c2 (w1 u2)  c3 (w2 u0)
//	p2 (v1 s0): c4 (w3 u1)  c5 (w0 u2)      p3 (v2 s3): c6 (w2 u1)
//	incomplete adds p4 (v3 s1, no children), p5 (v0 s2): c7 (w3 u3)  and the orphans c8 (w2 u2), c9 (w1 u1)
func c09cbAnchorData(s c09cbShape, complete bool) []c09cbDoc {
	if s.self() {
		// few bosses with several reports; every document carries all four fields
		docs := []c09cbDoc{
			{Col: "P", Name: "p0", V: 1, S: 2, W: 2, U: 1}, {Col: "P", Name: "p1", V: 2, S: 1, W: 1, U: 0, To: "p0"}, {Col: "P", Name: "p2", V: 1, S: 0, W: 2, U: 2, To: "p0"},
			{Col: "P", Name: "p3", V: 2, S: 3, W: 1, U: 2, To: "p1"}, {Col: "P", Name: "p4", V: 0, S: 1, W: 3, U: 1, To: "p1"}, {Col: "P", Name: "p5", V: 3, S: 2, W: 0, U: 2, To: "p2"},
			{Col: "P", Name: "p6", V: 1, S: 1, W: 2, U: 0, To: "p2"}, {Col: "P", Name: "p7", V: 2, S: 2, W: 2, U: 3, To: "p0"},
		}
		if !complete {
			docs = append(docs, c09cbDoc{Col: "P", Name: "p8", V: 1, S: 3, W: 1, U: 1}, c09cbDoc{Col: "P", Name: "p9", V: 2, S: 0, W: 3, U: 2, To: "p8"})
		}
		return docs
	}
	docs := []c09cbDoc{{Col: "P", Name: "p0", V: 1, S: 2}, {Col: "P", Name: "p1", V: 2, S: 1}, {Col: "P", Name: "p2", V: 1, S: 0}, {Col: "P", Name: "p3", V: 2, S: 3}}
	kids := []c09cbDoc{
		{Col: "C", Name: "c0", W: 1, U: 0, To: "p0"}, {Col: "C", Name: "c1", W: 2, U: 2, To: "p0"}, {Col: "C", Name: "c2", W: 1, U: 2, To: "p1"}, {Col: "C", Name: "c3", W: 2, U: 0, To: "p1"},
		{Col: "C", Name: "c4", W: 3, U: 1, To: "p2"}, {Col: "C", Name: "c5", W: 0, U: 2, To: "p2"}, {Col: "C", Name: "c6", W: 2, U: 1, To: "p3"},
	}
	if !s.Many {
		kids = []c09cbDoc{kids[1], kids[2], kids[4], kids[6]}
	}
	if !complete {
		docs = append(docs, c09cbDoc{Col: "P", Name: "p4", V: 3, S: 1}, c09cbDoc{Col: "P", Name: "p5", V: 0, S: 2})
		kids = append(kids, c09cbDoc{Col: "C", Name: "c7", W: 3, U: 3, To: "p5"}, c09cbDoc{Col: "C", Name: "c8", W: 2, U: 2}, c09cbDoc{Col: "C", Name: "c9", W: 1, U: 1})
	}
	return append(docs, kids...)
}

func c09cbAnchorMuts(s c09cbShape) []c09mcMut {
	if s.self() {
		return []c09mcMut{{Kind: "set", Col: "P", Doc: "p1", Field: "v", IVal: 1}, {Kind: "set", Col: "P", Doc: "p3", Field: "w", IVal: 2},
			{Kind: "relink", Col: "P", Doc: "p6", To: "p1"}, {Kind: "delete", Col: "P", Doc: "p5"}}
	}
	muts := []c09mcMut{
		{Kind: "set", Col: "P", Doc: "p1", Field: "v", IVal: 1}, {Kind: "set", Col: "C", Doc: "c2", Field: "w", IVal: 3},
		{Kind: "set", Col: "P", Doc: "p2", Field: "s", IVal: 2}, {Kind: "set", Col: "C", Doc: "c4", Field: "u", IVal: 0},
	}
	if s.Many {
		muts = append(muts, c09mcMut{Kind: "relink", Col: "C", Doc: "c5", To: "p3"}, c09mcMut{Kind: "delete", Col: "C", Doc: "c0"})
	}
	return muts
}

func c09cbGenData(rng *rand.Rand, s c09cbShape, complete bool) []c09cbDoc {
	val := func() int { return rng.IntN(4) }
	var docs []c09cbDoc
	if s.self() {
		n := 7 + rng.IntN(4)
		for i := 0; i < n; i++ {
			to := ""
			if i > 0 && (complete || rng.IntN(10) < 8) {
				to = fmt.Sprintf("p%d", rng.IntN(min(i, 3)))
			}
			docs = append(docs, c09cbDoc{Col: "P", Name: fmt.Sprintf("p%d", i), V: val(), S: val(), W: val(), U: val(), To: to})
		}
		return docs
	}
	nP := 3 + rng.IntN(3)
	for i := 0; i < nP; i++ {
		docs = append(docs, c09cbDoc{Col: "P", Name: fmt.Sprintf("p%d", i), V: val(), S: val()})
	}
	var cs []c09cbDoc
	k := 0
	for i := 0; i < nP; i++ {
		n := []int{0, 1, 2, 2, 3}[rng.IntN(5)]
		if complete && n == 0 {
			n = 1
		}
		if !s.Many {
			n = min(n, 1)
		}
		for j := 0; j < n; j++ {
			cs = append(cs, c09cbDoc{Col: "C", Name: fmt.Sprintf("c%d", k), W: val(), U: val(), To: fmt.Sprintf("p%d", i)})
			k++
		}
	}
	if !complete {
		for j, n := 0, 1+rng.IntN(2); j < n; j++ {
			cs = append(cs, c09cbDoc{Col: "C", Name: fmt.Sprintf("c%d", k), W: val(), U: val()})
			k++
		}
	}
	rng.Shuffle(len(cs), func(i, j int) { cs[i], cs[j] = cs[j], cs[i] })
	return append(docs, cs...)
}

func c09cbGenMuts(rng *rand.Rand, s c09cbShape, docs []c09cbDoc) []c09mcMut {
	var parents, children []string
	for _, d := range docs {
		if d.Col == s.CCol {
			children = append(children, d.Name)
		}
		if d.Col == s.PCol {
			parents = append(parents, d.Name)
		}
	}
	var muts []c09mcMut
	for i, n := 0, 2+rng.IntN(3); i < n; i++ {
		switch x := rng.IntN(10); {
		case x < 3:
			muts = append(muts, c09mcMut{Kind: "set", Col: s.CCol, Doc: children[rng.IntN(len(children))], Field: []string{"w", "u"}[rng.IntN(2)], IVal: rng.IntN(4)})
		case x < 6:
			muts = append(muts, c09mcMut{Kind: "set", Col: s.PCol, Doc: parents[rng.IntN(len(parents))], Field: []string{"v", "s"}[rng.IntN(2)], IVal: rng.IntN(4)})
		case x < 8:
			muts = append(muts, c09mcMut{Kind: "relink", Col: s.CCol, Doc: children[rng.IntN(len(children))], To: parents[rng.IntN(len(parents))]})
		case x < 9:
			muts = append(muts, c09mcMut{Kind: "delete", Col: s.CCol, Doc: children[rng.IntN(len(children))]})
		default:
			muts = append(muts, c09mcMut{Kind: "delete", Col: s.PCol, Doc: parents[rng.IntN(len(parents))]})
		}
	}
	return muts
}

type c09cbIx struct {
	P, C []string
	FK   bool
}

func (x c09cbIx) tag() string {
	var parts []string
	for _, f := range x.P {
		parts = append(parts, "secondary."+f)
	}
	for _, f := range x.C {
		parts = append(parts, "primary."+f)
	}
	if x.FK {
		parts = append(parts, "fk")
	}
	return strings.Join(parts, "+")
}

func c09cbCases(seed uint64, tier string) (anchors, random []core.Case) {
	// index configurations of the anchors: related side only, own side only, both, every field, with / without the foreign key
	configs := []c09cbIx{
		{P: []string{"v"}}, {C: []string{"w"}}, {P: []string{"v"}, C: []string{"w"}}, {P: []string{"v", "s"}}, {C: []string{"w", "u"}},
		{P: []string{"v", "s"}, C: []string{"w", "u"}, FK: true}, {P: []string{"s"}, C: []string{"u"}, FK: true},
	}
	for _, shape := range c09cbShapeNames {
		s := c09cbShapes[shape]
		for ci, x := range configs {
			if shape == "self-many" && ci%2 == 1 {
				continue
			}
			for _, complete := range []bool{true, false} {
				if shape != "one-many" && complete != (ci%2 == 0) {
					continue
				}
				p := c09cbParams{Shape: shape, IxP: x.P, IxC: x.C, FK: x.FK, Docs: c09cbAnchorData(s, complete), Reqs: c09cbRequests(s)}
				if ci%3 == 0 {
					p.Muts = c09cbAnchorMuts(s)
				}
				anchors = append(anchors, core.MkCase(fmt.Sprintf("anchor-combined/%s/index-on-%s/%s", shape, x.tag(), map[bool]string{true: "complete", false: "with-unrelated-documents"}[complete]), 1, p))
			}
		}
	}
	rng := rand.New(rand.NewPCG(seed, 9093))
	for i, n := 0, tierN(tier, 96, 2400); i < n; i++ {
		shape := []string{"one-many", "one-one", "one-many", "self-many"}[i%4]
		s := c09cbShapes[shape]
		r := rand.New(rand.NewPCG(rng.Uint64(), 93))
		var x c09cbIx
		for _, f := range []string{"v", "s"} {
			if r.IntN(2) == 0 {
				x.P = append(x.P, f)
			}
		}
		for _, f := range []string{"w", "u"} {
			if r.IntN(2) == 0 {
				x.C = append(x.C, f)
			}
		}
		x.FK = r.IntN(3) == 0
		if len(x.P)+len(x.C) == 0 {
			x.P = []string{"v"}
		}
		p := c09cbParams{Shape: shape, IxP: x.P, IxC: x.C, FK: x.FK, Docs: c09cbGenData(r, s, r.IntN(2) == 0)}
		if r.IntN(2) == 0 {
			p.Muts = c09cbGenMuts(r, s, p.Docs)
		}
		for j, m := 0, 14+r.IntN(5); j < m; j++ {
			p.Reqs = append(p.Reqs, c09cbGenReq(r, s, c09cbShapeKinds[(i+j)%len(c09cbShapeKinds)]))
		}
		random = append(random, core.MkCase("combined/"+shape, rng.Uint64(), p))
	}
	return anchors, random
}

var c09cbFloors = func() []string {
	fl := []string{"combined_requests", "combined_requests_after_mutations", "combined_sides_agreement_checks", "combined_inverted_join_plans_observed",
		"combined_nesting_or", "combined_nesting_and", "combined_order_on_the_filtered_related_field", "combined_order_on_another_related_field",
		"combined_order_asc", "combined_order_desc", "combined_with_limit", "combined_relation_rendered", "combined_relation_not_rendered",
		"combined_rows_without_related_document_in_play", "combined_two_operators_on_one_field"}
	for _, k := range c09cbShapeKinds {
		k = strings.ReplaceAll(k, "-", "_")
		if strings.HasPrefix(k, "related_objects_filtered_by") {
			fl = append(fl, "combined_"+k, "combined_"+k+"_one_to_many", "combined_"+k+"_one_to_one")
			continue
		}
		fl = append(fl, "combined_"+k, "combined_"+k+"_primary_side", "combined_"+k+"_one_to_many", "combined_"+k+"_one_to_one", "combined_"+k+"_index_on_related", "combined_"+k+"_index_on_none")
		if strings.Contains(k, "own") { // shapes that name a field of the queried collection
			fl = append(fl, "combined_"+k+"_index_on_own", "combined_"+k+"_index_on_own+related")
		}
		fl = append(fl, "combined_"+k+"_secondary_side")
	}
	for _, n := range c09cbShapeNames {
		fl = append(fl, "combined_relation_"+n)
	}
	return fl
}()

// ---------------------------------------------------------------------------------------
// execution

type c09cbEnv struct {
	ctx   context.Context
	r     *core.Rec
	p     c09cbParams
	s     c09cbShape
	twins [2]*c09Twin
	ids   map[string]string // "Col/name" -> docID
}

type c09cbRow struct {
	id, name, fk string
	vals         map[string]int64
}

func c09cbRun(ctx context.Context, c core.Case, r *core.Rec) {
	var p c09cbParams
	c.P(&p)
	s, known := c09cbShapes[p.Shape]
	if !known {
		panic("C09 combined: unknown shape " + p.Shape)
	}
	e := &c09cbEnv{ctx: ctx, r: r, p: p, s: s, ids: map[string]string{}}
	for i, tag := range []string{"plain", "indexed"} {
		n := core.NewNode(ctx, core.NodeOpts{})
		defer n.Close()
		sdl := s.SDL(nil, nil, false)
		if i == 1 {
			sdl = s.SDL(p.IxP, p.IxC, p.FK)
		}
		_, err := n.DB.AddSchema(ctx, sdl)
		core.Must(err)
		e.twins[i] = &c09Twin{tag: tag, n: n, ex: &qsem.Exec{Ctx: ctx, N: n, R: r, Kind: c.Kind}}
	}
	r.Count("combined_relation_"+p.Shape, 1)
	if !e.load() {
		return
	}
	r.Count("evaluations", 1)
	e.round("after loading", nil)
	if len(p.Muts) > 0 && !e.hung() {
		applied := 0
		for _, m := range p.Muts {
			if e.mutate(m) {
				applied++
			}
		}
		if applied > 0 && !e.hung() {
			r.Count("evaluations", 1)
			e.round(fmt.Sprintf("after %d mutations", len(p.Muts)), p.Muts)
		}
	}
	if !e.hung() {
		e.explain()
	}
	if c.Index%40 == 0 {
		var qs []string
		for _, q := range p.Reqs {
			qs = append(qs, q.GQL(s))
		}
		r.Sample(map[string]any{"kind": c.Kind, "sdl_indexed": s.SDL(p.IxP, p.IxC, p.FK), "docs": p.Docs, "muts": p.Muts, "requests": qs})
	}
}

func (e *c09cbEnv) hung() bool { return e.twins[0].ex.Hung || e.twins[1].ex.Hung }

func (e *c09cbEnv) sdl(ti int) string {
	if ti == 0 {
		return e.s.SDL(nil, nil, false)
	}
	return e.s.SDL(e.p.IxP, e.p.IxC, e.p.FK)
}

func (e *c09cbEnv) load() bool {
	for _, d := range e.p.Docs {
		m := map[string]any{"name": d.Name, "v": d.V, "s": d.S, "w": d.W, "u": d.U}
		if d.To != "" && d.Col == e.s.CCol {
			if id := e.ids[e.s.PCol+"/"+d.To]; id != "" {
				m[e.s.CtoP+"_id"] = id
			}
		}
		var newID [2]string
		for i, tw := range e.twins {
			col := tw.n.Col(e.ctx, d.Col)
			err, pn, hung := tw.ex.Guard("create", func() error {
				doc, err := client.NewDocFromMap(m, col.Definition())
				if err != nil {
					return err
				}
				newID[i] = doc.ID().String()
				return col.Create(e.ctx, doc)
			})
			switch {
			case hung:
				return false
			case pn != "":
				e.r.Violate("write-panic/create/"+tw.tag+"/"+qsem.PanicSig(pn), "a local write panicked: "+qsem.FirstLine(pn), map[string]any{"doc": d, "twin": tw.tag, "stack": pn})
				return false
			case err != nil:
				e.r.Violate("combined/load-failed/"+tw.tag, "creating a document of the data set failed: "+err.Error(), map[string]any{"doc": d, "params": e.p})
				return false
			}
		}
		if newID[0] != newID[1] {
			e.r.Violate("twin/docid-differs", "the same document gets different docIDs on the twins", map[string]any{"doc": d, "ids": newID})
			return false
		}
		e.ids[d.Col+"/"+d.Name] = newID[0]
	}
	return true
}

func (e *c09cbEnv) mutate(m c09mcMut) bool {
	id := e.ids[m.Col+"/"+m.Doc]
	if id == "" {
		return false
	}
	var outcome, errText [2]string
	for i, tw := range e.twins {
		col := tw.n.Col(e.ctx, m.Col)
		err, pn, hung := tw.ex.Guard(m.Kind, func() error {
			docID, err := client.NewDocIDFromString(id)
			if err != nil {
				return err
			}
			if m.Kind == "delete" {
				ok, err := col.Delete(e.ctx, docID)
				if err == nil && !ok {
					return fmt.Errorf("delete returned false")
				}
				return err
			}
			doc, err := col.Get(e.ctx, docID, false)
			if err != nil {
				return err
			}
			if m.Kind == "relink" {
				var v any
				if pid := e.ids[e.s.PCol+"/"+m.To]; pid != "" {
					v = pid
				}
				err = doc.Set(e.s.CtoP+"_id", v)
			} else {
				err = doc.Set(m.Field, m.IVal)
			}
			if err != nil {
				return err
			}
			return col.Update(e.ctx, doc)
		})
		switch {
		case hung:
			return false
		case pn != "":
			e.r.Violate("write-panic/"+m.Kind+"/"+tw.tag+"/"+qsem.PanicSig(pn), "a local write panicked: "+qsem.FirstLine(pn), map[string]any{"mutation": m, "twin": tw.tag, "stack": pn, "params": e.p})
			outcome[i] = "panic"
		case err != nil:
			outcome[i], errText[i] = "error", err.Error()
		default:
			outcome[i] = "ok"
		}
	}
	if outcome[0] != outcome[1] {
		e.r.Violate("twin/write-outcome-differs/"+m.Kind, fmt.Sprintf("the same write ends differently on the twins: plain=%s indexed=%s", outcome[0], outcome[1]),
			map[string]any{"mutation": m, "errors": errText, "params": e.p})
	}
	return outcome[0] == "ok"
}

// cbKeyLess: nil (no related document) sorts first ascending.
func cbKeyCmp(a, b *int64) int {
	switch {
	case a == nil && b == nil:
		return 0
	case a == nil:
		return -1
	case b == nil:
		return 1
	case *a < *b:
		return -1
	case *a > *b:
		return 1
	}
	return 0
}

func cbKeyStr(k *int64) string {
	if k == nil {
		return "null"
	}
	return fmt.Sprint(*k)
}

// c09cbSigRelBesideList: a filter object that holds a relation clause next to an _and / _or list naming the
// same relation ({p: {v: ..}, _and: [{p: {s: ..}}]}): the related collection's fields needed by the clause in
// the list are fetched or not depending on the iteration order of a Go map (mapper.resolveInnerFilterDependencies),
// so the answer varies between executions; seen on either twin, with any symptom.
// c09cbSigOwnLost: primary side queried, join inverted through an index on the related collection: the
// per-related-document lookup of the host documents (primaryObjectsRetriever.retrievePrimaryDocs) replaces the
// host scan's filter, the conditions on the host's own fields are never applied.
const c09cbSigOwnLost = "combined/primary-side/inverted-join/own-field-condition-not-applied/indexed"

// c09cbSigLookupSecondary / c09cbSigLookupPrimary: the related (or host) document of a join is looked up by docID
// (fetchDocWithIDAndItsSubDocs) through a scan that was given a secondary index - for a condition / order on one
// of its own indexed fields -, and the index fetcher ignores the docID prefix: the first document of the index
// is paired with every lookup. Seen (secondary) on an inverted join whose host scan is index-served: duplicate /
// wrong / missing host documents; (primary) on a plain join whose rendered related object carries a filter on
// an indexed field: every document shows the same related object.
const c09cbSigLookupSecondary = "combined/secondary-side/inverted-join/host-document-looked-up-through-index-on-own-field/indexed"
const c09cbSigLookupPrimary = "combined/primary-side/filtered-related-object/related-document-looked-up-through-index-on-filtered-field/indexed"

// c09cbSigSubFilterOnRelationID: Parent { children(filter: {parent_id: {..}}) }: the join adds its own condition
// on the relation id field to the sub-selection's filter and REMOVES the one the request holds (addFilterOnIDField),
// so the requested condition is never applied; the child-side query Child(filter: {parent_id: ..}) applies it.
const c09cbSigSubFilterOnRelationID = "sub-selection-filter/condition-on-the-relation-id-field/replaced-by-the-join-condition"

// c09cbSigSubFilterUnderInversion (prefixed with the side): Col(filter: {rel: {f: ..}}) { rel(filter: {g: ..}) } with an index
// on f: the inversion replaces the related collection's scan filter - the rendered relation's own filter - by the index
// filter. From the primary side the saved filter is then applied to the HOST scan (wrong collection), from the secondary side
// of a one-to-one relation it is not applied at all.
const c09cbSigSubFilterUnderInversion = "filter-of-the-rendered-relation-not-applied-to-the-related-documents/indexed"

const c09cbSigRelBesideList = "filter-through-relation/relation-clause-beside-and-or-list-naming-the-same-relation/answer-differs-from-the-listings-or-between-executions"

type c09cbAnswer struct {
	ok, flagged bool
	canon, req  string
	sig         string // shape/side/.../class of the request, for the twin signature
	// unrelatedRows: rows without related document in the answer; relatedOnly: (indexed twin, ordered through the
	// relation by an indexed related field) the answer is exactly the reference restricted to the documents
	// that HAVE a related document - the symptom of the known finding about order served by the inverted join
	unrelatedRows int
	relatedOnly   bool
}

func (e *c09cbEnv) round(when string, muts []c09mcMut) {
	s := e.s
	fkField := s.CtoP + "_id"
	answers := [2][]*c09cbAnswer{make([]*c09cbAnswer, len(e.p.Reqs)), make([]*c09cbAnswer, len(e.p.Reqs))}
	for ti, tw := range e.twins {
		// ground truth: the plain listings of this twin
		dump := func(col string, withFK bool) ([]c09cbRow, bool) {
			sel := "_docID name v s w u"
			if withFK {
				sel += " " + fkField
			}
			res := tw.ex.Do(fmt.Sprintf(`query { %s { %s } }`, col, sel))
			if !res.OK() {
				if len(res.Errs) > 0 {
					e.r.Violate("valid-request-rejected/"+tw.tag, "a plain listing was answered with an error: "+res.Errs[0], map[string]any{"collection": col, "params": e.p})
				}
				return nil, false
			}
			var out []c09cbRow
			for _, row := range res.Rows(col) {
				r := c09cbRow{id: mcStr(row["_docID"]), name: mcStr(row["name"]), fk: mcStr(row[fkField]), vals: map[string]int64{}}
				for _, f := range []string{"v", "s", "w", "u"} {
					r.vals[f] = mcInt(row[f])
				}
				out = append(out, r)
			}
			return out, true
		}
		crows, ok1 := dump(s.CCol, true)
		prows := crows
		ok2 := true
		if !s.self() {
			prows, ok2 = dump(s.PCol, false)
		}
		if !ok1 || !ok2 {
			continue
		}
		liveP := map[string]c09cbRow{}
		name := map[string]string{}
		for _, p := range prows {
			liveP[p.id] = p
			name[p.id] = p.name
		}
		kidsOf := map[string][]c09cbRow{}
		for _, c := range crows {
			name[c.id] = c.name
			if _, live := liveP[c.fk]; live && c.fk != "" {
				kidsOf[c.fk] = append(kidsOf[c.fk], c)
			}
		}
		names := func(ids []string) []string {
			out := make([]string, 0, len(ids))
			for _, id := range ids {
				if n, ok := name[id]; ok {
					out = append(out, n)
				} else {
					out = append(out, id)
				}
			}
			return out
		}
		// related: the live related documents of a row of the queried side
		related := func(side string, row c09cbRow) []c09cbRow {
			if side == "primary" {
				if p, live := liveP[row.fk]; live && row.fk != "" {
					return []c09cbRow{p}
				}
				return nil
			}
			return kidsOf[row.id]
		}
		for qi, q := range e.p.Reqs {
			rowsOfSide := crows
			col, relField := s.CCol, s.CtoP
			if q.Side == "secondary" {
				rowsOfSide, col, relField = prows, s.PCol, s.PtoC
			}
			shape := q.shape()
			if len(q.SubF) > 0 {
				q.SubF = cbResolveFK(q.SubF, fkField, func(n string) string {
					if id := e.ids[s.PCol+"/"+n]; id != "" {
						return id
					}
					return "bae-00000000-0000-5000-8000-000000000000" // a name the data set does not hold
				})
			}
			class := "none"
			if ti == 1 {
				class = q.indexClass(e.p, s)
			}
			req := q.GQL(s)
			// a defect of its own (not tied to a plan): see c09cbSigRelBesideList
			besideList := q.F != nil && q.F.relBesideListNamingRel()
			_, relClauses, _, _, _ := q.uses()
			relIx := e.p.IxP // the indexed fields of the related collection
			if q.Side == "secondary" {
				relIx = e.p.IxC
			}
			if s.self() {
				relIx = append(append([]string{}, e.p.IxP...), e.p.IxC...)
			}
			subFIndexed, clauseIndexed := false, false
			for _, l := range q.SubF {
				subFIndexed = subFIndexed || cbHas(relIx, l.Field)
			}
			if q.F != nil {
				q.F.walk(false, func(n c09cbF, inRel bool) {
					if n.leaf() && inRel && cbHas(relIx, n.Field) {
						clauseIndexed = true
					}
				})
			}
			sigOf := func(symptom string) string {
				if besideList && symptom != "valid-request-rejected" {
					return c09cbSigRelBesideList
				}
				if shape == "related-objects-filtered-by-the-relation-id" && symptom == "wrong-related-document-rendered" {
					return c09cbSigSubFilterOnRelationID
				}
				if ti == 1 && symptom != "valid-request-rejected" && symptom != "sides-disagree" {
					if len(q.SubF) > 0 && relClauses > 0 && clauseIndexed {
						return "combined/" + q.Side + "-side/inverted-join/" + c09cbSigSubFilterUnderInversion
					}
					if q.Side == "secondary" && class == "own+related" && (relClauses > 0 || q.Ord == "rel") {
						return c09cbSigLookupSecondary
					}
					if q.Side == "primary" && subFIndexed {
						return c09cbSigLookupPrimary
					}
				}
				return fmt.Sprintf("combined/%s/%s-side/%s/index-on-%s/%s", shape, q.Side, symptom, class, tw.tag)
			}
			a := &c09cbAnswer{req: req, sig: fmt.Sprintf("twin/combined/%s/%s-side/indexed-differs-from-plain/index-on-%s", shape, q.Side, class)}
			if q.Side == "secondary" && class == "own+related" && (relClauses > 0 || q.Ord == "rel") {
				a.sig = c09cbSigLookupSecondary
			}
			if len(q.SubF) > 0 && relClauses > 0 && clauseIndexed {
				a.sig = "combined/" + q.Side + "-side/inverted-join/" + c09cbSigSubFilterUnderInversion
			}
			if besideList {
				a.sig = c09cbSigRelBesideList
			}
			if shape == "related-objects-filtered-by-the-relation-id" {
				a.sig = c09cbSigSubFilterOnRelationID
			}
			answers[ti][qi] = a
			if ti == 1 {
				e.cover(q, shape, class, muts != nil)
			}
			detail := func(extra map[string]any) map[string]any {
				extra["request"], extra["when"], extra["twin"], extra["relation"], extra["sdl"] = req, when, tw.tag, s.Name, e.sdl(ti)
				extra["indexed_fields"] = c09cbIx{P: e.p.IxP, C: e.p.IxC, FK: e.p.FK}.tag()
				extra["docs"], extra["mutations_applied"] = e.p.Docs, muts
				return extra
			}
			viol := func(symptom, msg string, extra map[string]any) {
				a.flagged = true
				e.r.Violate(sigOf(symptom), msg, detail(extra))
			}
			res := tw.ex.Do(req)
			if res.Panic != "" || res.Hang {
				a.flagged = true
				if res.Hang {
					return
				}
				continue
			}
			if len(res.Errs) > 0 {
				a.ok, a.canon = true, "ERR "+res.Errs[0]
				viol("valid-request-rejected", "a well-formed combined relation request was answered with an error: "+res.Errs[0], map[string]any{})
				continue
			}
			rows := res.Rows(col)
			a.ok = true
			sideByID := map[string]c09cbRow{}
			for _, row := range rowsOfSide {
				sideByID[row.id] = row
			}
			// reference
			verdict := map[string]int{}
			keyOf := map[string]*int64{}
			anyUnknown, unrelatedInPlay := false, false
			var wantTrue []string
			for _, row := range rowsOfSide {
				rel := related(q.Side, row)
				if len(q.SubF) > 0 && relClauses > 0 {
					// the relation clause of the filter sees the related documents that pass the rendered relation's own filter
					kept := rel[:0:0]
					for _, r := range rel {
						pass := true
						for _, l := range q.SubF {
							pass = pass && l.Field != fkField && cbLeafHolds(l, r.vals)
						}
						if pass {
							kept = append(kept, r)
						}
					}
					rel = kept
				}
				var relVals []map[string]int64
				for _, r := range rel {
					relVals = append(relVals, r.vals)
				}
				v := cbTrue
				if q.F != nil {
					v = q.F.eval(row.vals, relVals)
				}
				verdict[row.id] = v
				switch v {
				case cbTrue:
					wantTrue = append(wantTrue, row.id)
				case cbUnknown:
					anyUnknown = true
				}
				if len(rel) == 0 && v != cbFalse {
					unrelatedInPlay = true
				}
				switch q.Ord {
				case "own":
					k := row.vals[q.OrdF]
					keyOf[row.id] = &k
				case "rel":
					if len(rel) > 0 {
						k := rel[0].vals[q.OrdF]
						keyOf[row.id] = &k
					}
				}
			}
			if ti == 0 && unrelatedInPlay {
				e.r.Count("combined_rows_without_related_document_in_play", 1)
			}
			var got []string
			for _, row := range rows {
				got = append(got, mcStr(row["_docID"]))
			}
			// canonical answer for the twin comparison: ordered requests by key sequence (ties may permute)
			if q.Ord != "" {
				var ks []string
				for _, id := range got {
					ks = append(ks, cbKeyStr(keyOf[id]))
				}
				a.canon = strings.Join(ks, ",")
				if q.Limit == 0 {
					a.canon += " {" + edgesStr(got) + "}"
				}
			} else {
				a.canon = edgesStr(got)
			}
			if len(wantTrue) > 0 && len(wantTrue) < len(rowsOfSide) && ti == 0 {
				e.r.Nontrivial(fmt.Sprintf("combined|%s|%s|%s|%s|%s|ord=%s%v|lim=%v", s.Name, shape, q.Side, c09cbIx{P: e.p.IxP, C: e.p.IxC, FK: e.p.FK}.tag(), q.F.skeleton(), q.Ord, q.Desc, q.Limit > 0))
			}
			// 1. a row twice
			seen := map[string]bool{}
			dup := ""
			for _, id := range got {
				if seen[id] {
					dup = id
					break
				}
				seen[id] = true
			}
			if dup != "" {
				viol("row-returned-twice", "a document is returned more than once", map[string]any{"document": names([]string{dup}), "got": names(got), "want": names(wantTrue)})
				continue
			}
			// 2. a row that does not satisfy the filter
			var wrong []string
			for _, id := range got {
				if v, known := verdict[id]; !known || v == cbFalse {
					wrong = append(wrong, id)
				}
			}
			if len(wrong) > 0 {
				// explained by the conditions on the own fields not being applied?
				ownLost := ti == 1 && q.Side == "primary" && (class == "related" || class == "own+related") && q.F != nil && !besideList
				for _, id := range wrong {
					row, known := sideByID[id]
					if !known {
						ownLost = false
						break
					}
					var relVals []map[string]int64
					for _, r := range related(q.Side, row) {
						relVals = append(relVals, r.vals)
					}
					if q.F == nil || q.F.evalOpt(row.vals, relVals, true) == cbFalse {
						ownLost = false
					}
				}
				if ownLost {
					a.flagged = true
					e.r.Violate(c09cbSigOwnLost, "documents are returned that violate the request's condition on their OWN field (the conditions reaching through the relation hold): the join was inverted through an index on the related collection",
						detail(map[string]any{"wrongly_returned": names(wrong), "got": names(got), "want": names(wantTrue), "shape": shape, "index_class": class}))
					continue
				}
				viol("row-violating-the-filter-returned", "a document is returned whose own fields / related documents (read from the plain listings) do not satisfy the filter",
					map[string]any{"wrongly_returned": names(wrong), "got": names(got), "want": names(wantTrue)})
				continue
			}
			// 3. the rendered relation
			if q.Render || len(q.SubF) > 0 {
				bad := ""
				var gotRel, wantRel []string
				for _, row := range rows {
					id := mcStr(row["_docID"])
					gotRel, wantRel = nil, nil
					if q.Side == "primary" || !s.Many {
						if x := idOf(row[relField]); x != "" {
							gotRel = []string{x}
						}
					} else {
						l, _ := row[relField].([]any)
						for _, c := range l {
							gotRel = append(gotRel, idOf(c))
						}
					}
					for _, r := range related(q.Side, sideByID[id]) {
						pass := true
						for _, l := range q.SubF {
							if l.Field == fkField {
								in := false
								for _, x := range append(mcList(l.Val), l.Val) {
									in = in || x == any(r.fk)
								}
								pass = pass && in == cbPositive(l.Op)
								continue
							}
							pass = pass && cbLeafHolds(l, r.vals)
						}
						if pass {
							wantRel = append(wantRel, r.id)
						}
					}
					if !qsem.SameMultiset(gotRel, wantRel) {
						bad = id
						break
					}
				}
				if bad != "" {
					viol("wrong-related-document-rendered", "the related document(s) rendered for a returned document are not the one(s) the foreign keys name",
						map[string]any{"document": names([]string{bad}), "rendered": names(gotRel), "foreign_keys_say": names(wantRel)})
					continue
				}
			}
			// 4. missing rows / limit
			lost := func(want []string) []string {
				var out []string
				for _, id := range want {
					if !seen[id] {
						out = append(out, id)
					}
				}
				return out
			}
			// the known finding about order through a relation served by the inverted join: with an index on the
			// ordered related field, documents WITHOUT related document are never returned
			orderInversionKnown := func() bool {
				if ti != 1 || q.Ord != "rel" {
					return false
				}
				relIx := e.p.IxP
				if q.Side == "secondary" {
					relIx = e.p.IxC
				}
				if s.self() {
					relIx = append(append([]string{}, e.p.IxP...), e.p.IxC...)
				}
				return cbHas(relIx, q.OrdF)
			}
			sortKeys := func(ids []string) []string {
				ids = append([]string{}, ids...)
				sort.SliceStable(ids, func(i, j int) bool {
					c := cbKeyCmp(keyOf[ids[i]], keyOf[ids[j]])
					if q.Desc {
						return c > 0
					}
					return c < 0
				})
				ks := make([]string, 0, len(ids))
				for _, id := range ids {
					ks = append(ks, cbKeyStr(keyOf[id]))
				}
				return ks
			}
			if q.Limit == 0 {
				if miss := lost(wantTrue); len(miss) > 0 {
					onlyUnrelated := true
					for _, id := range miss {
						if keyOf[id] != nil || q.Ord != "rel" {
							onlyUnrelated = false
						}
					}
					if onlyUnrelated && orderInversionKnown() {
						a.flagged = true
						e.r.Violate("order-through-relation/not-a-permutation/indexed", "ordered through the relation by an indexed field of the related collection, the documents without related document are not returned",
							detail(map[string]any{"missing": names(miss), "got": names(got), "want": names(wantTrue)}))
					} else {
						viol("matching-row-missing", "a document whose own fields and related documents (read from the plain listings) satisfy the filter is not returned",
							map[string]any{"missing": names(miss), "got": names(got), "want": names(wantTrue)})
					}
					continue
				}
			}
			if q.Ord == "rel" {
				for _, id := range got {
					if keyOf[id] == nil {
						a.unrelatedRows++
					}
				}
				if orderInversionKnown() {
					var rel []string
					for _, row := range rowsOfSide {
						if verdict[row.id] == cbTrue && keyOf[row.id] != nil {
							rel = append(rel, row.id)
						}
					}
					if q.Limit == 0 {
						a.relatedOnly = qsem.SameMultiset(got, rel)
					} else {
						var gk []string
						for _, id := range got {
							gk = append(gk, cbKeyStr(keyOf[id]))
						}
						ks := sortKeys(rel)
						a.relatedOnly = qsem.SameSeq(gk, ks[:min(q.Limit, len(ks))])
					}
				}
			}
			// 5. order
			if q.Ord != "" {
				at := -1
				for i := 0; i+1 < len(got); i++ {
					c := cbKeyCmp(keyOf[got[i]], keyOf[got[i+1]])
					if q.Desc {
						c = -c
					}
					if c > 0 {
						at = i
						break
					}
				}
				if at >= 0 {
					var ks []string
					for _, id := range got {
						ks = append(ks, cbKeyStr(keyOf[id]))
					}
					viol("not-sorted", "the answer is not sorted by the requested key (keys read from the plain listings)", map[string]any{"keys": ks, "at": at, "got": names(got)})
					continue
				}
			}
			// 6. limit: the right number of rows and, when ordered, the first keys of the sorted reference
			if q.Limit > 0 && !anyUnknown {
				wantN := min(q.Limit, len(wantTrue))
				var gotKeys []string
				for _, id := range got {
					gotKeys = append(gotKeys, cbKeyStr(keyOf[id]))
				}
				okLimit := len(got) == wantN
				wantKeys := sortKeys(wantTrue)
				if okLimit && q.Ord != "" {
					okLimit = qsem.SameSeq(gotKeys, wantKeys[:wantN])
				}
				if !okLimit {
					// explained by the known finding? the same reference without the documents lacking a related document
					if orderInversionKnown() {
						var related []string
						for _, id := range wantTrue {
							if keyOf[id] != nil {
								related = append(related, id)
							}
						}
						ks := sortKeys(related)
						if n := min(q.Limit, len(related)); len(related) < len(wantTrue) && len(got) == n && qsem.SameSeq(gotKeys, ks[:n]) {
							a.flagged = true
							e.r.Violate("order-through-relation/not-a-permutation/indexed", "ordered through the relation by an indexed field of the related collection, the documents without related document are not returned (seen under a limit)",
								detail(map[string]any{"got_keys": gotKeys, "want_keys": wantKeys[:wantN], "got": names(got)}))
							continue
						}
					}
					viol("limit-returns-wrong-rows", "under a limit the answer is not the first rows of the full (sorted) answer computed from the plain listings",
						map[string]any{"got_keys": gotKeys, "want_keys": wantKeys[:wantN], "got": names(got), "all_matching": names(wantTrue), "limit": q.Limit})
					continue
				}
			}
			// 7. the two sides: a conjunctive primary-side request equals the flattened related documents of the
			// mirrored secondary-side request P(filter: {B}, order) { children(filter: {A}) }
			if q.Side == "primary" && q.Limit == 0 && q.F != nil && !s.self() && len(q.SubF) == 0 {
				ownL, rels, conj := q.F.conjunctive()
				if conj && len(rels) <= 1 && q.Ord != "own" {
					var pf []c09cbF
					if len(rels) == 1 {
						pf = rels[0].Subs
					}
					var args []string
					if len(pf) > 0 {
						args = append(args, "filter: "+cbConj(pf))
					}
					if q.Ord == "rel" {
						args = append(args, fmt.Sprintf("order: {%s: %s}", q.OrdF, map[bool]string{false: "ASC", true: "DESC"}[q.Desc]))
					}
					sub := ""
					if len(ownL) > 0 {
						sub = "(filter: " + cbConj(ownL) + ")"
					}
					argStr := ""
					if len(args) > 0 {
						argStr = "(" + strings.Join(args, ", ") + ")"
					}
					mreq := fmt.Sprintf("query { %s%s { _docID %s%s { _docID } } }", s.PCol, argStr, s.PtoC, sub)
					if mres := tw.ex.Do(mreq); mres.OK() {
						e.r.Count("combined_sides_agreement_checks", 1)
						var mirror, mirrorKeys []string
						for _, prow := range mres.Rows(s.PCol) {
							var kids []string
							if s.Many {
								l, _ := prow[s.PtoC].([]any)
								for _, c := range l {
									kids = append(kids, idOf(c))
								}
							} else if c := idOf(prow[s.PtoC]); c != "" {
								kids = []string{c}
							}
							for _, k := range kids {
								mirror = append(mirror, k)
								mirrorKeys = append(mirrorKeys, cbKeyStr(keyOf[k]))
							}
						}
						var mine, mineKeys []string
						for _, id := range got {
							if len(related("primary", sideByID[id])) > 0 {
								mine = append(mine, id)
								mineKeys = append(mineKeys, cbKeyStr(keyOf[id]))
							}
						}
						agree := qsem.SameMultiset(mine, mirror)
						if agree && q.Ord == "rel" {
							agree = qsem.SameSeq(mineKeys, mirrorKeys)
						}
						if !agree {
							viol("sides-disagree", "the primary-side answer (documents with a live related document) differs from the related documents listed by the mirrored secondary-side request",
								map[string]any{"secondary_side_request": mreq, "primary_side": names(mine), "secondary_side": names(mirror), "primary_side_keys": mineKeys, "secondary_side_keys": mirrorKeys})
							continue
						}
					}
				}
			}
		}
	}
	for qi := range e.p.Reqs {
		a, b := answers[0][qi], answers[1][qi]
		if a == nil || b == nil || !a.ok || !b.ok {
			continue
		}
		e.r.Count("twin_comparisons", 1)
		if a.canon != b.canon && !a.flagged && !b.flagged {
			if b.relatedOnly && a.unrelatedRows > 0 {
				e.r.Violate("order-through-relation/not-a-permutation/indexed", "ordered through the relation by an indexed field of the related collection, the documents without related document are not returned, unlike on the index-free twin",
					map[string]any{"request": a.req, "plain": a.canon, "indexed": b.canon, "when": when, "sdl_indexed": e.sdl(1), "docs": e.p.Docs, "mutations_applied": muts})
				continue
			}
			e.r.Violate(b.sig, "the same combined relation request is answered differently with and without indexes",
				map[string]any{"request": a.req, "plain": a.canon, "indexed": b.canon, "when": when, "sdl_indexed": e.sdl(1), "docs": e.p.Docs, "mutations_applied": muts})
		}
	}
}

// cover: coverage counters of one request (counted once per round, on the indexed twin's pass).
func (e *c09cbEnv) cover(q c09cbReq, shape, class string, afterMuts bool) {
	k := "combined_" + strings.ReplaceAll(shape, "-", "_")
	e.r.Count("combined_requests", 1)
	if afterMuts {
		e.r.Count("combined_requests_after_mutations", 1)
	}
	e.r.Count(k, 1)
	e.r.Count(k+"_"+q.Side+"_side", 1)
	e.r.Count(k+"_index_on_"+class, 1)
	if e.s.Many {
		e.r.Count(k+"_one_to_many", 1)
	} else {
		e.r.Count(k+"_one_to_one", 1)
	}
	if q.F != nil {
		if q.F.has("_or") {
			e.r.Count("combined_nesting_or", 1)
		}
		if q.F.has("_and") {
			e.r.Count("combined_nesting_and", 1)
		}
		ownLeaf, _, relLeaves, ownFields, relFields := q.uses()
		n := len(ownFields) + len(relFields)
		if q.Ord != "" {
			n-- // the ordered field is in one of the sets; it may or may not be filtered as well
		}
		if ownLeaf+relLeaves > n+1 {
			e.r.Count("combined_two_operators_on_one_field", 1)
		}
	}
	if q.Ord == "rel" {
		filtered := false
		q.F.walk(false, func(n c09cbF, inRel bool) {
			if n.leaf() && inRel && n.Field == q.OrdF {
				filtered = true
			}
		})
		if filtered {
			e.r.Count("combined_order_on_the_filtered_related_field", 1)
		} else if q.F.has("rel") {
			e.r.Count("combined_order_on_another_related_field", 1)
		}
	}
	if q.Ord != "" {
		if q.Desc {
			e.r.Count("combined_order_desc", 1)
		} else {
			e.r.Count("combined_order_asc", 1)
		}
	}
	if q.Limit > 0 {
		e.r.Count("combined_with_limit", 1)
	}
	if q.Render {
		e.r.Count("combined_relation_rendered", 1)
	} else {
		e.r.Count("combined_relation_not_rendered", 1)
	}
}

// explain: for a few requests naming an indexed related field, count those for which the indexed twin
// really inverted the join (its sub-type scan carries a filter or the order node is gone) while the
// plain twin did not.
func (e *c09cbEnv) explain() {
	n := 0
	for _, q := range e.p.Reqs {
		if c := q.indexClass(e.p, e.s); (c != "related" && c != "own+related") || n >= 3 {
			continue
		}
		n++
		req := strings.Replace(q.GQL(e.s), "query {", "query @explain {", 1)
		p, x := e.twins[0].ex.Do(req), e.twins[1].ex.Do(req)
		if !p.OK() || !x.OK() {
			continue
		}
		subFilter := func(res qsem.Result) bool {
			sub, found := findKey(res.Data, "subType")
			if !found {
				return false
			}
			scan, found := findKey(sub, "scanNode")
			if !found {
				return false
			}
			m, _ := scan.(map[string]any)
			return m != nil && m["filter"] != nil
		}
		_, po := findKey(p.Data, "orderNode")
		_, xo := findKey(x.Data, "orderNode")
		if (subFilter(x) && !subFilter(p)) || (po && !xo) {
			e.r.Count("combined_inverted_join_plans_observed", 1)
		}
	}
}
