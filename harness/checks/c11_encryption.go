package checks

// C11 — encrypted fields never leave the node in clear.
//
// Every value written to the monitored document is a unique token (16 random letters, integers
// >= 2^40, floats with a random mantissa, JSON containing such tokens).  After every operation
// the raw values under /db/blocks of the writing node and the Block bytes of every recorded
// `update` event are byte-searched for every encoding of every secret written so far; key bytes
// read from /db/enc are searched for everywhere else.  A positive control (a sibling document
// without encryption, and the clear fields of a field-level configuration) must be FOUND by the
// same scanner, otherwise the case is inconclusive.  Receivers: key-less (nothing of the secrets
// anywhere in the store), key-holding (reads back exactly what the writer reads) and partial.
//
// Heads of mixed encryption: a field DAG of the key-holding writer gets a clear head next to its
// encrypted one without any fault, (a) when a twin node creates the very same document (docIDs are
// content derived) without encryption and its commits are merged into the writer, (b) when a peer
// that never obtained the key of an individually encrypted field writes that field itself and its
// commit is merged back. After such a merge the writer updates the encrypted fields with fresh
// secrets, which must stay out of /db/blocks and the update events like all others. Values written
// by the clear-origin node are public tokens: they are not secrets and are not searched for.

import (
	"bytes"
	"context"
	"encoding/binary"
	"encoding/json"
	"fmt"
	"math"
	"math/rand/v2"
	"sort"
	"strconv"
	"strings"
	"sync"
	"time"

	"github.com/sourcenetwork/defradb/client"
	"github.com/sourcenetwork/defradb/event"
	coreblock "github.com/sourcenetwork/defradb/internal/core/block"
	"github.com/sourcenetwork/defradb/internal/encryption"
	"github.com/sourcenetwork/defradb/verifharness/core"
)

// ---------------------------------------------------------------------------------------
// case description

// c11Fields: every kind of value the scanner knows an image of. `name` is written at every create.
var c11Fields = []string{"name", "s", "t", "i", "f", "j", "pc", "pf"}

var c11Kind = map[string]string{"name": "string", "s": "string", "t": "string", "i": "int", "f": "float", "j": "json",
	"pc": "counter-int", "pf": "counter-float"}

func c11CRDT(field string) string {
	if strings.HasPrefix(c11Kind[field], "counter") {
		return "counter"
	}
	return "lww"
}

type c11Op struct {
	Set  []string `json:"set,omitempty"`  // fields written with a fresh token (counters: incremented by a fresh token)
	Null []string `json:"null,omitempty"` // register fields set to null
	API  string   `json:"api,omitempty"`  // "col" (default) | "gql"
}

type c11Params struct {
	Branchable bool     `json:"branchable,omitempty"`
	Mode       string   `json:"mode"`                 // "doc" | "fields" | "both" (document key + dedicated keys for EncFields)
	EncFields  []string `json:"enc_fields,omitempty"` // mode "fields" and "both"
	Create     []string `json:"create"`               // fields present at create (name is always present)
	CreateAPI  string   `json:"create_api,omitempty"` // "col" | "gql"
	// NullAtCreate: register fields given an explicit null at create (collection API only). The null
	// is a write: the field gets its genesis block (and, when individually encrypted, its key) there.
	NullAtCreate []string `json:"null_at_create,omitempty"`
	Ops          []c11Op  `json:"ops"`
	// Receiver: "keyless" | "keys-event" (harness answers enc-keys-request with A's key blocks) |
	// "keys-store" (A's key blocks are put into B's /db/enc before the merge) | "partial" (keys of PartialKeys only)
	Receiver    string   `json:"receiver"`
	PartialKeys []string `json:"partial_keys,omitempty"`
	// DeliverAfter: op indices (0 = after create) after which A's head is delivered to B; the final head always is.
	DeliverAfter []int `json:"deliver_after,omitempty"`
	// ReceiverUpdate: after the last delivery a key-holding receiver ("keys-store") updates these fields itself.
	ReceiverUpdate []string `json:"receiver_update,omitempty"`
	// Mixed: after everything else, clear-origin commits are merged into the writer and the writer updates again.
	Mixed *c11Mixed `json:"mixed,omitempty"`
}

// c11Mixed describes how heads without encryption get next to the writer's encrypted heads.
type c11Mixed struct {
	// Via: "twin" (a node T creates the very same document - same values, same docID - without any encryption)
	// | "keyless-write" (the key-less / partial receiver B writes encrypted fields it holds no key for).
	Via    string          `json:"via"`
	Rounds []c11MixedRound `json:"rounds"`
}

type c11MixedRound struct {
	// Clear: fields the clear-origin node writes with public tokens before its head is merged into the writer
	// (twin, first round: in addition to its create).
	Clear []string `json:"clear,omitempty"`
	// Writer: fields the writer A updates with fresh secrets after the merge (the register fields of Clear are always added).
	Writer []string `json:"writer,omitempty"`
	// WriterAll: A also updates every field it has written so far.
	WriterAll bool `json:"writer_all,omitempty"`
}

func (p c11Params) encrypted(field string) bool {
	if p.Mode == "doc" || p.Mode == "both" {
		return true
	}
	for _, f := range p.EncFields {
		if f == field {
			return true
		}
	}
	return false
}

func c11SDL(branchable bool) string {
	dir := ""
	if branchable {
		dir = "@branchable"
	}
	return fmt.Sprintf(`type U %s {
	name: String
	s: String
	t: String
	i: Int
	f: Float
	j: JSON
	pc: Int @crdt(type: pcounter)
	pf: Float @crdt(type: pncounter)
}`, dir)
}

func c11Anchors() []core.Case {
	all := []string{"s", "t", "i", "f", "j", "pc", "pf"}
	mk := func(kind string, p c11Params) core.Case { return core.MkCase("enc/anchor/"+kind, 1, p) }
	return []core.Case{
		// the defect repaired by ab80a6d: doc-level encryption, fields absent at create, first written by an update
		mk("doc-first-write-by-update-keyless", c11Params{Mode: "doc", Create: []string{"s"},
			Ops: []c11Op{{Set: []string{"t", "i"}}, {Set: []string{"f", "j", "pc", "pf"}}, {Set: []string{"t", "pc"}}}, Receiver: "keyless"}),
		mk("doc-first-write-by-update-gql-keys-event", c11Params{Mode: "doc", Create: []string{}, CreateAPI: "gql",
			Ops: []c11Op{{Set: all, API: "gql"}, {Set: []string{"s", "pc", "pf"}, Null: []string{"t"}}, {Set: []string{"t"}}}, Receiver: "keys-event", DeliverAfter: []int{1}}),
		mk("doc-all-fields-keys-store-receiver-updates", c11Params{Mode: "doc", Create: all,
			Ops: []c11Op{{Set: []string{"s", "i", "pc"}}, {Null: []string{"s", "j"}}, {Set: []string{"s", "j", "pf"}}}, Receiver: "keys-store",
			ReceiverUpdate: []string{"s", "i", "pc"}}),
		mk("fields-subset-keyless", c11Params{Mode: "fields", EncFields: []string{"s", "i", "pc"}, Create: all,
			Ops: []c11Op{{Set: []string{"s", "t", "i", "pc"}}, {Set: []string{"f", "pf", "pc"}, Null: []string{"s"}}, {Set: []string{"s"}}}, Receiver: "keyless"}),
		mk("fields-subset-keys-event", c11Params{Mode: "fields", EncFields: []string{"t", "f", "j", "pf"}, Create: all,
			Ops: []c11Op{{Set: []string{"t", "f", "j", "pf", "s"}}, {Set: []string{"j", "pf"}, API: "gql"}}, Receiver: "keys-event"}),
		mk("fields-partial-keys", c11Params{Mode: "fields", EncFields: []string{"s", "t", "i", "f"}, Create: all,
			Ops: []c11Op{{Set: []string{"s", "t", "i", "f"}}, {Set: []string{"s", "i"}}}, Receiver: "partial", PartialKeys: []string{"s", "f"}}),
		mk("fields-declared-encrypted-but-first-written-by-update", c11Params{Mode: "fields", EncFields: []string{"s", "t", "pf"}, Create: []string{"s", "i"},
			Ops: []c11Op{{Set: []string{"t", "pf"}}, {Set: []string{"s", "t", "pf"}}}, Receiver: "keyless"}),
		// individually encrypted fields that are explicitly null at create and get their first value by an update
		mk("fields-explicitly-null-at-create", c11Params{Mode: "fields", EncFields: []string{"s", "f", "j"}, Create: []string{"i"}, NullAtCreate: []string{"s", "f", "j"},
			Ops: []c11Op{{Set: []string{"s", "f"}}, {Set: []string{"j", "s"}}, {Set: []string{"f", "j"}}}, Receiver: "keyless"}),
		mk("doc-and-dedicated-field-keys", c11Params{Mode: "both", EncFields: []string{"s", "pc"}, Create: []string{"s", "i"},
			Ops: []c11Op{{Set: []string{"s", "t", "pc", "pf"}}, {Set: []string{"s", "t", "pc"}}}, Receiver: "keys-event"}),
		mk("branchable-doc-keyless", c11Params{Branchable: true, Mode: "doc", Create: []string{"s", "i"},
			Ops: []c11Op{{Set: []string{"t", "pc"}}, {Set: []string{"s", "t"}}}, Receiver: "keyless"}),
		mk("branchable-fields-keys-store", c11Params{Branchable: true, Mode: "fields", EncFields: []string{"s", "pc"}, Create: all,
			Ops: []c11Op{{Set: []string{"s", "pc", "t"}}, {Set: []string{"s", "pc"}}}, Receiver: "keys-store", ReceiverUpdate: []string{"s", "pc", "t"}}),
		// heads of mixed encryption (a): the same document is created without encryption on a twin node and merged into the writer
		mk("doc-twin-created-in-clear-merged-writer-updates", c11Params{Mode: "doc", Create: all,
			Ops: []c11Op{{Set: []string{"s", "pc"}}}, Receiver: "keyless",
			Mixed: &c11Mixed{Via: "twin", Rounds: []c11MixedRound{{WriterAll: true}, {Clear: all, WriterAll: true}, {Clear: []string{"name", "s", "i", "pf"}, Writer: []string{"t", "j"}}}}}),
		mk("fields-twin-created-in-clear-merged-writer-updates", c11Params{Mode: "fields", EncFields: []string{"name", "s", "f", "pc"}, Create: all,
			Ops: []c11Op{{Set: []string{"f", "t"}}}, Receiver: "keys-event",
			Mixed: &c11Mixed{Via: "twin", Rounds: []c11MixedRound{{Clear: []string{"s", "t"}, WriterAll: true}, {Clear: []string{"name", "s", "f", "pc", "i"}, WriterAll: true}}}}),
		mk("both-twin-created-in-clear-merged-writer-updates", c11Params{Mode: "both", EncFields: []string{"s", "pf"}, Create: []string{"s", "t", "i", "pf"},
			Ops: []c11Op{{Set: []string{"s", "f"}}}, Receiver: "keys-store",
			Mixed: &c11Mixed{Via: "twin", Rounds: []c11MixedRound{{WriterAll: true}, {Clear: []string{"s", "t", "i", "f", "pf"}, WriterAll: true}}}}),
		// document-level encryption, a field the writer has not written yet is written by the twin node: the writer's first write of it finds only clear heads
		mk("doc-twin-writes-field-absent-on-writer-writer-writes-it", c11Params{Mode: "doc", Create: []string{"s"},
			Ops: []c11Op{{Set: []string{"s"}}}, Receiver: "keyless",
			Mixed: &c11Mixed{Via: "twin", Rounds: []c11MixedRound{{Clear: []string{"t"}, Writer: []string{"t"}}}}}),
		// heads of mixed encryption (b): a peer without the field keys writes the encrypted fields itself, the writer merges that
		mk("fields-keyless-peer-writes-encrypted-fields-writer-updates", c11Params{Mode: "fields", EncFields: []string{"s", "i", "j", "pc"}, Create: all,
			Ops: []c11Op{{Set: []string{"s", "pc", "t"}}}, Receiver: "keyless",
			Mixed: &c11Mixed{Via: "keyless-write", Rounds: []c11MixedRound{{Clear: []string{"s", "i", "j", "pc"}}, {Clear: []string{"s", "i", "j", "pc", "t"}, Writer: []string{"f"}},
				{Clear: []string{"s", "pc"}, WriterAll: true}}}}),
		mk("fields-partial-peer-writes-fields-without-key-writer-updates", c11Params{Mode: "fields", EncFields: []string{"s", "t", "f", "pf"}, Create: all,
			Ops: []c11Op{{Set: []string{"t", "f"}}}, Receiver: "partial", PartialKeys: []string{"s", "f"},
			Mixed: &c11Mixed{Via: "keyless-write", Rounds: []c11MixedRound{{Clear: []string{"t", "pf", "i"}, Writer: []string{"s"}}, {Clear: []string{"t", "pf"}, WriterAll: true}}}}),
	}
}

func c11Cases(seed uint64, tier string) []core.Case {
	cs := c11Anchors()
	rng := rand.New(rand.NewPCG(seed, 1111))
	// the mixed-heads extension draws from its own stream: the histories generated before it existed stay the same
	rng2 := rand.New(rand.NewPCG(seed, 1112))
	n := tierN(tier, 200, 5000)
	others := []string{"s", "t", "i", "f", "j", "pc", "pf"}
	registers := []string{"s", "t", "i", "f", "j"}
	pick := func(from []string, p float64) []string {
		out := []string{}
		for _, f := range from {
			if rng.Float64() < p {
				out = append(out, f)
			}
		}
		return out
	}
	for k := 0; k < n; k++ {
		p := c11Params{Branchable: rng.IntN(5) == 0}
		if m := rng.IntN(10); m < 3 {
			p.Mode = "doc"
		} else {
			p.Mode = "fields"
			if m == 9 {
				p.Mode = "both"
			}
			for len(p.EncFields) == 0 || len(p.EncFields) > 4 {
				p.EncFields = pick(c11Fields, 0.35)
			}
		}
		p.Create = pick(others, []float64{0.3, 0.6, 1}[rng.IntN(3)])
		if rng.IntN(4) == 0 {
			p.CreateAPI = "gql"
		} else if rng.IntN(2) == 0 {
			// register fields absent from the create get an explicit null there
			for _, f := range registers {
				in := false
				for _, g := range p.Create {
					in = in || g == f
				}
				if !in && rng.IntN(2) == 0 {
					p.NullAtCreate = append(p.NullAtCreate, f)
				}
			}
		}
		nops := 1 + rng.IntN(5)
		for o := 0; o < nops; o++ {
			op := c11Op{}
			for len(op.Set)+len(op.Null) == 0 {
				op.Set = pick(c11Fields, []float64{0.2, 0.4, 0.7}[rng.IntN(3)])
				if rng.IntN(3) == 0 {
					for _, f := range pick(registers, 0.3) {
						dup := false
						for _, g := range op.Set {
							dup = dup || g == f
						}
						if !dup {
							op.Null = append(op.Null, f)
						}
					}
				}
			}
			if rng.IntN(5) == 0 {
				op.API = "gql"
			}
			p.Ops = append(p.Ops, op)
			if rng.IntN(4) == 0 {
				p.DeliverAfter = append(p.DeliverAfter, o)
			}
		}
		switch r := rng.IntN(10); {
		case r < 3:
			p.Receiver = "keyless"
		case r < 6:
			p.Receiver = "keys-event"
		case r < 8 || p.Mode != "fields" || len(p.EncFields) < 2:
			p.Receiver = "keys-store"
			if rng.IntN(2) == 0 {
				p.ReceiverUpdate = pick(c11Fields, 0.4)
			}
		default:
			p.Receiver = "partial"
			p.PartialKeys = p.EncFields[:1+rng.IntN(len(p.EncFields)-1)]
		}
		kind := "enc/" + p.Mode + "/" + p.Receiver
		if p.Mixed = c11GenMixed(rng2, p); p.Mixed != nil {
			kind += "+" + p.Mixed.Via
		}
		cs = append(cs, core.MkCase(kind, rng.Uint64(), p))
	}
	return cs
}

// c11GenMixed decides whether (and how) a generated history ends with rounds of
// "clear-origin commits merged into the writer, writer updates encrypted fields".
func c11GenMixed(rng *rand.Rand, p c11Params) *c11Mixed {
	pick := func(from []string, pr float64) []string {
		out := []string{}
		for _, f := range from {
			if rng.Float64() < pr {
				out = append(out, f)
			}
		}
		return out
	}
	// fields a key-less / partial receiver can write in clear: encrypted ones it holds no key for, and clear ones
	noKey, clear := []string{}, []string{}
	if p.Mode == "fields" && (p.Receiver == "keyless" || p.Receiver == "partial") {
		for _, f := range c11Fields {
			held := false
			for _, g := range p.PartialKeys {
				held = held || (p.Receiver == "partial" && g == f)
			}
			switch {
			case !p.encrypted(f):
				clear = append(clear, f)
			case !held:
				noKey = append(noKey, f)
			}
		}
	}
	via := ""
	switch r := rng.IntN(20); {
	case len(noKey) > 0 && r < 10:
		via = "keyless-write"
	case len(noKey) > 0 && r < 15, len(noKey) == 0 && r < 8:
		via = "twin"
	default:
		return nil
	}
	m := &c11Mixed{Via: via}
	rounds := 1 + rng.IntN(3)
	for k := 0; k < rounds; k++ {
		rd := c11MixedRound{}
		if via == "twin" {
			rd.Clear = pick(c11Fields, 0.4)
			if k > 0 && len(rd.Clear) == 0 {
				rd.Clear = []string{c11Fields[rng.IntN(len(c11Fields))]}
			}
		} else {
			rd.Clear = append(pick(noKey, 0.7), pick(clear, 0.3)...)
			if len(rd.Clear) == 0 {
				rd.Clear = []string{noKey[rng.IntN(len(noKey))]}
			}
		}
		rd.Writer = pick(c11Fields, 0.3)
		rd.WriterAll = rng.IntN(2) == 0
		m.Rounds = append(m.Rounds, rd)
	}
	return m
}

// ---------------------------------------------------------------------------------------
// tokens and their byte images

type c11Needle struct {
	What    string
	Bytes   []byte
	Primary bool // the image the block is expected to carry when the value is stored in clear
}

type c11Secret struct {
	Field   string
	Kind    string
	Value   any    // the Go value handed to the API
	Desc    string // printable
	When    string // create | update | first-write-by-update
	Origin  string // field-written-at-create | field-first-written-by-update (encryption of later writes is inherited from the first block of the field)
	Leaked  bool   // already reported as found in clear at its writer
	Op      int    // -1 = create
	Needles []c11Needle
	Control bool   // written in clear on purpose: must be found
	Node    string // "A" | "B" (who wrote it)
	// Public: not (or no longer) a secret - written by a node that holds no key of the field (clear-origin
	// writes), or a create value of the writer that the twin node has written in clear as well. Never searched for.
	Public bool
	// Heads: what the head set of the field looked like on the writer when the value was written, if remarkable:
	// "mixed-heads" (encrypted and clear heads; signature part "written-on-mixed-heads") | "only-foreign-clear-heads" (document-level encryption, the writer's
	// first write of the field, all heads are clear blocks merged from elsewhere). Part of the signature.
	Heads     string
	HeadsSeen []c11Head `json:"-"`
}

// sigMode: the encryption level named in a signature. A first write that found only foreign clear heads misses the
// key of the document whether or not other fields have keys of their own ("both" is "doc" there).
func (x *c11Run) sigMode(s *c11Secret) string {
	if s.Heads == "only-foreign-clear-heads" {
		return "doc"
	}
	return x.p.Mode
}

func (s *c11Secret) sigOrigin() string {
	if s.Heads == "mixed-heads" {
		// how the field started does not matter to what is inherited from heads of mixed encryption
		return "written-on-mixed-heads"
	}
	if s.Heads != "" {
		return s.Origin + "/" + s.Heads
	}
	return s.Origin
}

func cborUint(n uint64) []byte {
	b := make([]byte, 9)
	b[0] = 0x1b
	binary.BigEndian.PutUint64(b[1:], n)
	return b
}

func cborFloat(f float64) []byte {
	b := make([]byte, 9)
	b[0] = 0xfb
	binary.BigEndian.PutUint64(b[1:], math.Float64bits(f))
	return b
}

type c11Gen struct{ rng *rand.Rand }

func (g c11Gen) str() string {
	b := make([]byte, 16)
	for i := range b {
		b[i] = "abcdefghijklmnopqrstuvwxyzABCDEFGHIJKLMNOPQRSTUVWXYZ"[g.rng.IntN(52)]
	}
	return string(b)
}

// int in [2^40, 2^53): its CBOR image is the unambiguous 9-byte 0x1b form, it is exact as a float64
// (JSON numbers), and sums of a few stay far below 2^63.
func (g c11Gen) int() int64 { return int64(1<<40 + g.rng.Uint64N(1<<53-1<<40)) }

// float in [1,2) * 2^e with 52 random mantissa bits (cannot be shortened to float32/16).
func (g c11Gen) float() float64 {
	bits := uint64(1023+g.rng.IntN(20))<<52 | g.rng.Uint64N(1<<52) | 1
	return math.Float64frombits(bits)
}

func intNeedles(n int64) []c11Needle {
	return []c11Needle{{"cbor-uint64", cborUint(uint64(n)), true}, {"decimal-text", []byte(strconv.FormatInt(n, 10)), false},
		{"cbor-float64", cborFloat(float64(n)), false}}
}

func floatNeedles(f float64) []c11Needle {
	return []c11Needle{{"cbor-float64", cborFloat(f), true}, {"json-text", []byte(strconv.FormatFloat(f, 'g', -1, 64)), false}}
}

// value builds a fresh token of the kind of `field`.
func (g c11Gen) value(field string) (any, string, []c11Needle) {
	switch c11Kind[field] {
	case "string":
		s := g.str()
		return s, s, []c11Needle{{"utf8", []byte(s), true}}
	case "int", "counter-int":
		n := g.int()
		return n, strconv.FormatInt(n, 10), intNeedles(n)
	case "float", "counter-float":
		f := g.float()
		return f, strconv.FormatFloat(f, 'g', -1, 64), floatNeedles(f)
	case "json":
		t1, t2, n := g.str(), g.str(), g.int()
		v := map[string]any{"k": t1, "a": []any{t2, n}}
		txt, _ := json.Marshal(v)
		nd := []c11Needle{{"json-member-utf8", []byte(t1), true}, {"json-element-utf8", []byte(t2), false}, {"json-text", txt, false}}
		for _, x := range intNeedles(n) {
			x.Primary = false
			x.What = "json-number-" + x.What
			nd = append(nd, x)
		}
		return v, string(txt), nd
	}
	panic("unknown field " + field)
}

// gqlLit renders a token value as a GraphQL literal. Integers nested in a JSON value are written
// as float literals: the JSON scalar parses integer literals with the 32-bit graphql Int and turns
// larger ones into null (not a C11 matter), and JSON numbers carry no int/float distinction anyway.
func gqlLit(v any) string { return gqlLitIn(v, false) }

func gqlLitIn(v any, nested bool) string {
	switch x := v.(type) {
	case nil:
		return "null"
	case string:
		return strconv.Quote(x)
	case int64:
		if nested {
			return strconv.FormatInt(x, 10) + ".0"
		}
		return strconv.FormatInt(x, 10)
	case float64:
		return strconv.FormatFloat(x, 'f', -1, 64)
	case []any:
		parts := []string{}
		for _, e := range x {
			parts = append(parts, gqlLitIn(e, true))
		}
		return "[" + strings.Join(parts, ", ") + "]"
	case map[string]any:
		ks := []string{}
		for k := range x {
			ks = append(ks, k)
		}
		sort.Strings(ks)
		parts := []string{}
		for _, k := range ks {
			parts = append(parts, k+": "+gqlLitIn(x[k], true))
		}
		return "{" + strings.Join(parts, ", ") + "}"
	}
	panic(fmt.Sprintf("gqlLit %T", v))
}

// ---------------------------------------------------------------------------------------
// the monitor

type c11Run struct {
	ctx     context.Context
	p       c11Params
	r       *core.Rec
	g       c11Gen
	log     []string
	secrets []*c11Secret
	a       *core.Node
	rec     *core.BusRecorder
	colID   string
	docID   string
	// model of the monitored document on the writer (registers: last value; counters: sum)
	model   map[string]any
	written map[string]bool // field has been written at least once
	late    map[string]bool // field was absent at create and first written by an update
	// nullAtCreate: field was given an explicit null at create (its first value arrives by an update)
	nullAtCreate map[string]bool
	flagged      map[string]bool
	ctlMiss      bool
	// unknown: register fields whose value on the writer is decided by a tie-break the model does not
	// follow (a clear-origin write was merged and the writer has not written the field since)
	unknown map[string]bool
	// foreignStart: the writer's first write of the field found only clear heads merged from elsewhere
	foreignStart map[string]bool
	// mixedOnce: the writer has written the field while its heads were of mixed encryption
	mixedOnce map[string]bool
}

func (x *c11Run) logf(f string, a ...any) { x.log = append(x.log, fmt.Sprintf(f, a...)) }

func (x *c11Run) violate(sig, msg string, extra map[string]any) {
	if x.flagged[sig] {
		return
	}
	x.flagged[sig] = true
	d := map[string]any{"params": x.p, "log": x.log}
	for k, v := range extra {
		d[k] = v
	}
	x.r.Violate(sig, msg, d)
}

func (x *c11Run) newSecret(field string, opIdx int, control bool, node string) *c11Secret {
	v, desc, nd := x.g.value(field)
	when := "update"
	if opIdx < 0 {
		when = "create"
	} else if !x.written[field] && !control {
		when = "first-write-by-update"
	}
	if when == "first-write-by-update" {
		x.late[field] = true
	}
	origin := "field-written-at-create"
	if x.late[field] {
		origin = "field-first-written-by-update"
	} else if x.nullAtCreate[field] {
		origin = "field-explicitly-null-at-create"
	}
	s := &c11Secret{Field: field, Kind: c11Kind[field], Value: v, Desc: desc, When: when, Origin: origin, Op: opIdx, Needles: nd, Control: control, Node: node}
	x.secrets = append(x.secrets, s)
	return s
}

// applyModel records a write in the model of the monitored document.
func (x *c11Run) applyModel(field string, v any) {
	switch c11Kind[field] {
	case "counter-int":
		cur, _ := x.model[field].(int64)
		x.model[field] = cur + v.(int64)
	case "counter-float":
		cur, _ := x.model[field].(float64)
		x.model[field] = cur + v.(float64)
	default:
		x.model[field] = v
		delete(x.unknown, field)
	}
	x.written[field] = true
}

// addForeign records in the model a value that another node wrote and the writer merged:
// counter increments add up, a register is undecided until the writer writes it again.
func (x *c11Run) addForeign(field string, v any) {
	switch c11Kind[field] {
	case "counter-int":
		cur, _ := x.model[field].(int64)
		x.model[field] = cur + v.(int64)
	case "counter-float":
		cur, _ := x.model[field].(float64)
		x.model[field] = cur + v.(float64)
	default:
		x.unknown[field] = true
	}
}

// c11Head is one head of a field DAG as found in the head store.
type c11Head struct {
	Cid       string `json:"cid"`
	Encrypted bool   `json:"encrypted"`
	Priority  uint64 `json:"priority"`
}

// fieldHeads lists, per field name, the heads of the monitored document on node n in the order in which
// the head set lists them (ascending cid bytes), with the encryption of each head block.
func (x *c11Run) fieldHeads(n *core.Node) map[string][]c11Head {
	type entry struct {
		raw []byte
		h   c11Head
	}
	tmp := map[string][]entry{}
	for k := range n.RawScan(x.ctx, "/db/heads/d/"+x.docID+"/") {
		parts := strings.Split(k, "/")
		if len(parts) < 2 || parts[len(parts)-2] == "C" {
			continue
		}
		c := core.ParseCid(parts[len(parts)-1])
		blk, _, err := n.GetBlock(x.ctx, c)
		core.Must(err)
		f := blk.Delta.GetFieldName()
		tmp[f] = append(tmp[f], entry{c.Bytes(), c11Head{Cid: c.String(), Encrypted: blk.Encryption != nil, Priority: blk.Delta.GetPriority()}})
	}
	out := map[string][]c11Head{}
	for f, es := range tmp {
		sort.Slice(es, func(i, j int) bool { return bytes.Compare(es[i].raw, es[j].raw) < 0 })
		for _, e := range es {
			out[f] = append(out[f], e.h)
		}
	}
	return out
}

// runMixed: commits of clear origin are merged into the key-holding writer A, which then updates
// encrypted fields with fresh secrets (see c11Mixed). b is the receiver of the history, createVals what A created the document with.
func (x *c11Run) runMixed(b *core.Node, hasKey func(string) bool, createVals map[string]any, readback func()) (pattern string, updatedEncrypted bool) {
	ctx, r, m, a := x.ctx, x.r, x.p.Mixed, x.a
	src, who := b, "B"
	if m.Via == "twin" {
		t := core.NewNode(ctx, core.NodeOpts{})
		defer t.Close()
		_, err := t.DB.AddSchema(ctx, c11SDL(x.p.Branchable))
		core.Must(err)
		var tid string
		if x.p.CreateAPI == "gql" {
			tid, err = x.gqlCreate(t, createVals, false)
		} else {
			col := t.Col(ctx, "U")
			doc, derr := client.NewDocFromMap(createVals, col.Definition())
			core.Must(derr)
			tid = doc.ID().String()
			err = col.Create(ctx, doc)
		}
		core.Must(err)
		x.logf("T: twin node creates the same document without encryption: %s", tid)
		if tid != x.docID {
			r.Note("twin_docid_differs")
			return "twin-docid-differs", false
		}
		// what A wrote at create is now written in clear by someone else: no longer a secret
		for _, s := range x.secrets {
			if s.Node == "A" && s.Op < 0 && !s.Control {
				s.Public = true
			}
		}
		// What the sum of a counter is after the twin's create has been merged is not a matter of this property
		// (a counter delta written at create carries no nonce: T's clear block is byte-identical to A's where the
		// field is clear, and another block where A holds the encrypted image only; whether the merge counts it
		// again depends on how it is reached): the writer's read-back of those counters is not compared any more.
		for f, v := range createVals {
			if c11CRDT(f) == "counter" && v != nil {
				x.unknown[f] = true
			}
		}
		r.Count("twin_documents", 1)
		src, who = t, "T"
	}
	for ri, rd := range m.Rounds {
		stage := fmt.Sprintf("mixed round %d", ri)
		// 1. writes of clear origin (public tokens)
		vals := map[string]any{}
		clear := []string{}
		for _, f := range rd.Clear {
			if m.Via == "keyless-write" && x.p.encrypted(f) && hasKey(f) {
				continue // B would write this one as a key holder
			}
			v, desc, nd := x.g.value(f)
			vals[f] = v
			clear = append(clear, f)
			x.secrets = append(x.secrets, &c11Secret{Field: f, Kind: c11Kind[f], Value: v, Desc: desc, When: "clear-origin-write", Op: len(x.p.Ops) + 1 + ri, Needles: nd, Node: who, Public: true})
		}
		if len(clear) > 0 {
			err := colUpdate(ctx, src, x.docID, vals)
			x.logf("%s: %s: update set=%v with public tokens (node without keys) err=%v", who, stage, clear, err)
			if err != nil {
				// e.g. the document is not visible at all on the key-less receiver
				r.Note("clear_origin_write_failed")
				return pattern + "|clear-write-failed", updatedEncrypted
			}
			r.Count("clear_origin_writes", 1)
		}
		// 2. the writer merges the clear-origin head
		heads := src.CompositeHeads(ctx, x.docID)
		if len(heads) != 1 {
			x.logf("%s has %d composite heads", who, len(heads))
			r.Note("clear_origin_node_without_single_head")
			return pattern + "|no-single-head", updatedEncrypted
		}
		head := core.ParseCid(heads[0])
		nb := core.CopyClosure(ctx, src, a, head)
		merr := a.Merge(ctx, x.docID, head, x.colID)
		x.logf("%s: deliver %s head %s (closure %d blocks) -> A: merge err=%v", stage, who, head, nb, merr)
		if merr != nil {
			x.violate("receiver/merge-error/writer-takes-clear-origin-commit/"+m.Via, fmt.Sprintf("merging the commits of a node without keys (%s) on the key-holding writer fails: %v", m.Via, merr), nil)
			return pattern + "|merge-error", updatedEncrypted
		}
		for _, f := range clear {
			x.addForeign(f, vals[f])
		}
		x.scanWriter(a, x.rec, "A", stage+": after merging the clear-origin commits")
		// 3. the writer updates
		want := map[string]bool{}
		for _, f := range rd.Writer {
			want[f] = true
		}
		fields := []string{}
		for _, f := range c11Fields {
			if want[f] || (rd.WriterAll && x.written[f]) {
				fields = append(fields, f)
			}
		}
		pattern += fmt.Sprintf("|%v>%v", clear, fields)
		if len(fields) == 0 {
			continue
		}
		hs := x.fieldHeads(a)
		wvals, ss := x.setArgs(c11Op{Set: fields}, len(x.p.Ops)+1+ri, "doc", "A")
		for _, s := range ss {
			if s.Control {
				continue
			}
			h := hs[s.Field]
			nEnc, nClear := 0, 0
			for _, e := range h {
				if e.Encrypted {
					nEnc++
				} else {
					nClear++
				}
			}
			s.HeadsSeen = h
			switch {
			case nEnc == 0 && nClear > 0 && x.mixedOnce[s.Field]:
				// the field had heads of mixed encryption when the writer wrote it before, and that write has left clear heads only:
				// this write follows it
				s.Heads = "mixed-heads"
				r.Count("writes_following_a_clear_write_on_mixed_heads", 1)
			case nEnc > 0 && nClear > 0:
				s.Heads = "mixed-heads"
				x.mixedOnce[s.Field] = true
				r.Count("mixed_heads_writer_updates", 1)
				r.Count("mixed_heads_writer_updates_via_"+m.Via, 1)
				r.Count("mixed_heads_writer_updates_"+c11CRDT(s.Field), 1)
				if !h[0].Encrypted {
					r.Count("mixed_heads_clear_head_sorts_first", 1)
				}
				if len(h) > 2 {
					r.Count("mixed_heads_three_or_more_heads", 1)
				}
			case nEnc == 0 && nClear > 0 && x.p.Mode != "fields" && (s.When == "first-write-by-update" || x.foreignStart[s.Field]):
				// document-level encryption: the writer's first write of a field whose only blocks were merged from a node
				// without encryption (and the writer's later writes of that field, which follow its first one)
				s.Heads = "only-foreign-clear-heads"
				x.foreignStart[s.Field] = true
				r.Count("writes_on_only_foreign_clear_heads", 1)
			}
		}
		err := colUpdate(ctx, a, x.docID, wvals)
		x.logf("A: %s: update set=%v with fresh secrets err=%v", stage, fields, err)
		core.Must(err)
		for _, s := range ss {
			if !s.Control {
				updatedEncrypted = true
				r.Count("updates_of_encrypted_fields", 1)
				if s.When == "first-write-by-update" {
					r.Count("first_write_by_update_"+x.p.Mode+"_level", 1)
				}
			}
			x.applyModel(s.Field, s.Value)
		}
		x.scanWriter(a, x.rec, "A", stage+": after the writer's update")
		readback()
	}
	return pattern, updatedEncrypted
}

func c11Find(hay map[string]string, needle []byte, keysToo bool) (string, bool) {
	for k, v := range hay {
		if bytes.Contains([]byte(v), needle) {
			return k, true
		}
		if keysToo && bytes.Contains([]byte(k), needle) {
			return k + " (key)", true
		}
	}
	return "", false
}

func prefixOf(key string) string {
	parts := strings.SplitN(key, "/", 4)
	if len(parts) >= 3 {
		return "/" + parts[1] + "/" + parts[2]
	}
	return key
}

// scanWriter searches node n's shared block store and its recorded update events for every secret,
// and looks for the controls.
func (x *c11Run) scanWriter(n *core.Node, rec *core.BusRecorder, who string, stage string) {
	blocks := n.RawScan(x.ctx, "/db/blocks/")
	rec.Barrier()
	evs := map[string]string{}
	for _, e := range rec.Events() {
		if e.Name == event.UpdateName {
			evs[fmt.Sprintf("update-event#%d cid=%s", e.Seq, e.Cid)] = string(e.Block)
		}
	}
	x.r.Count("evaluations", 1)
	x.r.Count("scans", 1)
	x.r.Count("block_values_scanned", int64(len(blocks)))
	x.r.Count("event_blocks_scanned", int64(len(evs)))
	for _, s := range x.secrets {
		if s.Control {
			if s.Node != who {
				continue
			}
			found := false
			for _, nd := range s.Needles {
				if !nd.Primary {
					continue
				}
				if _, ok := c11Find(blocks, nd.Bytes, false); ok {
					found = true
				}
			}
			if found {
				x.r.Count("control_found", 1)
				x.r.Count("control_found_"+s.Kind, 1)
			} else {
				x.ctlMiss = true
				x.r.Count("control_missing", 1)
				x.logf("CONTROL NOT FOUND at %s: field %s (%s) = %s", stage, s.Field, s.Kind, s.Desc)
			}
			continue
		}
		if s.Public {
			continue
		}
		x.r.Count("secret_searches", 1)
		if s.Heads == "mixed-heads" {
			x.r.Count("secret_searches_written_on_mixed_heads", 1)
		}
		for _, nd := range s.Needles {
			if k, ok := c11Find(blocks, nd.Bytes, false); ok {
				s.Leaked = true
				x.violate(fmt.Sprintf("plaintext/blocks/%s-level/%s", x.sigMode(s), s.sigOrigin()),
					fmt.Sprintf("%s-level encryption: the %s image of the %s value written to encrypted %s field %q by the %s (op %d, node %s; %s) occurs in clear in a value under /db/blocks of node %s (%s)",
						x.p.Mode, nd.What, s.Kind, c11CRDT(s.Field), s.Field, s.When, s.Op, s.Node, s.sigOrigin(), who, stage),
					map[string]any{"secret": s.Desc, "field": s.Field, "image": nd.What, "store_key": k, "block": describeBlock(blocks[k]), "heads_when_written": s.HeadsSeen})
			}
			if k, ok := c11Find(evs, nd.Bytes, false); ok {
				s.Leaked = true
				x.violate(fmt.Sprintf("plaintext/update-event/%s-level/%s", x.sigMode(s), s.sigOrigin()),
					fmt.Sprintf("the %s image of the value written to encrypted field %q occurs in clear in the Block bytes of an update event of node %s (%s)", nd.What, s.Field, who, stage),
					map[string]any{"secret": s.Desc, "field": s.Field, "event": k})
			}
		}
	}
	// key material stays in the key store
	enc := n.RawScan(x.ctx, "/db/enc/")
	all := n.RawScan(x.ctx, "")
	for ek, ev := range enc {
		eb, err := coreblock.GetEncryptionBlockFromBytes([]byte(ev))
		if err != nil || len(eb.Key) == 0 {
			x.r.Note("enc_store_entry_without_key")
			continue
		}
		x.r.Count("keys_checked", 1)
		for k, v := range all {
			if strings.HasPrefix(k, "/db/enc/") {
				continue
			}
			if bytes.Contains([]byte(v), eb.Key) || bytes.Contains([]byte(k), eb.Key) {
				x.violate("key-bytes-outside-key-store/"+prefixOf(k),
					fmt.Sprintf("the bytes of an encryption key of node %s (stored under %s) also occur outside /db/enc, under %s (%s)", who, ek, prefixOf(k), stage),
					map[string]any{"store_key": k})
			}
		}
		if k, ok := c11Find(evs, eb.Key, false); ok {
			x.violate("key-bytes-in-update-event", fmt.Sprintf("the bytes of an encryption key of node %s occur in the Block bytes of an update event (%s)", who, stage),
				map[string]any{"event": k})
		}
	}
}

func describeBlock(raw string) any {
	b, err := coreblock.GetFromBytes([]byte(raw))
	if err != nil {
		return "undecodable: " + err.Error()
	}
	return map[string]any{"field": b.Delta.GetFieldName(), "priority": b.Delta.GetPriority(), "docID": string(b.Delta.GetDocID()),
		"has_encryption_link": b.Encryption != nil, "heads": len(b.Heads), "composite": b.Delta.IsComposite()}
}

// readDoc reads the monitored document through GraphQL.
func c11Read(ctx context.Context, n *core.Node, docID string) (map[string]any, error) {
	rows, err := n.Rows(ctx, fmt.Sprintf(`query { U(docID: %q) { _docID name s t i f j pc pf } }`, docID), "U")
	if err != nil {
		return nil, err
	}
	if len(rows) == 0 {
		return nil, nil
	}
	return rows[0], nil
}

// sameValue compares a model / API value with a value read through GraphQL (json.Number based).
func sameValue(kind string, want, got any) bool {
	norm := func(v any) any {
		b, _ := json.Marshal(v)
		var o any
		_ = json.Unmarshal(b, &o) // numbers -> float64
		return o
	}
	w, g := norm(want), norm(got)
	if kind == "counter-float" || kind == "float" {
		wf, ok1 := w.(float64)
		gf, ok2 := g.(float64)
		if !ok1 || !ok2 {
			return w == nil && g == nil
		}
		if kind == "float" {
			return wf == gf
		}
		return math.Abs(wf-gf) <= 1e-9*math.Max(math.Abs(wf), math.Abs(gf))
	}
	if kind == "int" || kind == "counter-int" {
		// compare as exact integers through json.Number text
		ws, _ := json.Marshal(want)
		gs, _ := json.Marshal(got)
		return string(ws) == string(gs)
	}
	return core.Canon(w) == core.Canon(g)
}

func (x *c11Run) setArgs(op c11Op, opIdx int, target string, node string) (map[string]any, []*c11Secret) {
	vals := map[string]any{}
	var ss []*c11Secret
	for _, f := range op.Set {
		control := target == "control" || !x.p.encrypted(f)
		s := x.newSecret(f, opIdx, control, node)
		vals[f] = s.Value
		ss = append(ss, s)
	}
	for _, f := range op.Null {
		vals[f] = nil
	}
	return vals, ss
}

func c11NoInts(fields []string) []string {
	out := []string{}
	for _, f := range fields {
		if k := c11Kind[f]; k != "int" && k != "counter-int" {
			out = append(out, f)
		}
	}
	return out
}

func (x *c11Run) createOpts() []client.DocCreateOption {
	switch x.p.Mode {
	case "doc":
		return []client.DocCreateOption{client.CreateDocEncrypted(true)}
	case "both":
		return []client.DocCreateOption{client.CreateDocEncrypted(true), client.CreateDocWithEncryptedFields(x.p.EncFields)}
	}
	if len(x.p.EncFields) == 0 {
		return nil
	}
	return []client.DocCreateOption{client.CreateDocWithEncryptedFields(x.p.EncFields)}
}

func (x *c11Run) gqlCreate(n *core.Node, vals map[string]any, encrypted bool) (string, error) {
	ks := []string{}
	for k := range vals {
		ks = append(ks, k)
	}
	sort.Strings(ks)
	parts := []string{}
	for _, k := range ks {
		parts = append(parts, k+": "+gqlLit(vals[k]))
	}
	args := "input: {" + strings.Join(parts, ", ") + "}"
	if encrypted {
		if x.p.Mode == "doc" || x.p.Mode == "both" {
			args += ", encrypt: true"
		}
		if x.p.Mode != "doc" && len(x.p.EncFields) > 0 {
			args += ", encryptFields: [" + strings.Join(x.p.EncFields, ", ") + "]"
		}
	}
	rows, err := n.Rows(x.ctx, "mutation { create_U("+args+") { _docID } }", "create_U")
	if err != nil {
		return "", err
	}
	if len(rows) != 1 {
		return "", fmt.Errorf("create_U returned %d rows", len(rows))
	}
	return rows[0]["_docID"].(string), nil
}

func (x *c11Run) gqlUpdate(n *core.Node, docID string, vals map[string]any) error {
	ks := []string{}
	for k := range vals {
		ks = append(ks, k)
	}
	sort.Strings(ks)
	parts := []string{}
	for _, k := range ks {
		parts = append(parts, k+": "+gqlLit(vals[k]))
	}
	_, err := n.Rows(x.ctx, fmt.Sprintf("mutation { update_U(docID: %q, input: {%s}) { _docID } }", docID, strings.Join(parts, ", ")), "update_U")
	return err
}

func colUpdate(ctx context.Context, n *core.Node, docID string, vals map[string]any) error {
	col := n.Col(ctx, "U")
	id, err := client.NewDocIDFromString(docID)
	if err != nil {
		return err
	}
	doc, err := col.Get(ctx, id, false)
	if err != nil {
		return err
	}
	ks := []string{}
	for k := range vals {
		ks = append(ks, k)
	}
	sort.Strings(ks)
	for _, k := range ks {
		if err := doc.Set(k, vals[k]); err != nil {
			return err
		}
	}
	return col.Update(ctx, doc)
}

// serveKeys answers the enc-keys-request events of node b from the key store of node a,
// restricted to the fields in `only` (nil = all; empty non-nil = none).
type c11KeyServer struct {
	mu       sync.Mutex
	requests int
	served   int
	sub      event.Subscription
	bus      event.Bus
}

func c11ServeKeys(ctx context.Context, b, a *core.Node, allow func(eb *coreblock.Encryption) bool) *c11KeyServer {
	sub, err := b.DB.Events().Subscribe(encryption.RequestKeysEventName)
	core.Must(err)
	ks := &c11KeyServer{sub: sub, bus: b.DB.Events()}
	go func() {
		for m := range sub.Message() {
			req, ok := m.Data.(encryption.RequestKeysEvent)
			if !ok {
				continue
			}
			res := encryption.Result{}
			enc := a.RawScan(ctx, "/db/enc/")
			served := 0
			for _, l := range req.Keys {
				// the key store is keyed by multihash like the block store
				for _, v := range enc {
					eb, err := coreblock.GetEncryptionBlockFromBytes([]byte(v))
					if err != nil {
						continue
					}
					lnk, err := coreblock.GetLinkFromNode(eb.GenerateNode())
					if err != nil || !lnk.Cid.Equals(l.Cid) {
						continue
					}
					if allow != nil && allow(eb) {
						res.Items = append(res.Items, encryption.Item{Link: l.Cid.Bytes(), Block: []byte(v)})
						served++
					}
				}
			}
			ks.mu.Lock()
			ks.requests++
			ks.served += served
			ks.mu.Unlock()
			req.Resp <- res
		}
	}()
	return ks
}

func (k *c11KeyServer) stats() (int, int) {
	k.mu.Lock()
	defer k.mu.Unlock()
	return k.requests, k.served
}

func (k *c11KeyServer) close() { k.bus.Unsubscribe(k.sub) }

func runC11(ctx context.Context, c core.Case, r *core.Rec) {
	var p c11Params
	c.P(&p)
	x := &c11Run{ctx: ctx, p: p, r: r, g: c11Gen{c.Rng()}, model: map[string]any{}, written: map[string]bool{}, late: map[string]bool{}, nullAtCreate: map[string]bool{}, flagged: map[string]bool{}, unknown: map[string]bool{}, foreignStart: map[string]bool{}, mixedOnce: map[string]bool{}}
	a := core.NewNode(ctx, core.NodeOpts{})
	defer a.Close()
	x.a = a
	_, err := a.DB.AddSchema(ctx, c11SDL(p.Branchable))
	core.Must(err)
	col := a.Col(ctx, "U")
	x.colID = col.Version().CollectionID
	x.rec = core.NewBusRecorder(a.DB.Events(), nil, event.UpdateName)
	defer x.rec.Close()

	// sibling document without encryption: the positive control of the scanner for every kind of image
	ctlVals, _ := x.setArgs(c11Op{Set: c11Fields}, -1, "control", "A")
	ctlDoc, err := client.NewDocFromMap(ctlVals, col.Definition())
	core.Must(err)
	core.Must(col.Create(ctx, ctlDoc))
	ctlID := ctlDoc.ID().String()
	x.logf("A: create control document %s (no encryption) with a token in every field", ctlID)

	// the monitored document
	createFields := append([]string{"name"}, p.Create...)
	if p.CreateAPI == "gql" {
		// GraphQL Int literals are 32-bit: integer tokens cannot travel through a GraphQL mutation;
		// such fields stay absent at create (and are then first written by an update)
		createFields = c11NoInts(createFields)
	}
	vals, ss := x.setArgs(c11Op{Set: createFields}, -1, "doc", "A")
	createVals := vals
	if p.CreateAPI != "gql" {
		for _, f := range p.NullAtCreate {
			vals[f] = nil
			x.written[f] = true
			x.nullAtCreate[f] = true
			if p.encrypted(f) {
				r.Count("encrypted_field_explicitly_null_at_create", 1)
			}
		}
	}
	create := func() error {
		if p.CreateAPI == "gql" {
			x.docID, err = x.gqlCreate(a, vals, true)
			return err
		}
		doc, err := client.NewDocFromMap(vals, col.Definition())
		core.Must(err)
		x.docID = doc.ID().String()
		return col.Create(ctx, doc, x.createOpts()...)
	}
	if err := create(); err != nil {
		// A tree may refuse to create a document that names, for individual encryption, a field it gives no
		// value to (nothing could carry the encryption to the field's first write). Then those fields are
		// ordinary clear fields: continue with the remaining ones.
		present, kept := map[string]bool{}, []string{}
		for _, f := range createFields {
			present[f] = true
		}
		for _, f := range x.p.EncFields {
			if present[f] {
				kept = append(kept, f)
			}
		}
		if p.Mode != "fields" || len(kept) == len(x.p.EncFields) {
			core.Must(err)
		}
		x.logf("A: create with encryptFields=%v refused: %v; retrying with %v", x.p.EncFields, err, kept)
		r.Note("create_refused_individually_encrypted_field_without_value")
		x.p.EncFields = kept
		p.EncFields = kept
		core.Must(create())
	}
	for _, s := range ss {
		x.applyModel(s.Field, s.Value)
	}
	x.logf("A: create %s mode=%s encFields=%v api=%s fields=%v", x.docID, p.Mode, p.EncFields, p.CreateAPI, createFields)
	x.scanWriter(a, x.rec, "A", "after create")

	// receiver
	var b *core.Node
	var ks *c11KeyServer
	var brec *core.BusRecorder
	newReceiver := func() {
		b = core.NewNode(ctx, core.NodeOpts{})
		_, err := b.DB.AddSchema(ctx, c11SDL(p.Branchable))
		core.Must(err)
		brec = core.NewBusRecorder(b.DB.Events(), nil, event.UpdateName, event.MergeCompleteName)
		var allow func(eb *coreblock.Encryption) bool
		switch p.Receiver {
		case "keys-event":
			allow = func(*coreblock.Encryption) bool { return true }
		case "partial":
			allow = func(eb *coreblock.Encryption) bool {
				if eb.FieldName == nil {
					return false
				}
				for _, f := range p.PartialKeys {
					if f == *eb.FieldName {
						return true
					}
				}
				return false
			}
		}
		ks = c11ServeKeys(ctx, b, a, allow)
	}
	newReceiver()
	defer func() {
		ks.close()
		brec.Close()
		b.Close()
	}()

	hasKey := func(field string) bool {
		if !p.encrypted(field) {
			return true
		}
		switch p.Receiver {
		case "keys-event", "keys-store":
			return true
		case "partial":
			for _, f := range p.PartialKeys {
				if f == field {
					return true
				}
			}
		}
		return false
	}

	deliver := func(stage string) {
		heads := a.CompositeHeads(ctx, x.docID)
		if len(heads) != 1 {
			x.logf("A has %d composite heads?", len(heads))
		}
		head := core.ParseCid(heads[0])
		if p.Receiver == "keys-store" {
			for k, v := range a.RawScan(ctx, "/db/enc/") {
				core.Must(b.RawRoot().Set(ctx, []byte(k), []byte(v)))
			}
		}
		nb := core.CopyClosure(ctx, a, b, head)
		merr := b.Merge(ctx, x.docID, head, x.colID)
		x.logf("deliver(%s) head=%s closure=%d blocks -> B (%s): merge err=%v", stage, head, nb, p.Receiver, merr)
		r.Count("deliveries", 1)
		r.Count("deliveries_"+p.Receiver, 1)
		if merr != nil {
			x.violate("receiver/merge-error/"+p.Receiver, fmt.Sprintf("merging the history of an encrypted document on a %s receiver fails: %v", p.Receiver, merr), nil)
			return
		}
		got, rerr := c11Read(ctx, b, x.docID)
		want, werr := c11Read(ctx, a, x.docID)
		core.Must(werr)
		x.logf("   A reads %s", core.Canon(want))
		x.logf("   B reads %s err=%v", core.Canon(got), rerr)
		if rerr != nil {
			x.violate("receiver/read-error/"+p.Receiver, fmt.Sprintf("reading the merged document on the %s receiver fails: %v", p.Receiver, rerr), nil)
			return
		}
		// a node holding the key reads back exactly the written values
		anyKey := false
		for _, f := range c11Fields {
			if !x.written[f] {
				continue
			}
			if p.encrypted(f) && hasKey(f) {
				anyKey = true
			}
			if !hasKey(f) {
				continue
			}
			if got == nil {
				// document-level view: with a key for at least one of its fields (or clear fields) the document must exist
				continue
			}
			r.Count("readback_fields_compared", 1)
			if !sameValue(c11Kind[f], want[f], got[f]) {
				cls := "encrypted-field"
				if !p.encrypted(f) {
					cls = "clear-field"
				}
				how := "key-via-request"
				if p.Receiver == "keys-store" {
					how = "key-in-store"
				}
				sig := fmt.Sprintf("readback/%s/%s/lww", how, cls)
				if c11CRDT(f) == "counter" {
					// for counters what matters is whether the block was readable in the first merge pass, not the field's class
					sig = fmt.Sprintf("readback/%s/counter", how)
				}
				x.violate(sig,
					fmt.Sprintf("receiver holding the key (%s) reads %s = %v but the writer reads %v (%s %s of a %s-level encrypted document)", p.Receiver, f, got[f], want[f], cls, c11CRDT(f), p.Mode),
					map[string]any{"field": f, "writer": want, "receiver": got})
			}
		}
		if anyKey {
			r.Count("receiver_key_holding", 1)
			if got == nil {
				x.violate("readback/"+p.Receiver+"/document-missing", "receiver holding the keys does not show the merged document at all", map[string]any{"writer": want})
			}
			if p.Receiver == "partial" {
				r.Count("receiver_partial_keys", 1)
			}
		}
		// a node without the key stores nothing of the secrets in clear: full raw scan, all prefixes, keys and values
		all := b.RawScan(ctx, "")
		keyless := 0
		for _, s := range x.secrets {
			if s.Control || s.Public || s.Node != "A" || hasKey(s.Field) {
				continue
			}
			if s.Leaked {
				// already in clear in the writer's shared block store: its presence on the receiver is a consequence
				r.Note("receiver_scan_skipped_secret_already_leaked_at_writer")
				continue
			}
			keyless++
			r.Count("keyless_secret_searches", 1)
			for _, nd := range s.Needles {
				if k, ok := c11Find(all, nd.Bytes, true); ok {
					x.violate(fmt.Sprintf("plaintext/keyless-receiver%s/%s", prefixOf(k), s.Origin),
						fmt.Sprintf("receiver without the key of field %q has the %s image of its value in clear under %s", s.Field, nd.What, prefixOf(k)),
						map[string]any{"secret": s.Desc, "store_key": k})
				}
			}
			if got != nil && got[s.Field] != nil && s.Kind == "string" && got[s.Field] == s.Value {
				x.violate("plaintext/keyless-receiver/query", fmt.Sprintf("receiver without the key reads the value of encrypted field %q", s.Field), nil)
			}
		}
		if keyless > 0 {
			r.Count("receiver_keyless", 1)
			r.Count("keyless_store_entries_scanned", int64(len(all)))
			// no key material either
			for _, ev := range a.RawScan(ctx, "/db/enc/") {
				eb, err := coreblock.GetEncryptionBlockFromBytes([]byte(ev))
				if err != nil || len(eb.Key) == 0 {
					continue
				}
				if eb.FieldName != nil && hasKey(*eb.FieldName) {
					continue
				}
				if k, ok := c11Find(all, eb.Key, true); ok {
					x.violate("key-bytes-on-keyless-receiver/"+prefixOf(k), "a receiver that was never given the key has its bytes in the store", map[string]any{"store_key": k})
				}
			}
		}
		// receiver side control: clear fields / everything it has keys for must be visible in B's blocks too (the blocks were copied)
		req, served := ks.stats()
		x.logf("   key requests seen on B: %d, key blocks served: %d", req, served)
	}

	deliverAfter := map[int]bool{}
	for _, i := range p.DeliverAfter {
		deliverAfter[i] = true
	}
	nontrivial := false
	pattern := []string{}
	writerReadback := func() {
		got, err := c11Read(ctx, a, x.docID)
		core.Must(err)
		for _, f := range c11Fields {
			if !x.written[f] || x.unknown[f] {
				continue
			}
			r.Count("writer_fields_compared", 1)
			if got == nil || !sameValue(c11Kind[f], x.model[f], got[f]) {
				x.violate(fmt.Sprintf("readback/writer/%s", c11CRDT(f)),
					fmt.Sprintf("the writing node reads %s = %v after writing %v (%s-level encryption)", f, got[f], x.model[f], p.Mode), map[string]any{"read": got, "model": x.model})
			}
		}
	}
	for i, op := range p.Ops {
		vals, ss := x.setArgs(op, i, "doc", "A")
		var err error
		if op.API == "gql" {
			// integer tokens exceed the 32-bit GraphQL Int: they go through the collection API in a second update
			gv, cv := map[string]any{}, map[string]any{}
			for f, v := range vals {
				if _, isInt := v.(int64); isInt {
					cv[f] = v
				} else {
					gv[f] = v
				}
			}
			if len(gv) > 0 {
				err = x.gqlUpdate(a, x.docID, gv)
				r.Count("gql_updates", 1)
			}
			if err == nil && len(cv) > 0 {
				err = colUpdate(ctx, a, x.docID, cv)
			}
		} else {
			err = colUpdate(ctx, a, x.docID, vals)
		}
		x.logf("A: op %d update api=%s set=%v null=%v err=%v", i, op.API, op.Set, op.Null, err)
		core.Must(err)
		for _, s := range ss {
			if !s.Control {
				nontrivial = true
				r.Count("updates_of_encrypted_fields", 1)
				if s.When == "first-write-by-update" {
					r.Count("first_write_by_update_"+p.Mode+"_level", 1)
				}
			}
			x.applyModel(s.Field, s.Value)
		}
		for _, f := range op.Null {
			x.model[f] = nil
			if p.encrypted(f) {
				r.Count("encrypted_field_nulled", 1)
			}
		}
		pattern = append(pattern, strings.Join(op.Set, ",")+"/"+strings.Join(op.Null, ","))
		x.scanWriter(a, x.rec, "A", fmt.Sprintf("after op %d", i))
		// the writer itself holds the keys: reads back exactly the written values
		writerReadback()
		if deliverAfter[i] && i < len(p.Ops)-1 {
			deliver(fmt.Sprintf("after op %d", i))
		}
	}
	deliver("final")

	// a key-holding receiver writes to the encrypted document itself
	if p.Receiver == "keys-store" && len(p.ReceiverUpdate) > 0 {
		vals, ss := x.setArgs(c11Op{Set: p.ReceiverUpdate}, len(p.Ops), "doc", "B")
		err := colUpdate(ctx, b, x.docID, vals)
		x.logf("B: update set=%v err=%v", p.ReceiverUpdate, err)
		if err != nil {
			r.Note("receiver_update_failed")
			// the values were not written: forget them
			x.secrets = x.secrets[:len(x.secrets)-len(ss)]
		} else {
			r.Count("receiver_updates", 1)
			x.scanWriter(b, brec, "B", "after update on key-holding receiver")
			// and the original writer still finds nothing in clear after taking B's commit
			heads := b.CompositeHeads(ctx, x.docID)
			if len(heads) == 1 {
				head := core.ParseCid(heads[0])
				core.CopyClosure(ctx, b, a, head)
				merr := a.Merge(ctx, x.docID, head, x.colID)
				x.logf("deliver B head %s -> A: merge err=%v", head, merr)
				if merr != nil {
					x.violate("receiver/merge-error/writer-takes-receiver-update", fmt.Sprintf("merging the update of a key-holding receiver back on the writer fails: %v", merr), nil)
				} else {
					ga, _ := c11Read(ctx, a, x.docID)
					gb, _ := c11Read(ctx, b, x.docID)
					for _, f := range p.ReceiverUpdate {
						r.Count("readback_fields_compared", 1)
						if ga == nil || gb == nil || !sameValue(c11Kind[f], gb[f], ga[f]) {
							x.violate(fmt.Sprintf("readback/writer-takes-receiver-update/%s", c11CRDT(f)),
								fmt.Sprintf("after merging the key-holding receiver's update the writer reads %s = %v, the receiver %v", f, ga[f], gb[f]), map[string]any{"A": ga, "B": gb})
						}
					}
					x.scanWriter(a, x.rec, "A", "after merging the receiver's update")
					for _, s := range ss {
						x.addForeign(s.Field, s.Value)
					}
				}
			}
		}
	}

	// commits of clear origin reach the writer, which goes on updating its encrypted fields
	if p.Mixed != nil {
		mp, upd := x.runMixed(b, hasKey, createVals, writerReadback)
		pattern = append(pattern, p.Mixed.Via+mp)
		nontrivial = nontrivial || upd
	}

	if x.ctlMiss {
		r.Count("cases_control_failed", 1)
	} else {
		r.Count("cases_control_ok", 1)
	}
	if nontrivial {
		absent := []string{}
		for _, f := range c11Fields[1:] {
			in := false
			for _, g := range p.Create {
				in = in || g == f
			}
			if !in {
				absent = append(absent, f)
			}
		}
		r.Nontrivial(fmt.Sprintf("%s|%v|%v|absent=%v|%v|%s", p.Mode, p.EncFields, p.Branchable, absent, pattern, p.Receiver))
		r.Count("nontrivial_histories", 1)
	}
	r.Sample(map[string]any{"params": p, "docID": x.docID, "secrets": len(x.secrets), "log": x.log})
}

func init() {
	core.Register(&core.Check{
		ID: "C11", Level: "exploration",
		Rule: "17 anchor histories + generated histories on a writer node (document-level encryption or a subset of <=4 encrypted fields, branchable or not, creates omitting fields, " +
			"1-5 updates via collection API or GraphQL touching encrypted and clear registers and counters, fields first written by an update, nulling and re-setting) with one receiver " +
			"(key-less / keys via enc-keys-request / keys in its key store / partial keys; optional updates by the key-holding receiver); about half of the histories end with 1-3 rounds of " +
			"'commits of clear origin (a twin node that created the same document without encryption, or the key-less/partial receiver writing fields it has no key for, with public tokens) are merged into the writer, " +
			"the writer updates encrypted fields - now with heads of mixed encryption - with fresh secrets'. Every written value is a unique token; after every operation " +
			"all values under /db/blocks and all update-event Block bytes are byte-searched for every image of every secret. non-trivial = >=1 update of an encrypted field after create; " +
			"distinct by (mode, encrypted fields, branchable, fields absent at create, update pattern incl. the mixed-heads rounds, receiver).",
		Cases: c11Cases,
		Run:   runC11,
		Floors: []string{"control_ok", "encrypted_field_explicitly_null_at_create", "control_found_string", "control_found_int", "control_found_float", "control_found_json", "control_found_counter-int", "control_found_counter-float",
			"first_write_by_update_doc_level", "receiver_keyless", "receiver_key_holding", "receiver_partial_keys", "keys_checked", "updates_of_encrypted_fields",
			"event_blocks_scanned", "receiver_updates", "nontrivial_histories",
			"mixed_heads_writer_updates", "mixed_heads_writer_updates_via_twin", "mixed_heads_writer_updates_via_keyless-write", "mixed_heads_clear_head_sorts_first",
			"mixed_heads_writer_updates_lww", "mixed_heads_writer_updates_counter", "secret_searches_written_on_mixed_heads"},
		CaseTimeout: 10 * time.Minute, // a case is < 1 s of work; the watchdog must not fire because the machine is loaded
		PostProcess: func(sup *core.Supervisor, m *core.Rec) {
			// the positive control must have been found in every case, else the scanner is blind somewhere
			if m.Counters["control_missing"] == 0 && m.Counters["cases_control_failed"] == 0 {
				m.Counters["control_ok"] = m.Counters["control_found"]
			} else {
				m.Counters["control_ok"] = 0
			}
		},
		Assumptions: []string{
			"'the store that is shared with peers' = every value under /db/blocks; 'handed to the network layer' = Block bytes of update events",
			"plaintext images searched: raw UTF-8 of string tokens, CBOR uint64/float64 images and decimal text of numeric tokens, compact JSON text and member tokens of JSON values",
			"delivery to the receiver = block-closure copy + hook H1 VerifMerge; the harness plays the key-management service on the receiver's event bus",
			"values written by a node that holds no key of the field (twin node, key-less receiver) are public tokens, and the create values of the writer stop being secrets once the twin node has written the same document in clear: neither is searched for",
		},
	})
}
