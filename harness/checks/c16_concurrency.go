package checks

// C16 - concurrent use of one node is race-free and loses no committed effect.
//
// Three oracles over repeated randomized runs of the real code built with -race:
//  (1) the Go race detector (reports read from the GORACE log files, attributed to the case
//      that produced them, de-duplicated by the pair of DefraDB boundary frames);
//  (2) porcupine on the call/return history recorded at the client boundary, partitioned per
//      document (register v + counter n + remotely written register w);
//  (3) conservation at the end: acknowledged creates exist, failed ones do not, counters equal
//      the sum of acknowledged increments plus all merged remote increments, no value of a
//      failed write is visible, every merge on a quiet document completes.

import (
	"context"
	"encoding/json"
	"errors"
	"fmt"
	"math/rand/v2"
	"os"
	"regexp"
	"runtime"
	"sort"
	"strings"
	"sync"
	"sync/atomic"
	"syscall"
	"time"

	"github.com/ipfs/go-cid"
	"github.com/sourcenetwork/corekv"
	"github.com/sourcenetwork/immutable"

	"github.com/sourcenetwork/defradb/acp/dac"
	"github.com/sourcenetwork/defradb/client"
	"github.com/sourcenetwork/defradb/event"
	coreblock "github.com/sourcenetwork/defradb/internal/core/block"
	"github.com/sourcenetwork/defradb/internal/db"
	dnet "github.com/sourcenetwork/defradb/net"
	netConfig "github.com/sourcenetwork/defradb/net/config"
	"github.com/sourcenetwork/defradb/verifharness/core"
	"github.com/sourcenetwork/defradb/verifharness/hist"
)

const c16SDL = `type U {
	name: String
	k: Int
	v: String
	w: String
	n: Int @crdt(type: pcounter)
}`

type c16Params struct {
	Workload string  `json:"workload"` // mixed | ctxn
	G        int     `json:"g"`        // goroutines
	Ops      int     `json:"ops"`      // operations per goroutine
	Procs    int     `json:"procs"`    // GOMAXPROCS
	Yield    float64 `json:"yield"`    // probability of a yield/sleep at a storage call
	// mixed
	IndexChurn  bool `json:"index_churn,omitempty"`
	Chains      int  `json:"chains,omitempty"`    // remote nodes preparing commits
	ChainLen    int  `json:"chain_len,omitempty"` // commits per remote node and hot document
	Churn       int  `json:"churn,omitempty"`     // size of the create/delete pool
	QuietWrites int  `json:"quiet_writes"`        // local writes allowed on the quiet hot document (doc 0)
	CheckerS    int  `json:"checker_s,omitempty"` // porcupine timeout per partition (seconds)
	// ctxn
	Outside bool `json:"outside,omitempty"` // an outside writer provokes a commit conflict
	// replicator
	Aggressive bool `json:"aggressive,omitempty"` // two togglers that do not wait for the initial push
}

func init() {
	core.Register(&core.Check{
		ID:    "C16",
		Level: "exploration",
		Rule: "case = one randomized concurrent run (workload, goroutines, ops, GOMAXPROCS, yield probability, seed) of the -race build; " +
			"distinct non-trivial = (a) a document partition whose history contained overlapping operations and at least one acknowledged write, " +
			"keyed by the hash of its call/return interleaving, (b) a shared concurrent transaction run keyed by its per-goroutine outcome vector, " +
			"(c) a de-duplicated race-report class",
		Cases:       c16Cases,
		Run:         c16Run,
		Race:        true,
		CaseTimeout: 420 * time.Second,
		Floors: []string{"ctxn_cases_one_shared_context", "ctxn_cases_context_per_goroutine", "floor_acked_ops_ge_1000", "floor_conflicts_ge_20", "floor_overlap_matrix_complete",
			"merges_completed", "merge_vs_local_write_overlaps", "ctxn_commits_ok", "ctxn_commits_conflicted", "partitions_linearizable",
			"bidir_runs", "bidir_docs_with_remote_increments_merged", "shared_handle_runs", "shared_handle_acked_updates"},
		PostProcess: c16Post,
		Assumptions: []string{
			"absence of a race report is not absence of races: only the interleavings that the repeated randomized runs (yield injection at storage calls, GOMAXPROCS 2/8/16) produced are covered",
			"collection handles are fetched per operation; while index DDL runs concurrently, collection-API writes fetch the handle inside the same explicit transaction (a handle fetched before a CreateIndex commit does not know the index)",
			"a write that returned an error is modelled as a no-op: every write path returns txn.Commit's error last, and the in-memory badger commit does not fail after it has applied",
			"a merge on the quiet document must complete because at most 3 local writes can conflict with it and the retry loop makes 5 attempts; merges lost on busy documents are only counted",
			"linearizability is decided per document; list queries are split into one read per document with the same call/return stamps (sound, not complete, for cross-document atomicity)",
			"porcupine v1.3.0 and the Go race detector are trusted; a checker timeout makes the partition inconclusive, not violated",
		},
	})
}

// A replay (`vh C16 --replay file`) is started without GORACE, so the detector would write its
// reports to stderr where the check cannot read them: re-exec once with a log file.
func init() {
	if !hist.RaceEnabled || len(os.Args) < 3 || os.Args[1] != "C16" || strings.Contains(os.Getenv("GORACE"), "log_path=") {
		return
	}
	isReplay := false
	for _, a := range os.Args {
		if a == "--replay" || a == "-replay" || strings.HasPrefix(a, "--replay=") {
			isReplay = true
		}
	}
	if !isReplay {
		return
	}
	self, err := os.Executable()
	if err != nil {
		return
	}
	dir, err := os.MkdirTemp("", "c16-replay-race")
	if err != nil {
		return
	}
	env := append(os.Environ(), "GORACE=halt_on_error=0 exitcode=0 log_path="+dir+"/race")
	_ = syscall.Exec(self, os.Args, env)
}

func c16Cases(seed uint64, tier string) []core.Case {
	rng := rand.New(rand.NewPCG(seed, 1616))
	var cs []core.Case
	mk := func(p c16Params) {
		if p.Workload == "mixed" {
			p.CheckerS = 6
			if tier == "thorough" {
				p.CheckerS = 10
			}
		}
		cs = append(cs, core.MkCase(p.Workload, rng.Uint64(), p))
	}
	// anchors (seed-independent parameters): every floor counter is hit by construction
	anchors := []c16Params{
		{Workload: "mixed", G: 8, Ops: 60, Procs: 8, Yield: 0.02, Chains: 1, ChainLen: 6, Churn: 2, QuietWrites: 3},
		{Workload: "mixed", G: 12, Ops: 50, Procs: 16, Yield: 0.02, Chains: 8, ChainLen: 1, Churn: 2, QuietWrites: 3},
		{Workload: "mixed", G: 8, Ops: 60, Procs: 2, Yield: 0.05, IndexChurn: true, Chains: 2, ChainLen: 3, Churn: 2, QuietWrites: 3},
		{Workload: "ctxn", G: 4, Ops: 30, Procs: 8, Yield: 0.02},
		{Workload: "ctxn", G: 6, Ops: 30, Procs: 16, Yield: 0.02, Outside: true},
		{Workload: "ctxn", G: 8, Ops: 25, Procs: 2, Yield: 0.05},
		{Workload: "ddl-handle", G: 2, Ops: 2, Procs: 8},
		{Workload: "replicator", G: 4, Ops: 25, Procs: 8, Yield: 0.02},
		{Workload: "replicator", G: 4, Ops: 25, Procs: 8, Yield: 0.02, Aggressive: true},
	}
	for _, a := range anchors {
		mk(a)
	}
	runs := 6
	if tier == "thorough" {
		runs = 40
	}
	procs := []int{2, 8, 16}
	for i := 0; i < runs; i++ {
		g := []int{8, 12, 16}[rng.IntN(3)]
		ops := 50 + rng.IntN(51)
		if tier == "thorough" {
			g = []int{8, 16, 24, 32}[rng.IntN(4)]
			ops = 50 + rng.IntN(101)
		}
		// more than 16 goroutines only with GOMAXPROCS >= 8 (32 goroutines on 2 procs under -race take minutes)
		gFor := func(pr int) int {
			if pr == 2 && g > 16 {
				return 16
			}
			return g
		}
		// mixed, plain
		mk(c16Params{Workload: "mixed", G: gFor(procs[i%3]), Ops: ops, Procs: procs[i%3], Yield: []float64{0, 0.02, 0.08}[rng.IntN(3)],
			Chains: 1 + rng.IntN(3), ChainLen: 2 + rng.IntN(5), Churn: 1 + rng.IntN(2), QuietWrites: 3})
		// mixed, merge storm of independent branches, no index churn
		mk(c16Params{Workload: "mixed", G: gFor(procs[(i+1)%3]), Ops: ops, Procs: procs[(i+1)%3], Yield: []float64{0, 0.02, 0.08}[rng.IntN(3)],
			Chains: 6 + rng.IntN(5), ChainLen: 1, Churn: 2, QuietWrites: rng.IntN(4)})
		// mixed with index DDL
		mk(c16Params{Workload: "mixed", G: gFor(procs[(i+2)%3]), Ops: ops, Procs: procs[(i+2)%3], Yield: []float64{0, 0.02, 0.08}[rng.IntN(3)],
			IndexChurn: true, Chains: 1 + rng.IntN(2), ChainLen: 2 + rng.IntN(3), Churn: 2, QuietWrites: 3})
		// shared concurrent transaction
		mk(c16Params{Workload: "ctxn", G: 4 + rng.IntN(5), Ops: 20 + rng.IntN(30), Procs: procs[i%3], Yield: []float64{0, 0.02, 0.08}[rng.IntN(3)],
			Outside: i%2 == 1})
		mk(c16Params{Workload: "ctxn", G: 4 + rng.IntN(5), Ops: 20 + rng.IntN(30), Procs: procs[(i+1)%3], Yield: []float64{0, 0.02, 0.08}[rng.IntN(3)],
			Outside: i%2 == 0})
		if i%3 == 0 {
			mk(c16Params{Workload: "replicator", G: 3 + rng.IntN(4), Ops: 20 + rng.IntN(20), Procs: procs[(i/2)%3], Yield: []float64{0, 0.02}[rng.IntN(2)]})
		}
	}
	// two peers replicating to each other under local writes on both (own generator, so that the
	// cases above do not depend on how many of these there are)
	brng := rand.New(rand.NewPCG(seed, 161616))
	bmk := func(p c16Params) { cs = append(cs, core.MkCase(p.Workload, brng.Uint64(), p)) }
	bmk(c16Params{Workload: "bidir", G: 3, Ops: 30, Procs: 8, Yield: 0.02})
	bmk(c16Params{Workload: "bidir", G: 4, Ops: 25, Procs: 2, Yield: 0})
	nb := 2
	if tier == "thorough" {
		nb = 14
	}
	for i := 0; i < nb; i++ {
		bmk(c16Params{Workload: "bidir", G: 2 + brng.IntN(5), Ops: 20 + brng.IntN(30), Procs: procs[i%3], Yield: []float64{0, 0.02, 0.08}[brng.IntN(3)]})
	}
	// one collection handle shared by all goroutines
	bmk(c16Params{Workload: "shared-handle", G: 8, Ops: 40, Procs: 8, Yield: 0.02})
	bmk(c16Params{Workload: "shared-handle", G: 6, Ops: 40, Procs: 2, Yield: 0})
	for i := 0; i < nb; i++ {
		bmk(c16Params{Workload: "shared-handle", G: 4 + brng.IntN(9), Ops: 30 + brng.IntN(40), Procs: procs[(i+1)%3], Yield: []float64{0, 0.02, 0.08}[brng.IntN(3)]})
	}
	return cs
}

func c16Run(ctx context.Context, c core.Case, r *core.Rec) {
	var p c16Params
	c.P(&p)
	if p.Procs > 0 {
		prev := runtime.GOMAXPROCS(p.Procs)
		defer runtime.GOMAXPROCS(prev)
	}
	r.Count(fmt.Sprintf("cases_gomaxprocs_%d", p.Procs), 1)
	switch p.Workload {
	case "ddl-handle":
		c16RunDDLHandle(ctx, c, p, r)
	case "replicator":
		c16RunReplicator(ctx, c, p, r)
	case "bidir":
		c16RunBidir(ctx, c, p, r)
	case "shared-handle":
		c16RunSharedHandle(ctx, c, p, r)
	case "ctxn":
		c16RunCtxn(ctx, c, p, r)
	default:
		c16RunMixed(ctx, c, p, r)
	}
	c16ScanRaceLog(r)
}

// ---------------------------------------------------------------------------------------
// helpers

func c16IsConflict(err error) bool {
	if err == nil {
		return false
	}
	return errors.Is(err, corekv.ErrTxnConflict) || strings.Contains(strings.ToLower(err.Error()), "conflict")
}

func c16PanicSig(stack string) string {
	for _, l := range strings.Split(stack, "\n") {
		l = strings.TrimSpace(l)
		if strings.HasPrefix(l, "github.com/sourcenetwork/defradb/") && !strings.Contains(l, "verifharness") {
			if i := strings.LastIndex(l, "("); i > 0 {
				l = l[:i]
			}
			return strings.TrimPrefix(l, "github.com/sourcenetwork/defradb/")
		}
	}
	for _, l := range strings.Split(stack, "\n") {
		l = strings.TrimSpace(l)
		if strings.HasPrefix(l, "github.com/") && !strings.Contains(l, "verifharness") {
			if i := strings.LastIndex(l, "("); i > 0 {
				l = l[:i]
			}
			return "dep:" + l
		}
	}
	return "unknown-frame"
}

// c16Guard turns a panic of a client goroutine into a violation with a sharp signature
// (the property says: no panics).
func c16Guard(r *core.Rec, what string) {
	if p := recover(); p != nil {
		buf := make([]byte, 32<<10)
		buf = buf[:runtime.Stack(buf, false)]
		ps := fmt.Sprintf("%v\n%s", p, buf)
		r.Violate("panic/"+c16PanicSig(ps), fmt.Sprintf("panic in a client goroutine (%s): %v", what, p), map[string]any{"stack": ps})
	}
}

func c16Int(v any) int64 {
	switch x := v.(type) {
	case nil:
		return 0
	case int64:
		return x
	case int:
		return int64(x)
	case uint64:
		return int64(x)
	case float64:
		return int64(x)
	case json.Number:
		n, err := x.Int64()
		if err != nil {
			f, _ := x.Float64()
			return int64(f)
		}
		return n
	}
	return -999999
}

func c16Str(v any) string {
	if s, ok := v.(string); ok {
		return s
	}
	return ""
}

func c16DocState(d *client.Document) (v, w string, n int64, err error) {
	m, err := d.ToMap()
	if err != nil {
		return "", "", 0, err
	}
	return c16Str(m["v"]), c16Str(m["w"]), c16Int(m["n"]), nil
}

// ---------------------------------------------------------------------------------------
// mixed workload

type c16Env struct {
	ctx    context.Context
	p      c16Params
	r      *core.Rec
	a      *core.Node
	bs     []*core.Node
	rec    *hist.Recorder
	colID  string
	docIDs []string
	keys   []client.DocID
	create []map[string]any // creation content of pool docs
	info   []*hist.DocInfo
	remote [][][]cid.Cid // [hot doc][chain][idx-1]

	copyMu sync.Mutex
	copied map[string]bool

	pendMu    sync.Mutex
	pend      map[string][]*hist.Op
	compl     map[string]int // completions seen per (docID|cid)
	published atomic.Int64
	completed atomic.Int64

	quietBudget atomic.Int64
	acked       atomic.Int64
	conflicts   atomic.Int64
	otherErrs   sync.Map // error text -> count
}

const c16Hot = 2

func (e *c16Env) noteErr(api string, err error) {
	if err == nil {
		return
	}
	if c16IsConflict(err) {
		e.conflicts.Add(1)
		e.r.Count("conflicts:"+api, 1)
		return
	}
	s := err.Error()
	for _, id := range e.docIDs {
		s = strings.ReplaceAll(s, id, "<docID>")
	}
	if len(s) > 90 {
		s = s[:90]
	}
	e.r.Note("err:" + api + ": " + s)
}

func (e *c16Env) end(op *hist.Op, out hist.Output) {
	e.rec.End(op, out)
	e.r.Count("api:"+op.In.API, 1)
	if out.Ok {
		e.acked.Add(1)
	}
}

func c16RunMixed(ctx context.Context, c core.Case, p c16Params, r *core.Rec) {
	e := &c16Env{ctx: ctx, p: p, r: r, rec: hist.NewRecorder(), pend: map[string][]*hist.Op{}, compl: map[string]int{}, copied: map[string]bool{}}
	e.a = core.NewNode(ctx, core.NodeOpts{Fault: true})
	defer e.a.Close()
	_, err := e.a.DB.AddSchema(ctx, c16SDL)
	core.Must(err)
	col := e.a.Col(ctx, "U")
	e.colID = col.Version().CollectionID
	e.quietBudget.Store(int64(p.QuietWrites))

	// pool: docs 0,1 are hot (exist from the start, receive merges), the rest is the create/delete pool
	nPool := c16Hot + p.Churn
	for i := 0; i < nPool; i++ {
		m := map[string]any{"name": fmt.Sprintf("doc%d", i), "k": i}
		inf := &hist.DocInfo{}
		if i < c16Hot {
			m["v"] = fmt.Sprintf("init%d", i)
			m["n"] = 0
			inf.Live0, inf.V0 = true, fmt.Sprintf("init%d", i)
		}
		doc, err := client.NewDocFromMap(m, col.Definition())
		core.Must(err)
		if i < c16Hot {
			core.Must(col.Create(ctx, doc))
		}
		e.create = append(e.create, m)
		e.keys = append(e.keys, doc.ID())
		e.docIDs = append(e.docIDs, doc.ID().String())
		e.info = append(e.info, inf)
	}
	// remote commits: every remote node first merges the genesis commit of each hot document,
	// then writes ChainLen commits on top of it. Chain 0 also writes the register w.
	e.remote = make([][][]cid.Cid, c16Hot)
	for j := 0; j < p.Chains; j++ {
		b := core.NewNode(ctx, core.NodeOpts{})
		defer b.Close()
		e.bs = append(e.bs, b)
		_, err := b.DB.AddSchema(ctx, c16SDL)
		core.Must(err)
		bcol := b.Col(ctx, "U")
		for d := 0; d < c16Hot; d++ {
			heads := e.a.CompositeHeads(ctx, e.docIDs[d])
			if len(heads) != 1 {
				panic(fmt.Sprintf("setup: %d genesis heads", len(heads)))
			}
			g := core.ParseCid(heads[0])
			core.CopyClosure(ctx, e.a, b, g)
			core.Must(b.Merge(ctx, e.docIDs[d], g, e.colID))
			var chain []hist.Remote
			var cids []cid.Cid
			for i := 1; i <= p.ChainLen; i++ {
				doc, err := bcol.Get(ctx, e.keys[d], false)
				core.Must(err)
				rm := hist.Remote{Inc: int64(1000*(j+1) + 10*i)}
				core.Must(doc.Set("n", rm.Inc))
				if j == 0 {
					rm.W = fmt.Sprintf("w%d.%d", d, i)
					core.Must(doc.Set("w", rm.W))
				}
				core.Must(bcol.Update(ctx, doc))
				hs := b.CompositeHeads(ctx, e.docIDs[d])
				if len(hs) != 1 {
					panic("setup: remote chain is not linear")
				}
				chain = append(chain, rm)
				cids = append(cids, core.ParseCid(hs[0]))
			}
			e.info[d].Chains = append(e.info[d].Chains, chain)
			e.remote[d] = append(e.remote[d], cids)
		}
	}
	// merge-complete events are matched to the pending merge operations at receipt
	busrec := core.NewBusRecorder(e.a.DB.Events(), func(ev *core.BusEvent) {
		if ev.Name != event.MergeCompleteName {
			return
		}
		ts := e.rec.Stamp()
		key := ev.DocID + "|" + ev.Cid
		e.pendMu.Lock()
		e.compl[key]++
		if q := e.pend[key]; len(q) > 0 {
			op := q[0]
			e.pend[key] = q[1:]
			e.rec.EndAt(op, hist.Output{Ok: true}, ts)
			e.completed.Add(1)
		}
		e.pendMu.Unlock()
	}, event.MergeCompleteName)
	defer busrec.Close()

	e.a.Fault.EnableYield(p.Yield, c.Seed)

	var wg sync.WaitGroup
	for g := 0; g < p.G; g++ {
		wg.Add(1)
		go func(g int) {
			defer wg.Done()
			defer c16Guard(r, "mixed workload")
			e.worker(g, rand.New(rand.NewPCG(c.Seed, uint64(g)+1)))
		}(g)
	}
	t0 := time.Now()
	wg.Wait()
	r.Count("ms_mixed_concurrent_phase", time.Since(t0).Milliseconds())
	e.a.Fault.EnableYield(0, 1)
	t0 = time.Now()
	e.finish(busrec)
	r.Count("ms_mixed_finish", time.Since(t0).Milliseconds())
}

func (e *c16Env) uniq(g int, ctr *int) string {
	*ctr++
	return fmt.Sprintf("g%d.%d", g, *ctr)
}

// pickDoc chooses a pool document; writes prefer the busy hot document and the churn pool.
func (e *c16Env) pickDoc(rng *rand.Rand, forWrite bool) int {
	n := len(e.docIDs)
	if forWrite {
		x := rng.IntN(10)
		switch {
		case x < 5:
			return 1
		case x < 6:
			return 0
		default:
			return c16Hot + rng.IntN(n-c16Hot)
		}
	}
	return rng.IntN(n)
}

func (e *c16Env) pickChurn(rng *rand.Rand) int { return c16Hot + rng.IntN(len(e.docIDs)-c16Hot) }

// allowWrite enforces the bound on local writes to the quiet document.
func (e *c16Env) allowWrite(d int) bool {
	if d != 0 {
		return true
	}
	return e.quietBudget.Add(-1) >= 0
}

// withCol runs fn with a collection handle. explicit: handle fetch and operation share one
// explicit transaction (atomic w.r.t. concurrent index DDL); otherwise implicit transactions.
func (e *c16Env) withCol(explicit bool, fn func(ctx context.Context, col client.Collection) error) error {
	if !explicit {
		col, err := e.a.DB.GetCollectionByName(e.ctx, "U")
		if err != nil {
			return err
		}
		return fn(e.ctx, col)
	}
	txn, err := e.a.DB.NewTxn(e.ctx, false)
	if err != nil {
		return err
	}
	defer txn.Discard(e.ctx)
	tctx := db.InitContext(e.ctx, txn)
	col, err := e.a.DB.GetCollectionByName(tctx, "U")
	if err != nil {
		return err
	}
	if err := fn(tctx, col); err != nil {
		return err
	}
	return txn.Commit(e.ctx)
}

func (e *c16Env) worker(g int, rng *rand.Rand) {
	ctr := 0
	p := e.p
	for i := 0; i < p.Ops; i++ {
		x := rng.IntN(100)
		explicit := p.IndexChurn || rng.IntN(3) == 0
		switch {
		case x < 10:
			e.opColGet(g, e.pickDoc(rng, false))
		case x < 18:
			e.opGqlGet(g, e.pickDoc(rng, false))
		case x < 24:
			e.opGqlList(g)
		case x < 30:
			e.opGqlFilter(g, e.pickDoc(rng, false))
		case x < 45:
			e.opColUpdate(g, e.pickDoc(rng, true), e.uniq(g, &ctr), int64(1+rng.IntN(3)), explicit)
		case x < 57:
			e.opGqlUpdate(g, e.pickDoc(rng, true), e.uniq(g, &ctr), int64(1+rng.IntN(3)))
		case x < 64:
			e.opColCreate(g, e.pickChurn(rng), explicit)
		case x < 70:
			e.opGqlCreate(g, e.pickChurn(rng))
		case x < 74:
			e.opColDelete(g, e.pickChurn(rng), explicit)
		case x < 77:
			e.opGqlDelete(g, e.pickChurn(rng))
		case x < 92:
			if p.Chains > 0 && p.ChainLen > 0 {
				d := rng.IntN(c16Hot)
				if rng.IntN(3) > 0 {
					d = 0 // most merges go to the quiet document, whose merges must all complete
				}
				e.opMerge(g, d, rng.IntN(p.Chains), 1+rng.IntN(p.ChainLen), rng.IntN(4) > 0)
			} else {
				e.opColGet(g, e.pickDoc(rng, false))
			}
		default:
			if p.IndexChurn {
				e.opIndex(g, rng.IntN(2) == 0, []string{"k", "v"}[rng.IntN(2)])
			} else {
				e.opGqlList(g)
			}
		}
	}
}

func (e *c16Env) opColGet(g, d int) {
	op := e.rec.Begin(g, hist.Input{Kind: hist.KRead, Doc: d, API: "col.Get"})
	var doc *client.Document
	err := e.withCol(false, func(ctx context.Context, col client.Collection) error {
		var err error
		doc, err = col.Get(ctx, e.keys[d], false)
		return err
	})
	e.end(op, e.readOut(doc, err, "col.Get"))
}

func (e *c16Env) readOut(doc *client.Document, err error, api string) hist.Output {
	switch {
	case err == nil:
		v, w, n, derr := c16DocState(doc)
		if derr != nil {
			return hist.Output{Err: derr.Error()}
		}
		return hist.Output{Ok: true, Found: true, HasState: true, V: v, W: w, N: n}
	case errors.Is(err, client.ErrDocumentNotFoundOrNotAuthorized):
		return hist.Output{Ok: true, Found: false}
	default:
		e.noteErr(api, err)
		return hist.Output{Err: err.Error()}
	}
}

func (e *c16Env) rowOut(row map[string]any) hist.Output {
	return hist.Output{Ok: true, Found: true, HasState: true, V: c16Str(row["v"]), W: c16Str(row["w"]), N: c16Int(row["n"])}
}

func (e *c16Env) opGqlGet(g, d int) {
	op := e.rec.Begin(g, hist.Input{Kind: hist.KRead, Doc: d, API: "gql.query"})
	rows, err := core.ExecRows(e.ctx, e.a.DB, fmt.Sprintf(`query { U(docID: "%s") { _docID v w n } }`, e.docIDs[d]), "U")
	switch {
	case err != nil:
		e.noteErr("gql.query", err)
		e.end(op, hist.Output{Err: err.Error()})
	case len(rows) == 0:
		e.end(op, hist.Output{Ok: true})
	default:
		e.end(op, e.rowOut(rows[0]))
	}
}

// opGqlList reads the whole collection in one request: one read per pool document, all with
// the same call and return stamps.
func (e *c16Env) opGqlList(g int) {
	e.multiRead(g, "gql.list", `query { U { _docID v w n } }`, nil)
}

// opGqlFilter reads through a filter on k (served by the index on k when one exists).
func (e *c16Env) opGqlFilter(g, d int) {
	e.multiRead(g, "gql.filter", fmt.Sprintf(`query { U(filter: {k: {_eq: %d}}) { _docID v w n } }`, d), []int{d})
}

func (e *c16Env) multiRead(g int, api, req string, docs []int) {
	if docs == nil {
		for d := range e.docIDs {
			docs = append(docs, d)
		}
	}
	ops := make([]*hist.Op, len(docs))
	for i, d := range docs {
		ops[i] = e.rec.Begin(g, hist.Input{Kind: hist.KRead, Doc: d, API: api})
	}
	rows, err := core.ExecRows(e.ctx, e.a.DB, req, "U")
	if err != nil {
		e.noteErr(api, err)
		for _, op := range ops {
			e.end(op, hist.Output{Err: err.Error()})
		}
		return
	}
	byID := map[string]map[string]any{}
	for _, row := range rows {
		byID[c16Str(row["_docID"])] = row
	}
	for i, d := range docs {
		if row, ok := byID[e.docIDs[d]]; ok {
			e.end(ops[i], e.rowOut(row))
		} else {
			e.end(ops[i], hist.Output{Ok: true})
		}
	}
}

func (e *c16Env) opColUpdate(g, d int, val string, inc int64, explicit bool) {
	if !e.allowWrite(d) {
		e.opColGet(g, d)
		return
	}
	api := "col.Update"
	if explicit {
		api = "txn.col.Update"
	}
	// Get and Update are two client calls (two transactions unless explicit): both are recorded
	var rd, up *hist.Op
	var rdOut hist.Output
	attempted := false
	if !explicit {
		rd = e.rec.Begin(g, hist.Input{Kind: hist.KRead, Doc: d, API: "col.Get"})
	} else {
		up = e.rec.Begin(g, hist.Input{Kind: hist.KUpdate, Doc: d, V: val, Inc: inc, API: api})
	}
	err := e.withCol(explicit, func(ctx context.Context, col client.Collection) error {
		doc, err := col.Get(ctx, e.keys[d], false)
		if !explicit {
			rdOut = e.readOut(doc, err, "col.Get")
			e.end(rd, rdOut)
		}
		if err != nil {
			return err
		}
		if err := doc.Set("v", val); err != nil {
			return err
		}
		if err := doc.Set("n", inc); err != nil {
			return err
		}
		if !explicit {
			up = e.rec.Begin(g, hist.Input{Kind: hist.KUpdate, Doc: d, V: val, Inc: inc, API: api})
		}
		attempted = true
		return col.Update(ctx, doc)
	})
	if up == nil {
		return // the document was not there: only the read happened
	}
	if err != nil {
		if attempted || !errors.Is(err, client.ErrDocumentNotFoundOrNotAuthorized) {
			e.noteErr(api, err)
		}
		e.end(up, hist.Output{Err: err.Error()})
		return
	}
	e.end(up, hist.Output{Ok: true})
}

func (e *c16Env) opGqlUpdate(g, d int, val string, inc int64) {
	if !e.allowWrite(d) {
		e.opGqlGet(g, d)
		return
	}
	op := e.rec.Begin(g, hist.Input{Kind: hist.KUpdate, Doc: d, V: val, Inc: inc, API: "gql.update"})
	rows, err := core.ExecRows(e.ctx, e.a.DB,
		fmt.Sprintf(`mutation { update_U(docID: "%s", input: {v: "%s", n: %d}) { _docID v w n } }`, e.docIDs[d], val, inc), "update_U")
	switch {
	case err != nil:
		e.noteErr("gql.update", err)
		e.end(op, hist.Output{Err: err.Error()})
	case len(rows) == 0:
		e.end(op, hist.Output{Err: "no document matched"})
	default:
		out := e.rowOut(rows[0])
		out.Found = false
		e.end(op, out)
	}
}

func (e *c16Env) opColCreate(g, d int, explicit bool) {
	api := "col.Create"
	if explicit {
		api = "txn.col.Create"
	}
	op := e.rec.Begin(g, hist.Input{Kind: hist.KCreate, Doc: d, API: api})
	err := e.withCol(explicit, func(ctx context.Context, col client.Collection) error {
		doc, err := client.NewDocFromMap(e.create[d], col.Definition())
		if err != nil {
			return err
		}
		return col.Create(ctx, doc)
	})
	if err != nil {
		e.noteErr(api, err)
		e.end(op, hist.Output{Err: err.Error()})
		return
	}
	e.end(op, hist.Output{Ok: true})
}

func (e *c16Env) opGqlCreate(g, d int) {
	op := e.rec.Begin(g, hist.Input{Kind: hist.KCreate, Doc: d, API: "gql.create"})
	rows, err := core.ExecRows(e.ctx, e.a.DB,
		fmt.Sprintf(`mutation { create_U(input: {name: "%s", k: %d}) { _docID } }`, e.create[d]["name"], d), "create_U")
	switch {
	case err != nil:
		e.noteErr("gql.create", err)
		e.end(op, hist.Output{Err: err.Error()})
	case len(rows) != 1 || c16Str(rows[0]["_docID"]) != e.docIDs[d]:
		e.r.Violate("harness-bug/gql-create-docid", "create_U returned an unexpected docID", map[string]any{"rows": rows, "want": e.docIDs[d]})
		e.end(op, hist.Output{Err: "unexpected result"})
	default:
		e.end(op, hist.Output{Ok: true})
	}
}

func (e *c16Env) opColDelete(g, d int, explicit bool) {
	api := "col.Delete"
	if explicit {
		api = "txn.col.Delete"
	}
	op := e.rec.Begin(g, hist.Input{Kind: hist.KDelete, Doc: d, API: api})
	deleted := false
	err := e.withCol(explicit, func(ctx context.Context, col client.Collection) error {
		var err error
		deleted, err = col.Delete(ctx, e.keys[d])
		return err
	})
	switch {
	case err != nil:
		e.noteErr(api, err)
		e.end(op, hist.Output{Err: err.Error()})
	case !deleted:
		e.end(op, hist.Output{Err: "Delete returned false"})
	default:
		e.end(op, hist.Output{Ok: true})
	}
}

func (e *c16Env) opGqlDelete(g, d int) {
	op := e.rec.Begin(g, hist.Input{Kind: hist.KDelete, Doc: d, API: "gql.delete"})
	rows, err := core.ExecRows(e.ctx, e.a.DB, fmt.Sprintf(`mutation { delete_U(docID: "%s") { _docID } }`, e.docIDs[d]), "delete_U")
	switch {
	case err != nil:
		e.noteErr("gql.delete", err)
		e.end(op, hist.Output{Err: err.Error()})
	case len(rows) == 0:
		e.end(op, hist.Output{Err: "no document matched"})
	default:
		e.end(op, hist.Output{Ok: true})
	}
}

// opMerge delivers a remote commit the way the net layer does: blocks first, then the merge
// event on the bus (asynchronous path with mergeQueue and conflict retry, no hook).
func (e *c16Env) opMerge(g, d, node, idx int, wait bool) (string, int) {
	c := e.remote[d][node][idx-1]
	e.copyMissing(e.bs[node], c)
	op := e.rec.Begin(g, hist.Input{Kind: hist.KMerge, Doc: d, Node: node, Idx: idx, API: "bus.merge"})
	key := e.docIDs[d] + "|" + c.String()
	e.pendMu.Lock()
	e.pend[key] = append(e.pend[key], op)
	base := e.compl[key]
	e.pendMu.Unlock()
	e.published.Add(1)
	e.r.Count("api:bus.merge", 1)
	e.a.DB.Events().Publish(event.NewMessage(event.MergeName, event.Merge{DocID: e.docIDs[d], Cid: c, CollectionID: e.colID}))
	if wait {
		// most deliveries wait (bounded) for their completion, like a peer that pushes one log at a
		// time; this also bounds the number of outstanding merges porcupine has to permute
		// (any completion of this commit counts: completions are matched to the oldest pending delivery)
		for i := 0; i < 1000 && e.completions(key) <= base; i++ {
			time.Sleep(time.Millisecond)
		}
	}
	return key, base
}

func (e *c16Env) completions(key string) int {
	e.pendMu.Lock()
	defer e.pendMu.Unlock()
	return e.compl[key]
}

// copyMissing copies the blocks of the closure of c that the node does not have yet (children
// first, so a present block implies a present closure). Every block is written exactly once:
// re-writing a block that a running merge transaction has read would give that merge a
// conflict that no client operation caused.
func (e *c16Env) copyMissing(src *core.Node, c cid.Cid) {
	e.copyMu.Lock()
	defer e.copyMu.Unlock()
	sb, db := src.Blockstore(), e.a.Blockstore()
	var walk func(c cid.Cid)
	walk = func(c cid.Cid) {
		if e.copied[c.KeyString()] {
			return
		}
		e.copied[c.KeyString()] = true
		if has, err := db.Has(e.ctx, c); err == nil && has {
			return
		}
		b, err := sb.Get(e.ctx, c)
		core.Must(err)
		if blk, err := coreblock.GetFromBytes(b.RawData()); err == nil {
			for _, l := range blk.AllLinks() {
				walk(l.Cid)
			}
		}
		core.Must(db.Put(e.ctx, b))
		e.r.Count("blocks_copied_concurrently", 1)
	}
	walk(c)
}

func (e *c16Env) opIndex(g int, create bool, field string) {
	name := "idx_" + field
	api := "col.DropIndex"
	if create {
		api = "col.CreateIndex"
	}
	op := e.rec.Begin(g, hist.Input{Kind: hist.KOther, Doc: -1, API: api})
	// handle and DDL share one explicit transaction: a handle fetched before another client's
	// DDL committed would silently overwrite that DDL (see the ddl-stale-handle workload)
	err := e.withCol(true, func(ctx context.Context, col client.Collection) error {
		if create {
			_, err := col.CreateIndex(ctx, client.IndexCreateRequest{Name: name, Fields: []client.IndexedFieldDescription{{Name: field}}})
			return err
		}
		return col.DropIndex(ctx, name)
	})
	if err != nil {
		if c16IsConflict(err) {
			e.conflicts.Add(1)
			e.r.Count("conflicts:"+api, 1)
		}
		e.end(op, hist.Output{Err: err.Error()})
		return
	}
	e.r.Count("index_ddl_ok", 1)
	e.end(op, hist.Output{Ok: true})
}

var c16MergeGoroutineRe = regexp.MustCompile(`\(\*DB\)\.handleMessages\.func1`)

// c16MergeGoroutines counts the goroutines that are executing (or queued for) an incoming merge.
func c16MergeGoroutines() int {
	buf := make([]byte, 8<<20)
	buf = buf[:runtime.Stack(buf, true)]
	n := 0
	for _, g := range strings.Split(string(buf), "\n\n") {
		if c16MergeGoroutineRe.MatchString(g) {
			n++
		}
	}
	return n
}

func (e *c16Env) finish(busrec *core.BusRecorder) {
	r, p := e.r, e.p
	final := p.G // client id of the quiescent phase
	// settle: deliver the last commit of every chain once more, without concurrency; it has to complete.
	settled := true
	if p.Chains > 0 && p.ChainLen > 0 {
		// (completions are matched to the oldest pending delivery of the same commit, so the settle
		// condition is "one more completion of that commit", not "this very operation completed")
		type sk struct {
			key  string
			base int
		}
		var sks []sk
		for d := 0; d < c16Hot; d++ {
			for j := 0; j < p.Chains; j++ {
				k, b := e.opMerge(final, d, j, p.ChainLen, false)
				sks = append(sks, sk{k, b})
			}
		}
		// No wall-clock verdict: a settle merge either completes, or its goroutine ends without a
		// completion (then it failed although nothing ran concurrently). While merge goroutines are
		// alive we keep waiting; the framework's watchdog is the backstop.
		busrec.Barrier() // the bus has handed every published merge to the database's subscription
		for _, x := range sks {
			idle := 0
			for i := 1; e.completions(x.key) <= x.base; i++ {
				time.Sleep(time.Millisecond)
				if i%100 != 0 {
					continue
				}
				if c16MergeGoroutines() == 0 {
					idle++
				} else {
					idle = 0
				}
				if idle >= 5 {
					settled = false
					break
				}
			}
		}
		if !settled {
			r.Violate("merge/failed-without-concurrency", "a merge delivered after all clients had finished ended without completing (no merge goroutine left, no merge-complete event)",
				map[string]any{"params": p, "history_doc0": hist.Render(e.rec.Ops(), 300)})
		}
		// quiescence without a clock: every merge goroutine has been spawned (the settle merges were
		// received after all others), wait until none is left
		for i := 0; settled && c16MergeGoroutines() > 0; i++ {
			if i > 60000 {
				settled = false
				r.Violate("hang/merge-goroutine-never-ends", "merge goroutines are still alive long after all deliveries completed", nil)
				break
			}
			time.Sleep(2 * time.Millisecond)
		}
		busrec.Barrier()
	}
	// final reads, recorded as operations of the quiescent client
	for d := range e.docIDs {
		e.opColGet(final, d)
	}
	e.opGqlList(final)

	ops := e.rec.Ops()
	byDoc := make([][]hist.Op, len(e.docIDs))
	for _, o := range ops {
		if o.In.Doc >= 0 {
			byDoc[o.In.Doc] = append(byDoc[o.In.Doc], o)
		}
	}
	r.Count("evaluations", int64(len(ops)))
	r.Count("acked_ops", e.acked.Load())
	r.Count("conflicts", e.conflicts.Load())
	r.Count("merges_published", e.published.Load())
	r.Count("merges_completed", e.completed.Load())
	r.Count("mixed_runs", 1)
	for k, n := range hist.Overlaps(ops) {
		r.Count("ovl:"+k, int64(n))
		if k == "bus.merge|col.Update" || k == "bus.merge|gql.update" || k == "bus.merge|txn.col.Update" {
			r.Count("merge_vs_local_write_overlaps", int64(n))
		}
	}

	// lost merges: exact once quiescent
	if settled {
		for d := 0; d < c16Hot; d++ {
			var lost []string
			for _, o := range byDoc[d] {
				if o.In.Kind == hist.KMerge && o.Out.Pending {
					lost = append(lost, o.String())
				}
			}
			if len(lost) == 0 {
				continue
			}
			if p.IndexChurn {
				// a merge fetches its collection handle before it opens its transaction; an index
				// dropped in between makes it fail with "corrupted index" (not retried). Not a call
				// that reported success, hence counted, not flagged.
				r.Count("merges_lost_with_index_ddl", int64(len(lost)))
			} else if d == 0 {
				r.Violate("merge/lost/fewer-conflicting-writers-than-retries",
					fmt.Sprintf("%d incoming merges for a document with at most %d concurrent local writes never completed (retry loop makes 5 attempts)", len(lost), p.QuietWrites),
					map[string]any{"lost": lost, "history": hist.Render(byDoc[d], 400)})
			} else {
				r.Count("merges_lost_on_busy_doc", int64(len(lost)))
			}
		}
	}

	// (3) conservation against the final state
	finalState := map[int]hist.Output{}
	for _, o := range ops {
		if o.G == final && o.In.API == "col.Get" {
			finalState[o.In.Doc] = o.Out
		}
	}
	for d, inf := range e.info {
		if !settled {
			break
		}
		fs, ok := finalState[d]
		if !ok || !fs.Ok {
			r.Violate("conservation/final-read-failed", "the final read of a document failed: "+fs.Err, nil)
			continue
		}
		live := inf.Live0
		var sum int64 = inf.N0
		var created, deleted int
		ackedVals := map[string]bool{}
		failedVals := map[string]bool{}
		for _, o := range byDoc[d] {
			switch o.In.Kind {
			case hist.KCreate:
				if o.Out.Ok {
					created++
					live = true
				}
			case hist.KDelete:
				if o.Out.Ok {
					deleted++
				}
			case hist.KUpdate:
				if o.Out.Ok {
					sum += o.In.Inc
					ackedVals[o.In.V] = true
				} else {
					failedVals[o.In.V] = true
				}
			}
		}
		if deleted > 0 {
			live = false
		}
		det := func() map[string]any {
			return map[string]any{"doc": d, "final": fs, "acknowledged_creates": created, "acknowledged_deletes": deleted,
				"expected_counter": sum, "history": hist.Render(byDoc[d], 400), "params": p}
		}
		r.Count("conservation_checks", 1)
		switch {
		case live && !fs.Found:
			r.Violate("conservation/acknowledged-document-missing", "a document whose creation was acknowledged (and that nobody deleted) is not in the final state", det())
			continue
		case !live && fs.Found && created == 0 && !inf.Live0:
			r.Violate("conservation/failed-create-visible", "a document exists in the final state although no create of it was acknowledged", det())
			continue
		case !live && fs.Found:
			r.Violate("conservation/acknowledged-delete-without-effect", "a document whose deletion was acknowledged is still in the final state", det())
			continue
		}
		if !fs.Found {
			continue
		}
		for _, ch := range inf.Chains {
			for _, rm := range ch {
				sum += rm.Inc
			}
		}
		if fs.N < sum {
			r.Violate("conservation/counter-below-acknowledged-sum", fmt.Sprintf("final counter %d < %d = sum of acknowledged local increments and merged remote increments", fs.N, sum), det())
		} else if fs.N > sum {
			r.Violate("conservation/counter-above-acknowledged-sum", fmt.Sprintf("final counter %d > %d = sum of acknowledged local increments and merged remote increments (a failed or duplicated increment took effect)", fs.N, sum), det())
		}
		switch {
		case failedVals[fs.V]:
			r.Violate("conservation/failed-write-visible", fmt.Sprintf("the final state shows v=%q, written by a call that reported an error", fs.V), det())
		case len(ackedVals) > 0 && !ackedVals[fs.V]:
			r.Violate("conservation/acknowledged-writes-lost", fmt.Sprintf("the final state shows v=%q although later writes were acknowledged", fs.V), det())
		case len(ackedVals) == 0 && fs.V != inf.V0:
			r.Violate("conservation/value-never-acknowledged", fmt.Sprintf("the final state shows v=%q which no acknowledged call wrote", fs.V), det())
		}
		if len(inf.Chains) > 0 {
			want := ""
			for _, rm := range inf.Chains[0] {
				if rm.W != "" {
					want = rm.W
				}
			}
			if fs.W != want {
				r.Violate("conservation/merged-register-mismatch", fmt.Sprintf("after all remote commits were merged w=%q, expected %q", fs.W, want), det())
			}
		}
	}

	// (2) porcupine per document
	timeout := time.Duration(p.CheckerS) * time.Second
	if timeout == 0 {
		timeout = 6 * time.Second
	}
	for d, inf := range e.info {
		h := byDoc[d]
		if len(h) == 0 {
			continue
		}
		tp := time.Now()
		v := hist.CheckDoc(inf, h, timeout)
		r.Count("ms_porcupine", time.Since(tp).Milliseconds())
		diag := hist.Diagnose(inf, h)
		r.Count("partitions_checked", 1)
		nAck, overl := 0, false
		for _, o := range h {
			if o.Out.Ok && o.In.Kind != hist.KRead {
				nAck++
			}
		}
		overl = len(hist.Overlaps(h)) > 0
		if nAck > 0 && overl {
			r.Nontrivial(fmt.Sprintf("part|%v|%d|%x", d < c16Hot, len(inf.Chains), hist.InterleavingHash(h)))
		}
		detail := func() map[string]any {
			var fs []string
			for _, f := range diag {
				fs = append(fs, f.Class+": "+f.Detail)
			}
			return map[string]any{"doc": d, "info": inf, "findings": fs, "history": hist.Render(h, 600), "params": p}
		}
		switch v.Result {
		case "ok":
			r.Count("partitions_linearizable", 1)
			if len(diag) > 0 {
				r.Violate("harness-bug/diagnose-disagrees-with-porcupine", "a diagnostic fired on a history porcupine accepts", detail())
			}
		case "unknown":
			r.Count("partitions_checker_timeout", 1)
			r.Note("porcupine timeout (partition inconclusive)")
			for _, f := range diag {
				r.Violate("linearizability/"+f.Class, "per-document history violates a necessary condition of linearizability: "+f.Detail, detail())
			}
		case "illegal":
			// one violation per diagnosed class; then the history without the diagnosed operations
			// is checked again so that a second, undiagnosed anomaly is not masked by the first
			drop := map[int]bool{}
			for _, f := range diag {
				r.Violate("linearizability/"+f.Class, "per-document history of acknowledged operations is not linearizable: "+f.Detail, detail())
				for _, id := range f.OpIDs {
					drop[id] = true
				}
			}
			residual := len(diag) == 0
			if !residual {
				var rest []hist.Op
				for _, o := range h {
					if !drop[o.ID] {
						rest = append(rest, o)
					}
				}
				if hist.CheckDoc(inf, rest, timeout).Result == "illegal" {
					residual = true
				}
			}
			if residual {
				r.Violate("linearizability/unclassified", "per-document history of acknowledged operations is not linearizable (no diagnostic names the anomaly)", detail())
			}
		}
	}
	r.Sample(map[string]any{"kind": "mixed", "params": p, "operations": len(ops), "acknowledged": e.acked.Load(), "conflicts": e.conflicts.Load(),
		"merges_published": e.published.Load(), "merges_completed": e.completed.Load(), "first_ops": hist.Render(ops, 12)})
}

// ---------------------------------------------------------------------------------------
// one concurrent transaction shared by several goroutines

type c16TDoc struct {
	Key     client.DocID
	Live    bool
	V       string
	N       int64
	Unknown bool // an operation on it failed inside the transaction: no expectation
	Pre     bool
}

func c16RunCtxn(ctx context.Context, c core.Case, p c16Params, r *core.Rec) {
	a := core.NewNode(ctx, core.NodeOpts{Fault: true})
	defer a.Close()
	_, err := a.DB.AddSchema(ctx, c16SDL)
	core.Must(err)
	col := a.Col(ctx, "U")
	// one committed document per goroutine, to be updated inside the transaction
	pre := make([]*c16TDoc, p.G)
	for g := 0; g < p.G; g++ {
		doc, err := client.NewDocFromMap(map[string]any{"name": fmt.Sprintf("pre%d", g), "k": g, "v": "pre", "n": 0}, col.Definition())
		core.Must(err)
		core.Must(col.Create(ctx, doc))
		pre[g] = &c16TDoc{Key: doc.ID(), Live: true, V: "pre", Pre: true}
	}
	updates := core.NewBusRecorder(a.DB.Events(), nil, event.UpdateName)
	defer updates.Close()
	a.Fault.EnableYield(p.Yield, c.Seed)

	txn, err := a.DB.NewConcurrentTxn(ctx, false)
	core.Must(err)
	// Two legitimate ways of handing the shared transaction to the goroutines: every goroutine
	// initialises a context of its own, or all of them use ONE context initialised once (then
	// whatever InitContext attaches to the context - caches - is shared between them as well).
	sharedCtx := db.InitContext(ctx, txn)
	useShared := (c.Seed+uint64(c.Index))%2 == 0
	if useShared {
		r.Count("ctxn_cases_one_shared_context", 1)
	} else {
		r.Count("ctxn_cases_context_per_goroutine", 1)
	}
	docs := make([]map[string]*c16TDoc, p.G)
	var ackedWrites, opErrs atomic.Int64
	var wg sync.WaitGroup
	for g := 0; g < p.G; g++ {
		docs[g] = map[string]*c16TDoc{pre[g].Key.String(): pre[g]}
		wg.Add(1)
		go func(g int) {
			defer wg.Done()
			defer c16Guard(r, "shared concurrent transaction")
			rng := rand.New(rand.NewPCG(c.Seed, uint64(g)+1))
			gctx := db.InitContext(ctx, txn)
			if useShared {
				gctx = sharedCtx
			}
			mine := docs[g]
			order := []string{pre[g].Key.String()}
			ctr := 0
			fail := func(api string, d *c16TDoc, err error) {
				opErrs.Add(1)
				if d != nil {
					d.Unknown = true
				}
				s := err.Error()
				if len(s) > 90 {
					s = s[:90]
				}
				r.Note("ctxn err:" + api + ": " + regexp.MustCompile(`bae-[0-9a-f-]+`).ReplaceAllString(s, "<docID>"))
			}
			checkRead := func(api string, d *c16TDoc, found bool, v string, n int64) {
				r.Count("ctxn_reads_in_txn", 1)
				if d.Unknown {
					return
				}
				if found != d.Live || (found && (v != d.V || n != d.N)) {
					r.Violate("ctxn/read-own-write-mismatch",
						fmt.Sprintf("%s inside the shared transaction: goroutine %d reads found=%v v=%q n=%d of its own document, expected live=%v v=%q n=%d", api, g, found, v, n, d.Live, d.V, d.N),
						map[string]any{"params": p})
				}
			}
			for i := 0; i < p.Ops; i++ {
				tcol, err := a.DB.GetCollectionByName(gctx, "U")
				if err != nil {
					fail("GetCollectionByName", nil, err)
					continue
				}
				d := mine[order[rng.IntN(len(order))]]
				x := rng.IntN(100)
				if i == 0 {
					x = 30 // every goroutine first updates its pre-existing document
					d = pre[g]
				}
				switch {
				case x < 25: // create
					ctr++
					m := map[string]any{"name": fmt.Sprintf("t%d.%d", g, ctr), "k": 100 + g, "v": fmt.Sprintf("c%d.%d", g, ctr), "n": 0}
					viaGQL := rng.IntN(3) == 0
					doc, err := client.NewDocFromMap(m, tcol.Definition())
					core.Must(err)
					nd := &c16TDoc{Key: doc.ID()}
					if viaGQL {
						r.Count("api:ctxn.gql.create", 1)
						var rows []map[string]any
						rows, err = core.ExecRows(gctx, a.DB, fmt.Sprintf(`mutation { create_U(input: {name: "%s", k: %d, v: "%s", n: 0}) { _docID } }`, m["name"], m["k"], m["v"]), "create_U")
						if err == nil && (len(rows) != 1 || c16Str(rows[0]["_docID"]) != doc.ID().String()) {
							r.Violate("harness-bug/gql-create-docid", "create_U returned an unexpected docID", map[string]any{"rows": rows, "want": doc.ID().String()})
						}
					} else {
						r.Count("api:ctxn.col.Create", 1)
						err = tcol.Create(gctx, doc)
					}
					mine[doc.ID().String()] = nd
					order = append(order, doc.ID().String())
					if err != nil {
						fail("create", nd, err)
						continue
					}
					nd.Live, nd.V = true, m["v"].(string)
					ackedWrites.Add(1)
				case x < 55: // update
					if !d.Live || d.Unknown {
						continue
					}
					ctr++
					val, inc := fmt.Sprintf("u%d.%d", g, ctr), int64(1+rng.IntN(3))
					if rng.IntN(3) == 0 {
						r.Count("api:ctxn.gql.update", 1)
						rows, err := core.ExecRows(gctx, a.DB, fmt.Sprintf(`mutation { update_U(docID: "%s", input: {v: "%s", n: %d}) { _docID v n } }`, d.Key.String(), val, inc), "update_U")
						if err != nil {
							fail("gql.update", d, err)
							continue
						}
						d.V, d.N = val, d.N+inc
						ackedWrites.Add(1)
						if len(rows) != 1 {
							checkRead("gql.update", d, false, "", 0)
						} else {
							checkRead("gql.update", d, true, c16Str(rows[0]["v"]), c16Int(rows[0]["n"]))
						}
						continue
					}
					r.Count("api:ctxn.col.Update", 1)
					doc, err := tcol.Get(gctx, d.Key, false)
					if err != nil {
						if errors.Is(err, client.ErrDocumentNotFoundOrNotAuthorized) {
							checkRead("col.Get", d, false, "", 0)
						} else {
							fail("col.Get", d, err)
						}
						continue
					}
					core.Must(doc.Set("v", val))
					core.Must(doc.Set("n", inc))
					if err := tcol.Update(gctx, doc); err != nil {
						fail("col.Update", d, err)
						continue
					}
					d.V, d.N = val, d.N+inc
					ackedWrites.Add(1)
				case x < 62: // delete
					if !d.Live || d.Unknown || d.Pre {
						continue
					}
					r.Count("api:ctxn.col.Delete", 1)
					ok, err := tcol.Delete(gctx, d.Key)
					if err != nil || !ok {
						if err == nil {
							err = errors.New("Delete returned false")
						}
						fail("col.Delete", d, err)
						continue
					}
					d.Live = false
					ackedWrites.Add(1)
				case x < 80: // read own document through the collection
					r.Count("api:ctxn.col.Get", 1)
					doc, err := tcol.Get(gctx, d.Key, false)
					switch {
					case err == nil:
						v, _, n, derr := c16DocState(doc)
						core.Must(derr)
						checkRead("col.Get", d, true, v, n)
					case errors.Is(err, client.ErrDocumentNotFoundOrNotAuthorized):
						checkRead("col.Get", d, false, "", 0)
					default:
						fail("col.Get", d, err)
					}
				case x < 90: // read own document through a request
					r.Count("api:ctxn.gql.query", 1)
					rows, err := core.ExecRows(gctx, a.DB, fmt.Sprintf(`query { U(docID: "%s") { _docID v n } }`, d.Key.String()), "U")
					switch {
					case err != nil:
						fail("gql.query", d, err)
					case len(rows) == 0:
						checkRead("gql.query", d, false, "", 0)
					default:
						checkRead("gql.query", d, true, c16Str(rows[0]["v"]), c16Int(rows[0]["n"]))
					}
				default: // scan of the whole collection (iterator shared with concurrent writers)
					r.Count("api:ctxn.gql.list", 1)
					rows, err := core.ExecRows(gctx, a.DB, `query { U { _docID v n } }`, "U")
					if err != nil {
						fail("gql.list", nil, err)
						continue
					}
					seen := map[string]map[string]any{}
					for _, row := range rows {
						seen[c16Str(row["_docID"])] = row
					}
					for id, md := range mine {
						if row, ok := seen[id]; ok {
							checkRead("gql.list", md, true, c16Str(row["v"]), c16Int(row["n"]))
						} else {
							checkRead("gql.list", md, false, "", 0)
						}
					}
				}
			}
		}(g)
	}
	wg.Wait()
	a.Fault.EnableYield(0, 1)
	r.Count("evaluations", int64(p.G*p.Ops))
	r.Count("ctxn_runs", 1)
	r.Count("ctxn_op_errors", opErrs.Load())

	readAll := func() map[string]map[string]any {
		rows, err := a.Rows(ctx, `query { U { _docID name v n } }`, "U")
		core.Must(err)
		out := map[string]map[string]any{}
		for _, row := range rows {
			out[c16Str(row["_docID"])] = row
		}
		return out
	}
	// before the commit nothing of the transaction is visible outside
	before := readAll()
	bad := len(before) != p.G
	for _, pd := range pre {
		if row, ok := before[pd.Key.String()]; !ok || c16Str(row["v"]) != "pre" || c16Int(row["n"]) != 0 {
			bad = true
		}
	}
	if bad {
		r.Violate("ctxn/uncommitted-write-visible-outside", "a request outside the shared transaction sees its writes before the commit", map[string]any{"outside_view": before, "params": p})
	}
	outsideV := ""
	if p.Outside {
		// an outside writer commits a change to a document the transaction has read and written
		doc, err := col.Get(ctx, pre[0].Key, false)
		core.Must(err)
		outsideV = "outside"
		core.Must(doc.Set("v", outsideV))
		core.Must(col.Update(ctx, doc))
	}
	nEventsBefore := updates.Len()
	cerr := txn.Commit(ctx)
	txn.Discard(ctx)
	updates.Barrier()
	nEvents := updates.Len() - nEventsBefore
	after := readAll()
	outcome := "committed"
	if cerr != nil {
		outcome = "conflicted"
		if !c16IsConflict(cerr) {
			outcome = "commit-error"
			r.Note("ctxn commit error: " + cerr.Error())
		}
		r.Count("ctxn_commits_conflicted", 1)
		r.Count("conflicts", 1)
	} else {
		r.Count("ctxn_commits_ok", 1)
		r.Count("acked_ops", ackedWrites.Load())
	}
	r.Count("ctxn_update_events", int64(nEvents))
	r.Nontrivial(fmt.Sprintf("ctxn|g%d|procs%d|%s|%d|%d", p.G, p.Procs, outcome, ackedWrites.Load(), opErrs.Load()))
	det := func(extra map[string]any) map[string]any {
		extra["params"] = p
		extra["commit_error"] = fmt.Sprint(cerr)
		extra["acknowledged_writes_in_txn"] = ackedWrites.Load()
		return extra
	}
	if cerr != nil {
		// nothing of the transaction may be visible
		n := 0
		for id, row := range after {
			isPre := false
			for g, pd := range pre {
				if pd.Key.String() == id {
					isPre = true
					wantV := "pre"
					if g == 0 && p.Outside {
						wantV = outsideV
					}
					if c16Str(row["v"]) != wantV || c16Int(row["n"]) != 0 {
						n++
					}
				}
			}
			if !isPre {
				n++
			}
		}
		if n > 0 || len(after) != p.G {
			r.Violate("ctxn/write-visible-after-failed-commit", fmt.Sprintf("the commit of the shared transaction failed (%v) but %d of its writes are visible", cerr, n),
				det(map[string]any{"final": after}))
		}
	} else {
		if p.Outside {
			r.Note("ctxn: commit succeeded although an outside writer committed first")
		}
		var missing, wrong, ghost []string
		for g := range docs {
			for id, d := range docs[g] {
				if d.Unknown {
					continue
				}
				row, ok := after[id]
				switch {
				case d.Live && !ok:
					missing = append(missing, id)
				case !d.Live && ok:
					ghost = append(ghost, id)
				case d.Live && (c16Str(row["v"]) != d.V || c16Int(row["n"]) != d.N):
					wrong = append(wrong, fmt.Sprintf("%s: got v=%q n=%d want v=%q n=%d", id, c16Str(row["v"]), c16Int(row["n"]), d.V, d.N))
				}
			}
		}
		sort.Strings(missing)
		sort.Strings(wrong)
		if len(missing) > 0 {
			r.Violate("ctxn/acknowledged-write-missing-after-commit", fmt.Sprintf("%d documents created inside the committed shared transaction are missing", len(missing)),
				det(map[string]any{"missing": missing}))
		}
		if len(wrong) > 0 {
			r.Violate("ctxn/acknowledged-update-lost-after-commit", fmt.Sprintf("%d documents do not show the last acknowledged write / the sum of acknowledged increments after the commit", len(wrong)),
				det(map[string]any{"wrong": wrong}))
		}
		if len(ghost) > 0 {
			r.Violate("ctxn/deleted-document-visible-after-commit", fmt.Sprintf("%d documents deleted inside the committed shared transaction are visible", len(ghost)),
				det(map[string]any{"ghost": ghost}))
		}
	}
	r.Sample(map[string]any{"kind": "ctxn", "params": p, "acknowledged_writes": ackedWrites.Load(), "op_errors": opErrs.Load(), "commit": outcome, "update_events": nEvents})
}

// ---------------------------------------------------------------------------------------
// index DDL of two clients, each doing "fetch the collection, call the DDL method", interleaved
// A1 B1 B2 A2 (a schedule of two concurrent clients written out; no timing involved)

func c16RunDDLHandle(ctx context.Context, c core.Case, p c16Params, r *core.Rec) {
	a := core.NewNode(ctx, core.NodeOpts{})
	defer a.Close()
	_, err := a.DB.AddSchema(ctx, c16SDL)
	core.Must(err)
	col := a.Col(ctx, "U")
	for i := 0; i < 3; i++ {
		doc, err := client.NewDocFromMap(map[string]any{"name": fmt.Sprintf("d%d", i), "k": i, "v": fmt.Sprintf("v%d", i), "n": 0}, col.Definition())
		core.Must(err)
		core.Must(col.Create(ctx, doc))
	}
	fresh := func() client.Collection { return a.Col(ctx, "U") }
	mkIdx := func(h client.Collection, f string) error {
		_, err := h.CreateIndex(ctx, client.IndexCreateRequest{Name: "idx_" + f, Fields: []client.IndexedFieldDescription{{Name: f}}})
		return err
	}
	mkIdxCtx := func(cctx context.Context, h client.Collection, f string) error {
		_, err := h.CreateIndex(cctx, client.IndexCreateRequest{Name: "idx_" + f, Fields: []client.IndexedFieldDescription{{Name: f}}})
		return err
	}
	names := func() []string {
		ix, err := fresh().GetIndexes(ctx)
		core.Must(err)
		var out []string
		for _, d := range ix {
			out = append(out, d.Name)
		}
		sort.Strings(out)
		return out
	}
	byV := func() int {
		rows, err := a.Rows(ctx, `query { U(filter: {v: {_eq: "v1"}}) { _docID } }`, "U")
		core.Must(err)
		return len(rows)
	}
	r.Count("evaluations", 2)
	r.Count("ddl_handle_runs", 1)
	// schedule 1: B's acknowledged CreateIndex must survive A's DropIndex of another index
	core.Must(mkIdx(fresh(), "k"))
	hA := fresh()
	hB := fresh()
	errB := mkIdx(hB, "v")
	errA := hA.DropIndex(ctx, "idx_k")
	got := names()
	if errA == nil && errB == nil && strings.Join(got, ",") != "idx_v" {
		r.Violate("index-ddl/acknowledged-ddl-overwritten-through-earlier-fetched-handle",
			fmt.Sprintf("client B's CreateIndex(idx_v) and client A's DropIndex(idx_k) both reported success, final indexes = %v (expected [idx_v]): A's handle, fetched before B committed, wrote its own copy of the index list", got),
			map[string]any{"schedule": "A: h=GetCollectionByName; B: h=GetCollectionByName; B: h.CreateIndex(idx_v) ok; A: h.DropIndex(idx_k) ok", "final_indexes": got})
	}
	// schedule 2: an index dropped by B must not come back, empty, through A's DDL
	for _, n := range names() {
		core.Must(fresh().DropIndex(ctx, n))
	}
	core.Must(mkIdx(fresh(), "k"))
	core.Must(mkIdx(fresh(), "v"))
	hA = fresh()
	errB = fresh().DropIndex(ctx, "idx_v")
	errA = hA.DropIndex(ctx, "idx_k")
	got = names()
	n := byV()
	if errA == nil && errB == nil && (len(got) != 0 || n != 1) {
		r.Violate("index-ddl/acknowledged-ddl-overwritten-through-earlier-fetched-handle",
			fmt.Sprintf("both DropIndex calls reported success, final indexes = %v (expected none); the query filtering on v returns %d documents (expected 1): the dropped index came back without entries", got, n),
			map[string]any{"schedule": "A: h=GetCollectionByName; B: GetCollectionByName.DropIndex(idx_v) ok; A: h.DropIndex(idx_k) ok", "final_indexes": got, "rows_for_v_eq_v1": n})
	}
	// schedule 3: two explicit transactions that overlap - T1 creates an index, T2 creates a
	// document; T2 commits first. Both fetch their handle inside their own transaction.
	for _, nm := range names() {
		core.Must(fresh().DropIndex(ctx, nm))
	}
	t1, err := a.DB.NewTxn(ctx, false)
	core.Must(err)
	t2, err := a.DB.NewTxn(ctx, false)
	core.Must(err)
	c1, c2 := db.InitContext(ctx, t1), db.InitContext(ctx, t2)
	h2, err := a.DB.GetCollectionByName(c2, "U")
	core.Must(err)
	nd, err := client.NewDocFromMap(map[string]any{"name": "late", "k": 77, "v": "late", "n": 0}, h2.Definition())
	core.Must(err)
	errCreate := h2.Create(c2, nd)
	if errCreate == nil {
		errCreate = t2.Commit(ctx)
	}
	t2.Discard(ctx)
	h1, err := a.DB.GetCollectionByName(c1, "U")
	core.Must(err)
	errIdx := mkIdxCtx(c1, h1, "k")
	if errIdx == nil {
		errIdx = t1.Commit(ctx)
	}
	t1.Discard(ctx)
	r.Count("evaluations", 1)
	if errCreate == nil && errIdx == nil {
		rows, err := a.Rows(ctx, `query { U(filter: {k: {_eq: 77}}) { _docID } }`, "U")
		core.Must(err)
		doc, err := fresh().Get(ctx, nd.ID(), false)
		core.Must(err)
		core.Must(doc.Set("v", "later"))
		errUpd := fresh().Update(ctx, doc)
		if len(rows) != 1 || errUpd != nil {
			r.Violate("index-ddl/document-created-during-createindex-not-indexed",
				fmt.Sprintf("Create (committed first) and an overlapping CreateIndex both reported success; the query filtering on the indexed field returns %d documents (expected 1) and a later update of the document returns: %v", len(rows), errUpd),
				map[string]any{"schedule": "T1=NewTxn; T2=NewTxn; T2: Create(doc k=77), Commit ok; T1: CreateIndex(k), Commit ok; query U(filter:{k:{_eq:77}}); Update(doc)",
					"rows": len(rows), "update_error": fmt.Sprint(errUpd)})
		}
	} else {
		r.Note(fmt.Sprintf("ddl-handle schedule 3: create=%v createIndex=%v (one of the overlapping transactions was refused)", errCreate, errIdx))
	}
	r.Nontrivial("ddl-handle")
	r.Sample(map[string]any{"kind": "ddl-handle", "final_indexes": got, "rows_for_v_eq_v1": n})
}

// ---------------------------------------------------------------------------------------
// replicator set / deleted on a loopback peer while updates are being published

func c16RunReplicator(ctx context.Context, c core.Case, p c16Params, r *core.Rec) {
	a := core.NewNode(ctx, core.NodeOpts{Fault: true})
	defer a.Close()
	b := core.NewNode(ctx, core.NodeOpts{})
	defer b.Close()
	for _, n := range []*core.Node{a, b} {
		_, err := n.DB.AddSchema(ctx, c16SDL)
		core.Must(err)
	}
	mkPeer := func(n *core.Node) *dnet.Peer {
		pr, err := dnet.NewPeer(ctx, n.DB.Events(), immutable.None[dac.DocumentACP](), n.DB,
			netConfig.WithListenAddresses("/ip4/127.0.0.1/tcp/0"), netConfig.WithEnablePubSub(true),
			netConfig.WithRetryInterval([]time.Duration{time.Second, time.Second}))
		core.Must(err)
		return pr
	}
	pa := mkPeer(a)
	defer pa.Close()
	pb := mkPeer(b)
	defer pb.Close()
	col := a.Col(ctx, "U")
	keys := make([]client.DocID, p.G)
	for g := 0; g < p.G; g++ {
		doc, err := client.NewDocFromMap(map[string]any{"name": fmt.Sprintf("r%d", g), "k": g, "v": "init", "n": 0}, col.Definition())
		core.Must(err)
		core.Must(col.Create(ctx, doc))
		keys[g] = doc.ID()
	}
	a.Fault.EnableYield(p.Yield, c.Seed)
	sums := make([]int64, p.G)
	lastV := make([]string, p.G)
	var acked, toggles, toggleErrs atomic.Int64
	var stop atomic.Bool
	var wg, twg sync.WaitGroup
	for g := 0; g < p.G; g++ {
		wg.Add(1)
		go func(g int) {
			defer wg.Done()
			defer c16Guard(r, "updates while the replicator changes")
			rng := rand.New(rand.NewPCG(c.Seed, uint64(g)+1))
			lastV[g] = "init"
			for i := 0; i < p.Ops; i++ {
				hc, err := a.DB.GetCollectionByName(ctx, "U")
				core.Must(err)
				doc, err := hc.Get(ctx, keys[g], false)
				if err != nil {
					r.Note("replicator err: col.Get: " + err.Error())
					continue
				}
				inc := int64(1 + rng.IntN(3))
				val := fmt.Sprintf("g%d.%d", g, i)
				core.Must(doc.Set("v", val))
				core.Must(doc.Set("n", inc))
				if err := hc.Update(ctx, doc); err != nil {
					if !c16IsConflict(err) {
						r.Note("replicator err: col.Update: " + err.Error())
					}
					continue
				}
				sums[g] += inc
				lastV[g] = val
				acked.Add(1)
			}
		}(g)
	}
	// gentle: one client sets the replicator, waits for the initial push to end (the
	// replicator-completed event), deletes it, and so on - the replicator map changes while update
	// events are pushed. aggressive: two clients toggle without waiting (on this tree that can crash
	// the node, see known findings).
	completed := core.NewBusRecorder(a.DB.Events(), nil, event.ReplicatorCompletedName)
	defer completed.Close()
	nTogglers := 1
	if p.Aggressive {
		nTogglers = 2
	}
	for t := 0; t < nTogglers; t++ {
		twg.Add(1)
		go func(t int) {
			defer twg.Done()
			defer c16Guard(r, "SetReplicator/DeleteReplicator")
			for i := 0; !stop.Load() && i < 400; i++ {
				var err error
				if (i+t)%2 == 0 {
					base := completed.Len()
					err = pa.SetReplicator(ctx, pb.PeerInfo(), "U")
					if err == nil && !p.Aggressive {
						for k := 0; k < 3000 && completed.Len() <= base; k++ {
							time.Sleep(time.Millisecond)
						}
					}
				} else {
					err = pa.DeleteReplicator(ctx, pb.PeerInfo(), "U")
				}
				toggles.Add(1)
				if err != nil {
					toggleErrs.Add(1)
				}
			}
		}(t)
	}
	wg.Wait()
	stop.Store(true)
	twg.Wait()
	a.Fault.EnableYield(0, 1)
	// let the asynchronous pushes of the last SetReplicator end before the peers are closed:
	// closing the receiving peer under an initial push is an outage scenario (C15), and on this
	// tree it can crash the sender (pushHeadsForAllDocs discards its transaction with the docID
	// iterator still open when handleReplicatorFailure returns an error)
	for i := 0; i < 5000; i++ {
		buf := make([]byte, 8<<20)
		buf = buf[:runtime.Stack(buf, true)]
		if !strings.Contains(string(buf), "net.(*Peer).pushHeadsForAllDocs") && !strings.Contains(string(buf), "net.(*server).pushLog") {
			break
		}
		time.Sleep(2 * time.Millisecond)
	}
	r.Count("evaluations", int64(p.G*p.Ops)+toggles.Load())
	r.Count("replicator_runs", 1)
	r.Count("replicator_toggles", toggles.Load())
	r.Count("replicator_toggle_errors", toggleErrs.Load())
	r.Count("acked_ops", acked.Load())
	// conservation on the node itself (delivery to the other peer is C15's subject)
	for g := 0; g < p.G; g++ {
		doc, err := col.Get(ctx, keys[g], false)
		core.Must(err)
		v, _, n, err := c16DocState(doc)
		core.Must(err)
		if n != sums[g] {
			sig := "conservation/counter-below-acknowledged-sum"
			if n > sums[g] {
				sig = "conservation/counter-above-acknowledged-sum"
			}
			r.Violate(sig, fmt.Sprintf("replicator workload: final counter %d, acknowledged increments sum to %d", n, sums[g]), map[string]any{"params": p})
		}
		if v != lastV[g] {
			r.Violate("conservation/acknowledged-writes-lost", fmt.Sprintf("replicator workload: final v=%q, last acknowledged write %q", v, lastV[g]), map[string]any{"params": p})
		}
	}
	r.Nontrivial(fmt.Sprintf("replicator|g%d|procs%d|%v|%d", p.G, p.Procs, p.Aggressive, toggles.Load()/10))
	r.Sample(map[string]any{"kind": "replicator", "params": p, "acknowledged_updates": acked.Load(), "toggles": toggles.Load(), "toggle_errors": toggleErrs.Load()})
}

// ---------------------------------------------------------------------------------------
// (1) race detector logs

var c16RaceOffset int64

var c16LogPathRe = regexp.MustCompile(`log_path=(\S+)`)

// c16ScanRaceLog attributes the race reports written since the previous case to the current one.
func c16ScanRaceLog(r *core.Rec) {
	m := c16LogPathRe.FindStringSubmatch(os.Getenv("GORACE"))
	if m == nil {
		return
	}
	// the detector appends asynchronously only from the racing goroutines themselves; all client
	// goroutines have been joined, give background goroutines a moment to finish a report
	path := fmt.Sprintf("%s.%d", m[1], os.Getpid())
	b, err := os.ReadFile(path)
	if err != nil || int64(len(b)) <= c16RaceOffset {
		return
	}
	text := string(b[c16RaceOffset:])
	// keep an incomplete trailing report for the next scan
	if i := strings.LastIndex(text, "=================="); i >= 0 {
		text = text[:i+len("==================")]
	} else {
		return
	}
	c16RaceOffset += int64(len(text))
	for _, rep := range hist.ParseRaceLog(text) {
		sig, msg := c16RaceSig(rep)
		r.Violate(sig, msg, map[string]any{"report": rep.Text})
	}
}

func c16RaceSig(rep hist.RaceReport) (sig, msg string) {
	if rep.DefraDB {
		return "race/" + rep.Class, "data race reported by the Go race detector between " + strings.Replace(rep.Class, "||", " and ", 1)
	}
	inHarness := false
	for _, st := range rep.Stacks {
		for _, fn := range st {
			if strings.Contains(fn, "verifharness") {
				inHarness = true
			}
		}
	}
	if inHarness {
		return "harness-race/" + rep.Class, "data race with no DefraDB frame on either access stack, harness code involved (harness bug): " + rep.Class
	}
	return "dep-race/" + rep.Class, "data race with no DefraDB frame on either access stack (inside a dependency): " + rep.Class
}

// c16Post reads all race logs (source of truth for the race counters; adds classes that no
// worker attributed to a case) and evaluates the numeric floors.
func c16Post(sup *core.Supervisor, m *core.Rec) {
	classes := map[string][]hist.RaceReport{}
	pairs := map[string]bool{}
	total := 0
	for _, p := range sup.RaceLogs {
		b, err := os.ReadFile(p)
		if err != nil {
			continue
		}
		for _, rep := range hist.ParseRaceLog(string(b)) {
			total++
			sig, _ := c16RaceSig(rep)
			classes[sig] = append(classes[sig], rep)
			pairs[rep.PairHash] = true
		}
	}
	m.Counters["race_reports"] = int64(total)
	m.Counters["race_classes"] = int64(len(classes))
	m.Counters["race_stack_pairs_distinct"] = int64(len(pairs))
	var sigs []string
	for sig := range classes {
		sigs = append(sigs, sig)
	}
	sort.Strings(sigs)
	for _, sig := range sigs {
		reps := classes[sig]
		m.Nontrivial("raceclass|" + sig)
		if m.Counters["viol:"+sig] == 0 {
			_, msg := c16RaceSig(reps[0])
			m.Violations = append(m.Violations, core.Violation{Property: "C16", Signature: sig, Message: msg + " (reported outside any case window)",
				Detail: map[string]any{"report": reps[0].Text}})
			m.Counters["violations_raw"]++
		}
		m.Counters["viol:"+sig] = int64(len(reps))
		if strings.HasPrefix(sig, "dep-race/") {
			m.Counters["dep_race_reports"] += int64(len(reps))
		}
		if strings.HasPrefix(sig, "harness-race/") {
			m.Counters["harness_race_reports"] += int64(len(reps))
		}
	}
	// numeric floors
	if m.Counters["acked_ops"] >= 1000 {
		m.Counters["floor_acked_ops_ge_1000"] = 1
	}
	if m.Counters["conflicts"] >= 20 {
		m.Counters["floor_conflicts_ge_20"] = 1
	}
	// overlap matrix: every pair of client entry points was executed concurrently at least once
	apis := map[string]bool{}
	for k := range m.Counters {
		if strings.HasPrefix(k, "api:") && !strings.HasPrefix(k, "api:ctxn.") {
			apis[strings.TrimPrefix(k, "api:")] = true
		}
	}
	var names []string
	for a := range apis {
		names = append(names, a)
	}
	sort.Strings(names)
	missing := 0
	seen := 0
	var miss []string
	for i, a := range names {
		for _, b := range names[i:] {
			ddl := func(x string) bool { return x == "col.CreateIndex" || x == "col.DropIndex" }
			plainWrite := func(x string) bool { return x == "col.Create" || x == "col.Update" || x == "col.Delete" }
			if (ddl(a) && plainWrite(b)) || (ddl(b) && plainWrite(a)) {
				continue // by design never concurrent (see assumptions)
			}
			if m.Counters["ovl:"+a+"|"+b] > 0 {
				seen++
			} else {
				missing++
				miss = append(miss, a+"|"+b)
			}
		}
	}
	// fold the matrix into two counters to keep the summary readable
	for k := range m.Counters {
		if strings.HasPrefix(k, "ovl:") {
			delete(m.Counters, k)
		}
	}
	m.Counters["overlap_api_kinds"] = int64(len(names))
	m.Counters["overlap_pairs_seen"] = int64(seen)
	m.Counters["overlap_pairs_missing"] = int64(missing)
	if missing == 0 && len(names) >= 10 {
		m.Counters["floor_overlap_matrix_complete"] = 1
	} else if len(miss) > 0 {
		if len(miss) > 12 {
			miss = miss[:12]
		}
		m.Notes["overlap pairs never seen: "+strings.Join(miss, " ")] = 1
	}
}
