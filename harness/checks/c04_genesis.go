package checks

import (
	"bytes"
	"context"
	"crypto/ed25519"
	"fmt"
	"math/rand/v2"
	"sort"

	"github.com/sourcenetwork/immutable"

	"github.com/sourcenetwork/defradb/acp/identity"
	"github.com/sourcenetwork/defradb/client"
	"github.com/sourcenetwork/defradb/crypto"
	"github.com/sourcenetwork/defradb/verifharness/core"
	"github.com/sourcenetwork/defradb/verifharness/sim"
)

type genesisParams struct {
	Config string `json:"config"`
	Signed bool   `json:"signed"`
}

func genesisCases(seed uint64, n int) []core.Case {
	rng := rand.New(rand.NewPCG(seed, 4040))
	var cs []core.Case
	cfgs := []string{"plain", "branchable", "indexed"}
	for i := 0; i < n; i++ {
		p := genesisParams{Config: cfgs[i%3], Signed: i%2 == 1}
		cs = append(cs, core.MkCase("genesis", rng.Uint64(), p))
	}
	return cs
}

// runGenesis: the same initial document created on two fresh nodes (unsigned, or signing with
// one shared ed25519 identity) must produce byte-identical genesis blocks.
func runGenesis(ctx context.Context, c core.Case, r *core.Rec) {
	var p genesisParams
	c.P(&p)
	rng := c.Rng()
	opts := core.NodeOpts{}
	if p.Signed {
		// ed25519 signatures are deterministic; a shared identity is derived from the case seed
		seed := make([]byte, 32)
		for i := range seed {
			seed[i] = byte(rng.IntN(256))
		}
		priv := crypto.NewPrivateKey(ed25519.NewKeyFromSeed(seed))
		id, err := identity.FromPrivateKey(priv)
		core.Must(err)
		opts.Signing = true
		opts.Identity = immutable.Some[identity.Identity](id)
	}
	m := map[string]any{"name": fmt.Sprintf("g%d", rng.IntN(1000))}
	vals := map[string][]any{"s": {"a", "b", ""}, "i": {0, 1, -5, 1 << 40}, "f": {0.5, -2.25}, "b": {true, false},
		"t": {"2020-01-02T03:04:05Z"}, "j": {map[string]any{"k": []any{1, "x"}}, "str"}, "a": {[]any{1, 2, 3}, []any{}}, "bl": {"00ff"},
		"n": {1, -3, 0}, "p": {2}, "nf": {0.5, 1.25}}
	var ks []string
	for k := range vals {
		ks = append(ks, k)
	}
	sort.Strings(ks)
	for _, k := range ks {
		if rng.IntN(2) == 0 {
			m[k] = vals[k][rng.IntN(len(vals[k]))]
		}
	}
	var stores [2]map[string]string
	var ids [2]string
	for i := 0; i < 2; i++ {
		n := core.NewNode(ctx, opts)
		_, err := n.DB.AddSchema(ctx, sim.SDL(p.Config))
		core.Must(err)
		col := n.Col(ctx, "Doc")
		doc, err := client.NewDocFromMap(m, col.Definition())
		core.Must(err)
		cctx := ctx
		if p.Signed {
			cctx = identity.WithContext(ctx, opts.Identity)
		}
		core.Must(col.Create(cctx, doc))
		ids[i] = doc.ID().String()
		stores[i] = n.RawScan(ctx, "/db/blocks/")
		n.Close()
	}
	r.Count("evaluations", 1)
	r.Count("genesis_pairs", 1)
	if p.Signed {
		r.Count("genesis_pairs_signed", 1)
	}
	r.Nontrivial(fmt.Sprintf("genesis|%s|%v|%d", p.Config, p.Signed, len(m)))
	if ids[0] != ids[1] {
		r.Violate("genesis/docid", "same initial document got different docIDs on two nodes", map[string]any{"doc": m, "ids": ids})
	}
	same := len(stores[0]) == len(stores[1])
	for k, v := range stores[0] {
		if !bytes.Equal([]byte(v), []byte(stores[1][k])) {
			same = false
		}
	}
	if !same {
		r.Violate(fmt.Sprintf("genesis/blocks-differ/signed=%v", p.Signed), fmt.Sprintf("creating the same initial document on two nodes (%s, signed=%v) yields different genesis blocks: %d vs %d blocks", p.Config, p.Signed, len(stores[0]), len(stores[1])),
			map[string]any{"doc": m})
	}
	r.Sample(map[string]any{"kind": "genesis", "params": p, "doc": m, "blocks": len(stores[0])})
}
