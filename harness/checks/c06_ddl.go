package checks

// C06, second workload ("ddl/..." cases): schema and index operations inside and outside explicit
// transactions, interleaved deterministically and checked in lock-step against a model, like the
// document workload of c06_txn_isolation.go.
//
//   S            committed state: collections (fields added by patches, secondary indexes, documents)
//   T.view       copy of S taken at NewTxn, updated by T's own successful operations
//   actor "auto" has no explicit transaction: each of its operations commits by itself (view == S)
//   read in T    collection visibility and contents must equal T.view
//   observer     (no transaction, after every step) every collection / field of S is queryable through
//                GraphQL and reads as S says - what a committed transaction made visible stays visible
//                after any later commit; collections / fields that exist only inside a running or
//                discarded transaction are NOT queryable
//   no trace     a step that commits nothing leaves the raw store byte-identical; when a transaction that
//                created / dropped an index through a collection handle ends without committing, the
//                handle lists the committed indexes again, and later writes through the same handle and
//                through a fresh one behave as the committed indexes demand (unique constraint, index
//                maintenance: index-served reads equal the model)
//
// Restrictions that keep the oracle inside what the property states: index DDL on collection I<t> is
// issued by actor t only (a handle of another client that is stale after a foreign DDL commit is not
// an isolation matter); a collection is patched by one actor only; reads through GraphQL inside a
// transaction skip collections and fields the transaction added itself (the GraphQL types are swapped
// on commit by design; counter own_schema_gql_reads_skipped); every generated call is expected to
// succeed (calls that fail inside a caller-owned transaction are C05's subject).

import (
	"context"
	"fmt"
	"math/rand/v2"
	"sort"
	"strings"

	"github.com/sourcenetwork/immutable"
	"github.com/sourcenetwork/lens/host-go/config/model"

	"github.com/sourcenetwork/defradb/client"
	"github.com/sourcenetwork/defradb/internal/db"
	"github.com/sourcenetwork/defradb/verifharness/core"
)

type c06dOp struct {
	Op  string `json:"op"`            // addschema | patch | setactive | mkindex | dropindex | new | upd | read
	Col string `json:"col,omitempty"` // X | Y | I<t> | Z<t>x<i> (added by this op)
	Arg string `json:"arg,omitempty"` // patch: field name; mkindex: u (unique) | p (plain); new: key; upd: value of w
}

type c06dTxn struct {
	Mode   string   `json:"mode"`   // txn (DB.NewTxn) | ctxn (DB.NewConcurrentTxn) | auto (no explicit transaction)
	Route  string   `json:"route"`  // col | gql: route of document operations and reads
	Handle string   `json:"handle"` // outside: handle of I<t> fetched before the schedule | inside: fetched inside the transaction
	Ops    []c06dOp `json:"ops"`
	End    string   `json:"end"` // commit | discard
}

type c06dParams struct {
	Txns  []c06dTxn    `json:"txns"`
	Sched []int        `json:"sched,omitempty"`
	Part  int          `json:"part,omitempty"`
	Parts int          `json:"parts,omitempty"`
	Batch []c06dParams `json:"batch,omitempty"`
}

func (o c06dOp) String() string { return strings.TrimSpace(o.Op + " " + o.Col + " " + o.Arg) }

func c06dIsSchemaOp(op string) bool { return op == "addschema" || op == "patch" || op == "setactive" }

func c06dStepCounts(txns []c06dTxn) []int {
	cs := make([]int, len(txns))
	for i, t := range txns {
		cs[i] = len(t.Ops) + 2
	}
	return cs
}

func c06dSplit(kind string, seed uint64, p c06dParams) []core.Case {
	n := len(c06Interleavings(c06dStepCounts(p.Txns)))
	p.Parts = (n + c06MaxSchedulesPerCase - 1) / c06MaxSchedulesPerCase
	var cs []core.Case
	for i := 0; i < p.Parts; i++ {
		p.Part = i
		cs = append(cs, core.MkCase("ddl/"+kind, seed, p))
	}
	return cs
}

func c06dAnchors() []core.Case {
	var cs []core.Case
	add := func(name string, p c06dParams) { cs = append(cs, c06dSplit("anchor/"+name, 1, p)...) }
	// a transaction whose schema call writes nothing commits after a collection was added outside
	add("noop-set-active-vs-add-schema", c06dParams{Txns: []c06dTxn{
		{Mode: "txn", Route: "col", Handle: "outside", Ops: []c06dOp{{Op: "setactive", Col: "X"}}, End: "commit"},
		{Mode: "auto", Route: "gql", Handle: "outside", Ops: []c06dOp{{Op: "addschema", Col: "Z1x0"}}, End: "commit"}}})
	add("patch-vs-add-schema", c06dParams{Txns: []c06dTxn{
		{Mode: "txn", Route: "gql", Handle: "outside", Ops: []c06dOp{{Op: "patch", Col: "X", Arg: "f0x0"}, {Op: "read"}}, End: "commit"},
		{Mode: "auto", Route: "col", Handle: "outside", Ops: []c06dOp{{Op: "addschema", Col: "Z1x0"}}, End: "commit"}}})
	// ... and after a field was added outside
	add("noop-set-active-vs-patch", c06dParams{Txns: []c06dTxn{
		{Mode: "txn", Route: "gql", Handle: "outside", Ops: []c06dOp{{Op: "setactive", Col: "Y"}}, End: "commit"},
		{Mode: "auto", Route: "col", Handle: "outside", Ops: []c06dOp{{Op: "patch", Col: "X", Arg: "f1x0"}}, End: "commit"}}})
	// two overlapping transactions patch different collections
	add("patch-vs-patch-of-other-collection", c06dParams{Txns: []c06dTxn{
		{Mode: "txn", Route: "col", Handle: "outside", Ops: []c06dOp{{Op: "patch", Col: "X", Arg: "f0x0"}}, End: "commit"},
		{Mode: "ctxn", Route: "col", Handle: "outside", Ops: []c06dOp{{Op: "patch", Col: "Y", Arg: "f1x0"}}, End: "commit"}}})
	// schema operations in a discarded transaction
	add("add-schema-and-patch-discarded", c06dParams{Txns: []c06dTxn{
		{Mode: "txn", Route: "col", Handle: "outside", Ops: []c06dOp{{Op: "addschema", Col: "Z0x0"}, {Op: "patch", Col: "X", Arg: "f0x1"}}, End: "discard"},
		{Mode: "auto", Route: "gql", Handle: "outside", Ops: []c06dOp{{Op: "read"}, {Op: "new", Col: "X", Arg: "n1x1"}}, End: "commit"}}})
	// index DDL through a handle the caller already held, transaction discarded
	add("create-index-discarded", c06dParams{Txns: []c06dTxn{
		{Mode: "txn", Route: "col", Handle: "outside", Ops: []c06dOp{{Op: "mkindex", Col: "I0", Arg: "u"}, {Op: "new", Col: "I0", Arg: "n0x1"}}, End: "discard"},
		{Mode: "auto", Route: "gql", Handle: "outside", Ops: []c06dOp{{Op: "read"}}, End: "commit"}}})
	add("drop-index-discarded", c06dParams{Txns: []c06dTxn{
		{Mode: "txn", Route: "col", Handle: "outside", Ops: []c06dOp{{Op: "dropindex", Col: "I0"}, {Op: "new", Col: "I0", Arg: "n0x1"}}, End: "discard"},
		{Mode: "auto", Route: "col", Handle: "outside", Ops: []c06dOp{{Op: "new", Col: "X", Arg: "n1x0"}}, End: "commit"}}})
	// index DDL in a transaction whose commit fails (the other transaction wrote the same document)
	add("index-ddl-commit-conflict", c06dParams{Txns: []c06dTxn{
		{Mode: "txn", Route: "col", Handle: "outside", Ops: []c06dOp{{Op: "mkindex", Col: "I0", Arg: "p"}, {Op: "upd", Col: "X", Arg: "100"}}, End: "commit"},
		{Mode: "txn", Route: "gql", Handle: "outside", Ops: []c06dOp{{Op: "upd", Col: "X", Arg: "200"}}, End: "commit"}}})
	// index DDL committed, handle fetched inside the transaction, concurrent-flavour transaction
	add("index-ddl-committed", c06dParams{Txns: []c06dTxn{
		{Mode: "ctxn", Route: "gql", Handle: "inside", Ops: []c06dOp{{Op: "mkindex", Col: "I0", Arg: "u"}, {Op: "dropindex", Col: "I0"}}, End: "commit"},
		{Mode: "txn", Route: "col", Handle: "inside", Ops: []c06dOp{{Op: "read"}, {Op: "new", Col: "I1", Arg: "n1x1"}}, End: "commit"}}})
	return cs
}

func c06dGenTxn(rng *rand.Rand, t, maxOps int) c06dTxn {
	tx := c06dTxn{Mode: "txn", Route: "col", Handle: "outside", End: "commit"}
	switch x := rng.IntN(20); {
	case x < 5:
		tx.Mode = "auto"
	case x < 9:
		tx.Mode = "ctxn"
	}
	if rng.IntN(2) == 0 {
		tx.Route = "gql"
	}
	if rng.IntN(3) == 0 {
		tx.Handle = "inside"
	}
	if tx.Mode != "auto" && rng.IntN(4) == 0 {
		tx.End = "discard"
	}
	own := fmt.Sprintf("I%d", t)
	k := 1 + rng.IntN(maxOps)
	mk, drop := false, false
	for i := 0; i < k; i++ {
		var o c06dOp
		for o.Op == "" {
			switch x := rng.IntN(100); {
			case x < 14:
				o = c06dOp{Op: "addschema", Col: fmt.Sprintf("Z%dx%d", t, i)}
			case x < 26:
				if t < 2 { // a collection is patched by one actor only
					o = c06dOp{Op: "patch", Col: []string{"X", "Y"}[t], Arg: fmt.Sprintf("f%dx%d", t, i)}
				}
			case x < 38:
				o = c06dOp{Op: "setactive", Col: []string{"X", "Y", own}[rng.IntN(3)]}
			case x < 52:
				if !mk {
					mk = true
					o = c06dOp{Op: "mkindex", Col: own, Arg: []string{"u", "p"}[rng.IntN(2)]}
				}
			case x < 62:
				if !drop {
					drop = true
					o = c06dOp{Op: "dropindex", Col: own}
				}
			case x < 76:
				o = c06dOp{Op: "new", Col: []string{"X", own}[rng.IntN(2)], Arg: fmt.Sprintf("n%dx%d", t, i)}
			case x < 86:
				o = c06dOp{Op: "upd", Col: "X", Arg: fmt.Sprint(100*(t+1) + i)}
			default:
				o = c06dOp{Op: "read"}
			}
		}
		tx.Ops = append(tx.Ops, o)
	}
	return tx
}

func c06dCases(seed uint64, tier string) []core.Case {
	var cs []core.Case
	rng := rand.New(rand.NewPCG(seed, 6060))
	nPairs, maxOps, nRand := 22, 2, 120
	if tier == "thorough" {
		nPairs, maxOps, nRand = 200, 3, 2500
	}
	interesting := func(p c06dParams) bool {
		for _, t := range p.Txns {
			for _, o := range t.Ops {
				if c06dIsSchemaOp(o.Op) || o.Op == "mkindex" || o.Op == "dropindex" {
					return true
				}
			}
		}
		return false
	}
	seen := map[string]bool{}
	for len(seen) < nPairs {
		var p c06dParams
		for t := 0; t < 2; t++ {
			p.Txns = append(p.Txns, c06dGenTxn(rng, t, maxOps))
		}
		key := core.Canon(p)
		if !interesting(p) || seen[key] {
			continue
		}
		seen[key] = true
		cs = append(cs, c06dSplit("pair-all-interleavings", rng.Uint64(), p)...)
	}
	var batch c06dParams
	for i := 0; i < nRand; i++ {
		var p c06dParams
		for {
			p = c06dParams{}
			for t := 0; t < 3; t++ {
				p.Txns = append(p.Txns, c06dGenTxn(rng, t, 3))
			}
			if interesting(p) {
				break
			}
		}
		for t, n := range c06dStepCounts(p.Txns) {
			for j := 0; j < n; j++ {
				p.Sched = append(p.Sched, t)
			}
		}
		rng.Shuffle(len(p.Sched), func(a, b int) { p.Sched[a], p.Sched[b] = p.Sched[b], p.Sched[a] })
		batch.Batch = append(batch.Batch, p)
		if i%10 == 9 || i == nRand-1 {
			cs = append(cs, core.MkCase("ddl/random-3actors", rng.Uint64(), batch))
			batch = c06dParams{}
		}
	}
	return cs
}

// ---------------------------------------------------------------------------------------
// model

type c06dDoc struct {
	ID string
	K  string
	V  string
	W  int64
}

type c06dCol struct {
	Fields []string            // fields added by patches, in order
	Docs   map[string]c06dDoc  // by k
	Idx    map[string][2]string // index name -> {field, "u"|"p"}
}

type c06dState map[string]*c06dCol

func (s c06dState) clone() c06dState {
	o := c06dState{}
	for n, c := range s {
		nc := &c06dCol{Fields: append([]string(nil), c.Fields...), Docs: map[string]c06dDoc{}, Idx: map[string][2]string{}}
		for k, d := range c.Docs {
			nc.Docs[k] = d
		}
		for k, v := range c.Idx {
			nc.Idx[k] = v
		}
		o[n] = nc
	}
	return o
}

func (c *c06dCol) rows(fields []string, keep func(c06dDoc) bool) string {
	rows := []map[string]any{}
	for _, d := range c.Docs {
		if keep != nil && !keep(d) {
			continue
		}
		m := map[string]any{"_docID": d.ID, "k": d.K, "v": d.V, "w": d.W}
		for _, f := range fields {
			m[f] = nil
		}
		rows = append(rows, m)
	}
	return c06CanonRows(rows)
}

func (c *c06dCol) idxNames() []string {
	out := []string{}
	for n := range c.Idx {
		out = append(out, n)
	}
	sort.Strings(out)
	return out
}

func (c *c06dCol) uniqueOn(field string) bool {
	for _, ix := range c.Idx {
		if ix[0] == field && ix[1] == "u" {
			return true
		}
	}
	return false
}

type c06dCommit struct {
	pos    int
	actor  int
	docs   map[string]bool
	schema bool // added a collection or a field
}

type c06dRT struct {
	prog     c06dTxn
	txn      client.Txn
	tctx     context.Context
	view     c06dState
	effects  []func(c06dState)
	wrote    map[string]bool
	own      map[string]bool // collections and "col.field"s added by this actor's (still open) transaction
	next     int
	beginPos int
	endPos   int
	ended    string // "" | commit-ok | commit-fail | discard
	handle   client.Collection
	ddl      []string // index DDL operations executed through the handle in this transaction
	schemaOp bool
}

type c06dRun struct {
	ctx     context.Context
	p       c06dParams
	r       *core.Rec
	n       *core.Node
	S       c06dState
	rts     []*c06dRT
	commits []c06dCommit
	cols    []string        // every collection name that was ever created (committed or not), sorted
	fields  map[string]bool // every "col.field" ever added
	log     []string
	sched   []int
	bad     bool
}

func (x *c06dRun) logf(f string, a ...any) { x.log = append(x.log, fmt.Sprintf(f, a...)) }

func (x *c06dRun) violate(sig, msg string, extra map[string]any) {
	x.bad = true
	d := map[string]any{"programs": x.p.Txns, "schedule": x.sched, "steps": x.log}
	for k, v := range extra {
		d[k] = v
	}
	x.r.Violate(sig, msg, d)
}

func c06dSDL(name string, withIndex bool) string {
	if withIndex {
		return fmt.Sprintf(`type %s { k: String  v: String  w: Int @index(name: "%s_w") }`, name, name)
	}
	return `type ` + name + ` { k: String  v: String  w: Int }`
}

func (x *c06dRun) addCol(name string) {
	for _, c := range x.cols {
		if c == name {
			return
		}
	}
	x.cols = append(x.cols, name)
	sort.Strings(x.cols)
}

type c06dExec interface {
	ExecRequest(ctx context.Context, request string, opts ...client.RequestOption) *client.RequestResult
}

// exec returns what GraphQL requests of actor T go through, and the context of its API calls.
func (x *c06dRun) exec(T *c06dRT) (c06dExec, context.Context) {
	if T.prog.Mode == "auto" {
		return x.n.DB, x.ctx
	}
	return T.txn, T.tctx
}

// create makes one document through a collection handle or GraphQL and returns its docID.
func (x *c06dRun) create(ex c06dExec, ctx context.Context, col client.Collection, route, cn string, d c06dDoc) (string, error) {
	if route == "col" {
		doc, err := client.NewDocFromMap(map[string]any{"k": d.K, "v": d.V, "w": d.W}, col.Definition())
		core.Must(err)
		if err := col.Create(ctx, doc); err != nil {
			return "", err
		}
		return doc.ID().String(), nil
	}
	rows, err := core.ExecRows(x.ctx, ex, fmt.Sprintf(`mutation { create_%s(input: {k: %q, v: %q, w: %d}) { _docID } }`, cn, d.K, d.V, d.W), "create_"+cn)
	if err != nil {
		return "", err
	}
	if len(rows) != 1 {
		return "", fmt.Errorf("create_%s returned %d rows", cn, len(rows))
	}
	return fmt.Sprint(rows[0]["_docID"]), nil
}

func c06dRunSchedule(ctx context.Context, p c06dParams, sched []int, r *core.Rec) {
	x := &c06dRun{ctx: ctx, p: p, r: r, S: c06dState{}, sched: sched, fields: map[string]bool{}}
	x.n = fastNode(ctx, core.NodeOpts{})
	defer x.n.Close()
	sdl := c06dSDL("X", false) + "\n" + c06dSDL("Y", false)
	for t := range p.Txns {
		sdl += "\n" + c06dSDL(fmt.Sprintf("I%d", t), true)
	}
	_, err := x.n.DB.AddSchema(ctx, sdl)
	core.Must(err)
	seed := func(cn string, docs ...c06dDoc) {
		c := &c06dCol{Docs: map[string]c06dDoc{}, Idx: map[string][2]string{}}
		col := x.n.Col(ctx, cn)
		for _, d := range docs {
			id, err := x.create(x.n.DB, ctx, col, "col", cn, d)
			core.Must(err)
			d.ID = id
			c.Docs[d.K] = d
		}
		x.S[cn] = c
		x.addCol(cn)
	}
	seed("X", c06dDoc{K: "x1", V: "i1", W: 1})
	seed("Y", c06dDoc{K: "y1", V: "i1", W: 1})
	for t, prog := range p.Txns {
		cn := fmt.Sprintf("I%d", t)
		seed(cn, c06dDoc{K: "a", V: "va", W: 1}, c06dDoc{K: "b", V: "vb", W: 2})
		x.S[cn].Idx[cn+"_w"] = [2]string{"w", "p"}
		T := &c06dRT{prog: prog, wrote: map[string]bool{}, own: map[string]bool{}, beginPos: -1, endPos: -1}
		if prog.Handle == "outside" {
			T.handle = x.n.Col(ctx, cn)
		}
		x.rts = append(x.rts, T)
	}
	defer func() {
		for _, T := range x.rts {
			if T.txn != nil {
				T.txn.Discard(ctx)
			}
		}
	}()
	raw := x.n.RawScan(ctx, "/")
	r.Count("evaluations", 1)
	r.Count("schedules", 1)
	r.Count("ddl_schedules", 1)

	for pos, ti := range sched {
		T := x.rts[ti]
		step := T.next
		T.next++
		auto := T.prog.Mode == "auto"
		storeMayChange := false
		stepKind := "op"
		switch {
		case step == 0:
			stepKind = "begin"
			T.beginPos = pos
			if auto {
				T.view, T.tctx = x.S, ctx
				x.logf("%d: A%d (no explicit transaction)", pos, ti)
				break
			}
			var txn client.Txn
			var err error
			if T.prog.Mode == "ctxn" {
				txn, err = x.n.DB.NewConcurrentTxn(ctx, false)
				r.Count("txns_concurrent_flavour", 1)
			} else {
				txn, err = x.n.DB.NewTxn(ctx, false)
			}
			core.Must(err)
			T.txn, T.tctx = txn, db.InitContext(ctx, txn)
			T.view = x.S.clone()
			x.logf("%d: T%d begin", pos, ti)
		case step <= len(T.prog.Ops):
			x.doOp(pos, ti, T, T.prog.Ops[step-1])
			if auto {
				stepKind = "auto-op"
				storeMayChange = true
			}
		default:
			T.endPos = pos
			if auto {
				stepKind = "auto-end"
				T.ended = "commit-ok"
				break
			}
			if T.prog.End == "discard" {
				stepKind, T.ended = "discard", "discard"
				T.txn.Discard(ctx)
				x.logf("%d: T%d discard", pos, ti)
				r.Count("txn_discarded", 1)
				break
			}
			demanded, other := false, -1
			for _, c := range x.commits {
				if c.actor == ti || c.pos < T.beginPos {
					continue
				}
				for k := range T.wrote {
					if c.docs[k] {
						demanded, other = true, c.actor
					}
				}
			}
			err := T.txn.Commit(ctx)
			T.txn.Discard(ctx) // the usual `defer txn.Discard(ctx)`
			if err == nil {
				stepKind, T.ended = "commit-ok", "commit-ok"
				x.logf("%d: T%d commit -> ok", pos, ti)
				r.Count("txn_committed", 1)
				if demanded {
					x.violate("lost-update/overlapping-writers-of-one-document-both-committed",
						fmt.Sprintf("T%d and actor %d overlap and both modified the same document; the other had already committed, yet the commit of T%d succeeded as well", ti, other, ti), nil)
					break
				}
				foreignSchema := false
				for _, c := range x.commits {
					if c.actor != ti && c.pos > T.beginPos && c.schema {
						foreignSchema = true
					}
				}
				if T.schemaOp && foreignSchema {
					r.Count("floor_schema_commit_after_foreign_schema_commit", 1)
				}
				x.commits = append(x.commits, c06dCommit{pos: pos, actor: ti, docs: T.wrote, schema: len(T.own) > 0})
				for _, f := range T.effects {
					f(x.S)
				}
				T.own = map[string]bool{}
				storeMayChange = true
			} else {
				stepKind, T.ended = "commit-fail", "commit-fail"
				x.logf("%d: T%d commit -> %v", pos, ti, err)
				if !c06IsConflict(err) {
					x.violate("commit/error-is-not-a-conflict-error", fmt.Sprintf("Commit of T%d failed with an error that is not a transaction conflict: %v", ti, err), nil)
					break
				}
				if demanded {
					r.Count("conflicts_demanded_and_reported", 1)
				} else {
					r.Count("conflicts_not_demanded", 1)
				}
			}
		}
		if x.bad {
			return
		}
		// --- raw store: only a commit may change it
		raw2 := x.n.RawScan(ctx, "/")
		r.Count("raw_store_checks", 1)
		if !storeMayChange {
			if diff := c06RawDiff(raw, raw2); len(diff) > 0 {
				x.violate("trace/raw-store-changed/after-"+stepKind, fmt.Sprintf("step %d (%s of T%d) changed the committed store although nothing committed: %d keys differ", pos, stepKind, ti, len(diff)),
					map[string]any{"changed_keys": diff})
				return
			}
		}
		raw = raw2
		// --- the handle of a transaction that ended
		if T.ended != "" && step == len(T.prog.Ops)+1 && !x.checkHandle(pos, ti, T) {
			return
		}
		// --- observer
		withIndexReads := stepKind != "op" && stepKind != "begin"
		after := stepKind
		if stepKind == "commit-ok" {
			after = "commit-of-transaction-without-schema-operation"
			if T.schemaOp {
				after = "commit-of-transaction-with-schema-operation"
			}
		}
		if !x.observe(pos, after, withIndexReads) {
			return
		}
	}
	x.postPhase()
	if x.bad {
		return
	}
	x.coverage()
}

// observe: non-transactional reads after a step.
func (x *c06dRun) observe(pos int, after string, indexReads bool) bool {
	r, ctx := x.r, x.ctx
	for _, cn := range x.cols {
		c, committed := x.S[cn]
		if !committed {
			_, _, err := c06Rows(ctx, x.n.DB, `query { `+cn+` { _docID } }`, cn)
			r.Count("observer_reads", 1)
			if err == nil {
				x.violate("observer/uncommitted-collection-queryable/after-"+after,
					fmt.Sprintf("after step %d collection %s, which no committed transaction added, can be queried without a transaction", pos, cn), nil)
				return false
			}
			continue
		}
		got, _, err := c06Rows(ctx, x.n.DB, `query { `+cn+` { _docID k v w `+strings.Join(c.Fields, " ")+` } }`, cn)
		r.Count("observer_reads", 1)
		if err != nil {
			what := "collection"
			if _, _, err2 := c06Rows(ctx, x.n.DB, `query { `+cn+` { _docID k v w } }`, cn); err2 == nil {
				what = "field"
			}
			x.violate("observer/committed-"+what+"-no-longer-queryable/after-"+after,
				fmt.Sprintf("after step %d the committed %s of collection %s (fields k v w %v) cannot be queried without a transaction: %v", pos, what, cn, c.Fields, err),
				map[string]any{"collection": cn, "error": err.Error()})
			return false
		}
		if want := c.rows(c.Fields, nil); got != want {
			x.violate("observer/read-differs-from-committed-state/after-"+after,
				fmt.Sprintf("non-transactional read of %s after step %d differs from the committed state of the model", cn, pos), map[string]any{"got": got, "want": want})
			return false
		}
		if indexReads && strings.HasPrefix(cn, "I") && !x.indexReads(pos, cn, "after-"+after) {
			return false
		}
	}
	// fields that exist only inside a running or discarded transaction
	var fs []string
	for f := range x.fields {
		fs = append(fs, f)
	}
	sort.Strings(fs)
	for _, cf := range fs {
		i := strings.Index(cf, ".")
		cn, f := cf[:i], cf[i+1:]
		c, ok := x.S[cn]
		if !ok || c06dHas(c.Fields, f) {
			continue
		}
		_, _, err := c06Rows(ctx, x.n.DB, `query { `+cn+` { _docID `+f+` } }`, cn)
		r.Count("observer_reads", 1)
		if err == nil {
			x.violate("observer/uncommitted-field-queryable/after-"+after,
				fmt.Sprintf("after step %d field %s of %s, which no committed transaction added, can be queried without a transaction", pos, f, cn), nil)
			return false
		}
	}
	return true
}

func c06dHas(l []string, s string) bool {
	for _, e := range l {
		if e == s {
			return true
		}
	}
	return false
}

// indexReads: reads by every value of v and w that occurs in cn (both fields may or may not be indexed).
func (x *c06dRun) indexReads(pos int, cn, when string) bool {
	c := x.S[cn]
	vs, ws := map[string]bool{}, map[int64]bool{}
	for _, d := range c.Docs {
		vs[d.V], ws[d.W] = true, true
	}
	for _, T := range x.rts {
		if T.view != nil && T.view[cn] != nil {
			for _, d := range T.view[cn].Docs {
				vs[d.V], ws[d.W] = true, true
			}
		}
	}
	check := func(filter string, keep func(c06dDoc) bool) bool {
		got, _, err := c06Rows(x.ctx, x.n.DB, `query { `+cn+`(filter: `+filter+`) { _docID k v w } }`, cn)
		core.Must(err)
		x.r.Count("observer_reads", 1)
		x.r.Count("observer_index_reads", 1)
		if want := c.rows(nil, keep); got != want {
			x.violate("observer/index-read-differs-from-committed-state/"+when,
				fmt.Sprintf("non-transactional read %s(filter: %s) at step %d differs from the committed state of the model (committed indexes: %v)", cn, filter, pos, c.idxNames()),
				map[string]any{"got": got, "want": want})
			return false
		}
		return true
	}
	var vl []string
	for v := range vs {
		vl = append(vl, v)
	}
	sort.Strings(vl)
	for _, v := range vl {
		v := v
		if !check(fmt.Sprintf(`{v: {_eq: %q}}`, v), func(d c06dDoc) bool { return d.V == v }) {
			return false
		}
	}
	var wl []int64
	for w := range ws {
		wl = append(wl, w)
	}
	sort.Slice(wl, func(a, b int) bool { return wl[a] < wl[b] })
	for _, w := range wl {
		w := w
		if !check(fmt.Sprintf(`{w: {_eq: %d}}`, w), func(d c06dDoc) bool { return d.W == w }) {
			return false
		}
	}
	return true
}

// checkHandle: after the end of T, the handle through which T issued index DDL lists the committed
// indexes of the collection (actor t is the only author of index DDL on I<t>).
func (x *c06dRun) checkHandle(pos, ti int, T *c06dRT) bool {
	if T.handle == nil || len(T.ddl) == 0 {
		return true
	}
	cn := fmt.Sprintf("I%d", ti)
	ixs, err := T.handle.GetIndexes(x.ctx)
	core.Must(err)
	got := []string{}
	for _, ix := range ixs {
		got = append(got, ix.Name)
	}
	sort.Strings(got)
	want := x.S[cn].idxNames()
	x.r.Count("ddl_handle_checks", 1)
	if T.ended != "commit-ok" {
		x.r.Count("floor_index_ddl_uncommitted", 1)
		for _, d := range T.ddl {
			x.r.Count("floor_"+d+"_uncommitted", 1)
		}
		if T.ended == "commit-fail" {
			x.r.Count("floor_index_ddl_commit_failed", 1)
		}
	}
	if strings.Join(got, ",") == strings.Join(want, ",") {
		return true
	}
	if T.ended == "commit-ok" {
		x.violate("handle/index-list-differs-from-committed-indexes/after-commit",
			fmt.Sprintf("after the commit of T%d the collection handle it used for %v lists the indexes %v, committed are %v", ti, T.ddl, got, want), nil)
		return false
	}
	kind := "create_index"
	for _, w := range want {
		if !c06dHas(got, w) {
			kind = "drop_index"
		}
	}
	x.violate("trace/index-ddl-of-uncommitted-transaction-remains-in-collection-handle/"+kind,
		fmt.Sprintf("T%d issued %v through a collection handle and ended with %s; afterwards the handle lists the indexes %v, the store holds %v: "+
			"later writes through the handle are checked against / maintain indexes that differ from the committed ones", ti, T.ddl, T.ended, got, want),
		map[string]any{"handle_indexes": got, "committed_indexes": want, "ended": T.ended})
	return false
}

// postPhase: when every transaction has ended, writes through the handle each actor used and through a
// fresh handle behave as the committed indexes demand.
func (x *c06dRun) postPhase() {
	ctx := x.ctx
	for ti, T := range x.rts {
		cn := fmt.Sprintf("I%d", ti)
		c := x.S[cn]
		type probe struct {
			who string
			h   client.Collection
			d   c06dDoc
		}
		var ps []probe
		if T.handle != nil {
			ps = append(ps, probe{"same", T.handle, c06dDoc{K: "p", V: "va", W: 1}})
		}
		ps = append(ps, probe{"fresh", x.n.Col(ctx, cn), c06dDoc{K: "q", V: "vb", W: 2}})
		for _, p := range ps {
			wantOK := !c.uniqueOn("v")
			id, err := x.create(x.n.DB, ctx, p.h, "col", cn, p.d)
			x.r.Count("ddl_post_phase_writes", 1)
			x.logf("post: create {k:%s v:%s w:%d} in %s through the %s handle of actor %d (%s) -> %v", p.d.K, p.d.V, p.d.W, cn, p.who, ti, T.ended, err)
			how := "transaction-" + T.ended
			if (err == nil) != wantOK {
				x.violate("trace/write-through-"+p.who+"-handle-after-"+how+"/outcome-differs-from-committed-indexes",
					fmt.Sprintf("after actor %d ended (%s, index DDL %v) a create through the %s handle of %s returned %v; the committed indexes %v demand ok=%v",
						ti, T.ended, T.ddl, p.who, cn, err, c.idxNames(), wantOK), nil)
				return
			}
			if err == nil {
				p.d.ID = id
				c.Docs[p.d.K] = p.d
			}
			if !x.indexReads(len(x.sched), cn, "after-write-through-"+p.who+"-handle-after-"+how) {
				return
			}
		}
	}
}

func (x *c06dRun) coverage() {
	nontrivial := false
	for ti, T := range x.rts {
		if T.prog.Mode == "auto" {
			continue
		}
		for _, c := range x.commits {
			// another actor committed between the begin and the end of T, and T did DDL or a schema operation
			if c.actor != ti && c.pos > T.beginPos && c.pos < T.endPos && (T.schemaOp || len(T.ddl) > 0) {
				nontrivial = true
			}
		}
		if len(T.ddl) > 0 && T.ended != "commit-ok" {
			nontrivial = true
		}
	}
	if nontrivial {
		x.r.Count("nontrivial_schedules", 1)
		x.r.Count("ddl_nontrivial_schedules", 1)
		x.r.Nontrivial("ddl" + core.Canon(x.p.Txns) + fmt.Sprint(x.sched))
	}
	x.r.Sample(map[string]any{"programs": x.p.Txns, "schedule": x.sched, "steps": x.log})
}

// doOp executes one operation of actor T against the database and against T.view.
func (x *c06dRun) doOp(pos, ti int, T *c06dRT, o c06dOp) {
	r := x.r
	auto := T.prog.Mode == "auto"
	ex, tctx := x.exec(T)
	who := fmt.Sprintf("T%d", ti)
	if auto {
		who = fmt.Sprintf("A%d", ti)
	}
	r.Count("txn_ops", 1)
	r.Count("ddl_op_"+o.Op, 1)
	fail := func(err error) bool {
		if err == nil {
			return false
		}
		x.logf("%d: %s %s -> unexpected error: %v", pos, who, o, err)
		x.violate("txn-op-error/"+o.Op+"/"+T.prog.Mode, fmt.Sprintf("step %d: `%s` of %s (%s) failed: %v", pos, o, who, T.prog.Mode, err), nil)
		return true
	}
	// apply records an effect of T: on its view now, on S when it commits (auto: view is S)
	apply := func(f func(c06dState)) {
		f(T.view)
		if !auto {
			T.effects = append(T.effects, f)
		}
	}
	handle := func() client.Collection {
		if T.handle == nil {
			h, err := x.n.DB.GetCollectionByName(tctx, fmt.Sprintf("I%d", ti))
			core.Must(err)
			T.handle = h
		}
		return T.handle
	}
	switch o.Op {
	case "addschema":
		_, err := x.n.DB.AddSchema(tctx, c06dSDL(o.Col, false))
		if fail(err) {
			return
		}
		col, err := x.n.DB.GetCollectionByName(tctx, o.Col)
		if fail(err) {
			return
		}
		d := c06dDoc{K: "z1", V: "i1", W: 1}
		id, err := x.create(ex, tctx, col, "col", o.Col, d)
		if fail(err) {
			return
		}
		d.ID = id
		x.addCol(o.Col)
		T.schemaOp = true
		if auto {
			x.commits = append(x.commits, c06dCommit{pos: pos, actor: ti, schema: true})
		} else {
			T.own[o.Col] = true
		}
		apply(func(s c06dState) { s[o.Col] = &c06dCol{Docs: map[string]c06dDoc{d.K: d}, Idx: map[string][2]string{}} })
		x.logf("%d: %s addschema %s + one document -> ok", pos, who, o.Col)
	case "patch":
		err := x.n.DB.PatchSchema(tctx, c05AddFieldPatch(o.Col, o.Arg), immutable.None[model.Lens](), true)
		if fail(err) {
			return
		}
		x.fields[o.Col+"."+o.Arg] = true
		T.schemaOp = true
		if auto {
			x.commits = append(x.commits, c06dCommit{pos: pos, actor: ti, schema: true})
		} else {
			T.own[o.Col+"."+o.Arg] = true
		}
		apply(func(s c06dState) { s[o.Col].Fields = append(s[o.Col].Fields, o.Arg) })
		x.logf("%d: %s patch %s: add field %s -> ok", pos, who, o.Col, o.Arg)
	case "setactive":
		col, err := x.n.DB.GetCollectionByName(tctx, o.Col)
		if fail(err) {
			return
		}
		// the version that is active in T's view: the call changes nothing
		if fail(x.n.DB.SetActiveSchemaVersion(tctx, col.VersionID())) {
			return
		}
		T.schemaOp = true
		x.logf("%d: %s set active version of %s to the one that is active in its view -> ok", pos, who, o.Col)
	case "mkindex":
		name := o.Col + "_v"
		_, err := handle().CreateIndex(tctx, client.IndexCreateRequest{Name: name, Unique: o.Arg == "u", Fields: []client.IndexedFieldDescription{{Name: "v"}}})
		if fail(err) {
			return
		}
		T.ddl = append(T.ddl, "create_index")
		apply(func(s c06dState) { s[o.Col].Idx[name] = [2]string{"v", o.Arg} })
		x.logf("%d: %s create index %s (unique=%v) through its handle -> ok", pos, who, name, o.Arg == "u")
	case "dropindex":
		name := o.Col + "_w"
		if fail(handle().DropIndex(tctx, name)) {
			return
		}
		T.ddl = append(T.ddl, "drop_index")
		apply(func(s c06dState) { delete(s[o.Col].Idx, name) })
		x.logf("%d: %s drop index %s through its handle -> ok", pos, who, name)
	case "new":
		d := c06dDoc{K: o.Arg, V: "c" + o.Arg[1:], W: 10 + int64(ti)*10 + int64(len(T.effects)%7)}
		var col client.Collection
		if T.prog.Route == "col" {
			if strings.HasPrefix(o.Col, "I") {
				col = handle()
			} else {
				c, err := x.n.DB.GetCollectionByName(tctx, o.Col)
				if fail(err) {
					return
				}
				col = c
			}
		}
		id, err := x.create(ex, tctx, col, T.prog.Route, o.Col, d)
		if fail(err) {
			return
		}
		d.ID = id
		T.wrote[o.Col+"/"+d.K] = true
		if auto {
			x.commits = append(x.commits, c06dCommit{pos: pos, actor: ti, docs: map[string]bool{o.Col + "/" + d.K: true}})
		}
		apply(func(s c06dState) { s[o.Col].Docs[d.K] = d })
		x.logf("%d: %s new %s {k:%s v:%s w:%d} (%s) -> ok", pos, who, o.Col, d.K, d.V, d.W, T.prog.Route)
	case "upd":
		var w int64
		fmt.Sscan(o.Arg, &w)
		id := T.view["X"].Docs["x1"].ID
		if T.prog.Route == "col" {
			col, err := x.n.DB.GetCollectionByName(tctx, "X")
			if fail(err) {
				return
			}
			did, err := client.NewDocIDFromString(id)
			core.Must(err)
			doc, err := col.Get(tctx, did, false)
			if fail(err) {
				return
			}
			core.Must(doc.Set("w", w))
			if fail(col.Update(tctx, doc)) {
				return
			}
		} else {
			_, n, err := c06Rows(x.ctx, ex, fmt.Sprintf(`mutation { update_X(docID: %q, input: {w: %d}) { _docID } }`, id, w), "update_X")
			if fail(err) {
				return
			}
			if n != 1 {
				fail(fmt.Errorf("update_X returned %d rows", n))
				return
			}
		}
		T.wrote["X/x1"] = true
		if auto {
			x.commits = append(x.commits, c06dCommit{pos: pos, actor: ti, docs: map[string]bool{"X/x1": true}})
		}
		apply(func(s c06dState) { d := s["X"].Docs["x1"]; d.W = w; s["X"].Docs["x1"] = d })
		x.logf("%d: %s upd X.x1.w=%d (%s) -> ok", pos, who, w, T.prog.Route)
	case "read":
		for _, cn := range x.cols {
			c, visible := T.view[cn]
			// collection route
			col, err := x.n.DB.GetCollectionByName(tctx, cn)
			r.Count("txn_reads", 1)
			r.Count("ddl_txn_reads", 1)
			if (err == nil) != visible {
				x.logf("%d: %s read %s (col) -> err=%v, model: visible=%v", pos, who, cn, err, visible)
				x.violate("txn-read/collection-visibility/col/differs-from-snapshot-plus-own-writes",
					fmt.Sprintf("step %d: GetCollectionByName(%s) inside %s returned err=%v, but the state at its start plus its own writes has visible=%v", pos, cn, who, err, visible), nil)
				return
			}
			if visible {
				ch, err := col.GetAllDocIDs(tctx)
				if fail(err) {
					return
				}
				ids := []string{}
				for res := range ch {
					if res.Err != nil {
						err = res.Err
						continue
					}
					ids = append(ids, res.ID.String())
				}
				if fail(err) {
					return
				}
				sort.Strings(ids)
				wids := []string{}
				for _, d := range c.Docs {
					wids = append(wids, d.ID)
				}
				sort.Strings(wids)
				if strings.Join(ids, ",") != strings.Join(wids, ",") {
					x.logf("%d: %s read %s (col) -> %v, model %v", pos, who, cn, ids, wids)
					x.violate("txn-read/list/col/differs-from-snapshot-plus-own-writes",
						fmt.Sprintf("step %d: GetAllDocIDs of %s inside %s returned %v, the state at its start plus its own writes gives %v", pos, cn, who, ids, wids), nil)
					return
				}
			}
			// GraphQL route: not for what T added itself (the GraphQL types are swapped on commit)
			if T.own[cn] {
				r.Count("own_schema_gql_reads_skipped", 1)
				continue
			}
			fields := []string{}
			if visible {
				for _, f := range c.Fields {
					if T.own[cn+"."+f] {
						r.Count("own_schema_gql_reads_skipped", 1)
						continue
					}
					fields = append(fields, f)
				}
			}
			got, _, err := c06Rows(x.ctx, ex, `query { `+cn+` { _docID k v w `+strings.Join(fields, " ")+` } }`, cn)
			r.Count("txn_reads", 1)
			r.Count("ddl_txn_reads", 1)
			if (err == nil) != visible {
				x.logf("%d: %s read %s (gql) -> err=%v, model: visible=%v", pos, who, cn, err, visible)
				x.violate("txn-read/collection-visibility/gql/differs-from-snapshot-plus-own-writes",
					fmt.Sprintf("step %d: a GraphQL query of %s inside %s returned err=%v, but the state at its start plus its own writes has visible=%v", pos, cn, who, err, visible), nil)
				return
			}
			if visible {
				if want := c.rows(fields, nil); got != want {
					x.logf("%d: %s read %s (gql) -> %s, model %s", pos, who, cn, got, want)
					x.violate("txn-read/list/gql/differs-from-snapshot-plus-own-writes",
						fmt.Sprintf("step %d: a GraphQL query of %s inside %s differs from the state at its start plus its own writes", pos, cn, who), map[string]any{"got": got, "want": want})
					return
				}
			}
		}
		x.logf("%d: %s read of %d collections -> as modelled", pos, who, len(x.cols))
	}
}

func c06dRun1(ctx context.Context, c core.Case, r *core.Rec) {
	quietLogs()
	var p c06dParams
	c.P(&p)
	if len(p.Batch) > 0 {
		for _, it := range p.Batch {
			c06dRunSchedule(ctx, it, it.Sched, r)
			r.Count("schedules_random_3txn", 1)
		}
		return
	}
	if len(p.Sched) > 0 {
		c06dRunSchedule(ctx, p, p.Sched, r)
		return
	}
	all := c06Interleavings(c06dStepCounts(p.Txns))
	if p.Parts < 1 {
		p.Parts = 1
	}
	n := 0
	for i, s := range all {
		if i%p.Parts == p.Part {
			c06dRunSchedule(ctx, p, s, r)
			n++
		}
	}
	if p.Part == 0 {
		r.Count("programs_with_all_interleavings", 1)
		r.Count("ddl_programs_with_all_interleavings", 1)
	}
	r.Count("schedules_from_full_enumeration", int64(n))
}
