package checks

import (
	"context"
	"crypto/ed25519"
	"fmt"
	"math/big"
	"math/rand/v2"
	"os"
	"sort"
	"strings"
	"time"

	"github.com/sourcenetwork/immutable"

	"github.com/sourcenetwork/defradb/acp/identity"
	"github.com/sourcenetwork/defradb/client"
	"github.com/sourcenetwork/defradb/crypto"
	"github.com/sourcenetwork/defradb/verifharness/core"
	"github.com/sourcenetwork/defradb/verifharness/qsem"
)

// C08 — query results follow the documented filter, order, limit and aggregate semantics;
// no request, well-formed or not, panics or hangs.
//
// Case kinds:
//   data            one generated data set, N generated queries judged by (1) the three-valued
//                   reference evaluator on the documented core, (2) metamorphic relations,
//                   (3) recover() + watchdog around every request
//   multi-agg       aggregates over SEVERAL targets (two relations / inline arrays / collections), see c08_multi_target.go
//   f32-like-group  own collection: Float32 fields and arrays against Float twins, the _like family on a plain and an
//                   indexed field, limit/offset inside _group, groupBy over colliding key values, see c08_float32_like_group.go
//   malformed       token-level mutations of valid requests + a fixed list of pathological requests
//   signed          commits / latestCommits / _version over SIGNED commits, every subset of commit fields
//   json-order      order on a JSON field that holds values of different types
//   memstore-*      the no-hang clause on the corekv memory store, one dedicated case per request
//                   class with its own short watchdog (a hang there costs 20 s, not a CaseTimeout)

type c08Params struct {
	NU      int    `json:"nu,omitempty"`
	NG      int    `json:"ng,omitempty"`
	NG2     int    `json:"ng2,omitempty"`
	Queries int    `json:"queries,omitempty"`
	Anchor  string `json:"anchor,omitempty"`
	Part    int    `json:"part,omitempty"`
	Parts   int    `json:"parts,omitempty"`
	KeyType string `json:"key_type,omitempty"`
	Store   string `json:"store,omitempty"`
}

const c08MemWatchdog = 20 * time.Second

func c08Cases(seed uint64, tier string) []core.Case {
	var cs []core.Case
	// anchors (seed independent)
	cs = append(cs, core.MkCase("data", 1, c08Params{Anchor: "ties-and-aggregates", Queries: 40}))
	cs = append(cs, core.MkCase("data", 1, c08Params{Anchor: "edge-values", Queries: 30}))
	cs = append(cs, core.MkCase("multi-agg", 1, c08Params{Anchor: "two-targets-with-different-extrema", Queries: 20}))
	cs = append(cs, core.MkCase("malformed", 1, c08Params{Anchor: "pathological", NU: 5, NG: 2}))
	cs = append(cs, core.MkCase("json-order", 1, c08Params{}))
	for i := range qsem.FragmentCycles {
		cs = append(cs, core.MkCase("fragment-cycle", 1, c08Params{Part: i}))
	}
	// the memory-store cases come early so that they land on different workers
	for _, k := range []string{"memstore-queries", "memstore-commits", "memstore-latestcommits", "memstore-version", "memstore-delete"} {
		cs = append(cs, core.MkCase(k, 1, c08Params{Store: "memory"}))
	}
	parts := 8
	for p := 0; p < parts; p++ {
		kt := "secp256k1"
		if p%2 == 1 {
			kt = "ed25519"
		}
		cs = append(cs, core.MkCase("signed", 1, c08Params{Part: p, Parts: parts, KeyType: kt}))
	}
	rng := rand.New(rand.NewPCG(seed, 808))
	nData, nMal := tierN(tier, 60, 1500), tierN(tier, 15, 500)
	for i := 0; i < nData; i++ {
		p := c08Params{NU: rng.IntN(13), NG: rng.IntN(4), Queries: 150}
		if i%10 == 0 {
			p.NU = []int{0, 1, 2}[rng.IntN(3)] // tiny collections
		}
		cs = append(cs, core.MkCase("data", rng.Uint64(), p))
		if i%3 == 0 { // multi-target aggregates: P with 0-5 documents, B and C with 0-8
			cs = append(cs, core.MkCase("multi-agg", rng.Uint64(), c08Params{NU: rng.IntN(6), NG: rng.IntN(9), NG2: rng.IntN(9), Queries: 60}))
		}
		if i%4 == 3 && nMal > 0 {
			nMal--
			cs = append(cs, core.MkCase("malformed", rng.Uint64(), c08Params{NU: 1 + rng.IntN(6), NG: 1 + rng.IntN(2), Queries: 200}))
		}
	}
	for ; nMal > 0; nMal-- {
		cs = append(cs, core.MkCase("malformed", rng.Uint64(), c08Params{NU: 1 + rng.IntN(6), NG: 1 + rng.IntN(2), Queries: 200}))
	}
	// appended (not inserted): a case's generator is derived from its position in this list
	cs = append(cs, c08xCases(seed, tier)...)
	if only := os.Getenv("C08_DEV_ONLY_KIND"); only != "" { // development aid
		var sel []core.Case
		for _, c := range cs {
			if c.Kind == only {
				sel = append(sel, c)
			}
		}
		return sel
	}
	return cs
}

func init() {
	core.Register(&core.Check{
		ID: "C08", Level: "exploration",
		Rule: "generated data sets (0-12 documents of a multi-kind collection with small value domains and nulls, related many-to-one to a second collection) x generated queries " +
			"(filters of depth <=3 over comparison/membership/_and/_or/_not, 1-4 order keys incl. through the relation, limit/offset, top-level / grouped / per-relation aggregates with inner filters); " +
			"a second schema (P with four inline numeric arrays and two one-to-many relations) x aggregates that list 2-3 targets (relations, inline arrays, collections at top level; with and without inner filters; " +
			"per document, inside _group, top level), judged by the arithmetic over the union of the values listed for the targets; " +
			"oracles: three-valued reference evaluator on the documented core, metamorphic laws (_not = complement, _and = intersection, _or = union, ordered = sorted permutation, limit/offset = slice, " +
			"aggregate = arithmetic over the listed values, groups partition the list); every request under recover() and a watchdog; token-mutated and pathological requests; " +
			"commit queries over signed commits with every subset of commit fields. distinct = query skeleton x data signature; non-trivial = result neither empty nor everything, or an order with first-key ties.",
		Cases:       c08Cases,
		Run:         c08Run,
		CaseTimeout: 10 * time.Minute,
		Floors: append([]string{"ref_rows_judged", "metamorphic_not", "metamorphic_and_or", "order_checks", "order_multikey_first_key_ties", "limit_checks",
			"edge_value_checks", "agg__count", "agg__sum", "agg__avg", "agg__min", "agg__max", "agg_in_group", "agg_inner_filter", "group_partition_checks",
			"agg_multi_target", "agg_multi_target__count", "agg_multi_target__sum", "agg_multi_target__avg", "agg_multi_target__min", "agg_multi_target__max",
			"agg_multi_target_minima_differ", "agg_multi_target_maxima_differ", "agg_multi_target_in_group", "agg_multi_target_top_level", "agg_multi_target_inner_filter",
			"signed_commit_queries_without_signature", "signed_commit_queries_with_signature", "malformed_requests", "pathological_requests", "memstore_requests", "requests_answered_error",
			"agg_inline_array_offset-only", "agg_inline_array_slice_shorter_than_array", "alias_on_aggregate_rows_judged", "alias_numeric_laws", "alias_numeric_data_int_literal_float", "alias_numeric_data_float_literal_int", "alias_numeric_literal_ties_with_a_value"}, c08xFloors...),
		Assumptions: []string{
			"null sorts before every value (ASC); the documentation does not say so, the rule is the implementation's and is used only to judge order keys",
			"comparisons that involve null are outside the reference evaluator (three-valued: such rows are not judged); they are covered by the metamorphic laws only",
			"_avg/_min/_max over zero non-null values and limit: 0 are not judged (undocumented)",
			"watchdog: 60 s per request on badger (requests take ~4 ms; at least 1000 x the median latency of the node), 20 s on the corekv memory store; after that period a hang is reported only on evidence - " +
				"the request's goroutine blocked on a lock/channel with an unchanged stack at two examinations 15 s apart, or >= 20 s of process CPU time burned - so that a starved machine does not produce hang reports",
		},
	})
}

func c08Run(ctx context.Context, c core.Case, r *core.Rec) {
	var p c08Params
	c.P(&p)
	switch {
	case c.Kind == "data":
		c08RunData(ctx, c, p, r)
	case c.Kind == "multi-agg":
		c08RunMultiAgg(ctx, c, p, r)
	case c.Kind == "f32-like-group":
		c08RunF32LikeGroup(ctx, c, p, r)
	case c.Kind == "malformed":
		c08RunMalformed(ctx, c, p, r)
	case c.Kind == "signed":
		c08RunSigned(ctx, c, p, r)
	case c.Kind == "fragment-cycle":
		c08RunFragmentCycle(ctx, c, p, r)
	case c.Kind == "json-order":
		c08RunJSONOrder(ctx, c, p, r)
	case strings.HasPrefix(c.Kind, "memstore-"):
		c08RunMemstore(ctx, c, p, r)
	default:
		panic("unknown case kind " + c.Kind)
	}
}

// ---------------------------------------------------------------------------------------
// data cases

type c08env struct {
	ex  *qsem.Exec
	r   *core.Rec
	rng *rand.Rand
	ds  qsem.Dataset
	all []string // k of every document
	sig string
}

func c08AnchorData() qsem.Dataset {
	// first-key ties on i (three documents with i=1, inserted so that k is not monotone within the tie),
	// nulls in every aggregated field, two groups
	mk := func(k int, i, d any, s any, f any, b any, g int) qsem.Doc {
		return qsem.Doc{"k": int64(k), "i": i, "d": d, "s": s, "f": f, "b": b, "t": nil, "a": nil, "j": nil, "g": g}
	}
	return qsem.Dataset{
		G: []qsem.Doc{{"name": "g0", "w": int64(0)}, {"name": "g1", "w": int64(1)}},
		U: []qsem.Doc{
			mk(0, int64(1), int64(2), "a", 0.5, true, 0), mk(1, int64(1), int64(0), "b", -1.5, false, 1), mk(2, nil, int64(1), "a", nil, nil, 0),
			mk(3, int64(1), int64(1), nil, 2.0, true, -1), mk(4, int64(3), nil, "b", 0.5, false, 1), mk(5, int64(-2), int64(2), "a", 2.0, nil, 0),
			mk(6, int64(3), int64(0), "ab", nil, true, 1), mk(7, int64(0), int64(1), "a", 0.0, false, 0),
		},
	}
}

// c08EdgeData: integers beyond 2^53 (not representable in a float64), extreme floats, empty string.
func c08EdgeData() qsem.Dataset {
	mk := func(k int, i any, f any, s any) qsem.Doc {
		return qsem.Doc{"k": int64(k), "i": i, "d": int64(k % 2), "s": s, "f": f, "b": nil, "t": nil, "a": nil, "j": nil, "g": -1}
	}
	return qsem.Dataset{U: []qsem.Doc{
		mk(0, int64(9007199254740993), 1e308, ""), mk(1, int64(-9007199254740993), 5e-324, "a"), mk(2, int64(4611686018427387905), -1e308, "\u00e9"),
		mk(3, int64(1), 0.1, "A"), mk(4, int64(9007199254740992), 0.2, "a\x00b"), mk(5, nil, nil, nil),
	}}
}

// edgeQueries: reference filters with extreme operands, orders and aggregates over the extreme values.
func (e *c08env) edgeQueries() {
	for _, f := range []*qsem.F{
		// (integer literals beyond the 32-bit range are rejected by the GraphQL Int type of the request language; operands stay inside)
		{Op: "leaf", Field: "i", Cmp: "_eq", Val: int64(1)}, {Op: "leaf", Field: "i", Cmp: "_gt", Val: int64(2147483647)},
		{Op: "leaf", Field: "i", Cmp: "_le", Val: int64(-2147483647)}, {Op: "leaf", Field: "i", Cmp: "_in", Val: []any{int64(2147483647), int64(1)}},
		{Op: "leaf", Field: "i", Cmp: "_ne", Val: int64(1)}, {Op: "leaf", Field: "i", Cmp: "_ge", Val: int64(2)}, {Op: "leaf", Field: "f", Cmp: "_lt", Val: 1e-300}, {Op: "leaf", Field: "f", Cmp: "_ge", Val: 1e308},
		{Op: "leaf", Field: "s", Cmp: "_eq", Val: ""}, {Op: "leaf", Field: "s", Cmp: "_ne", Val: "a\x00b"}, {Op: "leaf", Field: "s", Cmp: "_in", Val: []any{"\u00e9", "A"}},
	} {
		req := fmt.Sprintf(`query { U(filter: %s) { k } }`, f.GQL())
		if got, ok := e.ks("filter", req); ok {
			e.r.Count("edge_value_checks", 1)
			e.refJudge(f, got, req)
		}
	}
	ik := qsem.OrderKey{Path: []string{"i"}, Kind: qsem.KInt}
	fk := qsem.OrderKey{Path: []string{"f"}, Kind: qsem.KFloat, Desc: true}
	sk := qsem.OrderKey{Path: []string{"s"}, Kind: qsem.KString}
	for _, keys := range [][]qsem.OrderKey{{ik}, {fk}, {sk}} {
		e.order(keys)
	}
	for i := 0; i < 12; i++ {
		e.aggTop()
	}
}

func c08RunData(ctx context.Context, c core.Case, p c08Params, r *core.Rec) {
	rng := c.Rng()
	var ds qsem.Dataset
	if p.Anchor == "edge-values" {
		ds = c08EdgeData()
	} else if p.Anchor != "" {
		ds = c08AnchorData()
	} else {
		ds = qsem.GenData(rng, p.NU, p.NG, false)
	}
	n := core.NewNode(ctx, core.NodeOpts{})
	defer n.Close()
	_, err := n.DB.AddSchema(ctx, qsem.SDL)
	core.Must(err)
	_, err = qsem.Load(ctx, n, ds)
	core.Must(err)
	e := &c08env{ex: &qsem.Exec{Ctx: ctx, N: n, R: r, Kind: c.Kind}, r: r, rng: rng, ds: ds, sig: ds.Signature()}
	for _, d := range ds.U {
		e.all = append(e.all, fmt.Sprint(d["k"]))
	}
	r.Count("data_sets", 1)
	if dbg := os.Getenv("C08_DEBUG_QUERIES"); dbg != "" { // development aid for --replay: run extra queries on the case's data set
		for _, q := range strings.Split(dbg, ";;") {
			res := e.ex.Do(q)
			fmt.Printf("DEBUG %s\n   -> %s %v\n", q, core.Canon(res.Data), res.Errs)
		}
		return
	}
	if !e.dumpCheck() {
		return
	}
	if p.Anchor == "edge-values" {
		e.edgeQueries()
		r.Count("edge_value_data_sets", 1)
	} else if p.Anchor != "" {
		e.anchorQueries()
	}
	for q := 0; q < p.Queries && !e.ex.Hung; q++ {
		r.Count("evaluations", 1)
		switch x := rng.IntN(100); {
		case x < 30:
			e.filterRef()
		case x < 50:
			e.filterMeta()
		case x < 72:
			e.order(nil)
		case x < 82:
			e.aggTop()
		case x < 94:
			e.aggGroup(false)
		default:
			e.aggRel()
		}
	}
	// numeric comparisons through _alias (own generator: the query stream above stays as it was)
	arng := rand.New(rand.NewPCG(c.Seed, 808))
	for q := 0; q < 3+p.Queries/40 && !e.ex.Hung; q++ {
		e.aliasNumeric(arng)
		e.aggInline(arng)
		e.aliasOnAggregate(arng)
	}
	if c.Index%16 == 0 {
		r.Sample(map[string]any{"kind": c.Kind, "documents": len(ds.U), "data_signature": e.sig, "first_documents": firstN(ds.U, 3)})
	}
}

func firstN(d []qsem.Doc, n int) []qsem.Doc {
	if len(d) > n {
		return d[:n]
	}
	return d
}

// query runs a generated (valid) query; an error answer to a valid query is itself reported.
func (e *c08env) query(class, req string) (qsem.Result, bool) {
	res := e.ex.Do(req)
	if res.Panic != "" || res.Hang {
		return res, false
	}
	if len(res.Errs) > 0 && res.Errs[0] == "key not found" && strings.Contains(req, "_not") && (class == "aggregate" || class == "group" || class == "relation-aggregate") {
		e.r.Count("aggregate_requests_with_not_in_inner_filter_rejected", 1)
		e.r.Violate("aggregate/inner-filter-containing-_not/rejected-with-key-not-found",
			"an aggregate whose inner filter contains _not is answered with the error 'key not found' (the same filter works on the collection field)",
			map[string]any{"request": req, "errors": res.Errs})
		return res, false
	}
	if len(res.Errs) > 0 && strings.HasPrefix(res.Errs[0], "unexpected type. Property:") && strings.Contains(req, "_avg") && strings.Contains(req, "{_ne: null}") {
		e.r.Violate("aggregate/_avg-dependency-requested-before-_avg/rejected-with-unexpected-type",
			"a request that lists _sum/_count with the filter {field: {_ne: null}} before an _avg over the same field is answered with the error '"+res.Errs[0]+"'",
			map[string]any{"request": req, "errors": res.Errs})
		return res, false
	}
	if len(res.Errs) > 0 {
		e.r.Violate("valid-request-rejected/"+class, "a generated well-formed "+class+" request was answered with an error: "+res.Errs[0],
			map[string]any{"request": req, "errors": res.Errs})
		return res, false
	}
	return res, true
}

func (e *c08env) ks(class, req string) ([]string, bool) {
	res, ok := e.query(class, req)
	if !ok {
		return nil, false
	}
	return qsem.IDs(res.Rows("U"), "k"), true
}

func (e *c08env) nontrivial(skeleton string, n int, force bool) {
	if force || (n > 0 && n < len(e.all)) {
		e.r.Nontrivial(skeleton + "#" + e.sig)
	}
}

// dumpCheck: the plain listing returns exactly the generated documents.
func (e *c08env) dumpCheck() bool {
	res, ok := e.query("listing", `query { U { k i d s f b t g { name } } }`)
	if !ok {
		return false
	}
	rows := res.Rows("U")
	byK := map[string]map[string]any{}
	for _, row := range rows {
		byK[fmt.Sprint(row["k"])] = row
	}
	bad := len(rows) != len(e.ds.U)
	for _, d := range e.ds.U {
		row := byK[fmt.Sprint(d["k"])]
		if row == nil {
			bad = true
			continue
		}
		for _, f := range qsem.UFields {
			if c, okc := qsem.Cmp(f.Kind, row[f.Name], d[f.Name]); !okc || c != 0 {
				bad = true
			}
		}
	}
	if bad {
		e.r.Violate("listing/differs-from-created-documents", "the unfiltered listing does not return the documents that were created", map[string]any{"created": e.ds.U, "listed": rows})
		return false
	}
	return true
}

func filterArg(f *qsem.F) string {
	if f == nil {
		return ""
	}
	return "filter: " + f.GQL()
}

func args(parts ...string) string {
	var ps []string
	for _, p := range parts {
		if p != "" {
			ps = append(ps, p)
		}
	}
	if len(ps) == 0 {
		return ""
	}
	return "(" + strings.Join(ps, ", ") + ")"
}

// refJudge compares a result (set of k) with the reference evaluator, row by row.
func (e *c08env) refJudge(f *qsem.F, got []string, req string) {
	gs := qsem.ToSet(got)
	sigBase := "filter/reference/composite"
	if f.Op == "leaf" {
		nul := ""
		if f.Val == nil {
			nul = "-null"
		}
		sigBase = fmt.Sprintf("filter/reference/%s%s", f.Cmp, nul)
	}
	if len(gs) != len(got) {
		e.r.Violate("filter/duplicate-rows", "a filtered listing returned a document twice", map[string]any{"request": req, "got": got})
	}
	for _, d := range e.ds.U {
		k := fmt.Sprint(d["k"])
		switch f.Eval(d) {
		case qsem.True:
			e.r.Count("ref_rows_judged", 1)
			if !gs[k] {
				e.r.Violate(sigBase+"/matching-row-missing", "a document that matches the filter by the documented semantics is not returned",
					map[string]any{"request": req, "document": d, "got_k": got})
				return
			}
		case qsem.False:
			e.r.Count("ref_rows_judged", 1)
			if gs[k] {
				e.r.Violate(sigBase+"/non-matching-row-returned", "a document that does not match the filter by the documented semantics is returned",
					map[string]any{"request": req, "document": d, "got_k": got})
				return
			}
		default:
			e.r.Count("ref_rows_undefined_skipped", 1)
		}
	}
}

func filterClass(fs ...*qsem.F) string {
	txt := ""
	for _, f := range fs {
		txt += f.GQL()
	}
	switch {
	case strings.Contains(txt, "{}"):
		// an empty filter object somewhere inside a compound filter
		return "empty-filter-object"
	case strings.Contains(txt, "g:") || strings.Contains(txt, "us:") || strings.Contains(txt, "g_id"):
		return "relation"
	case strings.Contains(txt, "{a:"):
		return "array"
	case strings.Contains(txt, "{j:"):
		return "json"
	case strings.Contains(txt, "like"):
		return "like"
	}
	return "scalar"
}

func (e *c08env) filterRef() {
	f := qsem.GenFilter(e.rng, e.rng.IntN(4), 0)
	req := fmt.Sprintf(`query { U(filter: %s) { k } }`, f.GQL())
	got, ok := e.ks("filter", req)
	if !ok {
		return
	}
	e.r.Count("filter_queries", 1)
	e.refJudge(f, got, req)
	e.nontrivial("filter:"+f.Skeleton(), len(got), false)
	// partition by _not
	nreq := fmt.Sprintf(`query { U(filter: {_not: %s}) { k } }`, f.GQL())
	ngot, ok := e.ks("filter", nreq)
	if !ok {
		return
	}
	e.checkComplement(f, got, ngot, req, nreq)
}

func (e *c08env) checkComplement(f *qsem.F, got, ngot []string, req, nreq string) {
	e.r.Count("metamorphic_not", 1)
	both := append(append([]string{}, got...), ngot...)
	if !qsem.SameMultiset(both, e.all) {
		e.r.Violate("filter/metamorphic/"+filterClass(f)+"/not-is-not-the-complement", "R(F) and R(_not F) do not partition the collection",
			map[string]any{"request": req, "request_not": nreq, "R(F)": got, "R(not F)": ngot, "all": e.all})
	}
}

func (e *c08env) filterMeta() {
	f := qsem.GenFilter(e.rng, e.rng.IntN(3), 0.5)
	g := qsem.GenFilter(e.rng, e.rng.IntN(3), 0.5)
	run := func(x *qsem.F) ([]string, string, bool) {
		req := fmt.Sprintf(`query { U(filter: %s) { k } }`, x.GQL())
		ks, ok := e.ks("filter", req)
		return ks, req, ok
	}
	rf, reqF, ok1 := run(f)
	rg, _, ok2 := run(g)
	if !ok1 || !ok2 {
		return
	}
	if !f.HasRaw() {
		e.refJudge(f, rf, reqF)
	}
	e.nontrivial("meta:"+f.Skeleton()+"&"+g.Skeleton(), len(rf), false)
	and, reqA, ok3 := run(&qsem.F{Op: "and", Sub: []*qsem.F{f, g}})
	or, reqO, ok4 := run(&qsem.F{Op: "or", Sub: []*qsem.F{f, g}})
	nf, reqN, ok5 := run(&qsem.F{Op: "not", Sub: []*qsem.F{f}})
	if ok5 {
		e.checkComplement(f, rf, nf, reqF, reqN)
	}
	sf, sg := qsem.ToSet(rf), qsem.ToSet(rg)
	var wantAnd, wantOr []string
	for _, k := range e.all {
		if sf[k] && sg[k] {
			wantAnd = append(wantAnd, k)
		}
		if sf[k] || sg[k] {
			wantOr = append(wantOr, k)
		}
	}
	cls := filterClass(f, g)
	if ok3 {
		e.r.Count("metamorphic_and_or", 1)
		if !qsem.SameMultiset(and, wantAnd) {
			e.r.Violate("filter/metamorphic/"+cls+"/and-is-not-the-intersection", "R(_and[F,G]) differs from R(F) ∩ R(G)",
				map[string]any{"request": reqA, "R(F)": rf, "R(G)": rg, "R(and)": and})
		}
	}
	if ok4 {
		e.r.Count("metamorphic_and_or", 1)
		if !qsem.SameMultiset(or, wantOr) {
			e.r.Violate("filter/metamorphic/"+cls+"/or-is-not-the-union", "R(_or[F,G]) differs from R(F) ∪ R(G)",
				map[string]any{"request": reqO, "R(F)": rf, "R(G)": rg, "R(or)": or})
		}
	}
}

var c08OrderPool = []qsem.OrderKey{
	{Path: []string{"i"}, Kind: qsem.KInt}, {Path: []string{"d"}, Kind: qsem.KInt}, {Path: []string{"s"}, Kind: qsem.KString}, {Path: []string{"f"}, Kind: qsem.KFloat},
	{Path: []string{"b"}, Kind: qsem.KBool}, {Path: []string{"t"}, Kind: qsem.KTime}, {Path: []string{"g", "w"}, Kind: qsem.KInt}, {Path: []string{"g", "name"}, Kind: qsem.KString},
}

// selection renders `k` plus the fields the order keys need (sub-fields of g merged).
func selection(keys []qsem.OrderKey, extra ...string) string {
	top := map[string]bool{"k": true}
	gsub := map[string]bool{}
	for _, x := range extra {
		top[x] = true
	}
	for _, k := range keys {
		if len(k.Path) == 1 {
			top[k.Path[0]] = true
		} else {
			gsub[k.Path[1]] = true
		}
	}
	var ps []string
	for f := range top {
		ps = append(ps, f)
	}
	sort.Strings(ps)
	if len(gsub) > 0 {
		var gs []string
		for f := range gsub {
			gs = append(gs, f)
		}
		sort.Strings(gs)
		ps = append(ps, "g { "+strings.Join(gs, " ")+" }")
	}
	return strings.Join(ps, " ")
}

// order: fixed != nil forces the keys (anchor).
func (e *c08env) order(fixed []qsem.OrderKey) {
	keys := fixed
	total := false
	if keys == nil {
		nk := 1 + e.rng.IntN(3)
		perm := e.rng.Perm(len(c08OrderPool))
		for _, pi := range perm[:nk] {
			k := c08OrderPool[pi]
			k.Desc = e.rng.IntN(2) == 0
			keys = append(keys, k)
		}
		if e.rng.IntN(2) == 0 {
			keys = append(keys, qsem.OrderKey{Path: []string{"k"}, Kind: qsem.KInt, Desc: e.rng.IntN(2) == 0})
		}
	}
	total = keys[len(keys)-1].Path[0] == "k"
	var f *qsem.F
	if fixed == nil && e.rng.IntN(2) == 0 {
		f = qsem.GenFilter(e.rng, e.rng.IntN(2), 0)
	}
	sel := selection(keys)
	oarg := "order: " + qsem.OrderGQL(keys)
	ureq := fmt.Sprintf(`query { U%s { k } }`, args(filterArg(f)))
	oreq := fmt.Sprintf(`query { U%s { %s } }`, args(filterArg(f), oarg), sel)
	unordered, ok := e.ks("listing", ureq)
	if !ok {
		return
	}
	ores, ok := e.query("order", oreq)
	if !ok {
		return
	}
	orows := ores.Rows("U")
	ordered := qsem.IDs(orows, "k")
	e.r.Count("order_checks", 1)
	detail := func(extra map[string]any) map[string]any {
		m := map[string]any{"request": oreq, "unordered_k": unordered, "ordered_rows": orows}
		for k, v := range extra {
			m[k] = v
		}
		return m
	}
	if !qsem.SameMultiset(unordered, ordered) {
		e.r.Violate("order/not-a-permutation", "the ordered result is not a permutation of the unordered result", detail(nil))
		return
	}
	sym, at, tie := qsem.CheckSorted(orows, keys)
	if len(keys) > 1 && tie {
		e.r.Count("order_multikey_first_key_ties", 1)
	}
	skel := fmt.Sprintf("order:%d", len(keys))
	for _, k := range keys {
		skel += "/" + strings.Join(k.Path, ".") + fmt.Sprint(k.Desc)
	}
	if f != nil {
		skel += "/" + f.Skeleton()
	}
	e.nontrivial(skel, len(ordered), tie)
	switch sym {
	case qsem.SortFirstKey:
		e.r.Violate("order/first-key-out-of-order", "the ordered result is not sorted by its first key", detail(map[string]any{"at": at}))
	case qsem.SortTieNotBroken:
		e.r.Violate("order/scan-path/tie-on-earlier-keys-not-broken-by-later-key",
			"rows that tie on the first order key(s) are not sorted by the following key", detail(map[string]any{"at": at}))
	case qsem.SortIncomparable:
		e.r.Violate("order/key-value-of-unexpected-type", "an order key was returned with a value of an unexpected type", detail(map[string]any{"at": at}))
	}
	// limit / offset = slice of the full sequence
	n := len(ordered)
	l, o := 1+e.rng.IntN(n+2), e.rng.IntN(n+2)
	var larg string
	switch e.rng.IntN(4) {
	case 0:
		larg, o = fmt.Sprintf("limit: %d", l), 0
	case 1:
		larg, l = fmt.Sprintf("offset: %d", o), n+1
	default:
		larg = fmt.Sprintf("limit: %d, offset: %d", l, o)
	}
	lo, hi := min(o, n), min(o+l, n)
	lreq := fmt.Sprintf(`query { U%s { %s } }`, args(filterArg(f), oarg, larg), sel)
	lres, ok := e.query("limit", lreq)
	if !ok {
		return
	}
	e.r.Count("limit_checks", 1)
	lrows := lres.Rows("U")
	if total {
		e.r.Count("limit_checks_total_order", 1)
		if got, want := qsem.IDs(lrows, "k"), ordered[lo:hi]; !qsem.SameSeq(got, want) {
			e.r.Violate("limit/ordered/not-the-slice-of-the-full-sequence", fmt.Sprintf("limit/offset over a total order did not return rows [%d,%d) of the full ordered sequence", lo, hi),
				map[string]any{"request": lreq, "full_request": oreq, "full_k": ordered, "got_k": got, "want_k": want})
		}
	} else {
		var got, want []string
		for _, row := range lrows {
			got = append(got, qsem.KeyTuple(row, keys))
		}
		for _, row := range orows[lo:hi] {
			want = append(want, qsem.KeyTuple(row, keys))
		}
		if !qsem.SameSeq(got, want) {
			e.r.Violate("limit/ordered/not-the-slice-of-the-full-sequence", fmt.Sprintf("limit/offset did not return the sort keys of rows [%d,%d) of the full ordered sequence", lo, hi),
				map[string]any{"request": lreq, "full_request": oreq, "got_keys": got, "want_keys": want})
		}
	}
	if e.rng.IntN(3) == 0 { // without order: a slice of the plain listing
		ulreq := fmt.Sprintf(`query { U%s { k } }`, args(filterArg(f), larg))
		if got, ok := e.ks("limit", ulreq); ok {
			e.r.Count("limit_checks", 1)
			if want := unordered[lo:hi]; !qsem.SameSeq(got, want) {
				e.r.Violate("limit/unordered/not-the-slice-of-the-full-sequence", fmt.Sprintf("limit/offset without order did not return rows [%d,%d) of the plain listing", lo, hi),
					map[string]any{"request": ulreq, "full_request": ureq, "full_k": unordered, "got_k": got, "want_k": want})
			}
		}
	}
}

var c08NumFields = []string{"i", "d", "f", "k"}

func column(rows []map[string]any, f string) []any {
	out := make([]any, 0, len(rows))
	for _, r := range rows {
		out = append(out, r[f])
	}
	return out
}

// judgeAgg compares one aggregate value with the arithmetic over the listed values.
func (e *c08env) judgeAgg(where, fn string, got any, listed []any, detail map[string]any, inner *qsem.F, field string) bool {
	a := qsem.Arithmetic(listed)
	msg := qsem.CheckAgg(fn, got, a)
	if msg == "skip" {
		e.r.Note("aggregate_of_no_values_not_judged")
		return true
	}
	e.r.Count("agg_"+fn, 1)
	e.r.Count("aggregate_checks", 1)
	if msg != "" {
		detail["aggregate"], detail["returned"], detail["listed_values"] = fn, got, listed
		if minMaxForgetsBeforeNull(fn, got, listed) {
			e.r.Violate("aggregate/_min-_max/values-before-a-null-value-are-ignored",
				fn+" equals the extremum of the values listed AFTER the last null value only: "+msg, detail)
			return false
		}
		if fn == "_sum" && intSumRoundedToFloat(got, a) {
			e.r.Violate("aggregate/_sum/integer-sum-loses-precision-beyond-2^53",
				"_sum over integers is accumulated in a float64: the result equals the exact sum rounded to 53 bits: "+msg, detail)
			return false
		}
		if fn == "_avg" && hasTopLevelNe(inner, field) {
			e.r.Violate("aggregate/_avg/inner-filter-_ne-on-the-averaged-field-is-ignored",
				"_avg with an inner filter {"+field+": {_ne: value}} on the averaged field ignores that condition (while _sum and _count with the same filter honour it): "+msg, detail)
			return false
		}
		e.r.Violate("aggregate/"+where+"/"+fn, fn+" differs from the arithmetic over the listed values: "+msg, detail)
		return false
	}
	return true
}

// intSumRoundedToFloat: all listed values are integers, the returned sum is not the exact sum but
// equals it after rounding to a float64.
func intSumRoundedToFloat(got any, a qsem.Agg) bool {
	gb, ok := qsem.ToBig(got)
	if !ok || a.SumInt == nil || gb.Cmp(a.SumInt) == 0 {
		return false
	}
	gf, _ := new(big.Float).SetInt(gb).Float64()
	ef, _ := new(big.Float).SetInt(a.SumInt).Float64()
	return gf == ef
}

// hasTopLevelNe: the filter object carries, at its top level, {field: {_ne: <non-null>}}.
func hasTopLevelNe(f *qsem.F, field string) bool {
	if f == nil {
		return false
	}
	if f.Op == "leaf" {
		return f.Field == field && f.Cmp == "_ne" && f.Val != nil
	}
	if f.Op == "implicit-and" {
		for _, s := range f.Sub {
			if hasTopLevelNe(s, field) {
				return true
			}
		}
	}
	return false
}

// minMaxForgetsBeforeNull recognises one specific symptom: the returned extremum is the extremum
// of the values that follow the last null of the list (null when nothing follows).
func minMaxForgetsBeforeNull(fn string, got any, listed []any) bool {
	if fn != "_min" && fn != "_max" {
		return false
	}
	last := -1
	for i, v := range listed {
		if v == nil {
			last = i
		}
	}
	if last < 0 {
		return false
	}
	a := qsem.Arithmetic(listed[last+1:])
	if a.NonNull == 0 {
		return got == nil
	}
	return qsem.CheckAgg(fn, got, a) == ""
}

// aggTop: top-level aggregates, each alone and several in one request.
func (e *c08env) aggTop() {
	var f *qsem.F
	if e.rng.IntN(3) > 0 {
		f = qsem.GenFilter(e.rng, e.rng.IntN(3), 0)
	}
	x := c08NumFields[e.rng.IntN(len(c08NumFields))]
	y := c08NumFields[e.rng.IntN(len(c08NumFields))]
	lreq := fmt.Sprintf(`query { U%s { k %s %s } }`, args(filterArg(f)), x, y)
	lres, ok := e.query("listing", lreq)
	if !ok {
		return
	}
	rows := lres.Rows("U")
	xs, ys := column(rows, x), column(rows, y)
	inner := func(field string) string {
		ps := []string{}
		if field != "" {
			ps = append(ps, "field: "+field)
		}
		if f != nil {
			ps = append(ps, filterArg(f))
		}
		return "{" + strings.Join(ps, ", ") + "}"
	}
	skel := "aggtop:" + x
	if f != nil {
		skel += "/" + f.Skeleton()
		e.r.Count("agg_inner_filter", 1)
	}
	e.nontrivial(skel, len(rows), false)
	singleOK := map[string]bool{}
	for _, fn := range qsem.AggFns {
		if e.rng.IntN(2) == 0 {
			continue
		}
		fld := x
		if fn == "_count" {
			fld = ""
		}
		req := fmt.Sprintf(`query { %s(U: %s) }`, fn, inner(fld))
		res, ok := e.query("aggregate", req)
		if !ok {
			continue
		}
		got, _ := res.Field(fn)
		singleOK[fn] = e.judgeAgg("top-level", fn, got, xs, map[string]any{"request": req, "listing_request": lreq}, f, x)
	}
	// several aggregates in one request (aliases), over two fields
	req := fmt.Sprintf(`query { c: _count(U: %s) s: _sum(U: %s) a: _avg(U: %s) mn: _min(U: %s) mx: _max(U: %s) s2: _sum(U: %s) mx2: _max(U: %s) }`,
		inner(""), inner(x), inner(x), inner(x), inner(x), inner(y), inner(y))
	res, ok := e.query("aggregate", req)
	if !ok {
		return
	}
	e.r.Count("agg_combined_requests", 1)
	for _, it := range []struct {
		alias, fn string
		vals      []any
	}{{"c", "_count", xs}, {"s", "_sum", xs}, {"a", "_avg", xs}, {"mn", "_min", xs}, {"mx", "_max", xs}, {"s2", "_sum", ys}, {"mx2", "_max", ys}} {
		got, _ := res.Field(it.alias)
		msg := qsem.CheckAgg(it.fn, got, qsem.Arithmetic(it.vals))
		if msg == "skip" || msg == "" {
			continue
		}
		if minMaxForgetsBeforeNull(it.fn, got, it.vals) {
			e.r.Violate("aggregate/_min-_max/values-before-a-null-value-are-ignored", it.fn+" equals the extremum of the values listed AFTER the last null value only: "+msg,
				map[string]any{"request": req, "listing_request": lreq, "alias": it.alias, "returned": res.Data, "listed_values": it.vals})
			break
		}
		if it.fn == "_sum" && intSumRoundedToFloat(got, qsem.Arithmetic(it.vals)) {
			e.r.Violate("aggregate/_sum/integer-sum-loses-precision-beyond-2^53", "_sum over integers is accumulated in a float64: "+msg,
				map[string]any{"request": req, "listing_request": lreq, "alias": it.alias, "returned": res.Data, "listed_values": it.vals})
			break
		}
		if it.fn == "_avg" && hasTopLevelNe(f, x) {
			e.r.Violate("aggregate/_avg/inner-filter-_ne-on-the-averaged-field-is-ignored", "_avg with an inner filter {"+x+": {_ne: value}} on the averaged field ignores that condition: "+msg,
				map[string]any{"request": req, "listing_request": lreq, "alias": it.alias, "returned": res.Data, "listed_values": it.vals})
			break
		}
		e.r.Violate("aggregate/top-level/several-aggregates-in-one-request", "an aggregate that is correct when requested alone is wrong when several top-level aggregates share one request: "+it.alias+": "+msg,
			map[string]any{"request": req, "listing_request": lreq, "alias": it.alias, "returned": res.Data, "listed_rows": rows})
		break
	}
}

// aggGroup: groupBy with aggregates over _group (optionally with an inner filter / inner limit).
func (e *c08env) aggGroup(anchor bool) {
	gfields := []string{"s", "i", "b", "d"}
	perm := e.rng.Perm(len(gfields))
	nk := 1 + e.rng.IntN(2)
	var keys []string
	for _, pi := range perm[:nk] {
		keys = append(keys, gfields[pi])
	}
	var f, h *qsem.F
	if !anchor && e.rng.IntN(2) == 0 {
		f = qsem.GenFilter(e.rng, e.rng.IntN(2), 0)
	}
	if anchor || e.rng.IntN(2) == 0 {
		h = qsem.GenLeaf(e.rng)
	}
	x := c08NumFields[e.rng.IntN(len(c08NumFields))]
	inner, innerSel := "", ""
	limited := false
	if h != nil {
		inner, innerSel = ", "+filterArg(h), filterArg(h)
	} else if e.rng.IntN(3) == 0 {
		limited = true
		l, o := 1+e.rng.IntN(3), e.rng.IntN(2)
		innerSel = fmt.Sprintf("limit: %d, offset: %d", l, o)
		inner = ", " + innerSel
	}
	var aggs []string
	for _, fn := range qsem.AggFns {
		if fn == "_count" {
			aggs = append(aggs, fmt.Sprintf("%s: _count(_group: {%s})", fn[1:], strings.TrimPrefix(inner, ", ")))
		} else {
			aggs = append(aggs, fmt.Sprintf("%s: %s(_group: {field: %s%s})", fn[1:], fn, x, inner))
		}
	}
	req := fmt.Sprintf(`query { U%s { %s %s all: _group { k } listed: _group%s { k %s } } }`,
		args(filterArg(f), "groupBy: ["+strings.Join(keys, ", ")+"]"), strings.Join(keys, " "), strings.Join(aggs, " "), args(innerSel), x)
	res, ok := e.query("group", req)
	if !ok {
		return
	}
	base, ok := e.ks("listing", fmt.Sprintf(`query { U%s { k } }`, args(filterArg(f))))
	if !ok {
		return
	}
	groups := res.Rows("U")
	byK := map[string]qsem.Doc{}
	for _, d := range e.ds.U {
		byK[fmt.Sprint(d["k"])] = d
	}
	e.r.Count("group_partition_checks", 1)
	skel := "group:" + strings.Join(keys, ",") + "/" + x
	if f != nil {
		skel += "/" + f.Skeleton()
	}
	if h != nil {
		skel += "/inner:" + h.Skeleton()
		e.r.Count("agg_inner_filter", 1)
	}
	if limited {
		skel += "/limited"
		e.r.Count("agg_inner_limit", 1)
	}
	e.nontrivial(skel, len(base), len(groups) > 1 && len(groups) < len(base))
	var members []string
	seenKey := map[string]bool{}
	for _, g := range groups {
		var kt []string
		for _, k := range keys {
			kt = append(kt, fmt.Sprintf("%v", g[k]))
		}
		key := strings.Join(kt, "|")
		if seenKey[key] {
			e.r.Violate("group/same-key-in-two-groups", "two groups carry the same groupBy key", map[string]any{"request": req, "groups": groups})
			return
		}
		seenKey[key] = true
		allRows, _ := g["all"].([]any)
		for _, m := range allRows {
			mm, _ := m.(map[string]any)
			k := fmt.Sprint(mm["k"])
			members = append(members, k)
			d := byK[k]
			for _, gk := range keys {
				if c, okc := qsem.Cmp(qsem.UField(gk).Kind, g[gk], d[gk]); !okc || c != 0 {
					e.r.Violate("group/member-does-not-share-the-key", "a group member's field differs from the group's key", map[string]any{"request": req, "group": g, "document": d})
					return
				}
			}
		}
		listedAny, _ := g["listed"].([]any)
		var listed []map[string]any
		for _, m := range listedAny {
			if mm, ok := m.(map[string]any); ok {
				listed = append(listed, mm)
			}
		}
		where := "grouped"
		if limited {
			where = "grouped-with-inner-limit"
		}
		for _, fn := range qsem.AggFns {
			if limited && fn == "_avg" {
				continue // whether nulls are dropped before or after the inner limit is not documented
			}
			e.r.Count("agg_in_group", 1)
			if !e.judgeAgg(where, fn, g[fn[1:]], column(listed, x), map[string]any{"request": req, "group": g}, h, x) {
				return
			}
		}
	}
	if !qsem.SameMultiset(members, base) {
		e.r.Violate("group/groups-do-not-partition-the-list", "the members of all groups are not exactly the documents of the filtered listing",
			map[string]any{"request": req, "members_k": members, "listing_k": base})
	}
}

// aggRel: aggregates over the related documents of each G.
func (e *c08env) aggRel() {
	x := c08NumFields[e.rng.IntN(len(c08NumFields))]
	var h *qsem.F
	if e.rng.IntN(2) == 0 {
		h = qsem.GenLeaf(e.rng)
		e.r.Count("agg_inner_filter", 1)
	}
	inner := ""
	if h != nil {
		inner = ", " + filterArg(h)
	}
	var aggs []string
	for _, fn := range qsem.AggFns {
		if fn == "_count" {
			aggs = append(aggs, fmt.Sprintf("count: _count(us: {%s})", strings.TrimPrefix(inner, ", ")))
		} else {
			aggs = append(aggs, fmt.Sprintf("%s: %s(us: {field: %s%s})", fn[1:], fn, x, inner))
		}
	}
	req := fmt.Sprintf(`query { G { name %s listed: us%s { k %s } } }`, strings.Join(aggs, " "), args(filterArg(h)), x)
	res, ok := e.query("relation-aggregate", req)
	if !ok {
		return
	}
	e.r.Count("agg_over_relation", 1)
	for _, g := range res.Rows("G") {
		listedAny, _ := g["listed"].([]any)
		var listed []map[string]any
		for _, m := range listedAny {
			if mm, ok := m.(map[string]any); ok {
				listed = append(listed, mm)
			}
		}
		// the listing itself against the created data
		want := []string{}
		for _, d := range e.ds.U {
			gi, _ := d["g"].(int)
			if gi >= 0 && gi < len(e.ds.G) && e.ds.G[gi]["name"] == g["name"] && (h == nil || h.Eval(d) == qsem.True) {
				want = append(want, fmt.Sprint(d["k"]))
			} else if gi >= 0 && gi < len(e.ds.G) && e.ds.G[gi]["name"] == g["name"] && h != nil && h.Eval(d) == qsem.Unknown {
				want = nil
				break
			}
		}
		if want != nil && !qsem.SameMultiset(want, qsem.IDs(listed, "k")) {
			e.r.Violate("relation/listing-differs-from-created-links", "the related documents listed under a document are not those created with a link to it (and matching the sub-filter)",
				map[string]any{"request": req, "group": g, "want_k": want})
			return
		}
		e.nontrivial("aggrel:"+x+fmt.Sprint(h != nil), len(listed), len(listed) > 1)
		for _, fn := range qsem.AggFns {
			if !e.judgeAgg("over-relation", fn, g[fn[1:]], column(listed, x), map[string]any{"request": req, "group": g}, h, x) {
				return
			}
		}
	}
}

// anchorQueries hit every floor deliberately on the hand-written data set.
func (e *c08env) anchorQueries() {
	ik := qsem.OrderKey{Path: []string{"i"}, Kind: qsem.KInt}
	kk := qsem.OrderKey{Path: []string{"k"}, Kind: qsem.KInt}
	kd := qsem.OrderKey{Path: []string{"k"}, Kind: qsem.KInt, Desc: true}
	sk := qsem.OrderKey{Path: []string{"s"}, Kind: qsem.KString, Desc: true}
	e.order([]qsem.OrderKey{ik, kk})
	e.order([]qsem.OrderKey{ik, kd})
	e.order([]qsem.OrderKey{sk, ik, kk})
	e.order([]qsem.OrderKey{{Path: []string{"g", "w"}, Kind: qsem.KInt, Desc: true}, kd})
	for i := 0; i < 4; i++ {
		e.aggTop()
		e.aggGroup(i%2 == 0)
		e.aggRel()
	}
}

// ---------------------------------------------------------------------------------------
// order over a JSON field whose values have different types

func c08RunJSONOrder(ctx context.Context, c core.Case, p c08Params, r *core.Rec) {
	n := core.NewNode(ctx, core.NodeOpts{})
	defer n.Close()
	_, err := n.DB.AddSchema(ctx, qsem.SDL)
	core.Must(err)
	ds := qsem.Dataset{}
	ds.G = []qsem.Doc{{"name": "g0", "w": int64(1)}}
	for k, j := range []any{int64(1), "x", true, map[string]any{"x": int64(1)}, nil, []any{int64(1)}, 2.5} {
		ds.U = append(ds.U, qsem.Doc{"k": int64(k), "j": j, "g": k%2 - 1})
	}
	_, err = qsem.Load(ctx, n, ds)
	core.Must(err)
	ex := &qsem.Exec{Ctx: ctx, N: n, R: r, Kind: c.Kind}
	for _, req := range []string{`query { U(order: {j: ASC}) { k j } }`, `query { U(order: [{j: DESC}, {k: ASC}]) { k j } }`, `query { U(groupBy: [j]) { j _count(_group: {}) } }`,
		`query { U(filter: {j: {_gt: 1}}) { k } }`, `query { U(filter: {j: {_in: [1, "x", true, null]}}) { k } }`, `query { _max(U: {field: k, filter: {j: {_ne: "x"}}}) }`,
		// JSON path filters, also through the relation (reported by the C07 helper)
		`query { U(filter: {j: {x: {_eq: 1}}}) { k } }`, `query { U(filter: {j: {x: {_ne: 1}}}) { k } }`, `query { U(filter: {j: {_lt: "x"}}) { k } }`,
		`query { G(filter: {us: {j: {x: {_ne: 2}}}}) { name } }`, `query { G(filter: {us: {j: {x: {_like: "%"}}}}) { name } }`, `query { G { us(filter: {j: {x: {_eq: 1}}}) { k } } }`} {
		r.Count("evaluations", 1)
		r.Count("json_mixed_type_requests", 1)
		res := ex.Do(req)
		if res.OK() && strings.Contains(req, "order") {
			if got := qsem.IDs(res.Rows("U"), "k"); len(got) != len(ds.U) {
				r.Violate("order/not-a-permutation", "ordering by a JSON field lost rows", map[string]any{"request": req, "got_k": got})
			}
		}
	}
	r.Nontrivial("json-order")
}

// fragments that reference themselves: one request per case (a stack overflow is not recoverable)
func c08RunFragmentCycle(ctx context.Context, c core.Case, p c08Params, r *core.Rec) {
	n := core.NewNode(ctx, core.NodeOpts{})
	defer n.Close()
	_, err := n.DB.AddSchema(ctx, qsem.SDL)
	core.Must(err)
	_, err = qsem.Load(ctx, n, c08AnchorData())
	core.Must(err)
	ex := &qsem.Exec{Ctx: ctx, N: n, R: r, Kind: c.Kind}
	r.Count("evaluations", 1)
	r.Count("fragment_cycle_requests", 1)
	res := ex.Do(qsem.FragmentCycles[p.Part])
	if res.OK() {
		r.Note("fragment_cycle_answered_with_data")
	}
	r.Nontrivial(fmt.Sprintf("fragment-cycle/%d", p.Part))
}

// ---------------------------------------------------------------------------------------
// malformed requests

// c08Templates: valid requests that serve as mutation seeds.
func c08Templates(gid string, rng *rand.Rand) []string {
	f1, f2 := qsem.GenFilter(rng, 2, 0.3), qsem.GenFilter(rng, 1, 0.3)
	return []string{
		fmt.Sprintf(`query { U(filter: %s) { k i s } }`, f1.GQL()),
		fmt.Sprintf(`query { U(filter: %s, order: [{i: ASC}, {s: DESC}], limit: 3, offset: 1) { k i s g { name w } } }`, f2.GQL()),
		`query { U(order: {g: {name: DESC}}) { k g { name us(filter: {i: {_gt: 0}}, limit: 2) { k } } } }`,
		fmt.Sprintf(`query { U(groupBy: [s, b], filter: %s) { s b _count(_group: {}) _sum(_group: {field: i, filter: {i: {_gt: 0}}}) _group(order: {k: DESC}, limit: 2) { k i } } }`, f2.GQL()),
		`query { c: _count(U: {filter: {i: {_ne: null}}}) s: _sum(U: {field: f}) a: _avg(U: {field: i, limit: 3}) mn: _min(U: {field: d}) mx: _max(U: {field: k, offset: 1}) }`,
		`query { G(filter: {us: {i: {_in: [1, 2, null]}}}) { name w _count(us: {filter: {b: {_eq: true}}}) _avg(us: {field: f}) us(order: {k: ASC}) { k a j t } } }`,
		`query Q($l: Int = 2, $v: [Int!] = [1, 2]) { x: U(limit: $l, filter: {i: {_in: $v}}) { kk: k ...F } } fragment F on U { i s f }`,
		`query { U(filter: {_and: [{a: {_any: {_gt: 0}}}, {_or: [{s: {_like: "a%"}}, {_not: {t: {_lt: "2021-01-01T00:00:00Z"}}}]}]}) { k a s t __typename } }`,
		`query { U(docID: "` + gid + `", showDeleted: true) { _docID _deleted _version { cid height delta fieldName docID schemaVersionId links { cid name } signature { type identity value } } } }`,
		`query { commits(docID: "` + gid + `", order: {height: DESC}, limit: 3, offset: 0, depth: 2) { cid height docID fieldName delta links { cid name } } }`,
		`query { latestCommits(docID: "` + gid + `") { cid height _count(field: links) links { name } } }`,
		`query { commits(groupBy: [docID, fieldName]) { docID fieldName _group { cid height } } }`,
		`query @explain(type: execute) { U(filter: {g: {name: {_eq: "g0"}}}, order: {i: ASC}, limit: 2) { k g { name } } }`,
		`query { G(docID: ["` + gid + `"]) { name us(filter: {_alias: {ii: {_ge: 0}}}) { ii: i } } }`,
		`query { __type(name: "U") { name kind fields { name type { name kind ofType { name } } } } }`,
		`mutation { create_U(input: {k: 100, i: 1, s: "m", f: 1.5, b: true, t: "2022-01-01T00:00:00Z", a: [1, 2], j: {x: [1, null]}, g_id: "` + gid + `"}) { k _docID } }`,
		`mutation { update_U(filter: {i: {_eq: 1}}, input: {d: 2}) { k d } }`,
	}
}

func c08RunMalformed(ctx context.Context, c core.Case, p c08Params, r *core.Rec) {
	rng := c.Rng()
	n := core.NewNode(ctx, core.NodeOpts{})
	defer n.Close()
	_, err := n.DB.AddSchema(ctx, qsem.SDL)
	core.Must(err)
	ds := qsem.GenData(rng, p.NU, p.NG, true)
	gids, err := qsem.Load(ctx, n, ds)
	core.Must(err)
	ex := &qsem.Exec{Ctx: ctx, N: n, R: r, Kind: c.Kind}
	vars := client.WithVariables(map[string]any{"v": 1, "l": 1})
	r.Count("data_sets", 1)
	if p.Anchor == "pathological" {
		for _, req := range qsem.Pathological(gids[0]) {
			if ex.Hung {
				return
			}
			r.Count("evaluations", 1)
			r.Count("pathological_requests", 1)
			ex.Do(req)
		}
		r.Nontrivial("pathological")
		r.Sample(map[string]any{"kind": "malformed/pathological", "requests": len(qsem.Pathological(gids[0]))})
		return
	}
	tmpl := c08Templates(gids[0], rng)
	for _, t := range tmpl { // the seeds themselves must be answered with data
		res := ex.Do(t)
		r.Count("evaluations", 1)
		if res.Panic == "" && !res.Hang && len(res.Errs) > 0 {
			r.Violate("valid-request-rejected/template", "a well-formed template request was answered with an error: "+res.Errs[0], map[string]any{"request": t})
		}
	}
	var sample string
	for q := 0; q < p.Queries && !ex.Hung; q++ {
		t := tmpl[rng.IntN(len(tmpl))]
		req, ops := qsem.Mutate(rng, t, 1+rng.IntN(3))
		r.Count("evaluations", 1)
		r.Count("malformed_requests", 1)
		var res qsem.Result
		if rng.IntN(4) == 0 {
			res = ex.Do(req, vars)
		} else {
			res = ex.Do(req)
		}
		if res.OK() {
			r.Count("mutated_requests_still_valid", 1)
		}
		r.Nontrivial("mut:" + strings.Join(ops, "+") + "/" + fmt.Sprint(res.OK()) + "/" + t[:min(24, len(t))])
		sample = req
	}
	if c.Index%8 == 0 {
		r.Sample(map[string]any{"kind": "malformed", "example_request": sample})
	}
	// the node must still answer after the barrage
	if !ex.Hung {
		if res := ex.Do(`query { G { name } }`); !res.OK() && res.Panic == "" && !res.Hang {
			r.Violate("node-unusable-after-malformed-requests", "a plain query fails after the malformed requests: "+res.Err(), nil)
		}
	}
}

// ---------------------------------------------------------------------------------------
// signed commits

var c08CommitFields = []string{"cid", "height", "docID", "fieldName", "delta", "schemaVersionId", "links { cid name }", "signature { type identity value }", "_count(field: links)"}

func c08Identity(rng *rand.Rand, keyType string) identity.Identity {
	if keyType == "ed25519" {
		seed := make([]byte, 32)
		for i := range seed {
			seed[i] = byte(rng.IntN(256))
		}
		id, err := identity.FromPrivateKey(crypto.NewPrivateKey(ed25519.NewKeyFromSeed(seed)))
		core.Must(err)
		return id
	}
	id, err := identity.Generate(crypto.KeyTypeSecp256k1)
	core.Must(err)
	return id
}

func c08RunSigned(ctx context.Context, c core.Case, p c08Params, r *core.Rec) {
	rng := c.Rng()
	id := c08Identity(rng, p.KeyType)
	opt := immutable.Some[identity.Identity](id)
	n := core.NewNode(ctx, core.NodeOpts{Signing: true, Identity: opt})
	defer n.Close()
	ictx := identity.WithContext(ctx, opt)
	_, err := n.DB.AddSchema(ictx, qsem.SDL)
	core.Must(err)
	ds := qsem.GenData(rng, 3, 1, false)
	_, err = qsem.Load(ictx, n, ds)
	core.Must(err)
	ex := &qsem.Exec{Ctx: ictx, N: n, R: r, Kind: c.Kind}
	// a little history: two updates and one delete
	var docIDs []string
	if res := ex.Do(`query { U(order: {k: ASC}) { _docID } }`); res.OK() {
		docIDs = qsem.IDs(res.Rows("U"), "_docID")
	}
	for i := range docIDs {
		docIDs[i] = strings.Trim(docIDs[i], `"`)
	}
	if len(docIDs) != 3 {
		r.Violate("signed/setup", "could not list the documents of the signed node", nil)
		return
	}
	ex.Do(fmt.Sprintf(`mutation { update_U(docID: "%s", input: {i: 7}) { k } }`, docIDs[0]))
	ex.Do(fmt.Sprintf(`mutation { update_U(docID: "%s", input: {i: 8, s: "z"}) { k } }`, docIDs[0]))
	ex.Do(fmt.Sprintf(`mutation { delete_U(docID: "%s") { k } }`, docIDs[2]))
	forms := []struct{ name, open, close, top string }{
		{"commits", `query { commits { `, ` } }`, "commits"},
		{"commits-docID", fmt.Sprintf(`query { commits(docID: "%s") { `, docIDs[0]), ` } }`, "commits"},
		{"commits-field", fmt.Sprintf(`query { commits(docID: "%s", fieldName: "i", order: {height: DESC}) { `, docIDs[0]), ` } }`, "commits"},
		{"latestCommits", fmt.Sprintf(`query { latestCommits(docID: "%s") { `, docIDs[0]), ` } }`, "latestCommits"},
		{"latestCommits-deleted", fmt.Sprintf(`query { latestCommits(docID: "%s") { `, docIDs[2]), ` } }`, "latestCommits"},
		{"_version", `query { U(showDeleted: true) { _version { `, ` } } }`, "U"},
		{"commits-group", `query { commits(groupBy: [docID]) { docID _group { `, ` } } }`, "commits"},
	}
	rowCount := map[string]int{}
	nf := len(c08CommitFields)
	for mask := 1; mask < 1<<nf; mask++ {
		if mask%p.Parts != p.Part || ex.Hung {
			continue
		}
		var sel []string
		for b := 0; b < nf; b++ {
			if mask&(1<<b) != 0 {
				sel = append(sel, c08CommitFields[b])
			}
		}
		withSig := mask&(1<<7) != 0
		for _, f := range forms {
			req := f.open + strings.Join(sel, " ") + f.close
			r.Count("evaluations", 1)
			if withSig {
				r.Count("signed_commit_queries_with_signature", 1)
			} else {
				r.Count("signed_commit_queries_without_signature", 1)
			}
			res := ex.Do(req)
			if res.Panic != "" || res.Hang {
				continue
			}
			if len(res.Errs) > 0 && strings.Contains(res.Errs[0], "unknown relation type") && strings.Contains(req, "_group") {
				// (before fix a8a9779 this request shape crashed the process in makeTypeIndexJoin)
				r.Violate("commits/_group-object-selection/rejected-with-unknown-relation-type",
					"selecting an object field (links / signature) inside the _group of a grouped commits query is answered with the error '"+res.Errs[0]+"' although the schema offers it",
					map[string]any{"request": req})
				continue
			}
			if len(res.Errs) > 0 {
				r.Violate("valid-request-rejected/commits", "a well-formed commits request over signed commits was answered with an error: "+res.Errs[0], map[string]any{"request": req})
				continue
			}
			rows := res.Rows(f.top)
			if prev, ok := rowCount[f.name]; ok && prev != len(rows) {
				r.Violate("commits/selection-set-changes-the-number-of-rows", "the number of commits returned depends on which commit fields are selected",
					map[string]any{"request": req, "rows": len(rows), "rows_with_other_selection": prev})
			}
			rowCount[f.name] = len(rows)
			if withSig && f.name == "commits" {
				for _, row := range rows {
					if row["signature"] == nil {
						r.Note("signed_node_commit_without_signature")
					} else {
						r.Count("signatures_returned", 1)
					}
				}
			}
		}
		r.Nontrivial(fmt.Sprintf("signed/%s/%d", p.KeyType, mask))
	}
	if p.Part == 0 {
		r.Sample(map[string]any{"kind": "signed", "key_type": p.KeyType, "forms": len(forms), "subsets_in_this_part": (1<<nf - 1) / p.Parts})
	}
}

// ---------------------------------------------------------------------------------------
// corekv memory store: no-hang clause, one dedicated case per request class

func c08RunMemstore(ctx context.Context, c core.Case, p c08Params, r *core.Rec) {
	n := core.NewNode(ctx, core.NodeOpts{Store: "memory"})
	// n.Close() is skipped after a hang: the stuck request holds the store's lock
	_, err := n.DB.AddSchema(ctx, qsem.SDL)
	core.Must(err)
	ds := c08AnchorData()
	ex := &qsem.Exec{Ctx: ctx, N: n, R: r, Kind: c.Kind, Timeout: c08MemWatchdog}
	var gids []string
	if err, pn, hung := ex.Guard("create documents", func() error { var e error; gids, e = qsem.Load(ctx, n, ds); return e }); hung || pn != "" || err != nil {
		if pn != "" {
			r.Violate("panic/"+qsem.PanicSig(pn), "creating documents on the memory store panicked", map[string]any{"stack": pn})
		}
		if err != nil {
			r.Violate("memstore/create-failed", "creating documents on the memory store failed: "+err.Error(), nil)
		}
		return
	}
	var reqs []string
	switch c.Kind {
	case "memstore-queries":
		reqs = []string{`query { U { k i s g { name } } }`, `query { U(filter: {i: {_gt: 0}}, order: [{i: ASC}, {k: DESC}], limit: 3) { k i } }`,
			`query { U(groupBy: [s]) { s _count(_group: {}) _sum(_group: {field: i}) } }`, `query { _count(U: {}) _avg(U: {field: f}) }`,
			`query { G { name _count(us: {}) us(order: {k: ASC}) { k } } }`, `query { U(filter: {g: {name: {_eq: "g0"}}}) { k } }`,
			`query { U(limit: } `}
	case "memstore-commits":
		reqs = []string{`query { commits { cid height docID } }`}
	case "memstore-latestcommits":
		reqs = []string{`query { latestCommits(docID: "` + gids[0] + `") { cid height } }`}
	case "memstore-version":
		reqs = []string{`query { U { k _version { cid height } } }`}
	case "memstore-delete":
		reqs = []string{`mutation { delete_G(docID: "` + gids[1] + `") { name } }`, `query { G { name } }`}
	}
	for _, req := range reqs {
		if ex.Hung {
			break
		}
		r.Count("evaluations", 1)
		r.Count("memstore_requests", 1)
		ex.Do(req)
	}
	r.Nontrivial(c.Kind)
	if !ex.Hung {
		n.Close()
	}
}
