package checks

import (
	"context"
	"fmt"
	"math/rand/v2"
	"os"
	"sort"
	"strings"

	"github.com/sourcenetwork/defradb/verifharness/core"
	"github.com/sourcenetwork/defradb/verifharness/qsem"
)

// C08, case kind "multi-agg": aggregates that list SEVERAL targets.
//
//   P { _min(bs: {field: v}, cs: {field: f, filter: ...}, x: {filter: {_gt: 1}}) }
//
// Targets are the two one-to-many relations of P (bs, cs), its four inline numeric arrays
// (x [Int], y [Int!], z [Float], w [Float!]) and - for top-level aggregates - the collections B and C.
// Every request asks for all five aggregate functions over the same 2-3 targets (in independently
// shuffled order), next to the plain listing of every target with the same inner filter; the
// aggregates are requested on the rows of P, on the members of a group of P (inside `_group`) and at
// the top level of the request.
//
// Oracle: the documented arithmetic over the UNION of the values listed for all targets
// (count = number of listed items, sum = total, avg = total / number of non-null values,
// min / max = extremum over all). When a multi-target value differs, every target is requested
// alone: if a single-target aggregate already differs from its own listing the violation is
// reported as aggregate/single-target/...; otherwise as aggregate/multi-target/<fn>.

type mtTarget struct {
	Name   string           `json:"name"`            // x y z w bs cs | B C (top level)
	Field  string           `json:"field,omitempty"` // relations / collections: v | f | k
	ItemF  *qsem.ItemFilter `json:"item_filter,omitempty"`
	ChildF string           `json:"child_filter,omitempty"`
}

func (t mtTarget) isArray() bool { return len(t.Name) == 1 && t.Name[0] >= 'w' }

func (t mtTarget) kind() qsem.Kind {
	for _, a := range qsem.MTArrays {
		if a.Name == t.Name {
			return a.Kind
		}
	}
	if t.Field == "f" {
		return qsem.KFloat
	}
	return qsem.KInt
}

func (t mtTarget) nature() string {
	switch {
	case t.isArray():
		return "inline-array"
	case t.Name == "B" || t.Name == "C":
		return "collection"
	}
	return "relation"
}

func (t mtTarget) hasFilter() bool { return t.ItemF != nil || t.ChildF != "" }

// arg renders the target as an argument of aggregate fn.
func (t mtTarget) arg(fn string) string {
	var ps []string
	if !t.isArray() && fn != "_count" {
		ps = append(ps, "field: "+t.Field)
	}
	if t.ItemF != nil {
		ps = append(ps, "filter: "+t.ItemF.GQL())
	}
	if t.ChildF != "" {
		ps = append(ps, "filter: "+t.ChildF)
	}
	return t.Name + ": {" + strings.Join(ps, ", ") + "}"
}

// listing renders the selection that lists the target's values (alias l_<name> for relations).
func (t mtTarget) listing() string {
	if t.isArray() {
		return t.Name
	}
	f := ""
	if t.ChildF != "" {
		f = "(filter: " + t.ChildF + ")"
	}
	return fmt.Sprintf("l_%s: %s%s { k v f }", t.Name, t.Name, f)
}

// values extracts the values the row lists for the target. ok=false: the inner filter compares a
// null item with a value (not fixed by the documentation), the row is not judged.
func (t mtTarget) values(row map[string]any) (vals []any, ok bool) {
	if t.isArray() {
		items, _ := row[t.Name].([]any)
		for _, it := range items {
			if t.ItemF == nil {
				vals = append(vals, it)
				continue
			}
			switch t.ItemF.Eval(t.kind(), it) {
			case qsem.True:
				vals = append(vals, it)
			case qsem.Unknown:
				return nil, false
			}
		}
		return vals, true
	}
	docs, _ := row["l_"+t.Name].([]any)
	for _, d := range docs {
		if m, isMap := d.(map[string]any); isMap {
			vals = append(vals, m[t.Field])
		}
	}
	return vals, true
}

func mtSkeleton(ts []mtTarget) string {
	var ps []string
	for _, t := range ts {
		s := t.Name + "." + t.Field
		if t.hasFilter() {
			s += "+f"
		}
		ps = append(ps, s)
	}
	return strings.Join(ps, ",")
}

type c08mt struct {
	ex  *qsem.Exec
	r   *core.Rec
	rng *rand.Rand
	ds  qsem.MTDataset
	sig string
}

// fail records a request that was answered with an error / panic / hang; returns false then.
func (e *c08mt) query(req string) (qsem.Result, bool) {
	res := e.ex.Do(req)
	if res.Panic != "" || res.Hang {
		return res, false
	}
	if len(res.Errs) > 0 && strings.HasPrefix(res.Errs[0], "unexpected type. Property:") && strings.Contains(req, "_avg") && strings.Contains(req, "{_ne: null}") {
		// (same defect and signature as in the single-target cases, c08env.query)
		e.r.Violate("aggregate/_avg-dependency-requested-before-_avg/rejected-with-unexpected-type",
			"a request that lists _sum/_count with the filter {field: {_ne: null}} before an _avg over the same field is answered with the error '"+res.Errs[0]+"'",
			map[string]any{"request": req, "errors": res.Errs})
		return res, false
	}
	if len(res.Errs) > 0 {
		e.r.Violate("valid-request-rejected/multi-target-aggregate", "a generated well-formed request with multi-target aggregates was answered with an error: "+res.Errs[0],
			map[string]any{"request": req, "errors": res.Errs})
		return res, false
	}
	return res, true
}

var mtAlias = map[string]string{"_count": "cnt", "_sum": "sm", "_avg": "av", "_min": "mn", "_max": "mx"}

// aggSelection: the functions over the targets; the order of the targets is shuffled per function.
func (e *c08mt) aggSelection(ts []mtTarget, fns []string) string {
	var ps []string
	for _, fn := range fns {
		perm := e.rng.Perm(len(ts))
		var as []string
		for _, pi := range perm {
			as = append(as, ts[pi].arg(fn))
		}
		ps = append(ps, fmt.Sprintf("%s: %s(%s)", mtAlias[fn], fn, strings.Join(as, ", ")))
	}
	return strings.Join(ps, " ")
}

func listings(ts []mtTarget) string {
	var ps []string
	for _, t := range ts {
		ps = append(ps, t.listing())
	}
	return strings.Join(ps, " ")
}

// genTargets: 2-3 distinct targets of P.
func (e *c08mt) genTargets() []mtTarget {
	names := []string{"x", "y", "z", "w", "bs", "cs"}
	n := 2 + e.rng.IntN(2)
	perm := e.rng.Perm(len(names))
	// bias towards at least one relation and towards both relations
	switch e.rng.IntN(4) {
	case 0:
		perm = append([]int{4, 5}, perm...)
	case 1:
		perm = append([]int{4 + e.rng.IntN(2)}, perm...)
	}
	var ts []mtTarget
	seen := map[int]bool{}
	for _, pi := range perm {
		if seen[pi] || len(ts) == n {
			continue
		}
		seen[pi] = true
		t := mtTarget{Name: names[pi]}
		if t.isArray() {
			if e.rng.IntN(3) == 0 {
				f := qsem.GenItemFilter(e.rng, t.kind())
				t.ItemF = &f
			}
		} else {
			t.Field = []string{"v", "v", "f", "k"}[e.rng.IntN(4)]
			if e.rng.IntN(3) == 0 {
				t.ChildF = qsem.GenChildFilter(e.rng)
			}
		}
		ts = append(ts, t)
	}
	return ts
}

// judgeRow compares the five aggregates of one row (a P document, or the top level) with the
// arithmetic over the union of the listed values. single(fn, target) requests the aggregate over one
// target alone for the same row (classification of a difference); it may be nil.
func (e *c08mt) judgeRow(where string, ts []mtTarget, fns []string, row map[string]any, detail map[string]any,
	single func(fn string, t mtTarget) (any, bool)) (ok bool, multi int64) {
	var per [][]any
	var union []any
	for _, t := range ts {
		vs, ok := t.values(row)
		if !ok {
			e.r.Note("multi_target_row_with_null_item_under_a_comparison_not_judged")
			return true, 0
		}
		per = append(per, vs)
		union = append(union, vs...)
	}
	a := qsem.Arithmetic(union)
	nonEmpty, nonNull := 0, 0
	minima, maxima := map[float64]bool{}, map[float64]bool{}
	for _, vs := range per {
		pa := qsem.Arithmetic(vs)
		if pa.Count > 0 {
			nonEmpty++
		}
		if pa.NonNull > 0 {
			nonNull++
			minima[pa.Min], maxima[pa.Max] = true, true
		}
	}
	for _, fn := range fns {
		got := row[mtAlias[fn]]
		msg := qsem.CheckAgg(fn, got, a)
		if msg == "skip" {
			e.r.Note("aggregate_of_no_values_not_judged")
			continue
		}
		e.r.Count("aggregate_checks", 1)
		e.r.Count("agg_multi_target_values_judged", 1)
		if (fn == "_count" && nonEmpty >= 2) || (fn != "_count" && nonNull >= 2) {
			multi++
			e.r.Count("agg_multi_target", 1)
			e.r.Count("agg_multi_target_"+fn, 1)
			switch {
			case fn == "_min" && len(minima) >= 2:
				e.r.Count("agg_multi_target_minima_differ", 1)
			case fn == "_max" && len(maxima) >= 2:
				e.r.Count("agg_multi_target_maxima_differ", 1)
			}
		}
		if msg == "" {
			continue
		}
		detail["aggregate"], detail["returned"], detail["targets"] = fn, got, ts
		detail["listed_values_per_target"], detail["row"] = per, row
		// classification: the same aggregate over every target alone
		if single != nil {
			var singles []any
			for i, t := range ts {
				sv, ok := single(fn, t)
				if !ok {
					continue
				}
				singles = append(singles, map[string]any{"target": t, "returned": sv, "listed": per[i]})
				if smsg := qsem.CheckAgg(fn, sv, qsem.Arithmetic(per[i])); smsg != "" && smsg != "skip" {
					detail["single_target"] = singles
					filt := ""
					if t.hasFilter() {
						filt = "-with-inner-filter"
					}
					e.r.Violate("aggregate/single-target/"+t.nature()+filt+"/"+fn,
						fn+" over ONE target already differs from the arithmetic over that target's listed values: "+smsg, detail)
					return false, multi
				}
			}
			detail["single_target"] = singles
		}
		e.r.Violate("aggregate/multi-target/"+fn,
			fn+" over several targets differs from the arithmetic over the union of the values listed for the targets (every target alone agrees with its listing): "+msg, detail)
		return false, multi
	}
	return true, multi
}

// perParent: the aggregates on the rows of P (inGroup: on the members of the groups of P).
func (e *c08mt) perParent(ts []mtTarget, fns []string, inGroup bool, outer string) {
	sel := "k " + listings(ts) + " " + e.aggSelection(ts, fns)
	var req string
	switch {
	case inGroup && outer == "":
		req = fmt.Sprintf(`query { P(groupBy: [c]) { c _group { %s } } }`, sel)
	case inGroup:
		req = fmt.Sprintf(`query { P(groupBy: [c], %s) { c _group { %s } } }`, outer, sel)
	case outer == "":
		req = fmt.Sprintf(`query { P { %s } }`, sel)
	default:
		req = fmt.Sprintf(`query { P(%s) { %s } }`, outer, sel)
	}
	res, ok := e.query(req)
	if !ok {
		return
	}
	e.r.Count("agg_multi_target_requests", 1)
	var rows []map[string]any
	if inGroup {
		for _, g := range res.Rows("P") {
			ms, _ := g["_group"].([]any)
			for _, m := range ms {
				if mm, isMap := m.(map[string]any); isMap {
					rows = append(rows, mm)
				}
			}
		}
		// the members of all groups are the documents of P, each once
		var ks, all []string
		for _, row := range rows {
			ks = append(ks, fmt.Sprint(row["k"]))
		}
		for _, p := range e.ds.P {
			all = append(all, fmt.Sprint(p["k"]))
		}
		if outer == "" && !qsem.SameMultiset(ks, all) {
			e.r.Violate("group/groups-do-not-partition-the-list", "the members of all groups are not exactly the documents of the collection",
				map[string]any{"request": req, "members_k": ks, "documents_k": all, "returned": res.Data})
			return
		}
		// agreement: the selection on a group member returns what the same selection returns on the document itself
		dreq := fmt.Sprintf(`query { P { %s } }`, sel)
		if outer != "" {
			dreq = fmt.Sprintf(`query { P(%s) { %s } }`, outer, sel)
		}
		if dres, ok := e.query(dreq); ok {
			e.r.Count("group_member_selection_agreement_checks", 1)
			byK := map[string]map[string]any{}
			for _, row := range dres.Rows("P") {
				byK[fmt.Sprint(row["k"])] = row
			}
			for _, row := range rows {
				if d := byK[fmt.Sprint(row["k"])]; d == nil || canonRow(d) != canonRow(row) {
					e.r.Violate("group/member-selection-differs-from-the-same-selection-on-the-document",
						"a selection (sub-selections / aggregates) evaluated on the members of a group returns other values than the same selection evaluated on the documents directly",
						map[string]any{"request": req, "request_on_documents": dreq, "group_member": row, "document": d})
					return
				}
			}
		}
	} else {
		rows = res.Rows("P")
	}
	where := "per-document"
	if inGroup {
		where = "inside-group"
	}
	filtered := false
	for _, t := range ts {
		filtered = filtered || t.hasFilter()
	}
	e.r.Nontrivial("aggmulti:" + where + ":" + strings.Join(fns, "") + ":" + mtSkeleton(ts) + "#" + e.sig)
	for _, row := range rows {
		k := fmt.Sprint(row["k"])
		single := func(fn string, t mtTarget) (any, bool) {
			sreq := fmt.Sprintf(`query { P(filter: {k: {_eq: %s}}) { one: %s(%s) } }`, k, fn, t.arg(fn))
			sres := e.ex.Do(sreq)
			if !sres.OK() || len(sres.Rows("P")) != 1 {
				return nil, false
			}
			return sres.Rows("P")[0]["one"], true
		}
		ok, n := e.judgeRow(where, ts, fns, row, map[string]any{"request": req, "where": where}, single)
		if !ok {
			return
		}
		if n > 0 {
			if inGroup {
				e.r.Count("agg_multi_target_in_group", n)
			}
			if filtered {
				e.r.Count("agg_multi_target_inner_filter", n)
			}
		}
	}
}

// inGroup requests the aggregates on the members of the groups of P.
//
// A member selection (`_group { ... }`) that needs more than one field beyond those of the
// collection - two sub-selections or aggregates, an _avg, an aggregate over a relation - panics on
// the current tree (reported under its own signature, see mtPanicClass). The narrow form therefore
// asks for ONE function (not _avg) over inline arrays only per request, which needs a single extra
// field; the full form (all functions, any targets) is requested as well so that the check covers
// the whole shape once the defect is repaired.
func (e *c08mt) inGroup(ts []mtTarget, full bool) {
	if full {
		e.r.Count("agg_multi_target_in_group_full_requests", 1)
		e.perParent(ts, qsem.AggFns, true, "")
		return
	}
	for _, fn := range []string{"_count", "_sum", "_min", "_max"} {
		e.perParent(ts, []string{fn}, true, "")
	}
}

// genArrayTargets: 2-3 inline arrays.
func (e *c08mt) genArrayTargets() []mtTarget {
	names := []string{"x", "y", "z", "w"}
	n := 2 + e.rng.IntN(2)
	var ts []mtTarget
	for _, pi := range e.rng.Perm(len(names))[:n] {
		t := mtTarget{Name: names[pi]}
		if e.rng.IntN(3) == 0 {
			f := qsem.GenItemFilter(e.rng, t.kind())
			t.ItemF = &f
		}
		ts = append(ts, t)
	}
	return ts
}

// mtPanicClass gives the panics of one defect (they surface in sumNode / countNode / minNode /
// maxNode / joinPrimaryDocs, depending on which node writes the out-of-range field first) one signature.
func mtPanicClass(req, stack string) (string, string) {
	if strings.Contains(req, "_group {") && strings.Contains(stack, "index out of range") && strings.Contains(stack, "planner.(*groupNode).Next") {
		return "panic/group-member-selection-with-several-sub-selections-or-aggregates/index-out-of-range",
			"a _group member selection that holds more than one sub-selection / aggregate (or an _avg, or an aggregate over a relation) panics: " +
				"the member select maps its virtual fields beyond the length of the documents piped from the parent scan"
	}
	return "", ""
}

// topLevel: `_sum(B: {field: v, filter: ..}, C: {field: f})` against the listings of B and C.
func (e *c08mt) topLevel(ts []mtTarget) {
	var ls []string
	for _, t := range ts {
		ls = append(ls, t.listing())
	}
	lreq := fmt.Sprintf(`query { %s }`, strings.Join(ls, " "))
	lres, ok := e.query(lreq)
	if !ok {
		return
	}
	areq := fmt.Sprintf(`query { %s }`, e.aggSelection(ts, qsem.AggFns))
	ares, ok := e.query(areq)
	if !ok {
		return
	}
	e.r.Count("agg_multi_target_requests", 1)
	row, _ := lres.Data.(map[string]any)
	am, _ := ares.Data.(map[string]any)
	if row == nil || am == nil {
		return
	}
	merged := map[string]any{}
	for k, v := range row {
		merged[k] = v
	}
	for k, v := range am {
		merged[k] = v
	}
	single := func(fn string, t mtTarget) (any, bool) {
		sres := e.ex.Do(fmt.Sprintf(`query { one: %s(%s) }`, fn, t.arg(fn)))
		if !sres.OK() {
			return nil, false
		}
		v, ok := sres.Field("one")
		return v, ok
	}
	e.r.Nontrivial("aggmulti:top-level:" + mtSkeleton(ts) + "#" + e.sig)
	if ok, n := e.judgeRow("top-level", ts, qsem.AggFns, merged, map[string]any{"request": areq, "listing_request": lreq, "where": "top-level"}, single); ok {
		if n > 0 {
			e.r.Count("agg_multi_target_top_level", n)
			for _, t := range ts {
				if t.hasFilter() {
					e.r.Count("agg_multi_target_inner_filter", n)
					break
				}
			}
		}
	}
}

func (e *c08mt) genTopTargets() []mtTarget {
	var ts []mtTarget
	for _, name := range []string{"B", "C"} {
		t := mtTarget{Name: name, Field: []string{"v", "v", "f", "k"}[e.rng.IntN(4)]}
		if e.rng.IntN(3) == 0 {
			t.ChildF = qsem.GenChildFilter(e.rng)
		}
		ts = append(ts, t)
	}
	return ts
}

// dumpCheck: the unfiltered listings return the created documents and links.
func (e *c08mt) dumpCheck() bool {
	res, ok := e.query(`query { P { k c x y z w bs { k } cs { k } } B { k v f } C { k v f } }`)
	if !ok {
		return false
	}
	bad := len(res.Rows("P")) != len(e.ds.P) || len(res.Rows("B")) != len(e.ds.B) || len(res.Rows("C")) != len(e.ds.C)
	byK := map[string]map[string]any{}
	for _, row := range res.Rows("P") {
		byK[fmt.Sprint(row["k"])] = row
	}
	kids := func(docs []qsem.Doc, pk int) []string {
		out := []string{}
		for _, d := range docs {
			if pi, _ := d["p"].(int); pi == pk {
				out = append(out, fmt.Sprint(d["k"]))
			}
		}
		return out
	}
	ks := func(v any) []string {
		out := []string{}
		l, _ := v.([]any)
		for _, m := range l {
			if mm, isMap := m.(map[string]any); isMap {
				out = append(out, fmt.Sprint(mm["k"]))
			}
		}
		return out
	}
	for pi, p := range e.ds.P {
		row := byK[fmt.Sprint(p["k"])]
		if row == nil {
			bad = true
			continue
		}
		for _, a := range qsem.MTArrays {
			if core.Canon(normNums(row[a.Name])) != core.Canon(normNums(p[a.Name])) {
				bad = true
			}
		}
		if !qsem.SameMultiset(ks(row["bs"]), kids(e.ds.B, pi)) || !qsem.SameMultiset(ks(row["cs"]), kids(e.ds.C, pi)) {
			bad = true
		}
	}
	if bad {
		e.r.Violate("listing/differs-from-created-documents", "the unfiltered listing does not return the documents / arrays / links that were created",
			map[string]any{"created": e.ds, "listed": res.Data})
		return false
	}
	return true
}

// canonRow renders a row with its lists of documents sorted (the order of related documents is not fixed).
func canonRow(row map[string]any) string {
	out := map[string]any{}
	for k, v := range row {
		if l, ok := v.([]any); ok && strings.HasPrefix(k, "l_") {
			var items []string
			for _, x := range l {
				items = append(items, core.Canon(x))
			}
			sort.Strings(items)
			out[k] = items
			continue
		}
		out[k] = v
	}
	return core.Canon(out)
}

// normNums renders every number of a (nested) value as float64 so that 2 and 2.0 compare equal.
func normNums(v any) any {
	if l, ok := v.([]any); ok {
		out := make([]any, len(l))
		for i, x := range l {
			out[i] = normNums(x)
		}
		return out
	}
	if f, ok := qsem.ToFloat(v); ok {
		return f
	}
	return v
}

func (e *c08mt) anchorQueries() {
	gt1 := &qsem.ItemFilter{Cmp: "_gt", Val: int64(2)}
	nn := &qsem.ItemFilter{Cmp: "_ne", Val: nil}
	sets := [][]mtTarget{
		{{Name: "bs", Field: "v"}, {Name: "cs", Field: "v"}},
		{{Name: "cs", Field: "f"}, {Name: "bs", Field: "v"}},
		{{Name: "x"}, {Name: "y"}},
		{{Name: "z"}, {Name: "w"}, {Name: "x"}},
		{{Name: "x"}, {Name: "bs", Field: "v"}, {Name: "cs", Field: "f"}},
		{{Name: "bs", Field: "v", ChildF: `{v: {_gt: 3}}`}, {Name: "cs", Field: "v", ChildF: `{v: {_ne: null}}`}},
		{{Name: "y", ItemF: gt1}, {Name: "x", ItemF: nn}, {Name: "cs", Field: "v"}},
	}
	for i, ts := range sets {
		e.r.Count("evaluations", 2)
		e.perParent(ts, qsem.AggFns, false, "")
		arraysOnly := true
		for _, t := range ts {
			arraysOnly = arraysOnly && t.isArray()
		}
		if arraysOnly {
			e.inGroup(ts, false)
		}
		if i == 0 || i == 2 {
			e.inGroup(ts, true)
		}
	}
	e.inGroup([]mtTarget{{Name: "y", ItemF: gt1}, {Name: "x", ItemF: nn}, {Name: "w"}}, false)
	for _, ts := range [][]mtTarget{
		{{Name: "B", Field: "v"}, {Name: "C", Field: "v"}},
		{{Name: "B", Field: "f", ChildF: `{v: {_ne: null}}`}, {Name: "C", Field: "v", ChildF: `{f: {_gt: 0.0}}`}},
	} {
		e.r.Count("evaluations", 1)
		e.topLevel(ts)
	}
}

func c08RunMultiAgg(ctx context.Context, c core.Case, p c08Params, r *core.Rec) {
	rng := c.Rng()
	var ds qsem.MTDataset
	if p.Anchor != "" {
		ds = qsem.MTAnchorData()
	} else {
		ds = qsem.GenMTData(rng, p.NU, p.NG, p.NG2)
	}
	n := core.NewNode(ctx, core.NodeOpts{})
	defer n.Close()
	_, err := n.DB.AddSchema(ctx, qsem.MTSDL)
	core.Must(err)
	core.Must(qsem.LoadMT(ctx, n, ds))
	e := &c08mt{ex: &qsem.Exec{Ctx: ctx, N: n, R: r, Kind: c.Kind, PanicClass: mtPanicClass}, r: r, rng: rng, ds: ds, sig: ds.Signature()}
	r.Count("data_sets", 1)
	if dbg := os.Getenv("C08_DEBUG_QUERIES"); dbg != "" {
		for _, q := range strings.Split(dbg, ";;") {
			res := e.ex.Do(q)
			fmt.Printf("DEBUG %s\n   -> %s %v\n", q, core.Canon(res.Data), res.Errs)
		}
		return
	}
	if !e.dumpCheck() {
		return
	}
	if p.Anchor != "" {
		e.anchorQueries()
	}
	for q := 0; q < p.Queries && !e.ex.Hung; q++ {
		r.Count("evaluations", 1)
		switch x := rng.IntN(10); {
		case x < 5:
			outer := ""
			if rng.IntN(4) == 0 {
				outer = fmt.Sprintf("filter: {k: {_ne: %d}}", rng.IntN(3))
			}
			e.perParent(e.genTargets(), qsem.AggFns, false, outer)
		case x < 7:
			e.inGroup(e.genArrayTargets(), false)
		case x < 8:
			e.inGroup(e.genTargets(), true)
		default:
			e.topLevel(e.genTopTargets())
		}
	}
	if c.Index%16 == 0 || p.Anchor != "" {
		r.Sample(map[string]any{"kind": c.Kind, "data_signature": e.sig, "parents": firstN(ds.P, 2)})
	}
}
