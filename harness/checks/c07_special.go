package checks

// C07 — twin histories over schemas and write paths that the fixed schema of the main twin
// (c07_index_twin.go) does not have:
//
//   twin/counter        index over a counter field (@crdt(type: pncounter|pcounter)): an update carries
//                       the increment, the entry has to follow the sum
//   twin/versions       schema patches and SetActiveSchemaVersion back and forth, index DDL in between
//   twin/acp            document access control: the index is created by an identity that may not read
//                       every document; every requester asks both databases
//   twin/stale-handle   writes through a collection handle that was fetched before index DDL
//
// Oracle as in the main twin: database A carries the indexes, database B does not, both get the
// same history; every query is sent to both (multiset of rows; sequence of sort keys when ordered).

import (
	"context"
	"encoding/json"
	"fmt"
	"math/rand/v2"
	"runtime"
	"sort"
	"strings"

	"github.com/sourcenetwork/immutable"
	"github.com/sourcenetwork/lens/host-go/config/model"

	"github.com/sourcenetwork/defradb/acp/identity"
	"github.com/sourcenetwork/defradb/client"
	"github.com/sourcenetwork/defradb/verifharness/core"
	"github.com/sourcenetwork/defradb/verifharness/qgen"
)

type spParams struct {
	Kind    string     `json:"kind"` // counter | versions | acp | stale-handle
	Steps   int        `json:"steps"`
	Anchor  string     `json:"anchor,omitempty"`
	Specs   [][]string `json:"specs,omitempty"` // index field lists (a trailing '-' marks a descending field)
	Unique  bool       `json:"unique,omitempty"`
	Mode    string     `json:"mode,omitempty"`    // counter: sdl | api-before | api-after
	Creator string     `json:"creator,omitempty"` // acp: who creates the index (anon | stranger | owner | owner2)
}

type mini struct {
	ctx  context.Context
	p    spParams
	r    *core.Rec
	rng  *rand.Rand
	A, B *core.Node
	log  []string
	step int
	stop bool
}

func (m *mini) logf(f string, a ...any) {
	m.log = append(m.log, fmt.Sprintf("[%d] ", m.step)+fmt.Sprintf(f, a...))
}

func (m *mini) detail(extra map[string]any) map[string]any {
	d := map[string]any{"params": m.p, "history": clipTail(m.log, 80)}
	for k, v := range extra {
		d[k] = v
	}
	return d
}

// guarded runs fn, a panic becomes an error "panic: ...".
func guarded(fn func() error) (err error) {
	defer func() {
		if p := recover(); p != nil {
			buf := make([]byte, 8<<10)
			buf = buf[:runtime.Stack(buf, false)]
			err = fmt.Errorf("panic: %v\n%s", p, buf)
		}
	}()
	return fn()
}

// write applies one write to A and to B. ok = it succeeded on both; differs = the two databases
// disagree about success (errA / errB tell how).
func (m *mini) write(what string, fn func(n *core.Node) error) (ok, differs bool, errA, errB error) {
	errA = guarded(func() error { return fn(m.A) })
	errB = guarded(func() error { return fn(m.B) })
	m.logf("%s -> A: %s | B: %s", what, errText(errA), errText(errB))
	m.r.Count("special_writes", 1)
	return errA == nil && errB == nil, (errA == nil) != (errB == nil), errA, errB
}

func errText(err error) string {
	if err == nil {
		return "ok"
	}
	return "error: " + firstLineOf(err.Error())
}

// miniDiff: outcome of one query on both databases.
type miniDiff struct {
	req          string
	errA, errB   string
	onlyA, onlyB []map[string]any
	orderDiffers bool
	rowsA, rowsB []qgen.Row
}

func (d *miniDiff) any() bool {
	return d.errA != d.errB || len(d.onlyA)+len(d.onlyB) > 0 || d.orderDiffers
}

func (d *miniDiff) docIDs() []string {
	var out []string
	for _, r := range append(append([]map[string]any{}, d.onlyA...), d.onlyB...) {
		out = append(out, fmt.Sprint(r["_docID"]))
	}
	return out
}

func (d *miniDiff) describe() string {
	switch {
	case d.errA != d.errB:
		return fmt.Sprintf("indexed=%q index-free=%q", firstLineOf(d.errA), firstLineOf(d.errB))
	case len(d.onlyA)+len(d.onlyB) > 0:
		return fmt.Sprintf("indexed database returns %d rows, index-free twin %d (%d only indexed, %d only index-free)", len(d.rowsA), len(d.rowsB), len(d.onlyA), len(d.onlyB))
	}
	return "the sequences of sort keys differ"
}

func (d *miniDiff) detail() map[string]any {
	return map[string]any{"query": d.req, "indexed_error": d.errA, "index_free_error": d.errB, "only_indexed": d.onlyA, "only_index_free": d.onlyB,
		"indexed_rows": clipList(qgen.Multiset(d.rowsA), 12), "index_free_rows": clipList(qgen.Multiset(d.rowsB), 12)}
}

// ask sends one request to both databases (ctxs may carry an identity). order: the fields of the
// requested order with their kinds ("" = none).
func (m *mini) ask(ctx context.Context, req, col string, order []qgen.OrderKey, kinds map[string]qgen.Kind) *miniDiff {
	d := &miniDiff{req: req}
	d.rowsA, d.errA = rowsOrErr(ctx, m.A, req, col)
	d.rowsB, d.errB = rowsOrErr(ctx, m.B, req, col)
	m.r.Count("evaluations", 1)
	m.r.Count("special_query_pairs", 1)
	if d.errA != "" || d.errB != "" {
		return d
	}
	oa, ob := qgen.MultisetDiff(qgen.Multiset(d.rowsA), qgen.Multiset(d.rowsB))
	d.onlyA, d.onlyB = parseRows(oa), parseRows(ob)
	if len(oa)+len(ob) == 0 && len(order) > 0 {
		for i := range d.rowsA {
			for _, o := range order {
				if qgen.CmpVal(kinds[o.Field], d.rowsA[i][o.Field], d.rowsB[i][o.Field]) != 0 {
					d.orderDiffers = true
				}
			}
		}
	}
	return d
}

// served tells whether A answers the request from an index.
func (m *mini) served(ctx context.Context, explainReq string) bool {
	data, e := gqlOrPanic(ctx, m.A, explainReq)
	if e != "" {
		return false
	}
	for _, x := range reIndexFetches.FindAllStringSubmatch(data, -1) {
		if x[1] != "0" {
			return true
		}
	}
	return false
}

func explainOf(req string) string {
	return strings.Replace(req, "query {", "query @explain(type: execute) {", 1)
}

func parseSpec(fs []string) (req client.IndexCreateRequest) {
	for _, f := range fs {
		req.Fields = append(req.Fields, client.IndexedFieldDescription{Name: strings.TrimSuffix(f, "-"), Descending: strings.HasSuffix(f, "-")})
	}
	return req
}

func subset(ids []string, set map[string]bool) bool {
	for _, id := range ids {
		if !set[id] {
			return false
		}
	}
	return len(ids) > 0
}

func runSpecial(ctx context.Context, c core.Case, r *core.Rec) {
	var p spParams
	c.P(&p)
	m := &mini{ctx: ctx, p: p, r: r, rng: c.Rng()}
	switch p.Kind {
	case "counter":
		runCounterTwin(m)
	case "versions":
		runVersionsTwin(m)
	case "acp":
		runACPTwin(m)
	case "stale-handle":
		runStaleHandleTwin(m)
	default:
		panic("unknown special twin " + p.Kind)
	}
	r.Count("histories", 1)
	r.Count("special_histories/"+p.Kind, 1)
	r.Sample(map[string]any{"params": p, "log": clipTail(m.log, 25)})
}

// =======================================================================================
// counter fields

const sigCounter = "index/counter-field/entry-follows-the-last-increment-instead-of-the-sum"

var ctrKinds = map[string]qgen.Kind{"k": qgen.KInt, "i": qgen.KInt, "c": qgen.KInt, "p": qgen.KInt, "fc": qgen.KFloat}

func ctrSDL(specs [][]string, unique bool) string {
	fieldDir := map[string]string{}
	typeDir := ""
	for _, s := range specs {
		if len(s) == 1 {
			var args []string
			if unique {
				args = append(args, "unique: true")
			}
			if strings.HasSuffix(s[0], "-") {
				args = append(args, "direction: DESC")
			}
			d := " @index"
			if len(args) > 0 {
				d += "(" + strings.Join(args, ", ") + ")"
			}
			fieldDir[strings.TrimSuffix(s[0], "-")] += d
			continue
		}
		var inc []string
		for _, f := range s {
			if strings.HasSuffix(f, "-") {
				inc = append(inc, fmt.Sprintf(`{field: "%s", direction: DESC}`, strings.TrimSuffix(f, "-")))
			} else {
				inc = append(inc, fmt.Sprintf(`{field: "%s"}`, f))
			}
		}
		typeDir += fmt.Sprintf(" @index(includes: [%s])", strings.Join(inc, ", "))
	}
	return fmt.Sprintf("type U%s {\n\tk: Int\n\ti: Int%s\n\tc: Int @crdt(type: pncounter)%s\n\tp: Int @crdt(type: pcounter)%s\n\tfc: Float @crdt(type: pncounter)%s\n}\n",
		typeDir, fieldDir["i"], fieldDir["c"], fieldDir["p"], fieldDir["fc"])
}

type ctrTwin struct {
	*mini
	C           *core.Node
	colID       map[*core.Node]string
	local       []string // documents created on A and B
	remote      []string // documents created on C and merged into A and B (only ever written on C)
	incremented map[string]bool
	nextK       int
	indexed     bool
}

const ctrSel = "_docID k i c p fc"

func (t *ctrTwin) increments() map[string]any {
	patch := map[string]any{}
	for len(patch) == 0 {
		if t.rng.IntN(2) == 0 {
			patch["c"] = []int{-3, -1, 1, 2, 5}[t.rng.IntN(5)]
		}
		if t.rng.IntN(3) == 0 {
			patch["p"] = []int{1, 2, 5}[t.rng.IntN(3)]
		}
		if t.rng.IntN(3) == 0 {
			patch["fc"] = []float64{0.5, -1.5, 2}[t.rng.IntN(3)]
		}
	}
	return patch
}

func (t *ctrTwin) newDoc() map[string]any {
	d := map[string]any{"k": t.nextK, "i": t.rng.IntN(3)}
	t.nextK++
	if t.rng.IntN(5) != 0 {
		d["c"] = t.rng.IntN(6)
	}
	if t.rng.IntN(4) != 0 {
		d["p"] = t.rng.IntN(6)
	}
	if t.rng.IntN(3) != 0 {
		d["fc"] = []float64{0, 0.5, 2, 3.5}[t.rng.IntN(4)]
	}
	return d
}

func createDoc(ctx context.Context, n *core.Node, col string, d map[string]any) (string, error) {
	c := n.Col(ctx, col)
	doc, err := client.NewDocFromMap(d, c.Definition())
	if err != nil {
		return "", err
	}
	return doc.ID().String(), c.Create(ctx, doc)
}

func updateDocFull(ctx context.Context, n *core.Node, col, docID string, patch map[string]any) error {
	c := n.Col(ctx, col)
	id, err := client.NewDocIDFromString(docID)
	if err != nil {
		return err
	}
	doc, err := c.Get(ctx, id, false)
	if err != nil {
		return err
	}
	keys := make([]string, 0, len(patch))
	for k := range patch {
		keys = append(keys, k)
	}
	sort.Strings(keys)
	for _, k := range keys {
		if err := doc.Set(k, patch[k]); err != nil {
			return err
		}
	}
	return c.Update(ctx, doc)
}

func deleteDoc(ctx context.Context, n *core.Node, col, docID string) error {
	id, err := client.NewDocIDFromString(docID)
	if err != nil {
		return err
	}
	_, err = n.Col(ctx, col).Delete(ctx, id)
	return err
}

func gqlWrite(ctx context.Context, n *core.Node, req string) error {
	_, errs := n.GQL(ctx, req)
	if len(errs) > 0 {
		return fmt.Errorf("%s", errs[0])
	}
	return nil
}

func (t *ctrTwin) createIndexes() {
	for _, s := range t.p.Specs {
		req := parseSpec(s)
		req.Unique = t.p.Unique
		_, err := t.A.Col(t.ctx, "U").CreateIndex(t.ctx, req)
		t.logf("create index %v -> %v", s, err)
		core.Must(err)
	}
	t.indexed = true
}

func (t *ctrTwin) judgeWrite(what, docID string, differs bool, errA, errB error) {
	if errA != nil && strings.HasPrefix(errA.Error(), "panic:") {
		t.r.Violate("panic/write-on-indexed-side/"+panicFrame(errA.Error()), "write panics on the indexed database: "+what+": "+firstLineOf(errA.Error()), t.detail(map[string]any{"stack": errA.Error()}))
		t.stop = true
		return
	}
	if !differs {
		return
	}
	t.stop = true
	if errA != nil && t.incremented[docID] && strings.Contains(errA.Error(), "corrupted index") {
		t.r.Violate(sigCounter, "a document whose indexed counter field was incremented earlier can no longer be written on the indexed database: "+what+": "+errA.Error(), t.detail(nil))
		return
	}
	side, e := "indexed", errA
	if errA == nil {
		side, e = "index-free", errB
	}
	t.r.Violate("write/error-only-on-"+side+"-side/"+errClassTwin(e), fmt.Sprintf("the same write fails only on the %s database: %s: %v", side, what, e), t.detail(nil))
}

func (t *ctrTwin) stepOp(op string) {
	ctx := t.ctx
	t.r.Count("counter_op/"+op, 1)
	pick := func(l []string) string {
		if len(l) == 0 {
			return ""
		}
		return l[t.rng.IntN(len(l))]
	}
	switch op {
	case "create-api", "create-gql":
		d := t.newDoc()
		var id string
		what := op + " " + qgen.Lit(d)
		ok, differs, ea, eb := t.write(what, func(n *core.Node) error {
			if op == "create-gql" {
				rows, err := n.Rows(ctx, fmt.Sprintf("mutation { create_U(input: %s) { _docID } }", qgen.Lit(d)), "create_U")
				if err == nil && len(rows) == 1 {
					id = fmt.Sprint(rows[0]["_docID"])
				}
				return err
			}
			var err error
			id, err = createDoc(ctx, n, "U", d)
			return err
		})
		t.judgeWrite(what, "", differs, ea, eb)
		if ok {
			t.local = append(t.local, id)
		}
	case "inc-api", "inc-gql", "set-plain":
		id := pick(t.local)
		if id == "" {
			return
		}
		patch := t.increments()
		if op == "set-plain" {
			patch = map[string]any{"i": t.rng.IntN(3)}
		}
		b, _ := json.Marshal(patch)
		what := fmt.Sprintf("%s %s %s", op, shortID(id), b)
		if op != "set-plain" && t.indexed {
			t.incremented[id] = true
			t.r.Count("counter_increments_under_index", 1)
		}
		_, differs, ea, eb := t.write(what, func(n *core.Node) error {
			if op == "inc-gql" {
				return gqlWrite(ctx, n, fmt.Sprintf("mutation { update_U(docID: %q, input: %s) { _docID } }", id, qgen.Lit(patch)))
			}
			return updateDocFull(ctx, n, "U", id, patch)
		})
		t.judgeWrite(what, id, differs, ea, eb)
	case "inc-filter":
		// the filter is on k, which no index covers: the selection itself never goes through an index
		if len(t.local) == 0 {
			return
		}
		k := t.rng.IntN(t.nextK)
		patch := t.increments()
		b, _ := json.Marshal(patch)
		filter := fmt.Sprintf("{k: {_eq: %d}}", k)
		what := fmt.Sprintf("inc-filter %s %s", filter, b)
		var idsA []string
		_, differs, ea, eb := t.write(what, func(n *core.Node) error {
			res, err := n.Col(ctx, "U").UpdateWithFilter(ctx, filter, string(b))
			if err == nil && n == t.A {
				idsA = res.DocIDs
			}
			return err
		})
		target := ""
		for _, id := range idsA {
			target = id
			if t.indexed {
				t.incremented[id] = true
				t.r.Count("counter_increments_under_index", 1)
			}
		}
		t.judgeWrite(what, target, differs, ea, eb)
	case "delete":
		id := pick(t.local)
		if id == "" {
			return
		}
		what := "delete " + shortID(id)
		ok, differs, ea, eb := t.write(what, func(n *core.Node) error { return deleteDoc(ctx, n, "U", id) })
		t.judgeWrite(what, id, differs, ea, eb)
		if ok {
			var l []string
			for _, x := range t.local {
				if x != id {
					l = append(l, x)
				}
			}
			t.local = l
		}
	case "remote-create", "remote-inc":
		// documents born on C are written on C only: counter updates carry a random nonce, so only
		// blocks made by one node can reach both twins identically
		var id string
		if op == "remote-create" || len(t.remote) == 0 {
			d := t.newDoc()
			var err error
			id, err = createDoc(ctx, t.C, "U", d)
			t.logf("remote-create on C %s -> %v", qgen.Lit(d), err)
			if err != nil {
				return
			}
			t.remote = append(t.remote, id)
		} else {
			id = pick(t.remote)
			patch := t.increments()
			err := updateDocFull(ctx, t.C, "U", id, patch)
			b, _ := json.Marshal(patch)
			t.logf("remote-inc on C %s %s -> %v", shortID(id), b, err)
			if err != nil {
				return
			}
		}
		for _, h := range t.C.CompositeHeads(ctx, id) {
			c := core.ParseCid(h)
			what := fmt.Sprintf("merge %s head %s", shortID(id), h[len(h)-6:])
			ok, differs, ea, eb := t.write(what, func(n *core.Node) error {
				core.CopyClosure(ctx, t.C, n, c)
				return n.Merge(ctx, id, c, t.colID[n])
			})
			t.judgeWrite(what, id, differs, ea, eb)
			if ok {
				t.r.Count("counter_remote_merges", 1)
			}
		}
	}
}

func (t *ctrTwin) report(d *miniDiff, order bool) {
	t.stop = true
	ids := d.docIDs()
	if order {
		// the row sets agree: every document is a candidate
		for _, r := range d.rowsA {
			ids = append(ids, fmt.Sprint(r["_docID"]))
		}
	}
	inc := false
	for _, id := range ids {
		inc = inc || t.incremented[id]
	}
	if d.errA == d.errB && (subset(d.docIDs(), t.incremented) || order && inc) {
		t.r.Violate(sigCounter, "a document whose indexed counter field was incremented is found under the increment, not under the sum: "+d.describe()+": "+d.req, t.detail(d.detail()))
		return
	}
	switch {
	case d.errA != d.errB:
		t.r.Violate("counter-twin/query-fails-differently", d.describe()+": "+d.req, t.detail(d.detail()))
	case order:
		t.r.Violate("counter-twin/sort-key-sequences-differ", d.describe()+": "+d.req, t.detail(d.detail()))
	default:
		t.r.Violate("counter-twin/rows-differ", d.describe()+": "+d.req, t.detail(d.detail()))
	}
}

func (t *ctrTwin) queries() {
	if t.stop {
		return
	}
	all, err := t.B.Rows(t.ctx, "query { U { "+ctrSel+" } }", "U")
	core.Must(err)
	fields := map[string]bool{}
	var flist []string
	for _, s := range t.p.Specs {
		for _, f := range s {
			f = strings.TrimSuffix(f, "-")
			if !fields[f] {
				fields[f] = true
				flist = append(flist, f)
			}
		}
	}
	for _, f := range flist {
		vals := []any{0}
		seen := map[string]bool{"0": true}
		for _, r := range all {
			if v := r[f]; v != nil && !seen[fmt.Sprint(v)] {
				seen[fmt.Sprint(v)] = true
				vals = append(vals, rowValue(v))
			}
		}
		var reqs []struct {
			req   string
			order []qgen.OrderKey
		}
		add := func(args string, o []qgen.OrderKey) {
			reqs = append(reqs, struct {
				req   string
				order []qgen.OrderKey
			}{"query { U(" + args + ") { " + ctrSel + " } }", o})
		}
		t.rng.Shuffle(len(vals), func(i, j int) { vals[i], vals[j] = vals[j], vals[i] })
		for i, v := range vals {
			if i >= 4 {
				break
			}
			add(fmt.Sprintf("filter: {%s: {_eq: %s}}", f, qgen.Lit(v)), nil)
		}
		v := vals[t.rng.IntN(len(vals))]
		add(fmt.Sprintf("filter: {%s: {_ge: %s}}", f, qgen.Lit(v)), nil)
		add(fmt.Sprintf("filter: {%s: {_lt: %s}}", f, qgen.Lit(v)), nil)
		add(fmt.Sprintf("filter: {i: {_eq: %d}, %s: {_le: %s}}", t.rng.IntN(3), f, qgen.Lit(v)), nil)
		add(fmt.Sprintf("filter: {%s: {_eq: null}}", f), nil)
		add(fmt.Sprintf("order: {%s: ASC}", f), []qgen.OrderKey{{Field: f}})
		add(fmt.Sprintf("order: {%s: DESC}", f), []qgen.OrderKey{{Field: f, Desc: true}})
		for _, q := range reqs {
			if t.stop {
				return
			}
			d := t.ask(t.ctx, q.req, "U", q.order, ctrKinds)
			if t.indexed && len(d.rowsB) > 0 && t.served(t.ctx, explainOf(q.req)) {
				t.r.Count("counter_index_served_queries", 1)
				t.r.Nontrivial("counter|" + strings.Join(t.p.Specs[0], ",") + "|" + strings.SplitN(strings.SplitN(q.req, "(", 2)[1], ":", 2)[0] + "|" + f)
			}
			if d.any() {
				t.report(d, d.orderDiffers)
			}
		}
	}
}

func runCounterTwin(m *mini) {
	t := &ctrTwin{mini: m, colID: map[*core.Node]string{}, incremented: map[string]bool{}}
	ctx := m.ctx
	t.A, t.B, t.C = core.NewNode(ctx, core.NodeOpts{}), core.NewNode(ctx, core.NodeOpts{}), core.NewNode(ctx, core.NodeOpts{})
	defer t.A.Close()
	defer t.B.Close()
	defer t.C.Close()
	sdlA := ctrSDL(nil, false)
	if m.p.Mode == "sdl" {
		sdlA = ctrSDL(m.p.Specs, m.p.Unique)
		t.indexed = true
	}
	_, err := t.A.DB.AddSchema(ctx, sdlA)
	core.Must(err)
	for _, n := range []*core.Node{t.B, t.C} {
		_, err = n.DB.AddSchema(ctx, ctrSDL(nil, false))
		core.Must(err)
	}
	for _, n := range []*core.Node{t.A, t.B, t.C} {
		t.colID[n] = n.Col(ctx, "U").Version().CollectionID
	}
	if m.p.Mode == "api-before" {
		t.createIndexes()
	}
	anchorOps := []string{"create-api", "create-gql", "create-api", "inc-api", "inc-gql", "inc-filter", "set-plain", "remote-create", "remote-inc", "inc-api", "delete", "remote-inc", "inc-gql"}
	ops := []string{"create-api", "create-api", "create-gql", "inc-api", "inc-api", "inc-api", "inc-gql", "inc-gql", "inc-filter", "set-plain", "remote-create", "remote-inc", "remote-inc", "delete"}
	for i := 0; i < 3; i++ {
		t.stepOp("create-api")
	}
	for t.step = 1; t.step <= m.p.Steps && !t.stop; t.step++ {
		if m.p.Mode == "api-after" && t.step == m.p.Steps/3+1 {
			t.createIndexes()
		}
		if m.p.Anchor != "" {
			t.stepOp(anchorOps[(t.step-1)%len(anchorOps)])
		} else {
			t.stepOp(ops[t.rng.IntN(len(ops))])
		}
		t.queries()
	}
}

// =======================================================================================
// schema versions

const sigVersions = "index/index-list-kept-per-schema-version/write-under-another-version-maintains-a-different-index-set"

type verTwin struct {
	*mini
	vers    []string        // schema version ids in creation order (the same on both databases)
	fields  [][]string      // fields of each version
	active  int             // index into vers
	idx     map[string]bool // names of the indexes created on A and not dropped
	docs    []string
	nextK   int
	nIdx    int
	ddlSeen bool
}

func (t *verTwin) activeFields() []string { return t.fields[t.active] }

func (t *verTwin) sel() string { return "_docID " + strings.Join(t.activeFields(), " ") }

// listsDisagree: do the versions of the collection carry different index lists on A?
func (t *verTwin) listsDisagree() (bool, map[string][]string) {
	cols, err := t.A.DB.GetCollections(t.ctx, client.CollectionFetchOptions{IncludeInactive: immutable.Some(true)})
	core.Must(err)
	lists := map[string][]string{}
	var first string
	dis := false
	for i, c := range cols {
		if c.Name() != "U" {
			continue
		}
		var names []string
		for _, d := range c.Version().Indexes {
			names = append(names, d.Name)
		}
		sort.Strings(names)
		lists[c.VersionID()] = names
		if i == 0 || first == "" {
			first = strings.Join(names, ",") + "."
		} else if first != strings.Join(names, ",")+"." {
			dis = true
		}
	}
	return dis, lists
}

func (t *verTwin) flag(generic, msg string, extra map[string]any) {
	t.stop = true
	dis, lists := t.listsDisagree()
	if extra == nil {
		extra = map[string]any{}
	}
	extra["index_names_per_schema_version"] = lists
	extra["active_version"] = t.vers[t.active]
	if dis && t.ddlSeen {
		t.r.Violate(sigVersions, "the schema versions of one collection carry different index lists while the entries are shared: "+msg, t.detail(extra))
		return
	}
	t.r.Violate(generic, msg, t.detail(extra))
}

func (t *verTwin) judgeWrite(what string, differs bool, errA, errB error) {
	if errA != nil && strings.HasPrefix(errA.Error(), "panic:") {
		t.stop = true
		t.r.Violate("panic/write-on-indexed-side/"+panicFrame(errA.Error()), "write panics on the indexed database: "+what+": "+firstLineOf(errA.Error()), t.detail(map[string]any{"stack": errA.Error()}))
		return
	}
	if !differs {
		return
	}
	side, e := "indexed", errA
	if errA == nil {
		side, e = "index-free", errB
	}
	t.flag("write/error-only-on-"+side+"-side/"+errClassTwin(e), fmt.Sprintf("the same write fails only on the %s database: %s: %v", side, what, e), nil)
}

func (t *verTwin) newDoc() map[string]any {
	d := map[string]any{"k": t.nextK}
	t.nextK++
	for _, f := range t.activeFields() {
		switch {
		case f == "k":
		case f == "s":
			if v := []any{nil, "a", "b", "ab"}[t.rng.IntN(4)]; v != nil {
				d[f] = v
			}
		default:
			if v := t.rng.IntN(4); v != 3 {
				d[f] = v
			}
		}
	}
	return d
}

func (t *verTwin) stepOp(op string) {
	ctx := t.ctx
	t.r.Count("versions_op/"+op, 1)
	switch op {
	case "patch":
		if len(t.vers) >= 3 {
			return
		}
		if t.active != len(t.vers)-1 {
			// patches are applied on the newest version
			t.stepOp("activate-newest")
			if t.stop {
				return
			}
		}
		name := fmt.Sprintf("x%d", len(t.vers))
		patch := fmt.Sprintf(`[{ "op": "add", "path": "/U/Fields/-", "value": {"Name": %q, "Kind": "Int"} }]`, name)
		ok, differs, ea, eb := t.write("patch schema: add "+name, func(n *core.Node) error {
			return n.DB.PatchSchema(ctx, patch, immutable.None[model.Lens](), true)
		})
		t.judgeWrite("patch", differs, ea, eb)
		if !ok {
			t.stop = true
			return
		}
		va, vb := t.A.Col(ctx, "U").VersionID(), t.B.Col(ctx, "U").VersionID()
		if va != vb {
			panic("schema version ids differ between the twins")
		}
		t.vers = append(t.vers, va)
		t.fields = append(t.fields, append(append([]string{}, t.fields[len(t.fields)-1]...), name))
		t.active = len(t.vers) - 1
	case "activate", "activate-newest":
		if len(t.vers) < 2 {
			return
		}
		to := len(t.vers) - 1
		if op == "activate" {
			to = t.rng.IntN(len(t.vers))
			if to == t.active {
				to = (to + 1) % len(t.vers)
			}
		}
		if to == t.active {
			return
		}
		ok, differs, ea, eb := t.write(fmt.Sprintf("activate schema version %d (%s)", to+1, t.vers[to][len(t.vers[to])-6:]), func(n *core.Node) error {
			return n.DB.SetActiveSchemaVersion(ctx, t.vers[to])
		})
		t.judgeWrite("activate", differs, ea, eb)
		if !ok {
			t.stop = true
			return
		}
		t.active = to
		t.r.Count("schema_version_switches", 1)
		if t.ddlSeen {
			t.r.Count("schema_version_switches_after_index_ddl", 1)
		}
	case "create-index":
		cands := [][]string{{"i"}, {"s"}, {"i", "s-"}, {"s", "i"}}
		for _, f := range t.activeFields() {
			if strings.HasPrefix(f, "x") {
				cands = append(cands, []string{f}, []string{f})
			}
		}
		s := cands[t.rng.IntN(len(cands))]
		req := parseSpec(s)
		t.nIdx++
		req.Name = fmt.Sprintf("idx%d", t.nIdx)
		err := guarded(func() error { _, err := t.A.Col(ctx, "U").CreateIndex(ctx, req); return err })
		t.logf("create index %s %v on A under version %d -> %v", req.Name, s, t.active+1, err)
		if err != nil {
			t.flag("index-create-failed/"+errClassTwin(err), "CreateIndex failed: "+err.Error(), nil)
			return
		}
		t.idx[req.Name] = true
		if len(t.vers) > 1 {
			t.ddlSeen = true
		}
	case "drop-index":
		var names []string
		for n := range t.idx {
			names = append(names, n)
		}
		if len(names) == 0 {
			return
		}
		sort.Strings(names)
		name := names[t.rng.IntN(len(names))]
		// the active version may not list the index (that is the subject): ask it first
		listed := false
		descs, err := t.A.Col(ctx, "U").GetIndexes(ctx)
		core.Must(err)
		for _, d := range descs {
			listed = listed || d.Name == name
		}
		if !listed {
			return
		}
		err = guarded(func() error { return t.A.Col(ctx, "U").DropIndex(ctx, name) })
		t.logf("drop index %s on A under version %d -> %v", name, t.active+1, err)
		if err != nil {
			t.flag("index-drop-failed/"+errClassTwin(err), "DropIndex failed: "+err.Error(), nil)
			return
		}
		delete(t.idx, name)
		if len(t.vers) > 1 {
			t.ddlSeen = true
		}
	case "create":
		d := t.newDoc()
		var id string
		what := fmt.Sprintf("create under version %d %s", t.active+1, qgen.Lit(d))
		ok, differs, ea, eb := t.write(what, func(n *core.Node) error {
			var err error
			id, err = createDoc(ctx, n, "U", d)
			return err
		})
		t.judgeWrite(what, differs, ea, eb)
		if ok {
			t.docs = append(t.docs, id)
		}
	case "update":
		if len(t.docs) == 0 {
			return
		}
		id := t.docs[t.rng.IntN(len(t.docs))]
		patch := t.newDoc()
		delete(patch, "k")
		if len(patch) == 0 {
			patch["i"] = 1
		}
		b, _ := json.Marshal(patch)
		what := fmt.Sprintf("update under version %d %s %s", t.active+1, shortID(id), b)
		_, differs, ea, eb := t.write(what, func(n *core.Node) error { return updateDocFull(ctx, n, "U", id, patch) })
		t.judgeWrite(what, differs, ea, eb)
	case "delete":
		if len(t.docs) == 0 {
			return
		}
		x := t.rng.IntN(len(t.docs))
		id := t.docs[x]
		what := fmt.Sprintf("delete under version %d %s", t.active+1, shortID(id))
		ok, differs, ea, eb := t.write(what, func(n *core.Node) error { return deleteDoc(ctx, n, "U", id) })
		t.judgeWrite(what, differs, ea, eb)
		if ok {
			t.docs = append(t.docs[:x:x], t.docs[x+1:]...)
		}
	}
}

func (t *verTwin) queries() {
	kinds := map[string]qgen.Kind{"s": qgen.KString}
	for _, f := range t.activeFields() {
		if f != "s" {
			kinds[f] = qgen.KInt
		}
	}
	type rq struct {
		args  string
		order []qgen.OrderKey
	}
	var reqs []rq
	for _, f := range t.activeFields() {
		if f == "k" {
			continue
		}
		if f == "s" {
			reqs = append(reqs, rq{fmt.Sprintf(`filter: {s: {_eq: %q}}`, []string{"a", "b", "ab"}[t.rng.IntN(3)]), nil}, rq{`filter: {s: {_eq: null}}`, nil},
				rq{`filter: {s: {_like: "a%"}}`, nil}, rq{"order: {s: DESC}", []qgen.OrderKey{{Field: "s", Desc: true}}})
			continue
		}
		v := t.rng.IntN(3)
		reqs = append(reqs, rq{fmt.Sprintf("filter: {%s: {_eq: %d}}", f, v), nil}, rq{fmt.Sprintf("filter: {%s: {_ge: %d}}", f, v), nil},
			rq{fmt.Sprintf("filter: {%s: {_eq: null}}", f), nil}, rq{fmt.Sprintf("filter: {%s: {_lt: 2}, s: {_ne: \"b\"}}", f), nil},
			rq{fmt.Sprintf("order: {%s: ASC}", f), []qgen.OrderKey{{Field: f}}})
	}
	for _, q := range reqs {
		if t.stop {
			return
		}
		req := "query { U(" + q.args + ") { " + t.sel() + " } }"
		d := t.ask(t.ctx, req, "U", q.order, kinds)
		if len(d.rowsB) > 0 && t.served(t.ctx, explainOf(req)) {
			t.r.Count("versions_index_served_queries", 1)
			if t.ddlSeen {
				t.r.Nontrivial(fmt.Sprintf("versions|v%d-of-%d|%s", t.active+1, len(t.vers), strings.SplitN(q.args, "}", 2)[0]))
			}
		}
		if d.any() {
			t.flag("versions-twin/"+map[bool]string{true: "sort-key-sequences-differ", false: "rows-differ"}[d.orderDiffers], d.describe()+": "+req, d.detail())
		}
	}
}

func runVersionsTwin(m *mini) {
	t := &verTwin{mini: m, idx: map[string]bool{}}
	ctx := m.ctx
	t.A, t.B = core.NewNode(ctx, core.NodeOpts{}), core.NewNode(ctx, core.NodeOpts{})
	defer t.A.Close()
	defer t.B.Close()
	for _, n := range []*core.Node{t.A, t.B} {
		_, err := n.DB.AddSchema(ctx, "type U {\n\tk: Int\n\ti: Int\n\ts: String\n}\n")
		core.Must(err)
	}
	t.vers = []string{t.A.Col(ctx, "U").VersionID()}
	t.fields = [][]string{{"k", "i", "s"}}
	var script []string
	switch m.p.Anchor {
	case "index-on-newer-version":
		// the reviewer's history: index created under v2, document written under v1, read under v2
		script = []string{"create", "patch", "create", "create-index", "activate", "create", "create", "activate-newest", "update", "delete", "delete", "delete"}
	case "drop-on-newer-version":
		script = []string{"create-index", "create", "create", "patch", "drop-index", "activate", "create", "create", "update", "activate-newest", "delete", "delete"}
	}
	ops := []string{"create", "create", "create", "update", "update", "delete", "patch", "activate", "activate", "activate", "create-index", "create-index", "drop-index"}
	for i := 0; i < 2; i++ {
		t.stepOp("create")
	}
	for t.step = 1; t.step <= m.p.Steps && !t.stop; t.step++ {
		if len(script) > 0 {
			t.stepOp(script[(t.step-1)%len(script)])
		} else {
			t.stepOp(ops[t.rng.IntN(len(ops))])
		}
		if !t.stop {
			t.queries()
		}
	}
	// every document must be removable in the end
	for len(t.docs) > 0 && !t.stop {
		t.step++
		n := len(t.docs)
		t.stepOp("delete")
		if len(t.docs) == n {
			break
		}
	}
}

// =======================================================================================
// document access control

const sigACP = "index/acp/create-index-skips-documents-its-caller-may-not-read"

const c07Policy = `
name: c07
description: policy of the C07 monitor
actor:
  name: actor
resources:
  u:
    permissions:
      read:
        expr: owner + reader
      update:
        expr: owner
      delete:
        expr: owner
    relations:
      owner:
        types:
          - actor
      reader:
        types:
          - actor
`

var c07Actors = []string{"owner", "owner2", "stranger", "anon"}

type acpTwin struct {
	*mini
	ctxs    map[string]context.Context
	dids    map[string]string
	owner   map[string]string          // docID -> owner ("anon" = public)
	readers map[string]map[string]bool // docID -> actors granted reader
	docs    []string
	nextK   int
	indexed bool
	// skipped: documents that existed when the index was created and that its creator could not read
	skipped map[string]bool
}

func (t *acpTwin) canRead(actor, id string) bool {
	o := t.owner[id]
	return o == "anon" || o == actor || t.readers[id][actor]
}

func (t *acpTwin) judgeWrite(what, id string, differs bool, errA, errB error) {
	if errA != nil && strings.HasPrefix(errA.Error(), "panic:") {
		t.stop = true
		t.r.Violate("panic/write-on-indexed-side/"+panicFrame(errA.Error()), "write panics on the indexed database: "+what+": "+firstLineOf(errA.Error()), t.detail(map[string]any{"stack": errA.Error()}))
		return
	}
	if !differs {
		return
	}
	t.stop = true
	if errA != nil && t.skipped[id] && strings.Contains(errA.Error(), "corrupted index") {
		t.r.Violate(sigACP, "a document that the creator of the index could not read has no entry; its owner can no longer write it: "+what+": "+errA.Error(), t.detail(nil))
		return
	}
	side, e := "indexed", errA
	if errA == nil {
		side, e = "index-free", errB
	}
	t.r.Violate("write/error-only-on-"+side+"-side/"+errClassTwin(e), fmt.Sprintf("the same write fails only on the %s database: %s: %v", side, what, e), t.detail(nil))
}

func (t *acpTwin) stepOp(op string) {
	t.r.Count("acp_op/"+op, 1)
	switch op {
	case "create":
		who := []string{"owner", "owner", "owner2", "anon"}[t.rng.IntN(4)]
		d := map[string]any{"k": t.nextK, "i": t.rng.IntN(3)}
		t.nextK++
		if v := []any{nil, "a", "b"}[t.rng.IntN(3)]; v != nil {
			d["s"] = v
		}
		var id string
		what := fmt.Sprintf("create by %s %s", who, qgen.Lit(d))
		ok, differs, ea, eb := t.write(what, func(n *core.Node) error {
			var err error
			id, err = createDoc(t.ctxs[who], n, "U", d)
			return err
		})
		t.judgeWrite(what, "", differs, ea, eb)
		if ok {
			t.docs = append(t.docs, id)
			t.owner[id] = who
			t.readers[id] = map[string]bool{}
		}
	case "grant":
		// the owner of a private document lets the stranger read it
		var priv []string
		for _, id := range t.docs {
			if t.owner[id] != "anon" && !t.readers[id]["stranger"] {
				priv = append(priv, id)
			}
		}
		if len(priv) == 0 {
			return
		}
		id := priv[t.rng.IntN(len(priv))]
		what := fmt.Sprintf("grant reader on %s to stranger by %s", shortID(id), t.owner[id])
		ok, differs, ea, eb := t.write(what, func(n *core.Node) error {
			_, err := n.DB.AddDACActorRelationship(t.ctxs[t.owner[id]], "U", id, "reader", t.dids["stranger"])
			return err
		})
		t.judgeWrite(what, id, differs, ea, eb)
		if ok {
			t.readers[id]["stranger"] = true
		}
	case "create-index":
		if t.indexed {
			return
		}
		req := parseSpec(t.p.Specs[0])
		err := guarded(func() error { _, err := t.A.Col(t.ctx, "U").CreateIndex(t.ctxs[t.p.Creator], req); return err })
		t.logf("create index %v on A by %s -> %v", t.p.Specs[0], t.p.Creator, err)
		if err != nil {
			t.stop = true
			t.r.Violate("index-create-failed/"+errClassTwin(err), "CreateIndex failed: "+err.Error(), t.detail(nil))
			return
		}
		t.indexed = true
		for _, id := range t.docs {
			if !t.canRead(t.p.Creator, id) {
				t.skipped[id] = true
				t.r.Count("acp_documents_unreadable_for_index_creator", 1)
			}
		}
	case "update", "delete":
		if len(t.docs) == 0 {
			return
		}
		x := t.rng.IntN(len(t.docs))
		id := t.docs[x]
		who := t.owner[id]
		patch := map[string]any{"i": t.rng.IntN(3) + 3}
		if t.rng.IntN(3) == 0 {
			patch["s"] = []string{"a", "b", "c"}[t.rng.IntN(3)]
		}
		b, _ := json.Marshal(patch)
		what := fmt.Sprintf("%s by %s %s", op, who, shortID(id))
		if op == "update" {
			what += " " + string(b)
		}
		ok, differs, ea, eb := t.write(what, func(n *core.Node) error {
			if op == "delete" {
				return deleteDoc(t.ctxs[who], n, "U", id)
			}
			return updateDocFull(t.ctxs[who], n, "U", id, patch)
		})
		t.judgeWrite(what, id, differs, ea, eb)
		if ok && op == "delete" {
			t.docs = append(t.docs[:x:x], t.docs[x+1:]...)
		}
		if ok && op == "update" {
			// the entry is rebuilt by the owner's write (if the old one was missing the write fails instead)
			delete(t.skipped, id)
		}
	}
}

func (t *acpTwin) queries() {
	kinds := map[string]qgen.Kind{"k": qgen.KInt, "i": qgen.KInt, "s": qgen.KString}
	reqs := []struct {
		args  string
		order []qgen.OrderKey
	}{
		{fmt.Sprintf("filter: {i: {_eq: %d}}", t.rng.IntN(3)), nil},
		{"filter: {i: {_ge: 0}}", nil},
		{"filter: {i: {_ge: 3}}", nil},
		{`filter: {s: {_eq: "a"}}`, nil},
		{`filter: {s: {_ne: "a"}}`, nil},
		{"filter: {s: {_eq: null}}", nil},
		{`filter: {i: {_le: 4}, s: {_in: ["a", "b"]}}`, nil},
		{"order: {i: ASC}", []qgen.OrderKey{{Field: "i"}}},
		{"order: {s: DESC}", []qgen.OrderKey{{Field: "s", Desc: true}}},
	}
	for _, who := range c07Actors {
		for _, q := range reqs {
			if t.stop {
				return
			}
			req := "query { U(" + q.args + ") { _docID k i s } }"
			d := t.ask(t.ctxs[who], req, "U", q.order, kinds)
			t.r.Count("acp_query_pairs/"+who, 1)
			if t.indexed && len(d.rowsB) > 0 && t.served(t.ctxs[who], explainOf(req)) {
				t.r.Count("acp_index_served_queries", 1)
				t.r.Nontrivial("acp|" + t.p.Creator + "|" + who + "|" + strings.SplitN(q.args, "}", 2)[0])
			}
			if !d.any() {
				continue
			}
			t.stop = true
			det := d.detail()
			det["requester"] = who
			det["index_created_by"] = t.p.Creator
			if d.errA == d.errB && len(d.onlyA) == 0 && subset(d.docIDs(), t.skipped) {
				t.r.Violate(sigACP, fmt.Sprintf("documents that the creator of the index (%s) may not read got no entry: %s, who may read them, does not find them through the index: %s: %s", t.p.Creator, who, d.describe(), req), t.detail(det))
				return
			}
			kind := "rows-differ"
			if d.errA != d.errB {
				kind = "query-fails-differently"
			} else if d.orderDiffers {
				kind = "sort-key-sequences-differ"
			}
			t.r.Violate("acp-twin/"+kind, fmt.Sprintf("requester %s: %s: %s", who, d.describe(), req), t.detail(det))
		}
	}
}

func runACPTwin(m *mini) {
	t := &acpTwin{mini: m, ctxs: map[string]context.Context{"anon": m.ctx}, dids: map[string]string{}, owner: map[string]string{}, readers: map[string]map[string]bool{}, skipped: map[string]bool{}}
	ctx := m.ctx
	for i, a := range c07Actors[:3] {
		id := c10Ident(i)
		t.ctxs[a] = identity.WithContext(ctx, immutable.Some[identity.Identity](id))
		t.dids[a] = id.DID()
	}
	t.A, t.B = core.NewNode(ctx, core.NodeOpts{ACP: true}), core.NewNode(ctx, core.NodeOpts{ACP: true})
	defer t.A.Close()
	defer t.B.Close()
	for _, n := range []*core.Node{t.A, t.B} {
		pr, err := n.DB.AddDACPolicy(t.ctxs["owner"], c07Policy)
		core.Must(err)
		_, err = n.DB.AddSchema(ctx, fmt.Sprintf("type U @policy(id: %q, resource: \"u\") {\n\tk: Int\n\ti: Int\n\ts: String\n}\n", pr.PolicyID))
		core.Must(err)
	}
	script := []string{"create", "create", "create", "create", "grant", "create-index", "create", "update", "update", "delete", "create", "update"}
	ops := []string{"create", "create", "update", "update", "delete", "grant"}
	n0 := 4 + t.rng.IntN(4)
	for t.step = 1; t.step <= m.p.Steps && !t.stop; t.step++ {
		switch {
		case m.p.Anchor != "":
			if m.p.Anchor == "owner-private" && t.step <= 4 {
				// deterministic: private documents of the owner, one public
				t.stepOpCreateAs([]string{"owner", "owner", "anon", "owner2"}[t.step-1])
			} else {
				t.stepOp(script[(t.step-1)%len(script)])
			}
		case t.step <= n0:
			t.stepOp([]string{"create", "create", "create", "grant"}[t.rng.IntN(4)])
		case t.step == n0+1:
			t.stepOp("create-index")
		default:
			t.stepOp(ops[t.rng.IntN(len(ops))])
		}
		if !t.stop {
			t.queries()
		}
	}
}

func (t *acpTwin) stepOpCreateAs(who string) {
	t.r.Count("acp_op/create", 1)
	d := map[string]any{"k": t.nextK, "i": t.nextK % 3, "s": []string{"a", "b"}[t.nextK%2]}
	t.nextK++
	var id string
	what := fmt.Sprintf("create by %s %s", who, qgen.Lit(d))
	ok, differs, ea, eb := t.write(what, func(n *core.Node) error {
		var err error
		id, err = createDoc(t.ctxs[who], n, "U", d)
		return err
	})
	t.judgeWrite(what, "", differs, ea, eb)
	if ok {
		t.docs = append(t.docs, id)
		t.owner[id] = who
		t.readers[id] = map[string]bool{}
	}
}

// =======================================================================================
// stale collection handles

const sigStale = "index/write-through-collection-handle-fetched-before-index-ddl/maintains-the-index-set-of-the-handle"

type staleTwin struct {
	*mini
	hA, hB   client.Collection // handles fetched at the start of the history
	docs     []string
	nextK    int
	ddl      bool            // index DDL happened after the handles were fetched
	viaStale map[string]bool // documents written through the old handle after DDL
}

func (t *staleTwin) handle(n *core.Node, stale bool) client.Collection {
	if stale {
		if n == t.A {
			return t.hA
		}
		return t.hB
	}
	return n.Col(t.ctx, "U")
}

func (t *staleTwin) judgeWrite(what, id string, differs bool, errA, errB error) {
	if errA != nil && strings.HasPrefix(errA.Error(), "panic:") {
		t.stop = true
		t.r.Violate("panic/write-on-indexed-side/"+panicFrame(errA.Error()), "write panics on the indexed database: "+what+": "+firstLineOf(errA.Error()), t.detail(map[string]any{"stack": errA.Error()}))
		return
	}
	if !differs {
		return
	}
	t.stop = true
	if errA != nil && t.viaStale[id] && strings.Contains(errA.Error(), "corrupted index") {
		t.r.Violate(sigStale, "a document written through a collection handle fetched before the index was created has no entry; a later write fails: "+what+": "+errA.Error(), t.detail(nil))
		return
	}
	side, e := "indexed", errA
	if errA == nil {
		side, e = "index-free", errB
	}
	t.r.Violate("write/error-only-on-"+side+"-side/"+errClassTwin(e), fmt.Sprintf("the same write fails only on the %s database: %s: %v", side, what, e), t.detail(nil))
}

func (t *staleTwin) stepOp(op string, stale bool) {
	ctx := t.ctx
	tag := "fresh-handle"
	if stale {
		tag = "old-handle"
	}
	t.r.Count("stale_op/"+op+"/"+tag, 1)
	mark := func(id string) {
		if stale && t.ddl {
			t.viaStale[id] = true
			t.r.Count("writes_through_handle_older_than_index_ddl", 1)
		}
	}
	switch op {
	case "create":
		d := map[string]any{"k": t.nextK, "i": t.rng.IntN(3)}
		t.nextK++
		if v := []any{nil, "a", "b"}[t.rng.IntN(3)]; v != nil {
			d["s"] = v
		}
		var id string
		what := fmt.Sprintf("create through %s %s", tag, qgen.Lit(d))
		ok, differs, ea, eb := t.write(what, func(n *core.Node) error {
			c := t.handle(n, stale)
			doc, err := client.NewDocFromMap(d, c.Definition())
			if err != nil {
				return err
			}
			id = doc.ID().String()
			return c.Create(ctx, doc)
		})
		if ok {
			t.docs = append(t.docs, id)
			mark(id)
		}
		t.judgeWrite(what, id, differs, ea, eb)
	case "update", "delete":
		if len(t.docs) == 0 {
			return
		}
		x := t.rng.IntN(len(t.docs))
		id := t.docs[x]
		patch := map[string]any{"i": t.rng.IntN(3) + 3}
		what := fmt.Sprintf("%s through %s %s %v", op, tag, shortID(id), patch)
		mark(id)
		ok, differs, ea, eb := t.write(what, func(n *core.Node) error {
			c := t.handle(n, stale)
			did, err := client.NewDocIDFromString(id)
			if err != nil {
				return err
			}
			if op == "delete" {
				_, err = c.Delete(ctx, did)
				return err
			}
			doc, err := c.Get(ctx, did, false)
			if err != nil {
				return err
			}
			if err := doc.Set("i", patch["i"]); err != nil {
				return err
			}
			return c.Update(ctx, doc)
		})
		t.judgeWrite(what, id, differs, ea, eb)
		if ok && op == "delete" {
			t.docs = append(t.docs[:x:x], t.docs[x+1:]...)
		}
	case "create-index":
		req := parseSpec(t.p.Specs[0])
		err := guarded(func() error { _, err := t.A.Col(ctx, "U").CreateIndex(ctx, req); return err })
		t.logf("create index %v through a fresh handle -> %v", t.p.Specs[0], err)
		core.Must(err)
		t.ddl = true
	}
}

func (t *staleTwin) queries() {
	kinds := map[string]qgen.Kind{"k": qgen.KInt, "i": qgen.KInt, "s": qgen.KString}
	reqs := []struct {
		args  string
		order []qgen.OrderKey
	}{
		{fmt.Sprintf("filter: {i: {_eq: %d}}", t.rng.IntN(6)), nil},
		{"filter: {i: {_ge: 0}}", nil},
		{"filter: {i: {_ge: 3}}", nil},
		{`filter: {s: {_eq: "a"}}`, nil},
		{"filter: {s: {_eq: null}}", nil},
		{"order: {i: ASC}", []qgen.OrderKey{{Field: "i"}}},
		{"order: {s: DESC}", []qgen.OrderKey{{Field: "s", Desc: true}}},
	}
	for _, q := range reqs {
		if t.stop {
			return
		}
		req := "query { U(" + q.args + ") { _docID k i s } }"
		d := t.ask(t.ctx, req, "U", q.order, kinds)
		if t.ddl && len(d.rowsB) > 0 && t.served(t.ctx, explainOf(req)) {
			t.r.Count("stale_index_served_queries", 1)
			t.r.Nontrivial("stale|" + strings.Join(t.p.Specs[0], ",") + "|" + strings.SplitN(q.args, "}", 2)[0])
		}
		if !d.any() {
			continue
		}
		t.stop = true
		ids := d.docIDs()
		if d.orderDiffers {
			for id := range t.viaStale {
				ids = append(ids, id)
			}
		}
		if d.errA == d.errB && subset(ids, t.viaStale) || d.errB == "" && d.errA != "" && len(t.viaStale) > 0 && strings.Contains(d.errA, "FieldID of Key") {
			// (a document deleted through the old handle keeps its entry: the index-served request then
			// fails on the dangling entry)
			t.r.Violate(sigStale, "documents written through a collection handle that was fetched before the index was created are not indexed: "+d.describe()+": "+req, t.detail(d.detail()))
			return
		}
		kind := "rows-differ"
		if d.errA != d.errB {
			kind = "query-fails-differently"
		} else if d.orderDiffers {
			kind = "sort-key-sequences-differ"
		}
		t.r.Violate("stale-handle-twin/"+kind, d.describe()+": "+req, t.detail(d.detail()))
	}
}

func runStaleHandleTwin(m *mini) {
	t := &staleTwin{mini: m, viaStale: map[string]bool{}}
	ctx := m.ctx
	t.A, t.B = core.NewNode(ctx, core.NodeOpts{}), core.NewNode(ctx, core.NodeOpts{})
	defer t.A.Close()
	defer t.B.Close()
	for _, n := range []*core.Node{t.A, t.B} {
		_, err := n.DB.AddSchema(ctx, "type U {\n\tk: Int\n\ti: Int\n\ts: String\n}\n")
		core.Must(err)
	}
	t.hA, t.hB = t.A.Col(ctx, "U"), t.B.Col(ctx, "U")
	script := []string{"create", "create", "create-index", "create", "update", "create", "delete", "update"}
	ops := []string{"create", "create", "update", "update", "delete"}
	at := 2 + t.rng.IntN(3)
	for t.step = 1; t.step <= m.p.Steps && !t.stop; t.step++ {
		switch {
		case m.p.Anchor != "":
			op := script[(t.step-1)%len(script)]
			if op == "create-index" && t.ddl {
				op = "create"
			}
			t.stepOp(op, t.step%2 == 0 || t.step == 4)
		case t.step == at:
			t.stepOp("create-index", false)
		default:
			t.stepOp(ops[t.rng.IntN(len(ops))], t.rng.IntN(2) == 0)
		}
		if !t.stop {
			t.queries()
		}
	}
}

// =======================================================================================
// case lists

func specialCases(seed uint64, n int) []core.Case {
	var cs []core.Case
	// anchors
	cs = append(cs,
		core.MkCase("twin/counter/anchor/single", 21, spParams{Kind: "counter", Steps: 13, Anchor: "ops", Specs: [][]string{{"c"}}, Mode: "sdl"}),
		core.MkCase("twin/counter/anchor/composite", 22, spParams{Kind: "counter", Steps: 13, Anchor: "ops", Specs: [][]string{{"i", "c-"}, {"p"}, {"fc-"}}, Mode: "api-before"}),
		core.MkCase("twin/counter/anchor/created-after", 23, spParams{Kind: "counter", Steps: 13, Anchor: "ops", Specs: [][]string{{"p-"}, {"c"}}, Mode: "api-after"}),
		core.MkCase("twin/versions/anchor/index-on-newer-version", 24, spParams{Kind: "versions", Steps: 12, Anchor: "index-on-newer-version"}),
		core.MkCase("twin/versions/anchor/drop-on-newer-version", 25, spParams{Kind: "versions", Steps: 12, Anchor: "drop-on-newer-version"}),
		core.MkCase("twin/acp/anchor/index-created-by-stranger", 26, spParams{Kind: "acp", Steps: 12, Anchor: "owner-private", Specs: [][]string{{"s"}}, Creator: "stranger"}),
		core.MkCase("twin/acp/anchor/index-created-without-identity", 27, spParams{Kind: "acp", Steps: 12, Anchor: "owner-private", Specs: [][]string{{"i"}}, Creator: "anon"}),
		core.MkCase("twin/stale-handle/anchor", 28, spParams{Kind: "stale-handle", Steps: 8, Anchor: "ops", Specs: [][]string{{"i"}}}),
	)
	rng := rand.New(rand.NewPCG(seed, 7077))
	ctrSpecs := [][][]string{{{"c"}}, {{"c-"}}, {{"p"}}, {{"fc"}}, {{"i", "c"}}, {{"c", "i-"}}, {{"c"}, {"p-"}}, {{"fc-"}, {"i", "p"}}, {{"c", "p"}}}
	plain := [][][]string{{{"i"}}, {{"s"}}, {{"s-"}}, {{"i", "s"}}, {{"s", "i-"}}}
	for i := 0; i < n; i++ {
		var p spParams
		switch x := rng.IntN(10); {
		case x < 4:
			p = spParams{Kind: "counter", Steps: 8 + rng.IntN(8), Specs: ctrSpecs[rng.IntN(len(ctrSpecs))], Mode: []string{"sdl", "api-before", "api-after"}[rng.IntN(3)]}
		case x < 7:
			p = spParams{Kind: "versions", Steps: 10 + rng.IntN(10)}
		case x < 9:
			p = spParams{Kind: "acp", Steps: 10 + rng.IntN(6), Specs: plain[rng.IntN(len(plain))], Creator: []string{"anon", "stranger", "stranger", "owner", "owner2"}[rng.IntN(5)]}
		default:
			p = spParams{Kind: "stale-handle", Steps: 6 + rng.IntN(6), Specs: plain[rng.IntN(len(plain))]}
		}
		cs = append(cs, core.MkCase("twin/"+p.Kind, rng.Uint64(), p))
	}
	return cs
}

var specialFloors = []string{"special_histories/counter", "counter_increments_under_index", "counter_index_served_queries", "counter_remote_merges",
	"counter_op/inc-api", "counter_op/inc-gql", "counter_op/inc-filter", "counter_op/remote-inc",
	"special_histories/versions", "schema_version_switches_after_index_ddl", "versions_index_served_queries", "versions_op/patch", "versions_op/create-index", "versions_op/drop-index",
	"special_histories/acp", "acp_documents_unreadable_for_index_creator", "acp_index_served_queries", "acp_query_pairs/owner", "acp_query_pairs/stranger", "acp_query_pairs/anon", "acp_op/grant",
	"special_histories/stale-handle", "writes_through_handle_older_than_index_ddl", "stale_index_served_queries"}
