package checks

import (
	"crypto/sha256"
	"runtime"
	"sync"
	"syscall"
	"time"
)

// c15Starvation measures how starved of CPU the process currently is: the ratio wall time / thread
// CPU time of a short busy loop (1 on an idle machine, about load/cores on an oversubscribed one).
// It only stretches the deadline after which a schedule with work still pending is given up as
// INCONCLUSIVE; no verdict (converged / undelivered / livelock) depends on it.
func c15Starvation() float64 {
	runtime.LockOSThread()
	defer runtime.UnlockOSThread()
	cpu := func() time.Duration {
		var ru syscall.Rusage
		if syscall.Getrusage(1 /* RUSAGE_THREAD */, &ru) != nil {
			return 0
		}
		return time.Duration(ru.Utime.Nano() + ru.Stime.Nano())
	}
	c0, t0 := cpu(), time.Now()
	buf := make([]byte, 64<<10)
	for cpu()-c0 < 40*time.Millisecond && time.Since(t0) < 5*time.Second {
		for i := 0; i < 20; i++ {
			s := sha256.Sum256(buf)
			buf[0] = s[0]
		}
	}
	c := cpu() - c0
	if c <= 0 {
		return 1
	}
	return float64(time.Since(t0)) / float64(c)
}

var (
	c15StretchMu   sync.Mutex
	c15StretchLast time.Time
	c15StretchVal  = 1.0
)

// c15Stretch: factor (1..5) applied to the deadline, re-measured at most every 10 s.
func c15Stretch() float64 {
	c15StretchMu.Lock()
	defer c15StretchMu.Unlock()
	if c15StretchLast.IsZero() || time.Since(c15StretchLast) > 10*time.Second {
		f := c15Starvation()
		if f < 1 {
			f = 1
		}
		if f > 5 {
			f = 5
		}
		c15StretchVal, c15StretchLast = f, time.Now()
	}
	return c15StretchVal
}
