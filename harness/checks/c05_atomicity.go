package checks

// C05 — mutations are all-or-nothing, also when the storage layer fails mid-way.
//
// One case = (catalogue entry, collection configuration, prior contents). The case performs
//   * two fault-free dry runs on fresh nodes (storage-op count N, op kinds, success post-state
//     S_ok, update events) — the second one checks that what is compared later is reproducible;
//   * for each chosen k a fresh node, the same deterministic setup script, fault armed at the
//     k-th storage operation, the operation, disarm, bus barrier, dumps, comparison;
//   * (kind "degenerate") every catalogue entry on degenerate arguments without a fault.
//
// See DESIGN.md section 6, C05.

import (
	"context"
	"encoding/json"
	"errors"
	"fmt"
	"math/rand/v2"
	"os"
	"path/filepath"
	"runtime"
	"sort"
	"strings"
	"time"

	"github.com/ipfs/go-cid"
	"github.com/sourcenetwork/immutable"
	"github.com/sourcenetwork/lens/host-go/config/model"

	"github.com/sourcenetwork/defradb/client"
	"github.com/sourcenetwork/defradb/event"
	"github.com/sourcenetwork/defradb/internal/db"
	"github.com/sourcenetwork/defradb/verifharness/core"
)

// ---------------------------------------------------------------------------------------
// parameters

type c05Params struct {
	Op     string `json:"op"`
	Config string `json:"config"` // plain | indexed | uniq | branchable | brindexed
	NDocs  int    `json:"ndocs"`
	AllK   bool   `json:"all_k,omitempty"` // thorough: every k ...
	KMod   int    `json:"k_mod,omitempty"` // ... with k % KMod == KRem (one (entry, contents) is split over KMod cases)
	KRem   int    `json:"k_rem,omitempty"`
	NRand  int    `json:"n_rand,omitempty"` // sampled: extra random k
	Degen  string `json:"degen,omitempty"`  // kind "degenerate": which degenerate argument
	// kind "calltxn": the degenerate call runs inside a transaction owned by the caller, which is committed afterwards
	Sibling    bool `json:"sibling,omitempty"`    // the transaction also holds a call that succeeds (a create, before the failing call)
	Concurrent bool `json:"concurrent,omitempty"` // DB.NewConcurrentTxn instead of DB.NewTxn
}

var c05Configs = []string{"plain", "indexed", "uniq", "branchable", "brindexed"}

func c05SDL(config string) string {
	dir, si, ii, ui := "", "", "", ""
	switch config {
	case "indexed":
		si, ii = "@index", "@index"
	case "uniq":
		si, ui = "@index", "@index(unique: true)"
	case "branchable":
		dir = "@branchable"
	case "brindexed":
		dir, si, ii = "@branchable", "@index", "@index"
	}
	return fmt.Sprintf(`type Doc %s {
	name: String
	s: String %s
	i: Int %s
	u: Int %s
	f: Float
	n: Int @crdt(type: pncounter)
	p: Int @crdt(type: pcounter)
}
type Aux {
	x: String
}`, dir, si, ii, ui)
}

func c05Indexed(config string) bool {
	return config == "indexed" || config == "uniq" || config == "brindexed"
}

// c05GenDocs: prior contents, a function of the case PRNG only. name and u are unique.
func c05GenDocs(rng *rand.Rand, n int) []map[string]any {
	ss := []any{"a", "b", nil}
	is := []any{1, 2, nil}
	fs := []any{0.5, 2.25}
	var out []map[string]any
	for k := 0; k < n; k++ {
		m := map[string]any{"name": fmt.Sprintf("d%d", k), "u": 100 + k}
		if v := ss[rng.IntN(3)]; v != nil {
			m["s"] = v
		}
		if v := is[rng.IntN(3)]; v != nil {
			m["i"] = v
		}
		m["f"] = fs[rng.IntN(2)]
		m["n"] = 1 + rng.IntN(2)
		if rng.IntN(2) == 0 {
			m["p"] = 1 + rng.IntN(3)
		}
		out = append(out, m)
	}
	return out
}

// ---------------------------------------------------------------------------------------
// environment of one execution (one fresh node)

type c05Env struct {
	ctx     context.Context
	p       c05Params
	n       *core.Node
	col     client.Collection
	docs    []map[string]any
	ids     []string // docIDs of the prior documents, creation order
	live    []string // ids not deleted by the setup script
	deleted []string
	rec     *core.BusRecorder
	tmp     string
	remote  *core.Node
	vars    map[string]string
	probes  []string
	closers []func()
}

func (e *c05Env) close() {
	for _, f := range e.closers {
		f()
	}
	if e.rec != nil {
		e.rec.Close()
	}
	if e.remote != nil {
		e.remote.Close()
	}
	e.n.Close()
	if e.tmp != "" {
		_ = os.RemoveAll(e.tmp)
	}
}

func (e *c05Env) docID(k int) client.DocID {
	id, err := client.NewDocIDFromString(e.ids[k])
	core.Must(err)
	return id
}

func (e *c05Env) newDoc(m map[string]any) *client.Document {
	d, err := client.NewDocFromMap(m, e.col.Definition())
	core.Must(err)
	return d
}

func (e *c05Env) getDoc(id string) *client.Document {
	did, err := client.NewDocIDFromString(id)
	core.Must(err)
	d, err := e.col.Get(e.ctx, did, false)
	core.Must(err)
	return d
}

// c05Populate runs the deterministic setup script on node n (also used for the remote node of
// the merge entries).
func c05Populate(ctx context.Context, n *core.Node, p c05Params, docs []map[string]any) (ids, live, deleted []string) {
	_, err := n.DB.AddSchema(ctx, c05SDL(p.Config))
	core.Must(err)
	col := n.Col(ctx, "Doc")
	for _, m := range docs {
		d, err := client.NewDocFromMap(m, col.Definition())
		core.Must(err)
		core.Must(col.Create(ctx, d))
		ids = append(ids, d.ID().String())
	}
	if len(ids) >= 2 {
		// a document with history (height 2, counter incremented)
		did, _ := client.NewDocIDFromString(ids[1])
		d, err := col.Get(ctx, did, false)
		core.Must(err)
		core.Must(d.Set("f", 7.5))
		core.Must(d.Set("n", 2))
		core.Must(col.Update(ctx, d))
	}
	live = append(live, ids...)
	if len(ids) >= 3 {
		// a deleted document
		last := ids[len(ids)-1]
		did, _ := client.NewDocIDFromString(last)
		_, err := col.Delete(ctx, did)
		core.Must(err)
		live = live[:len(live)-1]
		deleted = append(deleted, last)
	}
	return
}

func c05NewEnv(ctx context.Context, p c05Params, docs []map[string]any, op *c05Op) *c05Env {
	e := &c05Env{ctx: ctx, p: p, docs: docs, vars: map[string]string{}}
	e.n = fastNode(ctx, core.NodeOpts{Fault: true})
	e.ids, e.live, e.deleted = c05Populate(ctx, e.n, p, docs)
	e.col = e.n.Col(ctx, "Doc")
	if op != nil {
		e.probes = op.Probes
	}
	if op != nil && op.Setup != nil {
		op.Setup(e)
		e.col = e.n.Col(ctx, "Doc")
	}
	e.rec = core.NewBusRecorder(e.n.DB.Events(), nil, event.UpdateName)
	e.rec.Barrier()
	return e
}

func (e *c05Env) tmpDir() string {
	if e.tmp == "" {
		d, err := os.MkdirTemp(core.WorkDir("C05-tmp"), "c")
		core.Must(err)
		e.tmp = d
	}
	return e.tmp
}

// ---------------------------------------------------------------------------------------
// catalogue

type c05Op struct {
	Name    string
	Sig     string   // name used in violation signatures (default: Name); variants of one call share it
	Probes  []string // extra requests whose answer (data or error) is part of the logical dump
	MinDocs int
	Configs []string // nil = every configuration
	// Setup: further deterministic preparation of the node (unarmed, before the pre-state).
	Setup func(e *c05Env)
	// Prepare: unarmed preparation of the arguments; returns the call that runs armed.
	Prepare func(e *c05Env) func() error
}

func gqlErr(e *c05Env, req string) error {
	res := e.n.DB.ExecRequest(e.ctx, req)
	if len(res.GQL.Errors) > 0 {
		return res.GQL.Errors[0]
	}
	return nil
}

func c05NewDocMap(k int) map[string]any {
	return map[string]any{"name": fmt.Sprintf("new%d", k), "s": []string{"a", "b", "c"}[k%3], "i": 1 + k%2, "u": 900 + k, "f": 0.5, "n": 1, "p": 2}
}

func c05GQLInput(m map[string]any) string {
	var ks []string
	for k := range m {
		ks = append(ks, k)
	}
	sort.Strings(ks)
	var parts []string
	for _, k := range ks {
		b, _ := json.Marshal(m[k])
		parts = append(parts, k+": "+string(b))
	}
	return "{" + strings.Join(parts, ", ") + "}"
}

func c05AddFieldPatch(col, field string) string {
	return fmt.Sprintf(`[{"op":"add","path":"/%s/Fields/-","value":{"Name":%q,"Kind":"String"}}]`, col, field)
}

func c05ImportFile(e *c05Env, extraDup bool) string {
	p := filepath.Join(e.tmpDir(), "import.json")
	docs := []map[string]any{}
	for k := 0; k < 3; k++ {
		m := c05NewDocMap(10 + k)
		docs = append(docs, m)
	}
	if extraDup && len(e.docs) > 0 {
		docs = append(docs, e.docs[0])
	}
	b, _ := json.Marshal(map[string]any{"Doc": docs, "Aux": []map[string]any{{"x": "imp"}}})
	// BasicImport iterates the JSON object in file order; encoding/json sorts map keys: Aux, Doc.
	core.Must(os.WriteFile(p, b, 0o644))
	return p
}

// c05SetupRemote builds a second node with the same contents and lets it author further commits
// on document `target`; the closure of the resulting head is copied into the node under test.
func c05SetupRemote(e *c05Env, known bool, concurrent ...bool) {
	ctx := e.ctx
	r := fastNode(ctx, core.NodeOpts{})
	e.remote = r
	var docID string
	rcol := func() client.Collection { return r.Col(ctx, "Doc") }
	if known {
		// the same prior contents on both sides: the genesis commits are content-addressed, but
		// counters carry random nonces, so the remote learns the document from the node under test.
		_, err := r.DB.AddSchema(ctx, c05SDL(e.p.Config))
		core.Must(err)
		docID = e.live[0]
		heads := e.n.CompositeHeads(ctx, docID)
		for _, h := range heads {
			c := core.ParseCid(h)
			core.CopyClosure(ctx, e.n, r, c)
			core.Must(r.Merge(ctx, docID, c, e.col.Version().CollectionID))
		}
		did, _ := client.NewDocIDFromString(docID)
		d, err := rcol().Get(ctx, did, false)
		core.Must(err)
		core.Must(d.Set("s", "b"))
		core.Must(d.Set("i", 2))
		core.Must(d.Set("f", 3.25))
		core.Must(d.Set("n", 3))
		core.Must(rcol().Update(ctx, d))
		d, err = rcol().Get(ctx, did, false)
		core.Must(err)
		core.Must(d.Set("s", "a"))
		core.Must(d.Set("p", 1))
		core.Must(rcol().Update(ctx, d))
	} else {
		_, err := r.DB.AddSchema(ctx, c05SDL(e.p.Config))
		core.Must(err)
		d, err := client.NewDocFromMap(c05NewDocMap(50), rcol().Definition())
		core.Must(err)
		core.Must(rcol().Create(ctx, d))
		docID = d.ID().String()
		core.Must(d.Set("s", "b"))
		core.Must(d.Set("n", 2))
		core.Must(rcol().Update(ctx, d))
	}
	heads := r.CompositeHeads(ctx, docID)
	if len(heads) != 1 {
		panic(fmt.Sprintf("remote has %d heads", len(heads)))
	}
	c := core.ParseCid(heads[0])
	core.CopyClosure(ctx, r, e.n, c)
	e.vars["mergeDoc"] = docID
	e.vars["mergeCid"] = heads[0]
	if len(concurrent) > 0 && concurrent[0] {
		// the receiver moves on by itself: the remote commits fork from a commit that is known
		// but no longer a head, so merging them adds heads instead of replacing one
		d := e.getDoc(docID)
		core.Must(d.Set("i", 9))
		core.Must(d.Set("s", "c"))
		core.Must(d.Set("n", 1))
		core.Must(e.col.Update(ctx, d))
	}
}

// relation fixtures: a one-to-one relation (Owner is the primary side). Creating / updating an Owner
// with pet_id set runs a selection plan inside the mutation (validateOneToOneLinkDoesntAlreadyExist),
// and filters through the relation build type-join plans with child scan nodes.
const c05RelSDL = `type Owner { name: String  age: Int  pet: Pet @primary @relation(name: "owner_pet") }
type Pet { name: String  owner: Owner @relation(name: "owner_pet") }`

var c05ProbeRel = `query { Owner(showDeleted: true) { _docID _deleted name age pet { name } } Pet { _docID name owner { name } } }`

func c05SetupRel(e *c05Env) {
	_, err := e.n.DB.AddSchema(e.ctx, c05RelSDL)
	core.Must(err)
	pet := e.n.Col(e.ctx, "Pet")
	own := e.n.Col(e.ctx, "Owner")
	for k := 0; k < 3; k++ {
		d, err := client.NewDocFromMap(map[string]any{"name": fmt.Sprintf("p%d", k)}, pet.Definition())
		core.Must(err)
		core.Must(pet.Create(e.ctx, d))
		e.vars[fmt.Sprintf("pet%d", k)] = d.ID().String()
	}
	for k := 0; k < 2; k++ {
		d, err := client.NewDocFromMap(map[string]any{"name": fmt.Sprintf("o%d", k), "age": 30 + k, "pet_id": e.vars[fmt.Sprintf("pet%d", k)]}, own.Definition())
		core.Must(err)
		core.Must(own.Create(e.ctx, d))
		e.vars[fmt.Sprintf("owner%d", k)] = d.ID().String()
	}
}

var c05Catalogue = []*c05Op{
	{Name: "rel_create_one_to_one", Sig: "via-relation", Configs: []string{"plain", "indexed"}, Probes: []string{c05ProbeRel}, Setup: c05SetupRel,
		Prepare: func(e *c05Env) func() error {
			own := e.n.Col(e.ctx, "Owner")
			d, err := client.NewDocFromMap(map[string]any{"name": "o-new", "age": 40, "pet_id": e.vars["pet2"]}, own.Definition())
			core.Must(err)
			return func() error { return own.Create(e.ctx, d) }
		}},
	{Name: "rel_gql_update_filter_join", Sig: "via-relation", Configs: []string{"plain", "indexed"}, Probes: []string{c05ProbeRel}, Setup: c05SetupRel,
		Prepare: func(e *c05Env) func() error {
			req := `mutation { update_Owner(filter: {pet: {name: {_ne: "p1"}}}, input: {age: 50}) { _docID } }`
			return func() error { return gqlErr(e, req) }
		}},
	{Name: "rel_gql_delete_filter_join", Sig: "via-relation", Configs: []string{"plain", "indexed"}, Probes: []string{c05ProbeRel}, Setup: c05SetupRel,
		Prepare: func(e *c05Env) func() error {
			req := `mutation { delete_Pet(filter: {owner: {age: {_ge: 31}}}) { _docID } }`
			return func() error { return gqlErr(e, req) }
		}},
	{Name: "create", Prepare: func(e *c05Env) func() error {
		d := e.newDoc(c05NewDocMap(0))
		return func() error { return e.col.Create(e.ctx, d) }
	}},
	{Name: "create_many", Prepare: func(e *c05Env) func() error {
		ds := []*client.Document{e.newDoc(c05NewDocMap(0)), e.newDoc(c05NewDocMap(1)), e.newDoc(c05NewDocMap(2))}
		return func() error { return e.col.CreateMany(e.ctx, ds) }
	}},
	{Name: "update", MinDocs: 2, Prepare: func(e *c05Env) func() error {
		d := e.getDoc(e.live[1])
		core.Must(d.Set("s", "c"))
		core.Must(d.Set("i", 5))
		core.Must(d.Set("n", 4))
		core.Must(d.Set("f", nil))
		return func() error { return e.col.Update(e.ctx, d) }
	}},
	{Name: "update_one_field", Sig: "update", MinDocs: 1, Prepare: func(e *c05Env) func() error {
		d := e.getDoc(e.live[0])
		core.Must(d.Set("i", 7))
		return func() error { return e.col.Update(e.ctx, d) }
	}},
	{Name: "save_new", Prepare: func(e *c05Env) func() error {
		d := e.newDoc(c05NewDocMap(3))
		return func() error { return e.col.Save(e.ctx, d) }
	}},
	{Name: "save_existing", MinDocs: 1, Prepare: func(e *c05Env) func() error {
		d := e.getDoc(e.live[0])
		core.Must(d.Set("s", "c"))
		core.Must(d.Set("p", 2))
		return func() error { return e.col.Save(e.ctx, d) }
	}},
	{Name: "delete", MinDocs: 1, Prepare: func(e *c05Env) func() error {
		id := e.live[len(e.live)-1]
		did, _ := client.NewDocIDFromString(id)
		return func() error { _, err := e.col.Delete(e.ctx, did); return err }
	}},
	{Name: "update_filter", MinDocs: 2, Prepare: func(e *c05Env) func() error {
		return func() error {
			_, err := e.col.UpdateWithFilter(e.ctx, `{name: {_ne: "zzz"}}`, `{"f": 9.5, "s": "b"}`)
			return err
		}
	}},
	{Name: "delete_filter", MinDocs: 2, Prepare: func(e *c05Env) func() error {
		return func() error {
			_, err := e.col.DeleteWithFilter(e.ctx, `{u: {_ge: 101}}`)
			return err
		}
	}},
	{Name: "gql_create", Prepare: func(e *c05Env) func() error {
		req := fmt.Sprintf(`mutation { create_Doc(input: [%s, %s]) { _docID } }`, c05GQLInput(c05NewDocMap(4)), c05GQLInput(c05NewDocMap(5)))
		return func() error { return gqlErr(e, req) }
	}},
	{Name: "gql_update_filter", MinDocs: 2, Prepare: func(e *c05Env) func() error {
		req := `mutation { update_Doc(filter: {u: {_ge: 100}}, input: {i: 9, n: 1}) { _docID } }`
		return func() error { return gqlErr(e, req) }
	}},
	{Name: "gql_update_id", MinDocs: 1, Prepare: func(e *c05Env) func() error {
		req := fmt.Sprintf(`mutation { update_Doc(docID: %q, input: {s: "c", f: 1.5}) { _docID } }`, e.live[0])
		return func() error { return gqlErr(e, req) }
	}},
	{Name: "gql_delete_filter", MinDocs: 2, Prepare: func(e *c05Env) func() error {
		req := `mutation { delete_Doc(filter: {name: {_ne: "d0"}}) { _docID } }`
		return func() error { return gqlErr(e, req) }
	}},
	{Name: "gql_delete_id", MinDocs: 1, Prepare: func(e *c05Env) func() error {
		req := fmt.Sprintf(`mutation { delete_Doc(docID: %q) { _docID } }`, e.live[0])
		return func() error { return gqlErr(e, req) }
	}},
	{Name: "gql_upsert_create", Prepare: func(e *c05Env) func() error {
		req := fmt.Sprintf(`mutation { upsert_Doc(filter: {name: {_eq: "new6"}}, create: %s, update: {i: 3}) { _docID } }`, c05GQLInput(c05NewDocMap(6)))
		return func() error { return gqlErr(e, req) }
	}},
	{Name: "gql_upsert_update", MinDocs: 1, Prepare: func(e *c05Env) func() error {
		req := fmt.Sprintf(`mutation { upsert_Doc(filter: {name: {_eq: "d0"}}, create: %s, update: {i: 3, s: "c"}) { _docID } }`, c05GQLInput(c05NewDocMap(6)))
		return func() error { return gqlErr(e, req) }
	}},
	{Name: "gql_multi", MinDocs: 2, Prepare: func(e *c05Env) func() error {
		req := fmt.Sprintf(`mutation { a: create_Doc(input: %s) { _docID } b: update_Doc(docID: %q, input: {i: 8}) { _docID } c: delete_Doc(docID: %q) { _docID } }`,
			c05GQLInput(c05NewDocMap(7)), e.live[0], e.live[1])
		return func() error { return gqlErr(e, req) }
	}},
	{Name: "create_index", Prepare: func(e *c05Env) func() error {
		return func() error {
			_, err := e.col.CreateIndex(e.ctx, client.IndexCreateRequest{Name: "ix_f", Fields: []client.IndexedFieldDescription{{Name: "f"}}})
			return err
		}
	}},
	{Name: "create_index_unique", Sig: "create_index", Prepare: func(e *c05Env) func() error {
		return func() error {
			_, err := e.col.CreateIndex(e.ctx, client.IndexCreateRequest{Name: "ix_name", Unique: true, Fields: []client.IndexedFieldDescription{{Name: "name"}, {Name: "f"}}})
			return err
		}
	}},
	{Name: "drop_index",
		Setup: func(e *c05Env) {
			_, err := e.col.CreateIndex(e.ctx, client.IndexCreateRequest{Name: "ix_drop", Fields: []client.IndexedFieldDescription{{Name: "f"}}})
			core.Must(err)
		},
		Prepare: func(e *c05Env) func() error {
			return func() error { return e.col.DropIndex(e.ctx, "ix_drop") }
		}},
	{Name: "drop_index_sdl", Sig: "drop_index", Configs: []string{"indexed", "uniq", "brindexed"}, Prepare: func(e *c05Env) func() error {
		ixs, err := e.col.GetIndexes(e.ctx)
		core.Must(err)
		sort.Slice(ixs, func(a, b int) bool { return ixs[a].Name < ixs[b].Name })
		name := ixs[0].Name
		return func() error { return e.col.DropIndex(e.ctx, name) }
	}},
	{Name: "add_schema", Probes: []string{c05ProbeNew}, Prepare: func(e *c05Env) func() error {
		sdl := `type Author { name: String @index  books: [Book] }
type Book { title: String  pages: Int @crdt(type: pcounter)  author: Author }`
		return func() error { _, err := e.n.DB.AddSchema(e.ctx, sdl); return err }
	}},
	{Name: "patch_schema", Probes: []string{c05ProbeExtra}, Prepare: func(e *c05Env) func() error {
		patch := c05AddFieldPatch("Doc", "extra")
		return func() error { return e.n.DB.PatchSchema(e.ctx, patch, immutable.None[model.Lens](), true) }
	}},
	{Name: "patch_schema_inactive", Sig: "patch_schema", Probes: []string{c05ProbeExtra}, Prepare: func(e *c05Env) func() error {
		patch := c05AddFieldPatch("Doc", "extra")
		return func() error { return e.n.DB.PatchSchema(e.ctx, patch, immutable.None[model.Lens](), false) }
	}},
	{Name: "patch_collection", Probes: []string{c05ProbeAux}, Prepare: func(e *c05Env) func() error {
		aux := e.n.Col(e.ctx, "Aux")
		patch := fmt.Sprintf(`[{"op":"replace","path":"/%s/IsActive","value":false}]`, aux.VersionID())
		return func() error { return e.n.DB.PatchCollection(e.ctx, patch) }
	}},
	{Name: "set_active_new", Probes: []string{c05ProbeExtra},
		Setup: func(e *c05Env) {
			core.Must(e.n.DB.PatchSchema(e.ctx, c05AddFieldPatch("Doc", "extra"), immutable.None[model.Lens](), false))
		},
		Prepare: func(e *c05Env) func() error {
			v := c05OtherVersion(e, false)
			return func() error { return e.n.DB.SetActiveSchemaVersion(e.ctx, v) }
		}},
	{Name: "set_active_root", Probes: []string{c05ProbeExtra},
		Setup: func(e *c05Env) {
			core.Must(e.n.DB.PatchSchema(e.ctx, c05AddFieldPatch("Doc", "extra"), immutable.None[model.Lens](), true))
		},
		Prepare: func(e *c05Env) func() error {
			v := c05OtherVersion(e, true)
			return func() error { return e.n.DB.SetActiveSchemaVersion(e.ctx, v) }
		}},
	{Name: "import", Probes: []string{c05ProbeAux}, Prepare: func(e *c05Env) func() error {
		p := c05ImportFile(e, false)
		return func() error { return e.n.DB.BasicImport(e.ctx, p) }
	}},
	{Name: "merge_new",
		Setup: func(e *c05Env) { c05SetupRemote(e, false) },
		Prepare: func(e *c05Env) func() error {
			c := core.ParseCid(e.vars["mergeCid"])
			return func() error { return e.n.Merge(e.ctx, e.vars["mergeDoc"], c, e.col.Version().CollectionID) }
		}},
	{Name: "merge_concurrent", MinDocs: 1,
		Setup: func(e *c05Env) { c05SetupRemote(e, true, true) },
		Prepare: func(e *c05Env) func() error {
			c := core.ParseCid(e.vars["mergeCid"])
			return func() error { return e.n.Merge(e.ctx, e.vars["mergeDoc"], c, e.col.Version().CollectionID) }
		}},
	{Name: "merge_update", MinDocs: 1,
		Setup: func(e *c05Env) { c05SetupRemote(e, true) },
		Prepare: func(e *c05Env) func() error {
			c := core.ParseCid(e.vars["mergeCid"])
			return func() error { return e.n.Merge(e.ctx, e.vars["mergeDoc"], c, e.col.Version().CollectionID) }
		}},
}

// c05OtherVersion returns the version id of Doc that is currently inactive (wantRoot: the one
// without sources).
func c05OtherVersion(e *c05Env, wantRoot bool) string {
	cols, err := e.n.DB.GetCollections(e.ctx, client.CollectionFetchOptions{IncludeInactive: immutable.Some(true)})
	core.Must(err)
	for _, c := range cols {
		v := c.Version()
		if v.IsActive || v.Name != "Doc" {
			continue
		}
		if wantRoot == (len(v.Sources) == 0) {
			return v.VersionID
		}
	}
	panic("no inactive version of Doc found")
}

func c05FindOp(name string) *c05Op {
	for _, o := range c05Catalogue {
		if o.Name == name {
			return o
		}
	}
	return nil
}

func c05OpApplies(o *c05Op, config string) bool {
	if o.Configs == nil {
		return true
	}
	for _, c := range o.Configs {
		if c == config {
			return true
		}
	}
	return false
}

// ---------------------------------------------------------------------------------------
// snapshots

type c05Snap struct {
	Raw   map[string]string // judged: /db/data /db/heads /db/blocks /db/system without sequences
	Seq   map[string]string // /db/system/seq/... (reported, not judged)
	Log   string            // logical dump through the API, with cids
	LogCF string            // cid-free logical dump (comparable across executions)
}

const c05SeqPrefix = "/db/system/seq"

func c05DocFields(config string) string {
	return "_docID _deleted name s i u f n p _version { cid height }"
}

var (
	c05ProbeAux   = `query { Aux { _docID x } }`
	c05ProbeExtra = `query { Doc { _docID extra } }`
	c05ProbeNew   = `query { Author { _docID name books { title } } Book { _docID title pages } }`
)

func c05TakeSnap(e *c05Env) c05Snap {
	ctx := e.ctx
	s := c05Snap{Raw: map[string]string{}, Seq: map[string]string{}}
	for _, pre := range []string{"/db/data", "/db/heads", "/db/blocks", "/db/system"} {
		for k, v := range e.n.RawScan(ctx, pre) {
			if strings.HasPrefix(k, c05SeqPrefix) {
				s.Seq[k] = v
			} else {
				s.Raw[k] = v
			}
		}
	}
	s.Log, s.LogCF = c05Logical(e)
	s.LogCF += "\nheads:" + c05HeadsShape(s.Raw)
	return s
}

func c05Logical(e *c05Env) (string, string) {
	ctx := e.ctx
	dump := map[string]any{}
	reqs := append([]string{
		`query { Doc(showDeleted: true) { ` + c05DocFields(e.p.Config) + ` } commits { cid height docID fieldName delta links { cid name } } }`,
	}, e.probes...)
	for i, q := range reqs {
		res := e.n.DB.ExecRequest(ctx, q)
		var errs []string
		for _, x := range res.GQL.Errors {
			errs = append(errs, x.Error())
		}
		b, _ := json.Marshal(res.GQL.Data)
		var v any
		dec := json.NewDecoder(strings.NewReader(string(b)))
		dec.UseNumber()
		_ = dec.Decode(&v)
		name := "documents-and-commits"
		if i > 0 {
			name = "probe:" + q
		}
		dump[name] = map[string]any{"data": v, "errors": errs}
	}
	cols, err := e.n.DB.GetCollections(ctx, client.CollectionFetchOptions{IncludeInactive: immutable.Some(true)})
	if err != nil {
		dump["collections_err"] = err.Error()
	}
	var cl []string
	for _, c := range cols {
		b, _ := json.Marshal(map[string]any{"version": c.Version(), "schema": c.Schema()})
		cl = append(cl, string(b))
	}
	sort.Strings(cl)
	dump["collections"] = cl
	schemas, err := e.n.DB.GetSchemas(ctx, client.SchemaFetchOptions{})
	if err != nil {
		dump["schemas_err"] = err.Error()
	}
	var sl []string
	for _, sc := range schemas {
		b, _ := json.Marshal(sc)
		sl = append(sl, string(b))
	}
	sort.Strings(sl)
	dump["schemas"] = sl
	ixs, err := e.n.DB.GetAllIndexes(ctx)
	if err != nil {
		dump["indexes_err"] = err.Error()
	}
	dump["indexes"] = ixs
	// the collection handle the caller holds (obtained before the operation) is part of what the
	// caller sees: its index list decides which index entries later writes through it maintain
	if hix, err := e.col.GetIndexes(ctx); err == nil {
		dump["handle_indexes"] = hix
	}
	withCids := core.Canon(c05Normalize(dump, false))
	cidFree := core.Canon(c05Normalize(dump, true))
	return withCids, cidFree
}

// c05Normalize sorts every list of objects by canonical rendering (result order is not the
// subject of C05) and, for the cid-free variant, drops every "cid" member.
func c05Normalize(v any, dropCid bool) any {
	b, _ := json.Marshal(v)
	var x any
	dec := json.NewDecoder(strings.NewReader(string(b)))
	dec.UseNumber()
	_ = dec.Decode(&x)
	var walk func(v any) any
	walk = func(v any) any {
		switch t := v.(type) {
		case map[string]any:
			out := map[string]any{}
			for k, e := range t {
				if dropCid && k == "cid" {
					continue
				}
				out[k] = walk(e)
			}
			return out
		case []any:
			out := make([]any, len(t))
			objs := len(t) > 0
			for i, e := range t {
				out[i] = walk(e)
				if _, ok := out[i].(map[string]any); !ok {
					objs = false
				}
			}
			if objs {
				sort.SliceStable(out, func(a, b int) bool { return core.Canon(out[a]) < core.Canon(out[b]) })
			}
			return out
		}
		return v
	}
	return walk(x)
}

// c05HeadsShape renders the head sets without cids: one "<doc or collection>/<field>:<stored height>"
// entry per head, sorted. Reproducible across executions, unlike the head cids.
func c05HeadsShape(raw map[string]string) string {
	var out []string
	for k, v := range raw {
		if !strings.HasPrefix(k, "/db/heads/") {
			continue
		}
		i := strings.LastIndex(k, "/")
		out = append(out, fmt.Sprintf("%s:%x", k[len("/db/heads/"):i], v))
	}
	sort.Strings(out)
	return strings.Join(out, " ")
}

func c05DiffKeys(a, b map[string]string, limit int) []string {
	var out []string
	for k, v := range a {
		if w, ok := b[k]; !ok {
			out = append(out, "removed "+c05Printable(k))
		} else if w != v {
			out = append(out, "changed "+c05Printable(k))
		}
	}
	for k := range b {
		if _, ok := a[k]; !ok {
			out = append(out, "added "+c05Printable(k))
		}
	}
	sort.Strings(out)
	if len(out) > limit {
		out = append(out[:limit], fmt.Sprintf("... %d more", len(out)-limit))
	}
	return out
}

func c05Printable(k string) string {
	var sb strings.Builder
	for _, c := range []byte(k) {
		if c >= 32 && c < 127 {
			sb.WriteByte(c)
		} else {
			fmt.Fprintf(&sb, "\\x%02x", c)
		}
	}
	return sb.String()
}

// c05StoreClass classifies the changed keys of a raw diff by sub-store (for signatures).
func c05DiffClass(a, b map[string]string) string {
	set := map[string]bool{}
	mark := func(k string) {
		switch {
		case strings.HasPrefix(k, "/db/data"):
			set["data"] = true
		case strings.HasPrefix(k, "/db/heads"):
			set["heads"] = true
		case strings.HasPrefix(k, "/db/blocks"):
			set["blocks"] = true
		case strings.HasPrefix(k, "/db/system"):
			set["system"] = true
		}
	}
	for k, v := range a {
		if w, ok := b[k]; !ok || w != v {
			mark(k)
		}
	}
	for k := range b {
		if _, ok := a[k]; !ok {
			mark(k)
		}
	}
	var ks []string
	for k := range set {
		ks = append(ks, k)
	}
	sort.Strings(ks)
	return strings.Join(ks, "+")
}

func c05SubRaw(m map[string]string, prefixes ...string) map[string]string {
	out := map[string]string{}
	for k, v := range m {
		for _, p := range prefixes {
			if strings.HasPrefix(k, p) {
				out[k] = v
			}
		}
	}
	return out
}

// ---------------------------------------------------------------------------------------
// one execution

type c05Exec struct {
	Err      error
	Panic    string
	Ops      []core.KVOp
	Fired    bool
	FailedOp core.KVOp
	Events   []string // docID per update event ("" = collection-level), sorted
	Pre      c05Snap
	Post     c05Snap
	RetryErr error
	Retried  bool
	RetryEv  []string
	RetrySt  c05Snap
	IndexBad []string
}

func c05EventIDs(evs []core.BusEvent) []string {
	var out []string
	for _, ev := range evs {
		if ev.Name == event.UpdateName {
			out = append(out, ev.DocID)
		}
	}
	sort.Strings(out)
	return out
}

// c05CallGuarded runs f and converts a panic into a string (first line + stack).
func c05CallGuarded(f func() error) (err error, pan string) {
	defer func() {
		if p := recover(); p != nil {
			buf := make([]byte, 16<<10)
			buf = buf[:runtime.Stack(buf, false)]
			pan = fmt.Sprintf("%v\n%s", p, buf)
		}
	}()
	return f(), ""
}

func c05PanicFrame(stack string) string {
	for _, l := range strings.Split(stack, "\n") {
		l = strings.TrimSpace(l)
		if strings.HasPrefix(l, "github.com/sourcenetwork/defradb/") && !strings.Contains(l, "verifharness") {
			if i := strings.LastIndex(l, "("); i > 0 {
				l = l[:i]
			}
			return strings.TrimPrefix(l, "github.com/sourcenetwork/defradb/")
		}
	}
	return "unknown-frame"
}

// c05Execute: fresh node, setup, pre-state, arm(k), op, disarm, barrier, post-state; when the
// operation failed, it is executed once more without a fault (retry) on the same node.
func c05Execute(ctx context.Context, p c05Params, docs []map[string]any, op *c05Op, run func(e *c05Env) func() error, k int, retry bool, indexCheck bool) *c05Exec {
	e := c05NewEnv(ctx, p, docs, op)
	defer e.close()
	x := &c05Exec{}
	call := run(e)
	x.Pre = c05TakeSnap(e)
	ev0 := e.rec.Len()
	e.n.Fault.Arm(k)
	x.Err, x.Panic = c05CallGuarded(call)
	x.Ops, x.Fired = e.n.Fault.Disarm()
	x.FailedOp = e.n.Fault.FailedOp
	e.rec.Barrier()
	x.Events = c05EventIDs(e.rec.Events()[ev0:])
	x.Post = c05TakeSnap(e)
	if indexCheck && x.Err == nil && x.Panic == "" {
		x.IndexBad = c05IndexVsScan(e)
	}
	if retry && x.Err != nil && x.Panic == "" {
		ev1 := e.rec.Len()
		call2 := run(e)
		x.RetryErr, x.Panic = c05CallGuarded(call2)
		x.Retried = true
		e.rec.Barrier()
		x.RetryEv = c05EventIDs(e.rec.Events()[ev1:])
		x.RetrySt = c05TakeSnap(e)
	}
	return x
}

// c05IndexVsScan: for every indexed field and every value of its small domain, the index-backed
// query must return the documents a full scan (evaluated here) selects.
func c05IndexVsScan(e *c05Env) []string {
	if !c05Indexed(e.p.Config) {
		return nil
	}
	rows, err := e.n.Rows(e.ctx, `query { Doc { _docID s i u } }`, "Doc")
	if err != nil {
		return []string{"scan failed: " + err.Error()}
	}
	var bad []string
	check := func(field string, lit string, match func(v any) bool) {
		got, err := e.n.Rows(e.ctx, fmt.Sprintf(`query { Doc(filter: {%s: {_eq: %s}}) { _docID } }`, field, lit), "Doc")
		if err != nil {
			bad = append(bad, fmt.Sprintf("%s=%s: %v", field, lit, err))
			return
		}
		var g, w []string
		for _, r := range got {
			g = append(g, fmt.Sprint(r["_docID"]))
		}
		for _, r := range rows {
			if match(r[field]) {
				w = append(w, fmt.Sprint(r["_docID"]))
			}
		}
		sort.Strings(g)
		sort.Strings(w)
		if strings.Join(g, ",") != strings.Join(w, ",") {
			bad = append(bad, fmt.Sprintf("%s=%s: index-backed %v, scan %v", field, lit, g, w))
		}
	}
	for _, sv := range []string{"a", "b", "c"} {
		sv := sv
		check("s", fmt.Sprintf("%q", sv), func(v any) bool { s, ok := v.(string); return ok && s == sv })
	}
	check("s", "null", func(v any) bool { return v == nil })
	if e.p.Config == "indexed" || e.p.Config == "brindexed" {
		for _, iv := range []string{"1", "2", "5", "7", "8", "9", "3"} {
			iv := iv
			check("i", iv, func(v any) bool { n, ok := v.(json.Number); return ok && n.String() == iv })
		}
		check("i", "null", func(v any) bool { return v == nil })
	}
	if e.p.Config == "uniq" {
		seen := map[string]bool{}
		for _, r := range rows {
			if n, ok := r["u"].(json.Number); ok && !seen[n.String()] {
				seen[n.String()] = true
				uv := n.String()
				check("u", uv, func(v any) bool { n, ok := v.(json.Number); return ok && n.String() == uv })
			}
		}
	}
	return bad
}

// ---------------------------------------------------------------------------------------
// case: one catalogue entry under fault enumeration

func c05KindsKey(ops []core.KVOp) string {
	var sb strings.Builder
	for _, o := range ops {
		sb.WriteString(o.Method)
		sb.WriteByte(':')
		sb.WriteString(o.Store)
		sb.WriteByte(' ')
	}
	return sb.String()
}

func c05ChooseKs(rng *rand.Rand, ops []core.KVOp, p c05Params) []int {
	n := len(ops)
	if p.AllK {
		var ks []int
		for k := 1; k <= n; k++ {
			if p.KMod <= 1 || k%p.KMod == p.KRem {
				ks = append(ks, k)
			}
		}
		return ks
	}
	set := map[int]bool{1: true, n: true}
	first := map[core.KVOp]bool{}
	last := map[core.KVOp]int{}
	for i, o := range ops {
		if !first[o] {
			first[o] = true
			set[i+1] = true
		}
		last[o] = i + 1
		// every write to the head store (few per operation; a lost head is invisible to reads)
		if o.Store == "heads" && (o.Method == "set" || o.Method == "del") {
			set[i+1] = true
		}
	}
	// the last occurrence of every (method, store) pair too: late faults are the ones that find
	// work already done
	for _, i := range last {
		set[i] = true
	}
	for i := 0; i < p.NRand && n > 0; i++ {
		set[1+rng.IntN(n)] = true
	}
	var ks []int
	for k := range set {
		if k >= 1 && k <= n {
			ks = append(ks, k)
		}
	}
	sort.Ints(ks)
	return ks
}

func runC05Fault(ctx context.Context, c core.Case, r *core.Rec) {
	var p c05Params
	c.P(&p)
	rng := rand.New(rand.NewPCG(c.Seed, 0xC05)) // not c.Rng(): the k-chunks of one (entry, contents) share the seed, not the index
	op := c05FindOp(p.Op)
	if op == nil {
		panic("unknown catalogue entry " + p.Op)
	}
	docs := c05GenDocs(rng, p.NDocs)
	run := func(e *c05Env) func() error { return op.Prepare(e) }
	sg := op.Sig
	if sg == "" {
		sg = op.Name
	}

	// --- dry runs
	d1 := c05Execute(ctx, p, docs, op, run, 0, false, true)
	d2 := c05Execute(ctx, p, docs, op, run, 0, false, false)
	r.Count("dry_runs", 2)
	base := map[string]any{"op": p.Op, "config": p.Config, "ndocs": p.NDocs, "docs": docs}
	if d1.Panic != "" || d2.Panic != "" {
		st := d1.Panic + d2.Panic
		r.Violate("panic/no-fault/"+c05PanicFrame(st), fmt.Sprintf("%s (%s, %d docs) panics without any fault: %s", p.Op, p.Config, p.NDocs, strings.SplitN(st, "\n", 2)[0]), map[string]any{"case": base, "stack": st})
		return
	}
	if d1.Err != nil || d2.Err != nil {
		// the catalogue entry is meant to succeed without a fault; if it does not, the harness is wrong
		panic(fmt.Sprintf("catalogue entry %s/%s/%d fails without a fault: %v / %v", p.Op, p.Config, p.NDocs, d1.Err, d2.Err))
	}
	if len(d1.IndexBad) > 0 {
		r.Violate("no-fault/index-query-differs-from-scan", fmt.Sprintf("%s (%s): after the fault-free operation an index-backed query disagrees with a scan: %s", p.Op, p.Config, d1.IndexBad[0]), map[string]any{"case": base, "diffs": d1.IndexBad})
	}
	N := len(d1.Ops)
	cmpLogical := d1.Post.LogCF == d2.Post.LogCF
	cmpData := c05SameMap(c05SubRaw(d1.Post.Raw, "/db/data", "/db/system"), c05SubRaw(d2.Post.Raw, "/db/data", "/db/system"))
	cmpEvents := strings.Join(d1.Events, ",") == strings.Join(d2.Events, ",")
	sameN := len(d2.Ops) == N
	sameKinds := c05KindsKey(d1.Ops) == c05KindsKey(d2.Ops)
	if !sameN {
		r.Note("dryrun_opcount_differs/" + p.Op)
		r.Count("dryrun_opcount_differs", 1)
	}
	if !sameKinds {
		r.Count("dryrun_oporder_differs", 1)
	}
	if !cmpLogical {
		r.Note("dryrun_logical_state_not_reproducible/" + p.Op)
	}
	if !cmpData {
		r.Note("dryrun_raw_data_not_reproducible/" + p.Op)
	}
	if !cmpEvents {
		r.Note("dryrun_events_not_reproducible/" + p.Op)
	}
	if d1.Post.Log == d1.Pre.Log && c05SameMap(d1.Pre.Raw, d1.Post.Raw) {
		panic(fmt.Sprintf("catalogue entry %s/%s/%d has no effect", p.Op, p.Config, p.NDocs))
	}
	r.Count("storage_ops_in_dry_runs", int64(N))

	ks := c05ChooseKs(rng, d1.Ops, p)
	r.Sample(map[string]any{"case": base, "storage_ops": N, "ks": len(ks), "events_ok": d1.Events})

	sawErr, sawCommit := false, false
	evalK := func(k int) {
		x := c05Execute(ctx, p, docs, op, run, k, true, true)
		r.Count("evaluations", 1)
		det := func() map[string]any {
			m := map[string]any{"case": base, "k": k, "storage_ops_dry_run": N, "failed_op": x.FailedOp, "fault_fired": x.Fired,
				"error": fmt.Sprint(x.Err), "events": x.Events, "events_dry_run": d1.Events, "ops_before_fault": c05KindsKey(x.Ops)}
			return m
		}
		if x.Panic != "" && !x.Retried {
			r.Violate("panic/faulted/"+c05PanicFrame(x.Panic)+"/"+sg, fmt.Sprintf("%s (%s): panic with the %d-th storage operation (%s %s) failing: %s", p.Op, p.Config, k, x.FailedOp.Method, x.FailedOp.Store, strings.SplitN(x.Panic, "\n", 2)[0]),
				map[string]any{"detail": det(), "stack": x.Panic})
			return
		}
		if !x.Fired {
			// op-count differs from the dry run (e.g. map iteration order): not judged
			r.Count("fault_not_reached", 1)
			return
		}
		r.Count("fault_reached", 1)
		if k <= len(d1.Ops) && x.FailedOp != d1.Ops[k-1] {
			r.Count("fault_hit_other_op_than_dry_run", 1)
		}
		r.Count("fault:"+x.FailedOp.Method+"/"+x.FailedOp.Store, 1)
		if x.FailedOp.Method == "commit" {
			sawCommit = true
		}
		outcome := "error"
		if x.Err == nil {
			outcome = "success"
		}
		r.Nontrivial(fmt.Sprintf("%s|%s|%s|%s", p.Op, x.FailedOp.Method, x.FailedOp.Store, outcome))
		fo := x.FailedOp.Method + "-" + x.FailedOp.Store

		if x.Err != nil {
			sawErr = true
			r.Count("outcome_error", 1)
			if !errors.Is(x.Err, core.ErrInjected) && !strings.Contains(x.Err.Error(), core.ErrInjected.Error()) {
				r.Count("error_does_not_mention_injected_fault", 1)
			}
			stateBad := false
			if !c05SameMap(x.Pre.Raw, x.Post.Raw) {
				stateBad = true
				cls := c05DiffClass(x.Pre.Raw, x.Post.Raw)
				m := det()
				m["raw_diff"] = c05DiffKeys(x.Pre.Raw, x.Post.Raw, 30)
				r.Violate("error-but-store-changed/"+sg, fmt.Sprintf("%s (%s) returned an error (%v) with storage operation %d (%s) failing, but the store changed (%s)", p.Op, p.Config, x.Err, k, fo, cls), m)
			} else if x.Pre.Log != x.Post.Log {
				stateBad = true
				m := det()
				m["logical_before"], m["logical_after"] = x.Pre.Log, x.Post.Log
				sec := c05ChangedSections(x.Pre.Log, x.Post.Log)
				r.Violate("error-but-visible-state-changed/"+sg+"/"+sec, fmt.Sprintf("%s (%s) returned an error (%v) with storage operation %d (%s) failing; the store is unchanged but the API shows a different state (%s)", p.Op, p.Config, x.Err, k, fo, sec), m)
			}
			if !c05SameMap(x.Pre.Seq, x.Post.Seq) {
				r.Note("sequence_counter_advanced_by_failed_operation")
			}
			if len(x.Events) > 0 {
				r.Violate("error-but-update-event/"+sg, fmt.Sprintf("%s (%s) returned an error (%v) but %d update event(s) were published", p.Op, p.Config, x.Err, len(x.Events)), det())
			}
			// retry on the same node without a fault: must now behave like the dry run
			if x.Retried && !stateBad {
				r.Count("retries", 1)
				switch {
				case x.Panic != "":
					r.Violate("panic/retry-after-error/"+c05PanicFrame(x.Panic)+"/"+sg, fmt.Sprintf("%s (%s): repeating the operation after a failed attempt (fault at op %d, %s) panics", p.Op, p.Config, k, fo), map[string]any{"detail": det(), "stack": x.Panic})
				case x.RetryErr != nil:
					m := det()
					m["retry_error"] = x.RetryErr.Error()
					r.Violate("retry-after-error-fails/"+sg, fmt.Sprintf("%s (%s): after a failed attempt (fault at op %d, %s: %v) the same operation without a fault fails: %v — the failed attempt left something behind", p.Op, p.Config, k, fo, x.Err, x.RetryErr), m)
				default:
					if cmpLogical && x.RetrySt.LogCF != d1.Post.LogCF {
						m := det()
						m["expected"], m["got"] = d1.Post.LogCF, x.RetrySt.LogCF
						r.Violate("retry-after-error-differs/"+sg, fmt.Sprintf("%s (%s): after a failed attempt (fault at op %d, %s) the repeated operation succeeds but the state differs from the fault-free run", p.Op, p.Config, k, fo), m)
					}
					if cmpEvents && strings.Join(x.RetryEv, ",") != strings.Join(d1.Events, ",") {
						m := det()
						m["retry_events"] = x.RetryEv
						r.Violate("retry-after-error-events-differ/"+sg, fmt.Sprintf("%s (%s): the repeated operation published %d update events, the fault-free run %d", p.Op, p.Config, len(x.RetryEv), len(d1.Events)), m)
					}
				}
			}
			return
		}

		// success although a storage operation failed
		r.Count("outcome_success_despite_fault", 1)
		r.Count("tolerated:"+p.Op+"/"+fo, 1)
		partial := false
		if cmpLogical && x.Post.LogCF != d1.Post.LogCF {
			partial = true
			m := det()
			m["expected"], m["got"] = d1.Post.LogCF, x.Post.LogCF
			what := "part"
			if x.Post.Log == x.Pre.Log {
				what = "none"
			}
			r.Violate("success-but-effect-incomplete/"+sg, fmt.Sprintf("%s (%s) reported success although storage operation %d (%s) failed, and its effect is incomplete (%s of it is visible)", p.Op, p.Config, k, fo, what), m)
		}
		if !partial && cmpData {
			a, b := c05SubRaw(x.Post.Raw, "/db/data", "/db/system"), c05SubRaw(d1.Post.Raw, "/db/data", "/db/system")
			if !c05SameMap(a, b) {
				m := det()
				m["raw_diff_vs_dry_run"] = c05DiffKeys(b, a, 30)
				r.Violate("success-but-raw-data-differs/"+sg, fmt.Sprintf("%s (%s) reported success although storage operation %d (%s) failed; documents read the same but /db/data or /db/system differ from the fault-free run (index entries, descriptions)", p.Op, p.Config, k, fo), m)
			}
		}
		if !partial && cmpEvents && strings.Join(x.Events, ",") != strings.Join(d1.Events, ",") {
			r.Violate("success-but-events-differ/"+sg, fmt.Sprintf("%s (%s) reported success (fault at op %d, %s) with %d update events; the fault-free run publishes %d", p.Op, p.Config, k, fo, len(x.Events), len(d1.Events)), det())
		}
		if len(x.IndexBad) > 0 {
			m := det()
			m["diffs"] = x.IndexBad
			r.Violate("success-but-index-query-differs-from-scan/"+sg, fmt.Sprintf("%s (%s) reported success (fault at op %d, %s) and an index-backed query disagrees with a scan: %s", p.Op, p.Config, k, fo, x.IndexBad[0]), m)
		}
	}
	for _, k := range ks {
		evalK(k)
	}
	if !sawCommit && (!p.AllK || p.KMod <= 1 || N%p.KMod == p.KRem) {
		// the operation count is not the same in every execution (map iteration order inside the
		// operation): k = N did not land on the Commit. Probe around N until it does, so that the
		// "fault on Commit" floor of this entry does not depend on luck.
		r.Count("commit_position_searches", 1)
		for attempt := 0; attempt < 24 && !sawCommit; attempt++ {
			d := (attempt/2 + 1) / 2
			if attempt%2 == 1 {
				d = -d
			}
			if k := N + d; k >= 1 {
				evalK(k)
			}
		}
	}
	if sawErr {
		r.Count("entry_err:"+p.Op, 1)
	}
	if sawCommit {
		r.Count("entry_commit_fault:"+p.Op, 1)
	}
	if p.AllK && p.KRem == 0 {
		r.Count("entries_enumerated_exhaustively", 1)
	}
}

// c05ChangedSections names the top-level sections of the logical dump that differ.
func c05ChangedSections(a, b string) string {
	var ma, mb map[string]json.RawMessage
	_ = json.Unmarshal([]byte(a), &ma)
	_ = json.Unmarshal([]byte(b), &mb)
	names := map[string]string{"probe:" + c05ProbeAux: "probe-Aux", "probe:" + c05ProbeExtra: "probe-Doc.extra", "probe:" + c05ProbeNew: "probe-new-types"}
	var out []string
	for k, v := range ma {
		if string(mb[k]) != string(v) {
			n := k
			if x, ok := names[k]; ok {
				n = x
			}
			out = append(out, n)
		}
	}
	for k := range mb {
		if _, ok := ma[k]; !ok {
			out = append(out, k)
		}
	}
	sort.Strings(out)
	return strings.Join(out, "+")
}

func c05SameMap(a, b map[string]string) bool {
	if len(a) != len(b) {
		return false
	}
	for k, v := range a {
		if w, ok := b[k]; !ok || w != v {
			return false
		}
	}
	return true
}

// ---------------------------------------------------------------------------------------
// degenerate arguments (no fault): a panic is a violation; an error must leave everything as it was

type c05Degen struct {
	Name    string
	Op      string // catalogue entry it belongs to
	MinDocs int
	Configs []string
	Setup   func(e *c05Env)
	Prepare func(e *c05Env) func() error
}

func c05MissingDocID(e *c05Env) client.DocID {
	d := e.newDoc(map[string]any{"name": "never-created", "u": 5555})
	return d.ID()
}

var c05Degenerates = []*c05Degen{
	{Name: "create-duplicate", Op: "create", MinDocs: 1, Prepare: func(e *c05Env) func() error {
		d := e.newDoc(e.docs[0])
		return func() error { return e.col.Create(e.ctx, d) }
	}},
	{Name: "create-of-deleted", Op: "create", MinDocs: 3, Prepare: func(e *c05Env) func() error {
		d := e.newDoc(e.docs[len(e.docs)-1])
		return func() error { return e.col.Create(e.ctx, d) }
	}},
	{Name: "create-unique-clash", Op: "create", MinDocs: 1, Configs: []string{"uniq"}, Prepare: func(e *c05Env) func() error {
		m := c05NewDocMap(0)
		m["u"] = 100
		d := e.newDoc(m)
		return func() error { return e.col.Create(e.ctx, d) }
	}},
	{Name: "create_many-duplicate-inside-batch", Op: "create_many", Prepare: func(e *c05Env) func() error {
		ds := []*client.Document{e.newDoc(c05NewDocMap(0)), e.newDoc(c05NewDocMap(1)), e.newDoc(c05NewDocMap(0))}
		return func() error { return e.col.CreateMany(e.ctx, ds) }
	}},
	{Name: "create_many-last-exists", Op: "create_many", MinDocs: 1, Prepare: func(e *c05Env) func() error {
		ds := []*client.Document{e.newDoc(c05NewDocMap(0)), e.newDoc(c05NewDocMap(1)), e.newDoc(e.docs[0])}
		return func() error { return e.col.CreateMany(e.ctx, ds) }
	}},
	{Name: "create_many-last-unique-clash", Op: "create_many", MinDocs: 1, Configs: []string{"uniq"}, Prepare: func(e *c05Env) func() error {
		m := c05NewDocMap(2)
		m["u"] = 900
		ds := []*client.Document{e.newDoc(c05NewDocMap(0)), e.newDoc(c05NewDocMap(1)), e.newDoc(m)}
		return func() error { return e.col.CreateMany(e.ctx, ds) }
	}},
	{Name: "create_many-empty", Op: "create_many", Prepare: func(e *c05Env) func() error {
		return func() error { return e.col.CreateMany(e.ctx, nil) }
	}},
	{Name: "update-missing", Op: "update", Prepare: func(e *c05Env) func() error {
		d := e.newDoc(map[string]any{"name": "never-created", "u": 5555})
		core.Must(d.Set("s", "b"))
		return func() error { return e.col.Update(e.ctx, d) }
	}},
	{Name: "update-deleted", Op: "update", MinDocs: 3, Prepare: func(e *c05Env) func() error {
		d := e.newDoc(e.docs[len(e.docs)-1])
		core.Must(d.Set("s", "b"))
		return func() error { return e.col.Update(e.ctx, d) }
	}},
	{Name: "update-unique-clash", Op: "update", MinDocs: 2, Configs: []string{"uniq"}, Prepare: func(e *c05Env) func() error {
		d := e.getDoc(e.live[0])
		core.Must(d.Set("u", 101))
		core.Must(d.Set("s", "c"))
		return func() error { return e.col.Update(e.ctx, d) }
	}},
	{Name: "update-nothing-changed", Op: "update", MinDocs: 1, Prepare: func(e *c05Env) func() error {
		d := e.getDoc(e.live[0])
		return func() error { return e.col.Update(e.ctx, d) }
	}},
	{Name: "save-deleted", Op: "save_existing", MinDocs: 3, Prepare: func(e *c05Env) func() error {
		d := e.newDoc(e.docs[len(e.docs)-1])
		return func() error { return e.col.Save(e.ctx, d) }
	}},
	{Name: "delete-missing", Op: "delete", Prepare: func(e *c05Env) func() error {
		id := c05MissingDocID(e)
		return func() error { _, err := e.col.Delete(e.ctx, id); return err }
	}},
	{Name: "delete-deleted", Op: "delete", MinDocs: 3, Prepare: func(e *c05Env) func() error {
		did, _ := client.NewDocIDFromString(e.deleted[0])
		return func() error { _, err := e.col.Delete(e.ctx, did); return err }
	}},
	{Name: "update_filter-empty-result", Op: "update_filter", Prepare: func(e *c05Env) func() error {
		return func() error {
			_, err := e.col.UpdateWithFilter(e.ctx, `{name: {_eq: "nobody"}}`, `{"f": 9.5}`)
			return err
		}
	}},
	{Name: "update_filter-unknown-field", Op: "update_filter", MinDocs: 1, Prepare: func(e *c05Env) func() error {
		return func() error {
			_, err := e.col.UpdateWithFilter(e.ctx, `{name: {_ne: "nobody"}}`, `{"nope": 1}`)
			return err
		}
	}},
	{Name: "update_filter-bad-patch", Op: "update_filter", MinDocs: 1, Prepare: func(e *c05Env) func() error {
		return func() error {
			_, err := e.col.UpdateWithFilter(e.ctx, `{name: {_ne: "nobody"}}`, `{"f": `)
			return err
		}
	}},
	{Name: "update_filter-bad-filter", Op: "update_filter", MinDocs: 1, Prepare: func(e *c05Env) func() error {
		return func() error {
			_, err := e.col.UpdateWithFilter(e.ctx, `{nope: {_eq: 1}}`, `{"f": 1.5}`)
			return err
		}
	}},
	{Name: "update_filter-second-doc-unique-clash", Op: "update_filter", MinDocs: 2, Configs: []string{"uniq"}, Prepare: func(e *c05Env) func() error {
		return func() error {
			_, err := e.col.UpdateWithFilter(e.ctx, `{name: {_ne: "nobody"}}`, `{"u": 777, "f": 4.5}`)
			return err
		}
	}},
	{Name: "update_filter-wrong-type", Op: "update_filter", MinDocs: 2, Prepare: func(e *c05Env) func() error {
		return func() error {
			_, err := e.col.UpdateWithFilter(e.ctx, `{name: {_ne: "nobody"}}`, `{"i": "not-a-number"}`)
			return err
		}
	}},
	{Name: "delete_filter-empty-result", Op: "delete_filter", Prepare: func(e *c05Env) func() error {
		return func() error { _, err := e.col.DeleteWithFilter(e.ctx, `{name: {_eq: "nobody"}}`); return err }
	}},
	{Name: "delete_filter-bad-filter", Op: "delete_filter", MinDocs: 1, Prepare: func(e *c05Env) func() error {
		return func() error { _, err := e.col.DeleteWithFilter(e.ctx, `{nope: {_eq: 1}}`); return err }
	}},
	{Name: "gql_create-duplicate-in-input", Op: "gql_create", MinDocs: 1, Prepare: func(e *c05Env) func() error {
		req := fmt.Sprintf(`mutation { create_Doc(input: [%s, %s]) { _docID } }`, c05GQLInput(c05NewDocMap(4)), c05GQLInput(e.docs[0]))
		return func() error { return gqlErr(e, req) }
	}},
	{Name: "gql_update_id-missing", Op: "gql_update_id", Prepare: func(e *c05Env) func() error {
		req := fmt.Sprintf(`mutation { update_Doc(docID: %q, input: {s: "c"}) { _docID } }`, c05MissingDocID(e).String())
		return func() error { return gqlErr(e, req) }
	}},
	{Name: "gql_update_id-deleted", Op: "gql_update_id", MinDocs: 3, Prepare: func(e *c05Env) func() error {
		req := fmt.Sprintf(`mutation { update_Doc(docID: %q, input: {s: "c"}) { _docID } }`, e.deleted[0])
		return func() error { return gqlErr(e, req) }
	}},
	{Name: "gql_delete_id-missing", Op: "gql_delete_id", Prepare: func(e *c05Env) func() error {
		req := fmt.Sprintf(`mutation { delete_Doc(docID: %q) { _docID } }`, c05MissingDocID(e).String())
		return func() error { return gqlErr(e, req) }
	}},
	{Name: "gql_delete_id-deleted", Op: "gql_delete_id", MinDocs: 3, Prepare: func(e *c05Env) func() error {
		req := fmt.Sprintf(`mutation { delete_Doc(docID: %q) { _docID } }`, e.deleted[0])
		return func() error { return gqlErr(e, req) }
	}},
	{Name: "gql_delete_filter-empty-result", Op: "gql_delete_filter", Prepare: func(e *c05Env) func() error {
		return func() error { return gqlErr(e, `mutation { delete_Doc(filter: {name: {_eq: "nobody"}}) { _docID } }`) }
	}},
	{Name: "gql_upsert-filter-matches-many", Op: "gql_upsert_update", MinDocs: 2, Prepare: func(e *c05Env) func() error {
		req := fmt.Sprintf(`mutation { upsert_Doc(filter: {name: {_ne: "nobody"}}, create: %s, update: {i: 3}) { _docID } }`, c05GQLInput(c05NewDocMap(6)))
		return func() error { return gqlErr(e, req) }
	}},
	{Name: "gql_multi-last-fails", Op: "gql_multi", MinDocs: 1, Prepare: func(e *c05Env) func() error {
		req := fmt.Sprintf(`mutation { a: create_Doc(input: %s) { _docID } b: update_Doc(docID: %q, input: {i: 8}) { _docID } c: create_Doc(input: %s) { _docID } }`,
			c05GQLInput(c05NewDocMap(7)), e.live[0], c05GQLInput(e.docs[0]))
		return func() error { return gqlErr(e, req) }
	}},
	{Name: "create_index-existing-name", Op: "create_index",
		Setup: func(e *c05Env) {
			_, err := e.col.CreateIndex(e.ctx, client.IndexCreateRequest{Name: "ix_f", Fields: []client.IndexedFieldDescription{{Name: "f"}}})
			core.Must(err)
		},
		Prepare: func(e *c05Env) func() error {
			return func() error {
				_, err := e.col.CreateIndex(e.ctx, client.IndexCreateRequest{Name: "ix_f", Fields: []client.IndexedFieldDescription{{Name: "name"}}})
				return err
			}
		}},
	{Name: "create_index-unknown-field", Op: "create_index", Prepare: func(e *c05Env) func() error {
		return func() error {
			_, err := e.col.CreateIndex(e.ctx, client.IndexCreateRequest{Name: "ix_q", Fields: []client.IndexedFieldDescription{{Name: "nope"}}})
			return err
		}
	}},
	{Name: "create_index-no-fields", Op: "create_index", Prepare: func(e *c05Env) func() error {
		return func() error {
			_, err := e.col.CreateIndex(e.ctx, client.IndexCreateRequest{Name: "ix_q"})
			return err
		}
	}},
	{Name: "create_index_unique-on-duplicates", Op: "create_index_unique", MinDocs: 4,
		Setup: func(e *c05Env) {
			d := e.getDoc(e.live[0])
			core.Must(d.Set("f", 7.5)) // the setup script gave live[1] f=7.5
			core.Must(e.col.Update(e.ctx, d))
		},
		Prepare: func(e *c05Env) func() error {
			// f has two values over >= 3 live documents: a unique index cannot be built
			return func() error {
				_, err := e.col.CreateIndex(e.ctx, client.IndexCreateRequest{Name: "ix_fu", Unique: true, Fields: []client.IndexedFieldDescription{{Name: "f"}}})
				return err
			}
		}},
	{Name: "drop_index-unknown", Op: "drop_index", Prepare: func(e *c05Env) func() error {
		return func() error { return e.col.DropIndex(e.ctx, "no-such-index") }
	}},
	{Name: "add_schema-existing-type", Op: "add_schema", Prepare: func(e *c05Env) func() error {
		return func() error {
			_, err := e.n.DB.AddSchema(e.ctx, `type Fresh { a: String } type Doc { name: String }`)
			return err
		}
	}},
	{Name: "add_schema-invalid-sdl", Op: "add_schema", Prepare: func(e *c05Env) func() error {
		return func() error { _, err := e.n.DB.AddSchema(e.ctx, `type Fresh { a: Strin`); return err }
	}},
	{Name: "add_schema-unknown-relation", Op: "add_schema", Prepare: func(e *c05Env) func() error {
		return func() error {
			_, err := e.n.DB.AddSchema(e.ctx, `type Fresh { a: String  other: Nowhere }`)
			return err
		}
	}},
	{Name: "patch_schema-unknown-collection", Op: "patch_schema", Prepare: func(e *c05Env) func() error {
		return func() error {
			return e.n.DB.PatchSchema(e.ctx, c05AddFieldPatch("Nowhere", "extra"), immutable.None[model.Lens](), true)
		}
	}},
	{Name: "patch_schema-existing-field", Op: "patch_schema", Prepare: func(e *c05Env) func() error {
		return func() error {
			return e.n.DB.PatchSchema(e.ctx, c05AddFieldPatch("Doc", "name"), immutable.None[model.Lens](), true)
		}
	}},
	{Name: "patch_schema-second-op-invalid", Op: "patch_schema", Prepare: func(e *c05Env) func() error {
		patch := `[{"op":"add","path":"/Doc/Fields/-","value":{"Name":"extra","Kind":"String"}},{"op":"add","path":"/Aux/Fields/-","value":{"Name":"x","Kind":"Int"}}]`
		return func() error { return e.n.DB.PatchSchema(e.ctx, patch, immutable.None[model.Lens](), true) }
	}},
	{Name: "patch_schema-not-json", Op: "patch_schema", Prepare: func(e *c05Env) func() error {
		return func() error { return e.n.DB.PatchSchema(e.ctx, `[{"op":`, immutable.None[model.Lens](), true) }
	}},
	{Name: "patch_collection-unknown-version", Op: "patch_collection", Prepare: func(e *c05Env) func() error {
		return func() error {
			return e.n.DB.PatchCollection(e.ctx, `[{"op":"replace","path":"/bafkreia2jn5ecrhtvy4fravk6pm3wqiny46m7mqymvjkgat7xiqupgqoai/IsActive","value":false}]`)
		}
	}},
	{Name: "patch_collection-rename", Op: "patch_collection", Prepare: func(e *c05Env) func() error {
		aux := e.n.Col(e.ctx, "Aux")
		patch := fmt.Sprintf(`[{"op":"replace","path":"/%s/IsActive","value":false},{"op":"replace","path":"/%s/Name","value":"Other"}]`, aux.VersionID(), e.col.VersionID())
		return func() error { return e.n.DB.PatchCollection(e.ctx, patch) }
	}},
	{Name: "set_active-unknown-version", Op: "set_active_new", Prepare: func(e *c05Env) func() error {
		return func() error {
			return e.n.DB.SetActiveSchemaVersion(e.ctx, "bafkreia2jn5ecrhtvy4fravk6pm3wqiny46m7mqymvjkgat7xiqupgqoai")
		}
	}},
	{Name: "set_active-already-active", Op: "set_active_new", Prepare: func(e *c05Env) func() error {
		v := e.col.VersionID()
		return func() error { return e.n.DB.SetActiveSchemaVersion(e.ctx, v) }
	}},
	{Name: "import-missing-file", Op: "import", Prepare: func(e *c05Env) func() error {
		p := filepath.Join(e.tmpDir(), "nothing-here.json")
		return func() error { return e.n.DB.BasicImport(e.ctx, p) }
	}},
	{Name: "import-last-doc-exists", Op: "import", MinDocs: 1, Prepare: func(e *c05Env) func() error {
		p := c05ImportFile(e, true)
		return func() error { return e.n.DB.BasicImport(e.ctx, p) }
	}},
	{Name: "import-truncated-file", Op: "import", Prepare: func(e *c05Env) func() error {
		p := c05ImportFile(e, false)
		b, _ := os.ReadFile(p)
		core.Must(os.WriteFile(p, b[:len(b)-25], 0o644))
		return func() error { return e.n.DB.BasicImport(e.ctx, p) }
	}},
	{Name: "import-unknown-collection", Op: "import", Prepare: func(e *c05Env) func() error {
		p := filepath.Join(e.tmpDir(), "unk.json")
		core.Must(os.WriteFile(p, []byte(`{"Doc":[{"name":"impx","u":4000}],"Nowhere":[{"a":1}]}`), 0o644))
		return func() error { return e.n.DB.BasicImport(e.ctx, p) }
	}},
	{Name: "merge-unknown-cid", Op: "merge_new", Prepare: func(e *c05Env) func() error {
		c, _ := cid.Decode("bafyreibjyxsjxy2zd3lqbeh4m6w3mcxqn5wlsa7tzpbvc3dpkxz3u3fr5u")
		id := c05MissingDocID(e).String()
		return func() error { return e.n.Merge(e.ctx, id, c, e.col.Version().CollectionID) }
	}},
	{Name: "merge-unknown-collection", Op: "merge_new",
		Setup: func(e *c05Env) { c05SetupRemote(e, false) },
		Prepare: func(e *c05Env) func() error {
			c := core.ParseCid(e.vars["mergeCid"])
			return func() error {
				return e.n.Merge(e.ctx, e.vars["mergeDoc"], c, "bafkreia2jn5ecrhtvy4fravk6pm3wqiny46m7mqymvjkgat7xiqupgqoai")
			}
		}},
	{Name: "merge-already-merged", Op: "merge_update", MinDocs: 1,
		Setup: func(e *c05Env) {
			c05SetupRemote(e, true)
			core.Must(e.n.Merge(e.ctx, e.vars["mergeDoc"], core.ParseCid(e.vars["mergeCid"]), e.col.Version().CollectionID))
		},
		Prepare: func(e *c05Env) func() error {
			c := core.ParseCid(e.vars["mergeCid"])
			return func() error { return e.n.Merge(e.ctx, e.vars["mergeDoc"], c, e.col.Version().CollectionID) }
		}},
	{Name: "merge-own-head", Op: "merge_update", MinDocs: 1, Prepare: func(e *c05Env) func() error {
		c := core.ParseCid(e.n.CompositeHeads(e.ctx, e.live[0])[0])
		return func() error { return e.n.Merge(e.ctx, e.live[0], c, e.col.Version().CollectionID) }
	}},
	{Name: "merge-unique-clash", Op: "merge_new", MinDocs: 1, Configs: []string{"uniq"},
		Setup: func(e *c05Env) {
			// the remote document carries u=100, which the receiver already holds in another document
			r := fastNode(e.ctx, core.NodeOpts{})
			e.remote = r
			_, err := r.DB.AddSchema(e.ctx, c05SDL(e.p.Config))
			core.Must(err)
			m := c05NewDocMap(50)
			m["u"] = 100
			rc := r.Col(e.ctx, "Doc")
			d, err := client.NewDocFromMap(m, rc.Definition())
			core.Must(err)
			core.Must(rc.Create(e.ctx, d))
			h := r.CompositeHeads(e.ctx, d.ID().String())[0]
			core.CopyClosure(e.ctx, r, e.n, core.ParseCid(h))
			e.vars["mergeDoc"], e.vars["mergeCid"] = d.ID().String(), h
		},
		Prepare: func(e *c05Env) func() error {
			c := core.ParseCid(e.vars["mergeCid"])
			return func() error { return e.n.Merge(e.ctx, e.vars["mergeDoc"], c, e.col.Version().CollectionID) }
		}},
}

func c05FindDegen(name string) *c05Degen {
	for _, d := range c05Degenerates {
		if d.Name == name {
			return d
		}
	}
	return nil
}

func runC05Degenerate(ctx context.Context, c core.Case, r *core.Rec) {
	var p c05Params
	c.P(&p)
	rng := rand.New(rand.NewPCG(c.Seed, 0xC05)) // not c.Rng(): the k-chunks of one (entry, contents) share the seed, not the index
	dg := c05FindDegen(p.Degen)
	if dg == nil {
		panic("unknown degenerate entry " + p.Degen)
	}
	docs := c05GenDocs(rng, p.NDocs)
	op := &c05Op{Name: dg.Op, Setup: dg.Setup, Probes: []string{c05ProbeAux, c05ProbeExtra}}
	if ce := c05FindOp(dg.Op); ce != nil && len(ce.Probes) > 0 {
		op.Probes = ce.Probes
	}
	x := c05Execute(ctx, p, docs, op, dg.Prepare, 0, false, true)
	r.Count("degenerate_executions", 1)
	r.Count("degenerate:"+dg.Op, 1)
	base := map[string]any{"op": dg.Op, "degenerate": dg.Name, "config": p.Config, "ndocs": p.NDocs, "docs": docs,
		"error": fmt.Sprint(x.Err), "events": x.Events}
	if x.Panic != "" {
		r.Count("degenerate_panics", 1)
		base["stack"] = x.Panic
		r.Violate("panic/degenerate/"+c05PanicFrame(x.Panic), fmt.Sprintf("%s with degenerate argument %q (%s, %d docs) panics instead of returning an error: %s", dg.Op, dg.Name, p.Config, p.NDocs, strings.SplitN(x.Panic, "\n", 2)[0]), base)
		return
	}
	r.Nontrivial(fmt.Sprintf("degenerate|%s|%s|%v", dg.Name, p.Config, x.Err != nil))
	if x.Err != nil {
		r.Count("degenerate_errors", 1)
		if !c05SameMap(x.Pre.Raw, x.Post.Raw) {
			cls := c05DiffClass(x.Pre.Raw, x.Post.Raw)
			base["raw_diff"] = c05DiffKeys(x.Pre.Raw, x.Post.Raw, 30)
			r.Violate("degenerate-error-but-store-changed/"+dg.Name, fmt.Sprintf("%s with %q (%s) returned an error (%v) but the store changed (%s)", dg.Op, dg.Name, p.Config, x.Err, cls), base)
		} else if x.Pre.Log != x.Post.Log {
			base["logical_before"], base["logical_after"] = x.Pre.Log, x.Post.Log
			r.Violate("degenerate-error-but-visible-state-changed/"+dg.Name, fmt.Sprintf("%s with %q (%s) returned an error (%v); the store is unchanged but the API shows a different state", dg.Op, dg.Name, p.Config, x.Err), base)
		}
		if len(x.Events) > 0 {
			r.Violate("degenerate-error-but-update-event/"+dg.Name, fmt.Sprintf("%s with %q (%s) returned an error (%v) but published %d update events", dg.Op, dg.Name, p.Config, x.Err, len(x.Events)), base)
		}
		return
	}
	r.Count("degenerate_successes", 1)
	if len(x.IndexBad) > 0 {
		base["diffs"] = x.IndexBad
		r.Violate("degenerate-success-but-index-query-differs-from-scan/"+dg.Name, fmt.Sprintf("%s with %q (%s) succeeded and an index-backed query disagrees with a scan: %s", dg.Op, dg.Name, p.Config, x.IndexBad[0]), base)
	}
	// success: one update event per new document-level commit plus one per collection-level commit
	newCommits := 0
	for k := range x.Post.Raw {
		if strings.HasPrefix(k, "/db/heads") {
			if _, ok := x.Pre.Raw[k]; !ok {
				newCommits++
			}
		}
	}
	if len(x.Events) == 0 && newCommits > 0 && !strings.HasPrefix(dg.Op, "merge") {
		r.Violate("degenerate-success-without-update-event/"+dg.Name, fmt.Sprintf("%s with %q (%s) succeeded, wrote %d new heads and published no update event", dg.Op, dg.Name, p.Config, newCommits), base)
	}
	if len(x.Events) > 0 && newCommits == 0 {
		r.Violate("degenerate-update-event-without-commit/"+dg.Name, fmt.Sprintf("%s with %q (%s) published %d update events without any new head", dg.Op, dg.Name, p.Config, len(x.Events)), base)
	}
}

// ---------------------------------------------------------------------------------------
// caller-owned transaction: a call that fails for a LOGICAL reason (no injected fault) inside a
// transaction the caller created, which the caller then commits. "A call that returns an error leaves
// documents, commits, heads, index contents and schema exactly as before": after the commit the database
// must be what the same transaction WITHOUT the failed call produces (reference execution on a second
// node; with no other call in the transaction that is the state before). A commit that refuses (a
// transaction poisoned by the failed call) is accepted, then nothing at all may have been persisted.

type c05TxnExec struct {
	Err, CommitErr error
	Panic          string
	Pre, Post      c05Snap
	Events         []string
	IndexBad       []string
}

func c05CallerTxnExec(ctx context.Context, p c05Params, docs []map[string]any, op *c05Op, dg *c05Degen, withCall bool) *c05TxnExec {
	e := c05NewEnv(ctx, p, docs, op)
	defer e.close()
	x := &c05TxnExec{}
	x.Pre = c05TakeSnap(e)
	ev0 := e.rec.Len()
	var txn client.Txn
	var err error
	if p.Concurrent {
		txn, err = e.n.DB.NewConcurrentTxn(ctx, false)
	} else {
		txn, err = e.n.DB.NewTxn(ctx, false)
	}
	core.Must(err)
	ctx0 := e.ctx
	e.ctx = db.InitContext(ctx0, txn)
	if p.Sibling {
		core.Must(e.col.Create(e.ctx, e.newDoc(c05NewDocMap(20))))
	}
	if withCall {
		x.Err, x.Panic = c05CallGuarded(func() error { return dg.Prepare(e)() })
	}
	e.ctx = ctx0
	x.CommitErr = txn.Commit(ctx0)
	txn.Discard(ctx0)
	e.rec.Barrier()
	x.Events = c05EventIDs(e.rec.Events()[ev0:])
	x.Post = c05TakeSnap(e)
	x.IndexBad = c05IndexVsScan(e)
	return x
}

func c05NormDescriptions(raw map[string]string) map[string]string {
	out := make(map[string]string, len(raw))
	for k, v := range raw {
		if strings.HasPrefix(k, "/db/system/collection/") {
			v = strings.ReplaceAll(v, `"Sources":null`, `"Sources":[]`)
		}
		out[k] = v
	}
	return out
}

func runC05CallerTxn(ctx context.Context, c core.Case, r *core.Rec) {
	var p c05Params
	c.P(&p)
	rng := rand.New(rand.NewPCG(c.Seed, 0xC05))
	dg := c05FindDegen(p.Degen)
	if dg == nil {
		panic("unknown degenerate entry " + p.Degen)
	}
	docs := c05GenDocs(rng, p.NDocs)
	op := &c05Op{Name: dg.Op, Setup: dg.Setup, Probes: []string{c05ProbeAux, c05ProbeExtra}}
	if ce := c05FindOp(dg.Op); ce != nil && len(ce.Probes) > 0 {
		op.Probes = ce.Probes
	}
	x := c05CallerTxnExec(ctx, p, docs, op, dg, true)
	r.Count("caller_txn_executions", 1)
	base := map[string]any{"op": dg.Op, "failing_call": dg.Name, "config": p.Config, "ndocs": p.NDocs, "docs": docs, "sibling_create_in_txn": p.Sibling,
		"concurrent_txn": p.Concurrent, "error": fmt.Sprint(x.Err), "commit_error": fmt.Sprint(x.CommitErr), "events": x.Events}
	if x.Panic != "" {
		base["stack"] = x.Panic
		r.Violate("panic/caller-txn/"+c05PanicFrame(x.Panic), fmt.Sprintf("%s with %q inside a caller-owned transaction (%s) panics: %s", dg.Op, dg.Name, p.Config, strings.SplitN(x.Panic, "\n", 2)[0]), base)
		return
	}
	if x.Err == nil {
		r.Count("caller_txn_call_succeeded", 1) // not a failing call on these contents: nothing to judge here
		return
	}
	r.Count("caller_txn_failed_calls", 1)
	r.Count("caller_txn:"+dg.Op, 1)
	if p.Sibling {
		r.Count("caller_txn_failed_call_beside_successful_call", 1)
	}
	r.Nontrivial(fmt.Sprintf("calltxn|%s|%s|%v|%v", dg.Name, p.Config, p.Sibling, x.CommitErr != nil))
	sig := "caller-txn/effect-of-failed-call-persisted-by-commit/" + dg.Name
	head := fmt.Sprintf("%s with %q (%s) returned an error (%v) inside a transaction owned by the caller; the caller committed the transaction (commit: %v)", dg.Op, dg.Name, p.Config, x.Err, x.CommitErr)
	if x.CommitErr != nil || !p.Sibling {
		// nothing else in the transaction (or nothing committed): everything exactly as before
		if x.CommitErr != nil {
			r.Count("caller_txn_commit_refused", 1)
		}
		// a collection description that was rewritten with the same content may encode an empty list
		// where it held null before ("Sources"): the same schema, not a difference
		x.Pre.Raw, x.Post.Raw = c05NormDescriptions(x.Pre.Raw), c05NormDescriptions(x.Post.Raw)
		switch {
		case !c05SameMap(x.Pre.Raw, x.Post.Raw):
			base["raw_diff"] = c05DiffKeys(x.Pre.Raw, x.Post.Raw, 30)
			r.Violate(sig, head+fmt.Sprintf(" and the store differs from the state before the transaction (%s)", c05DiffClass(x.Pre.Raw, x.Post.Raw)), base)
		case x.Pre.Log != x.Post.Log:
			base["logical_before"], base["logical_after"] = x.Pre.Log, x.Post.Log
			r.Violate(sig, head+" and the API shows a different state than before the transaction ("+c05ChangedSections(x.Pre.Log, x.Post.Log)+")", base)
		case len(x.Events) > 0:
			r.Violate(sig, head+fmt.Sprintf(" and %d update event(s) were published", len(x.Events)), base)
		}
		return
	}
	// reference: the same transaction without the failed call
	ref := c05CallerTxnExec(ctx, p, docs, op, dg, false)
	if ref.CommitErr != nil {
		panic(fmt.Sprintf("reference transaction does not commit: %v", ref.CommitErr))
	}
	switch {
	case x.Post.LogCF != ref.Post.LogCF:
		base["expected"], base["got"] = ref.Post.LogCF, x.Post.LogCF
		r.Violate(sig, head+" and the state differs from what the same transaction without the failed call leaves ("+c05ChangedSections(ref.Post.LogCF, x.Post.LogCF)+")", base)
	case strings.Join(x.Events, ",") != strings.Join(ref.Events, ","):
		base["events_reference"] = ref.Events
		r.Violate(sig, head+fmt.Sprintf(" and %d update events were published, the same transaction without the failed call publishes %d", len(x.Events), len(ref.Events)), base)
	case len(x.IndexBad) > 0 && len(ref.IndexBad) == 0:
		base["diffs"] = x.IndexBad
		r.Violate(sig, head+" and an index-backed query disagrees with a scan: "+x.IndexBad[0], base)
	}
}

// ---------------------------------------------------------------------------------------
// case lists

func c05Cases(seed uint64, tier string) []core.Case {
	var cs []core.Case
	thorough := tier == "thorough"
	// anchors (seed independent): every catalogue entry once on a fixed configuration with
	// sampled k (first/last of every (method, sub-store) pair: always includes an error and the commit)
	for _, o := range c05Catalogue {
		cfg := "indexed"
		if !c05OpApplies(o, cfg) {
			cfg = o.Configs[0]
		}
		cs = append(cs, core.MkCase("fault/"+o.Name, 1, c05Params{Op: o.Name, Config: cfg, NDocs: 4, NRand: 2}))
	}
	// anchor with every k: a filtered GraphQL update served by a (unique) secondary index — the path on
	// which a failing iterator step used to leave an iterator open (panic in Txn.Discard)
	cs = append(cs, core.MkCase("fault/gql_update_filter", 1, c05Params{Op: "gql_update_filter", Config: "uniq", NDocs: 2, AllK: true}))
	// anchors with every k: mutations whose plans join through a relation (child scan nodes)
	for _, name := range []string{"rel_create_one_to_one", "rel_gql_update_filter_join", "rel_gql_delete_filter_join"} {
		cs = append(cs, core.MkCase("fault/"+name, 1, c05Params{Op: name, Config: "plain", NDocs: 1, AllK: true}))
	}
	// degenerate arguments: every entry x every applicable configuration
	for _, d := range c05Degenerates {
		for _, cfg := range c05Configs {
			if d.Configs != nil && !c05OpApplies(&c05Op{Configs: d.Configs}, cfg) {
				continue
			}
			nd := 4
			if d.MinDocs > nd {
				nd = d.MinDocs
			}
			cs = append(cs, core.MkCase("degenerate/"+d.Name, 1, c05Params{Op: d.Op, Degen: d.Name, Config: cfg, NDocs: nd}))
		}
	}
	// every degenerate call inside a caller-owned transaction that is committed afterwards: alone, and
	// beside a call that succeeds
	for _, d := range c05Degenerates {
		cfg := "uniq"
		if d.Configs != nil && !c05OpApplies(&c05Op{Configs: d.Configs}, cfg) {
			cfg = d.Configs[0]
		}
		nd := 4
		if d.MinDocs > nd {
			nd = d.MinDocs
		}
		cs = append(cs, core.MkCase("calltxn/"+d.Name, 1, c05Params{Op: d.Op, Degen: d.Name, Config: cfg, NDocs: nd}))
		cs = append(cs, core.MkCase("calltxn/"+d.Name, 1, c05Params{Op: d.Op, Degen: d.Name, Config: cfg, NDocs: nd, Sibling: true}))
	}
	rng := rand.New(rand.NewPCG(seed, 505))
	if thorough {
		// every k for every entry x 3 prior contents (configuration and size drawn per content)
		const kmod = 6
		for _, o := range c05Catalogue {
			for rep := 0; rep < 4; rep++ {
				cfg := c05PickConfig(rng, o, rep)
				nd := c05PickNDocs(rng, o, rep)
				sd := rng.Uint64()
				for rem := 0; rem < kmod; rem++ {
					cs = append(cs, core.MkCase("fault/"+o.Name, sd, c05Params{Op: o.Name, Config: cfg, NDocs: nd, AllK: true, KMod: kmod, KRem: rem}))
				}
			}
		}
	} else {
		for _, o := range c05Catalogue {
			for rep := 0; rep < 2; rep++ {
				cfg := c05PickConfig(rng, o, rep)
				nd := c05PickNDocs(rng, o, rep)
				cs = append(cs, core.MkCase("fault/"+o.Name, rng.Uint64(), c05Params{Op: o.Name, Config: cfg, NDocs: nd, NRand: 6}))
			}
		}
	}
	// a few degenerate cases on generated contents
	nd := 30
	if thorough {
		nd = 300
	}
	for i := 0; i < nd; i++ {
		d := c05Degenerates[rng.IntN(len(c05Degenerates))]
		cfg := c05Configs[rng.IntN(len(c05Configs))]
		if d.Configs != nil {
			cfg = d.Configs[rng.IntN(len(d.Configs))]
		}
		n := d.MinDocs + rng.IntN(7-d.MinDocs)
		cs = append(cs, core.MkCase("degenerate/"+d.Name, rng.Uint64(), c05Params{Op: d.Op, Degen: d.Name, Config: cfg, NDocs: n}))
	}
	// the same inside caller-owned transactions, on generated contents
	nt := 60
	if thorough {
		nt = 600
	}
	rng2 := rand.New(rand.NewPCG(seed, 5050))
	for i := 0; i < nt; i++ {
		d := c05Degenerates[rng2.IntN(len(c05Degenerates))]
		cfg := c05Configs[rng2.IntN(len(c05Configs))]
		if d.Configs != nil {
			cfg = d.Configs[rng2.IntN(len(d.Configs))]
		}
		n := d.MinDocs + rng2.IntN(7-d.MinDocs)
		cs = append(cs, core.MkCase("calltxn/"+d.Name, rng2.Uint64(), c05Params{Op: d.Op, Degen: d.Name, Config: cfg, NDocs: n, Sibling: rng2.IntN(2) == 0, Concurrent: rng2.IntN(3) == 0}))
	}
	return cs
}

func c05PickConfig(rng *rand.Rand, o *c05Op, rep int) string {
	pool := c05Configs
	if o.Configs != nil {
		pool = o.Configs
	}
	// rotate so that the repetitions of one entry use different configurations
	return pool[(rng.IntN(len(pool))+rep)%len(pool)]
}

func c05PickNDocs(rng *rand.Rand, o *c05Op, rep int) int {
	lo := o.MinDocs
	return lo + rng.IntN(7-lo)
}

func c05Floors() []string {
	fl := []string{"evaluations", "fault_reached", "outcome_error", "degenerate_executions", "degenerate_errors", "retries",
		"caller_txn_executions", "caller_txn_failed_calls", "caller_txn_failed_call_beside_successful_call", "caller_txn:create", "caller_txn:update", "caller_txn:create_index_unique",
		"fault:commit/other", "fault:get/data", "fault:set/data", "fault:set/heads", "fault:set/blocks", "fault:iter/data", "fault:next/data", "fault:del/data", "fault:get/system", "fault:set/system"}
	for _, o := range c05Catalogue {
		fl = append(fl, "entry_err:"+o.Name, "entry_commit_fault:"+o.Name)
	}
	seen := map[string]bool{}
	for _, d := range c05Degenerates {
		if !seen[d.Op] {
			seen[d.Op] = true
			fl = append(fl, "degenerate:"+d.Op)
		}
	}
	return fl
}

func init() {
	core.Register(&core.Check{
		ID: "C05", Level: "fault_enumeration",
		Rule: "case = (catalogue entry of 35 mutating API calls, collection configuration plain/indexed/unique/branchable/branchable+indexed, generated prior contents of 0-6 documents incl. one with history and one deleted). " +
			"Two fault-free dry runs on fresh nodes give the storage-operation sequence (N) and the success post-state; then one fresh node per chosen k with the k-th storage operation failing " +
			"(quick: first and last occurrence of every (method, sub-store) pair, 1, N and random k; thorough: every k). evaluations = faulted executions. " +
			"distinct non-trivial = (entry, failed method, sub-store, outcome) in which the fault was reached. Plus every entry on degenerate arguments without fault.",
		Cases: c05Cases,
		Run: func(ctx context.Context, c core.Case, r *core.Rec) {
			quietLogs()
			if strings.HasPrefix(c.Kind, "degenerate/") {
				runC05Degenerate(ctx, c, r)
				return
			}
			if strings.HasPrefix(c.Kind, "calltxn/") {
				runC05CallerTxn(ctx, c, r)
				return
			}
			runC05Fault(ctx, c, r)
		},
		Floors:      c05Floors(),
		CaseTimeout: 600 * time.Second,
		Exhaustive:  func(tier string) bool { return tier == "thorough" },
		Assumptions: []string{
			"the key-value store's own Commit is atomic: a failing Commit is modelled as 'nothing written' (corekv badger in-memory)",
			"a fault is one storage call returning an error once; later calls succeed",
			"sequence counters under /db/system/seq are reported but not judged (the property lists documents, commits, heads, index contents and schema)",
			"save() ranges over a Go map of fields: the k-th storage operation is not the same operation in every execution; each faulted execution is judged on the operation that actually failed, executions whose fault position was not reached are not judged",
			"thorough enumerates every k of the dry run's operation count for each (entry, contents) — 4 contents per entry, the k range split over 6 cases; exhaustive over k, not over field orders",
		},
	})
}
