// Package checks holds one file per property; each registers its core.Check in init().
package checks
