package checks

import (
	"context"
	"math/rand/v2"
	"time"

	"github.com/sourcenetwork/defradb/verifharness/core"
	"github.com/sourcenetwork/defradb/verifharness/sim"
)

var simAnchors = []string{"anchor-unequal-heights", "anchor-null-tie", "anchor-delete-unknown", "anchor-three-way"}

// simCases: anchor histories for every configuration first (seed independent), then
// generated histories whose parameters are a function of (seed, index) only.
func simCases(seed uint64, n int, salt uint64, encrypted bool) []core.Case {
	var cs []core.Case
	for _, cfg := range []string{"plain", "indexed", "branchable"} {
		for _, a := range simAnchors {
			cs = append(cs, core.MkCase("sim/"+a+"/"+cfg, 1, sim.Params{Config: cfg, Store: "badger", Replicas: 3, Recipe: a}))
		}
		// one anchor per configuration with the last replica fed through the event bus
		cs = append(cs, core.MkCase("sim/"+simAnchors[0]+"/"+cfg+"/bus", 1, sim.Params{Config: cfg, Store: "badger", Replicas: 3, Recipe: simAnchors[0], Bus: true}))
	}
	if encrypted {
		// single-writer histories over document-level encrypted documents (C04 only)
		for _, a := range []string{"anchor-single-writer"} {
			cs = append(cs, core.MkCase("sim/"+a+"/encrypted", 1, sim.Params{Config: "encrypted", Store: "badger", Replicas: 1, Recipe: a}))
		}
	}
	rng := rand.New(rand.NewPCG(seed, salt))
	cfgs := []string{"plain", "plain", "indexed", "branchable", "uniq"}
	for i := 0; i < n; i++ {
		p := sim.Params{Config: cfgs[rng.IntN(len(cfgs))], Store: "badger", Replicas: 2 + rng.IntN(3), Steps: 6 + rng.IntN(12)}
		_ = rng.IntN(10) // (the corekv memory store self-deadlocks on iterate+write inside one txn, e.g. collection.Delete: dependency defect, see DESIGN.md; sim runs on badger only)
		if rng.IntN(4) == 0 {
			p.Recipe = "random"
		} else {
			p.Recipe = "genesis-first"
		}
		p.Bus = i%4 == 1 && p.Config != "uniq" // a quarter of the histories: last replica fed through the event bus
		cs = append(cs, core.MkCase("sim/"+p.Recipe+"/"+p.Config, rng.Uint64(), p))
		if encrypted && i%8 == 0 {
			e := sim.Params{Config: "encrypted", Store: "badger", Replicas: 1, Steps: 8 + rng.IntN(10), Recipe: "genesis-first"}
			cs = append(cs, core.MkCase("sim/"+e.Recipe+"/"+e.Config, rng.Uint64(), e))
		}
	}
	return cs
}

func tierN(tier string, quick, thorough int) int {
	if tier == "thorough" {
		return thorough
	}
	return quick
}

var simFloors = []string{"shape_frontier_heights_distinct", "shape_tie_equal_height", "shape_tie_with_null",
	"shape_redelivered_ancestor", "shape_three_way_branch", "shape_merge_unknown_doc", "nontrivial_histories", "deliveries_through_the_event_bus"}

func init() {
	core.Register(&core.Check{
		ID: "C01", Level: "exploration",
		Rule: "3-4 anchor histories per configuration + generated replica histories (2-4 real nodes, local create/update/delete of every field kind, " +
			"deliveries of heads, old ancestors and duplicates by block-closure copy + VerifMerge, shuffled anti-entropy twice). " +
			"non-trivial = a merge arrived at a frontier with >=2 heads or at equal height with a different commit; distinct by (configuration, hash-free DAG shape).",
		Cases: func(seed uint64, tier string) []core.Case {
			cs := simCases(seed, tierN(tier, 800, 20000), 101, false)
			// C01 only: Float counter increments that are not exactly representable, merged in different orders
			return append(cs, core.MkCase("sim/anchor-float-counter-order/plain", 1, sim.Params{Config: "plain", Store: "badger", Replicas: 3, Recipe: "anchor-float-counter-order"}))
		},
		Run: func(ctx context.Context, c core.Case, r *core.Rec) {
			sim.Run(ctx, c, r, sim.Oracles{Converge: true})
		},
		Floors: simFloors, CaseTimeout: 90 * time.Second,
		Assumptions: []string{"delivery = copy of the ancestor+link closure then executeMerge via hook H1 (what syncDAG guarantees before the merge event)", "corekv stores are atomic"},
	})
	core.Register(&core.Check{
		ID: "C02", Level: "exploration",
		Rule: "same simulator biased to counters and re-delivery; after EVERY step the touched document on the touched replica is compared with fold(M_r) " +
			"(counters = exact sum of merged increments, registers in the set of causally maximal merged writes, deleted iff a merged delete, never resurrected). " +
			"non-trivial/distinct as C01.",
		Cases: func(seed uint64, tier string) []core.Case { return simCases(seed, tierN(tier, 800, 20000), 202, false) },
		Run: func(ctx context.Context, c core.Case, r *core.Rec) {
			sim.Run(ctx, c, r, sim.Oracles{Fold: true})
		},
		Floors:      append([]string{"fold_checks"}, simFloors...),
		Assumptions: []string{"ancestry is read from the stored blocks; written values come from the harness's own write log keyed by commit cid"},
	})
	core.Register(&core.Check{
		ID: "C04", Level: "exploration",
		Rule: "DAG auditor after every step of simulated histories and at quiescence: sha256 of every stored block = its key; every head/field link of a merged commit resolves; " +
			"height = 1 + max parent height (composite and per-field DAGs); stored heads (raw /db/heads and latestCommits) = maximal merged commits with stored height = block height; " +
			"genesis blocks byte-identical across nodes. non-trivial = audit taken with a multi-head frontier; distinct by DAG shape.",
		Cases: func(seed uint64, tier string) []core.Case {
			cs := simCases(seed, tierN(tier, 600, 12000), 404, true)
			return append(genesisCases(seed, tierN(tier, 40, 800)), cs...)
		},
		Run: func(ctx context.Context, c core.Case, r *core.Rec) {
			if c.Kind == "genesis" {
				runGenesis(ctx, c, r)
				return
			}
			sim.Run(ctx, c, r, sim.Oracles{Audit: true})
		},
		Floors:      append([]string{"audits", "audits_with_multi_head_frontier", "genesis_pairs", "blocks_checked", "raw_head_entries", "encrypted_documents_created"}, simFloors...),
		Assumptions: []string{"merged set M_r = commits whose creation or merge returned success, ancestor-closed (not 'reachable from heads')"},
	})
}
