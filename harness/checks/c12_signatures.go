package checks

// C12 — commit signatures authenticate content and author; forged commits are not merged.
//
// A signing node (secp256k1 or ed25519 identity) writes a short history. For every block it wrote:
// VerifySignature under the signer's key must succeed, under a fresh key of the same type and under
// a key of the other type it must fail. Then the tamper matrix: every single-field mutation of the
// decoded block and of its signature block is re-encoded and (a) stored on a scratch node, where
// VerifySignature under the signer's key must fail, (b) offered to the receive path (hook H2
// net.VerifSyncDAG, then — exactly like the push-log handler — a merge only if the sync succeeded)
// of a receiver that already holds every block the tampered block links to: the sync must return
// an error and the receiver's documents, commits and heads must be unchanged. The untampered block
// goes through the same path and must change the receiver (negative control).
//
// Delivery SEQUENCES on one receiver (its block store is never reset between deliveries; syncDAG stores a
// pushed block before it verifies it, so a rejected forged block stays behind as an orphan): after the first,
// rejected delivery of a tampered block T' the same receiver is offered (1) T' again, (2) commits built on
// top of T' - a child with Heads = [T'] that is unsigned / validly signed by the original signer / validly
// signed by another identity, and a "linker": the genuine block that links the original (the composite of a
// field block, the collection block of a composite) re-pointed to T', again unsigned / signed / signed by
// another identity. Every one of them has the forged block in its DAG and must be rejected with the
// receiver unchanged; when syncDAG wrongly returns nil the merge is run (hook H1) so that the forged delta
// shows up as changed state. After the untampered control has been merged (the receiver now also holds the
// genuine history) the whole sequence is offered once more. Controls: a validly signed child of the GENUINE
// block is accepted (and merged), so the rejections of the children are not vacuous.

import (
	"bytes"
	"context"
	"crypto/ed25519"
	"fmt"
	"math/rand/v2"
	"sort"
	"strings"
	"time"

	"github.com/ipfs/boxo/blockservice"
	"github.com/ipfs/boxo/exchange/offline"
	blocks "github.com/ipfs/go-block-format"
	"github.com/ipfs/go-cid"
	cidlink "github.com/ipld/go-ipld-prime/linking/cid"
	"github.com/sourcenetwork/immutable"

	"github.com/sourcenetwork/defradb/acp/identity"
	"github.com/sourcenetwork/defradb/client"
	"github.com/sourcenetwork/defradb/crypto"
	coreblock "github.com/sourcenetwork/defradb/internal/core/block"
	dnet "github.com/sourcenetwork/defradb/net"
	"github.com/sourcenetwork/defradb/verifharness/core"
)

type c12Op struct {
	Doc    int            `json:"doc"`
	Set    map[string]any `json:"set,omitempty"`
	Delete bool           `json:"delete,omitempty"`
}

type c12Params struct {
	KeyType    string           `json:"key_type"` // secp256k1 | ed25519
	Branchable bool             `json:"branchable,omitempty"`
	Encrypted  bool             `json:"encrypted,omitempty"` // documents are created with document-level encryption (signature is over the ciphertext block)
	Docs       []map[string]any `json:"docs"`
	Ops        []c12Op          `json:"ops"`
	// ReceiverHasParents: the receiver has merged the parents of the block under test (so the document exists there);
	// otherwise it only holds the blocks, nothing merged.
	ReceiverHasParents bool `json:"receiver_has_parents"`
}

func c12SDL(branchable bool) string {
	dir := ""
	if branchable {
		dir = "@branchable"
	}
	return fmt.Sprintf("type U %s {\n\tname: String\n\ts: String\n\tn: Int\n\tc: Int @crdt(type: pncounter)\n}", dir)
}

func c12Anchors() []core.Case {
	var cs []core.Case
	for _, kt := range []string{"secp256k1", "ed25519"} {
		cs = append(cs, core.MkCase("sig/anchor/update-counter-delete/"+kt, 1, c12Params{KeyType: kt, ReceiverHasParents: true,
			Docs: []map[string]any{{"name": "a", "s": "x", "n": 1, "c": 2}},
			Ops:  []c12Op{{Doc: 0, Set: map[string]any{"s": "y", "c": 3}}, {Doc: 0, Set: map[string]any{"n": 5}}, {Doc: 0, Delete: true}}}))
		cs = append(cs, core.MkCase("sig/anchor/receiver-knows-nothing/"+kt, 1, c12Params{KeyType: kt, ReceiverHasParents: false,
			Docs: []map[string]any{{"name": "a", "s": "x"}, {"name": "b", "n": 7, "c": 1}},
			Ops:  []c12Op{{Doc: 0, Set: map[string]any{"s": "y"}}, {Doc: 1, Set: map[string]any{"c": 4, "n": 8}}}}))
		cs = append(cs, core.MkCase("sig/anchor/branchable/"+kt, 1, c12Params{KeyType: kt, Branchable: true, ReceiverHasParents: true,
			Docs: []map[string]any{{"name": "a", "s": "x", "c": 1}},
			Ops:  []c12Op{{Doc: 0, Set: map[string]any{"s": "y", "c": 2}}}}))
		cs = append(cs, core.MkCase("sig/anchor/encrypted/"+kt, 1, c12Params{KeyType: kt, Encrypted: true, ReceiverHasParents: true,
			Docs: []map[string]any{{"name": "a", "s": "x", "c": 1}},
			Ops:  []c12Op{{Doc: 0, Set: map[string]any{"s": "y", "c": 2}}}}))
		// delivery sequences: branchable, so that every kind of follow-up exists (children of composite / field / collection
		// blocks, composite linker of a field block, collection linker of a composite)
		cs = append(cs, core.MkCase("sig/anchor/redelivery-and-children/"+kt, 1, c12Params{KeyType: kt, Branchable: true, ReceiverHasParents: true,
			Docs: []map[string]any{{"name": "a", "s": "x", "n": 1, "c": 1}, {"name": "b", "s": "z"}},
			Ops:  []c12Op{{Doc: 0, Set: map[string]any{"s": "y", "c": 2}}, {Doc: 1, Set: map[string]any{"n": 3}}, {Doc: 0, Delete: true}}}))
	}
	return cs
}

func c12Cases(seed uint64, tier string) []core.Case {
	cs := c12Anchors()
	rng := rand.New(rand.NewPCG(seed, 1212))
	n := tierN(tier, 40, 800)
	for k := 0; k < n; k++ {
		p := c12Params{KeyType: []string{"secp256k1", "ed25519"}[k%2], Branchable: rng.IntN(6) == 0, Encrypted: rng.IntN(8) == 0, ReceiverHasParents: rng.IntN(3) != 0}
		nd := 1 + rng.IntN(3)
		for d := 0; d < nd; d++ {
			doc := map[string]any{"name": fmt.Sprintf("d%d-%d", d, rng.IntN(1000))}
			if rng.IntN(2) == 0 {
				doc["s"] = fmt.Sprintf("s%d", rng.IntN(100))
			}
			if rng.IntN(2) == 0 {
				doc["n"] = rng.IntN(100)
			}
			if rng.IntN(2) == 0 {
				doc["c"] = 1 + rng.IntN(9)
			}
			p.Docs = append(p.Docs, doc)
		}
		deleted := map[int]bool{}
		nu := 1 + rng.IntN(5)
		for u := 0; u < nu; u++ {
			d := rng.IntN(nd)
			if deleted[d] {
				continue
			}
			if rng.IntN(8) == 0 {
				deleted[d] = true
				p.Ops = append(p.Ops, c12Op{Doc: d, Delete: true})
				continue
			}
			set := map[string]any{}
			for len(set) == 0 {
				if rng.IntN(2) == 0 {
					set["s"] = fmt.Sprintf("u%d", rng.IntN(1000))
				}
				if rng.IntN(3) == 0 {
					set["n"] = rng.IntN(1000)
				}
				if rng.IntN(2) == 0 {
					set["c"] = rng.IntN(9) - 3
				}
			}
			p.Ops = append(p.Ops, c12Op{Doc: d, Set: set})
		}
		cs = append(cs, core.MkCase("sig/"+p.KeyType, rng.Uint64(), p))
	}
	return cs
}

// ---------------------------------------------------------------------------------------

func c12Identity(rng *rand.Rand, kt crypto.KeyType) identity.FullIdentity {
	seed := make([]byte, 32)
	for i := range seed {
		seed[i] = byte(rng.IntN(256))
	}
	var priv crypto.PrivateKey
	var err error
	if kt == crypto.KeyTypeEd25519 {
		priv = crypto.NewPrivateKey(ed25519.NewKeyFromSeed(seed))
	} else {
		seed[0] &= 0x7f // stay below the group order
		seed[31] |= 1
		priv, err = crypto.PrivateKeyFromBytes(crypto.KeyTypeSecp256k1, seed)
		core.Must(err)
	}
	id, err := identity.FromPrivateKey(priv)
	core.Must(err)
	return id
}

// c12Stored is one block of the signer's block store.
type c12Stored struct {
	Cid   cid.Cid
	Raw   []byte
	Block *coreblock.Block     // nil for signature blocks
	Sig   *coreblock.Signature // nil for ordinary blocks
	Kind  string               // composite | field-genesis | field-update | collection | signature
}

func c12Load(ctx context.Context, n *core.Node) map[string]*c12Stored {
	out := map[string]*c12Stored{}
	for _, v := range n.RawScan(ctx, "/db/blocks/") {
		raw := []byte(v)
		st := &c12Stored{Raw: raw}
		if b, err := coreblock.GetFromBytes(raw); err == nil {
			l, err := b.GenerateLink()
			core.Must(err)
			st.Cid, st.Block = l.Cid, b
			switch {
			case b.Delta.IsComposite():
				st.Kind = "composite"
			case b.Delta.IsCollection():
				st.Kind = "collection"
			case b.Delta.GetPriority() <= 1:
				st.Kind = "field-genesis"
			default:
				st.Kind = "field-update"
			}
		} else if s, err := coreblock.GetSignatureBlockFromBytes(raw); err == nil {
			l, err := coreblock.GetLinkFromNode(s.GenerateNode())
			core.Must(err)
			st.Cid, st.Sig, st.Kind = l.Cid, s, "signature"
		} else {
			continue
		}
		out[st.Cid.String()] = st
	}
	return out
}

func c12Put(ctx context.Context, n *core.Node, c cid.Cid, raw []byte) {
	b, err := blocks.NewBlockWithCid(raw, c)
	core.Must(err)
	core.Must(n.Blockstore().Put(ctx, b))
}

// c12Tampering is one cell of the matrix: it returns the tampered block and, when the signature block
// was tampered with (or replaced), the new signature block. ok=false: not applicable to this block.
type c12Tampering struct {
	Name string
	// Class: "content" (delta / parents / links changed: must never verify), "signature" (signature block changed),
	// "resigned" (content changed and re-signed by another identity: verifies under the other key by design)
	Class string
	Apply func(t *c12Target) (*coreblock.Block, *coreblock.Signature, bool)
}

type c12Target struct {
	st      *c12Stored
	sig     *coreblock.Signature
	all     map[string]*c12Stored
	other   identity.FullIdentity // another identity of the same key type
	otherKT identity.FullIdentity // identity of the other key type
	rng     *rand.Rand
}

func cloneBlock(b *coreblock.Block) *coreblock.Block {
	t := b.Clone()
	t.Heads = append([]cidlink.Link(nil), b.Heads...)
	t.Links = append([]coreblock.DAGLink(nil), b.Links...)
	return t
}

func flipByte(b []byte, i int) []byte {
	o := append([]byte(nil), b...)
	if len(o) == 0 {
		return []byte{0x01}
	}
	o[i%len(o)] ^= 0x01
	return o
}

// someOther returns the cid of another stored block of one of the given kinds, different from all of `not`.
func (t *c12Target) someOther(kinds string, not ...cid.Cid) (cid.Cid, bool) {
	var ks []string
	for k, st := range t.all {
		if !strings.Contains(kinds, st.Kind) {
			continue
		}
		bad := false
		for _, x := range not {
			bad = bad || x.Equals(st.Cid)
		}
		if !bad {
			ks = append(ks, k)
		}
	}
	if len(ks) == 0 {
		return cid.Undef, false
	}
	sort.Strings(ks)
	return t.all[ks[t.rng.IntN(len(ks))]].Cid, true
}

func c12Matrix() []c12Tampering {
	content := func(name string, f func(t *c12Target, b *coreblock.Block) bool) c12Tampering {
		return c12Tampering{Name: name, Class: "content", Apply: func(t *c12Target) (*coreblock.Block, *coreblock.Signature, bool) {
			b := cloneBlock(t.st.Block)
			if !f(t, b) {
				return nil, nil, false
			}
			return b, nil, true
		}}
	}
	sigT := func(name string, f func(t *c12Target, s *coreblock.Signature) bool) c12Tampering {
		return c12Tampering{Name: name, Class: "signature", Apply: func(t *c12Target) (*coreblock.Block, *coreblock.Signature, bool) {
			s := &coreblock.Signature{Header: coreblock.SignatureHeader{Type: t.sig.Header.Type, Identity: append([]byte(nil), t.sig.Header.Identity...)},
				Value: append([]byte(nil), t.sig.Value...)}
			if !f(t, s) {
				return nil, nil, false
			}
			return cloneBlock(t.st.Block), s, true
		}}
	}
	return []c12Tampering{
		content("delta.data", func(t *c12Target, b *coreblock.Block) bool {
			if !b.Delta.IsField() {
				return false
			}
			b.Delta.SetData(flipByte(b.Delta.GetData(), t.rng.IntN(1<<16)))
			return true
		}),
		content("delta.priority", func(t *c12Target, b *coreblock.Block) bool {
			b.Delta.GetDelta().SetPriority(b.Delta.GetPriority() + 1)
			return true
		}),
		content("delta.docID", func(t *c12Target, b *coreblock.Block) bool {
			switch {
			case b.Delta.LWWDelta != nil:
				b.Delta.LWWDelta.DocID = flipByte(b.Delta.LWWDelta.DocID, 9)
			case b.Delta.CounterDelta != nil:
				b.Delta.CounterDelta.DocID = flipByte(b.Delta.CounterDelta.DocID, 9)
			case b.Delta.DocCompositeDelta != nil:
				b.Delta.DocCompositeDelta.DocID = flipByte(b.Delta.DocCompositeDelta.DocID, 9)
			default:
				return false
			}
			return true
		}),
		content("delta.fieldName", func(t *c12Target, b *coreblock.Block) bool {
			other := map[string]string{"name": "s", "s": "name", "n": "c", "c": "n"}
			switch {
			case b.Delta.LWWDelta != nil:
				b.Delta.LWWDelta.FieldName = other[b.Delta.LWWDelta.FieldName]
			case b.Delta.CounterDelta != nil:
				b.Delta.CounterDelta.FieldName = other[b.Delta.CounterDelta.FieldName]
			default:
				return false
			}
			return true
		}),
		content("delta.schemaVersionID", func(t *c12Target, b *coreblock.Block) bool {
			mut := func(s string) string { return string(flipByte([]byte(s), 12)) }
			switch {
			case b.Delta.LWWDelta != nil:
				b.Delta.LWWDelta.SchemaVersionID = mut(b.Delta.LWWDelta.SchemaVersionID)
			case b.Delta.CounterDelta != nil:
				b.Delta.CounterDelta.SchemaVersionID = mut(b.Delta.CounterDelta.SchemaVersionID)
			case b.Delta.DocCompositeDelta != nil:
				b.Delta.DocCompositeDelta.SchemaVersionID = mut(b.Delta.DocCompositeDelta.SchemaVersionID)
			case b.Delta.CollectionDelta != nil:
				b.Delta.CollectionDelta.SchemaVersionID = mut(b.Delta.CollectionDelta.SchemaVersionID)
			default:
				return false
			}
			return true
		}),
		content("delta.status", func(t *c12Target, b *coreblock.Block) bool {
			if b.Delta.DocCompositeDelta == nil {
				return false
			}
			if b.Delta.DocCompositeDelta.Status.IsDeleted() {
				b.Delta.DocCompositeDelta.Status = client.Active
			} else {
				b.Delta.DocCompositeDelta.Status = client.Deleted
			}
			return true
		}),
		content("delta.nonce", func(t *c12Target, b *coreblock.Block) bool {
			if b.Delta.CounterDelta == nil {
				return false
			}
			b.Delta.CounterDelta.Nonce++
			return true
		}),
		content("heads.add", func(t *c12Target, b *coreblock.Block) bool {
			not := []cid.Cid{t.st.Cid}
			for _, h := range b.Heads {
				not = append(not, h.Cid)
			}
			c, ok := t.someOther(t.st.Kind, not...)
			if !ok {
				return false
			}
			b.Heads = append(b.Heads, cidlink.Link{Cid: c})
			return true
		}),
		content("heads.drop", func(t *c12Target, b *coreblock.Block) bool {
			if len(b.Heads) == 0 {
				return false
			}
			b.Heads = b.Heads[1:]
			if len(b.Heads) == 0 {
				b.Heads = nil
			}
			return true
		}),
		content("heads.replace", func(t *c12Target, b *coreblock.Block) bool {
			if len(b.Heads) == 0 {
				return false
			}
			c, ok := t.someOther(t.st.Kind, t.st.Cid, b.Heads[0].Cid)
			if !ok {
				return false
			}
			b.Heads[0] = cidlink.Link{Cid: c}
			return true
		}),
		content("links.rename", func(t *c12Target, b *coreblock.Block) bool {
			if len(b.Links) == 0 || b.Delta.IsCollection() {
				return false
			}
			b.Links[0].Name = b.Links[0].Name + "x"
			return true
		}),
		content("links.retarget", func(t *c12Target, b *coreblock.Block) bool {
			if len(b.Links) == 0 {
				return false
			}
			kinds := "field-genesis field-update"
			if b.Delta.IsCollection() {
				kinds = "composite"
			}
			not := []cid.Cid{t.st.Cid}
			for _, l := range b.Links {
				not = append(not, l.Cid)
			}
			c, ok := t.someOther(kinds, not...)
			if !ok {
				return false
			}
			b.Links[0].Link = cidlink.Link{Cid: c}
			return true
		}),
		content("links.drop", func(t *c12Target, b *coreblock.Block) bool {
			if len(b.Links) == 0 {
				return false
			}
			b.Links = b.Links[1:]
			if len(b.Links) == 0 {
				b.Links = nil
			}
			return true
		}),
		content("links.add", func(t *c12Target, b *coreblock.Block) bool {
			if !b.Delta.IsComposite() {
				return false
			}
			not := []cid.Cid{t.st.Cid}
			for _, l := range b.Links {
				not = append(not, l.Cid)
			}
			c, ok := t.someOther("field-genesis field-update", not...)
			if !ok {
				return false
			}
			b.Links = append(b.Links, coreblock.DAGLink{Name: "s", Link: cidlink.Link{Cid: c}})
			return true
		}),
		content("encryption-link", func(t *c12Target, b *coreblock.Block) bool {
			if b.Encryption != nil {
				b.Encryption = nil
				return true
			}
			c, ok := t.someOther("composite field-genesis field-update", t.st.Cid)
			if !ok {
				return false
			}
			b.Encryption = &cidlink.Link{Cid: c}
			return true
		}),
		sigT("signature.value-bitflip", func(t *c12Target, s *coreblock.Signature) bool {
			s.Value = flipByte(s.Value, 8+t.rng.IntN(len(s.Value)-8))
			return true
		}),
		sigT("signature.identity-substituted", func(t *c12Target, s *coreblock.Signature) bool {
			s.Header.Identity = []byte(t.other.PublicKey().String())
			return true
		}),
		sigT("signature.type-swapped", func(t *c12Target, s *coreblock.Signature) bool {
			if s.Header.Type == coreblock.SignatureTypeEd25519 {
				s.Header.Type = coreblock.SignatureTypeECDSA256K
			} else {
				s.Header.Type = coreblock.SignatureTypeEd25519
			}
			return true
		}),
		sigT("signature.value-of-other-signer", func(t *c12Target, s *coreblock.Signature) bool {
			// the original header (claims the signer) with a valid signature by somebody else over the same bytes
			bb := *t.st.Block
			bb.Signature = nil
			msg, err := bb.Marshal()
			core.Must(err)
			v, err := t.other.PrivateKey().Sign(msg)
			core.Must(err)
			s.Value = v
			return true
		}),
		{Name: "signature.link-to-signature-of-other-block", Class: "signature", Apply: func(t *c12Target) (*coreblock.Block, *coreblock.Signature, bool) {
			// a genuine signature block of the same signer, but made for different content
			var ks []string
			for k, st := range t.all {
				if st.Block != nil && st.Block.Signature != nil && !st.Cid.Equals(t.st.Cid) && !st.Block.Signature.Cid.Equals(t.st.Block.Signature.Cid) {
					ks = append(ks, k)
				}
			}
			if len(ks) == 0 {
				return nil, nil, false
			}
			sort.Strings(ks)
			o := t.all[ks[t.rng.IntN(len(ks))]]
			b := cloneBlock(t.st.Block)
			b.Signature = &cidlink.Link{Cid: o.Block.Signature.Cid}
			return b, nil, true
		}},
		{Name: "content-changed-and-resigned-by-other-identity", Class: "resigned", Apply: func(t *c12Target) (*coreblock.Block, *coreblock.Signature, bool) {
			b := cloneBlock(t.st.Block)
			b.Delta.GetDelta().SetPriority(b.Delta.GetPriority() + 1)
			bb := *b
			bb.Signature = nil
			msg, err := bb.Marshal()
			core.Must(err)
			v, err := t.other.PrivateKey().Sign(msg)
			core.Must(err)
			return b, &coreblock.Signature{Header: coreblock.SignatureHeader{Type: t.sig.Header.Type, Identity: []byte(t.other.PublicKey().String())}, Value: v}, true
		}},
	}
}

// c12Raw is the materialised state outside the block store: document values (/db/data) and heads (/db/heads).
// Blocks are content addressed and only ever added, so as long as these two prefixes are byte-identical the
// documents, their heads and the history reachable from the heads are unchanged. It is compared after every
// rejected delivery; the GraphQL dump (c12Dump) is compared once per block under test and on every acceptance.
func c12Raw(ctx context.Context, n *core.Node) string {
	var sb strings.Builder
	for _, pfx := range []string{"/db/data/", "/db/heads/"} {
		m := n.RawScan(ctx, pfx)
		ks := make([]string, 0, len(m))
		for k := range m {
			ks = append(ks, k)
		}
		sort.Strings(ks)
		for _, k := range ks {
			fmt.Fprintf(&sb, "%s=%x\n", k, m[k])
		}
	}
	return sb.String()
}

// c12Dump is the logical state the property speaks about: documents, history and heads.
func c12Dump(ctx context.Context, n *core.Node) string {
	docs, e1 := n.GQL(ctx, `query { U(showDeleted: true, order: {_docID: ASC}) { _docID _deleted name s n c } }`)
	commits, e2 := "", []string(nil)
	heads := n.RawScan(ctx, "/db/heads/")
	hk := make([]string, 0, len(heads))
	for k, v := range heads {
		hk = append(hk, fmt.Sprintf("%s=%x", k, v))
	}
	sort.Strings(hk)
	// the order of `commits` is not part of the contract
	var rows []string
	if r, err := n.Rows(ctx, `query { commits { cid height docID fieldName links { cid name } } }`, "commits"); err == nil {
		for _, x := range r {
			rows = append(rows, core.Canon(x))
		}
		sort.Strings(rows)
		commits = strings.Join(rows, "\n")
	} else {
		e2 = []string{err.Error()}
	}
	return fmt.Sprintf("docs=%s %v\ncommits=%s %v\nheads=%s", docs, e1, commits, e2, strings.Join(hk, "\n"))
}

// ---- follow-up deliveries: commits that have an already delivered block in their DAG

// c12Followup is one commit built on top of (child) or around (linker) a block that was delivered before.
type c12Followup struct {
	Name   string // child/unsigned | child/signed-by-signer | child/signed-by-other | linker/unsigned | ...
	Block  *coreblock.Block
	Cid    cid.Cid
	SigCid cid.Cid // cid.Undef when unsigned
	SigRaw []byte
}

// c12Seal finishes a harness-made block: with an identity it is signed exactly the way signBlock
// (internal/core/block/signing.go) does it - signature over the marshalled block without signature link, header =
// (type of the key, public key string), the signature block linked from the block. id == nil leaves it unsigned.
func c12Seal(name string, b *coreblock.Block, id identity.FullIdentity) *c12Followup {
	f := &c12Followup{Name: name, Block: b}
	b.Signature = nil
	if id != nil {
		msg, err := b.Marshal()
		core.Must(err)
		v, err := id.PrivateKey().Sign(msg)
		core.Must(err)
		typ := coreblock.SignatureTypeECDSA256K
		if id.PrivateKey().Type() == crypto.KeyTypeEd25519 {
			typ = coreblock.SignatureTypeEd25519
		}
		sg := &coreblock.Signature{Header: coreblock.SignatureHeader{Type: typ, Identity: []byte(id.PublicKey().String())}, Value: v}
		f.SigRaw, err = sg.Marshal()
		core.Must(err)
		l, err := coreblock.GetLinkFromNode(sg.GenerateNode())
		core.Must(err)
		f.SigCid = l.Cid
		b.Signature = &cidlink.Link{Cid: l.Cid}
	}
	l, err := b.GenerateLink()
	core.Must(err)
	f.Cid = l.Cid
	return f
}

// c12Child is the next commit of the same kind on top of block x: same delta one priority higher, Heads = [x],
// no links (a composite child is an update that touches no field; a collection child records no document).
func c12Child(x *coreblock.Block, xc cid.Cid) *coreblock.Block {
	ch := cloneBlock(x)
	ch.Heads = []cidlink.Link{{Cid: xc}}
	ch.Links = nil
	ch.Signature = nil
	ch.Delta.GetDelta().SetPriority(x.Delta.GetPriority() + 1)
	return ch
}

// c12LinkerOf finds the block of the signer's store that links orig (composite -> its field blocks,
// collection block -> the composite it records).
func c12LinkerOf(all map[string]*c12Stored, orig cid.Cid) *c12Stored {
	var ks []string
	for k, st := range all {
		if st.Block == nil {
			continue
		}
		for _, l := range st.Block.Links {
			if l.Cid.Equals(orig) {
				ks = append(ks, k)
				break
			}
		}
	}
	if len(ks) == 0 {
		return nil
	}
	sort.Strings(ks)
	return all[ks[0]]
}

// c12Relink is the linker with its link to orig re-pointed to repl.
func c12Relink(linker *coreblock.Block, orig, repl cid.Cid) *coreblock.Block {
	lb := cloneBlock(linker)
	for i := range lb.Links {
		if lb.Links[i].Cid.Equals(orig) {
			lb.Links[i].Link = cidlink.Link{Cid: repl}
		}
	}
	lb.Signature = nil
	return lb
}

// c12Followups builds every follow-up of block x (cid xc) that stands in for original block orig.
func c12Followups(x *coreblock.Block, xc cid.Cid, orig cid.Cid, linker *c12Stored, signer, other identity.FullIdentity) []*c12Followup {
	ids := []struct {
		n  string
		id identity.FullIdentity
	}{{"unsigned", nil}, {"signed-by-signer", signer}, {"signed-by-other", other}}
	var out []*c12Followup
	for _, v := range ids {
		out = append(out, c12Seal("child/"+v.n, c12Child(x, xc), v.id))
	}
	if linker != nil {
		for _, v := range ids {
			out = append(out, c12Seal("linker/"+v.n, c12Relink(linker.Block, orig, xc), v.id))
		}
	}
	return out
}

var c12FollowupNames = []string{"child/unsigned", "child/signed-by-signer", "child/signed-by-other", "linker/unsigned", "linker/signed-by-signer", "linker/signed-by-other"}

func runC12(ctx context.Context, c core.Case, r *core.Rec) {
	var p c12Params
	c.P(&p)
	rng := c.Rng()
	kt, okt := crypto.KeyTypeSecp256k1, crypto.KeyTypeEd25519
	if p.KeyType == "ed25519" {
		kt, okt = okt, kt
	}
	signer, other, otherKT := c12Identity(rng, kt), c12Identity(rng, kt), c12Identity(rng, okt)
	var log []string
	logf := func(f string, a ...any) { log = append(log, fmt.Sprintf(f, a...)) }
	flagged := map[string]bool{}
	violate := func(sig, msg string, extra map[string]any) {
		if flagged[sig] {
			return
		}
		flagged[sig] = true
		d := map[string]any{"params": p, "log": log}
		for k, v := range extra {
			d[k] = v
		}
		r.Violate(sig, msg, d)
	}

	a := core.NewNode(ctx, core.NodeOpts{Signing: true, Identity: immutable.Some[identity.Identity](signer)})
	defer a.Close()
	_, err := a.DB.AddSchema(ctx, c12SDL(p.Branchable))
	core.Must(err)
	col := a.Col(ctx, "U")
	colID := col.Version().CollectionID

	// the history; heads[i] = composite head of the touched document after step i
	type step struct {
		DocID string
		Head  cid.Cid
	}
	var steps []step
	docIDs := make([]string, len(p.Docs))
	for i, m := range p.Docs {
		doc, err := client.NewDocFromMap(m, col.Definition())
		core.Must(err)
		var opts []client.DocCreateOption
		if p.Encrypted {
			opts = append(opts, client.CreateDocEncrypted(true))
		}
		core.Must(col.Create(ctx, doc, opts...))
		docIDs[i] = doc.ID().String()
		steps = append(steps, step{docIDs[i], core.ParseCid(a.CompositeHeads(ctx, docIDs[i])[0])})
		logf("A: create %s %v", docIDs[i], m)
	}
	for _, op := range p.Ops {
		id := docIDs[op.Doc]
		if op.Delete {
			did, err := client.NewDocIDFromString(id)
			core.Must(err)
			_, err = col.Delete(ctx, did)
			core.Must(err)
			logf("A: delete %s", id)
		} else {
			core.Must(colUpdateAny(ctx, a, id, op.Set))
			logf("A: update %s %v", id, op.Set)
		}
		steps = append(steps, step{id, core.ParseCid(a.CompositeHeads(ctx, id)[0])})
	}
	all := c12Load(ctx, a)

	// ---- every block the signing node wrote
	var signed []*c12Stored
	var keys []string
	for k := range all {
		keys = append(keys, k)
	}
	sort.Strings(keys)
	for _, k := range keys {
		st := all[k]
		if st.Block == nil {
			continue
		}
		r.Count("blocks_written", 1)
		if st.Block.Signature == nil {
			if st.Kind == "field-update" {
				r.Count("unsigned_field_update_blocks_by_design", 1)
				continue
			}
			violate("unsigned/"+st.Kind, fmt.Sprintf("a %s block written while a signing identity was in effect carries no signature", st.Kind), map[string]any{"cid": k})
			continue
		}
		signed = append(signed, st)
		r.Count("evaluations", 3)
		r.Count("signed_blocks_verified", 1)
		r.Count("signed_"+st.Kind+"_"+p.KeyType, 1)
		if err := a.DB.VerifySignature(ctx, k, signer.PublicKey()); err != nil {
			shape := "block-without-parents"
			if len(st.Block.Heads) > 0 {
				shape = "block-with-parents"
			}
			violate(fmt.Sprintf("verify/own-key-fails/%s/%s", p.KeyType, shape),
				fmt.Sprintf("VerifySignature of a %s block under the public key of the identity that signed it fails: %v", st.Kind, err), map[string]any{"cid": k, "heads": len(st.Block.Heads)})
		}
		if err := a.DB.VerifySignature(ctx, k, other.PublicKey()); err == nil {
			violate(fmt.Sprintf("verify/other-key-same-type-accepted/%s", p.KeyType),
				fmt.Sprintf("VerifySignature of a %s block succeeds under a fresh %s key that did not sign it", st.Kind, p.KeyType), map[string]any{"cid": k})
		}
		if err := a.DB.VerifySignature(ctx, k, otherKT.PublicKey()); err == nil {
			violate(fmt.Sprintf("verify/other-key-type-accepted/%s", p.KeyType),
				fmt.Sprintf("VerifySignature of a %s block signed with %s succeeds under a key of the other type", st.Kind, p.KeyType), map[string]any{"cid": k})
		}
	}

	// ---- tamper matrix
	scratch := core.NewNode(ctx, core.NodeOpts{})
	defer scratch.Close()
	matrix := c12Matrix()
	stepOf := map[string]int{}
	for i, s := range steps {
		if _, ok := stepOf[s.Head.String()]; !ok {
			stepOf[s.Head.String()] = i
		}
	}
	putAll := func(n *core.Node) {
		for _, st := range all {
			c12Put(ctx, n, st.Cid, st.Raw)
		}
	}
	putAll(scratch)
	var stillVerifies, accepted, reaccepted, followAccepted []c12Hit
	nChecked, nDelivered, nSequences := 0, 0, 0
	for _, st := range signed {
		sigSt := all[st.Block.Signature.Cid.String()]
		if sigSt == nil || sigSt.Sig == nil {
			violate("signature-block-missing/"+st.Kind, "the signature block a signed block links to is not in the signer's block store", map[string]any{"cid": st.Cid.String()})
			continue
		}
		tgt := &c12Target{st: st, sig: sigSt.Sig, all: all, other: other, otherKT: otherKT, rng: rng}

		// receiver B: holds every block of A (so every link of a tampered block resolves offline); optionally it has merged
		// the parents of the block under test
		b := core.NewNode(ctx, core.NodeOpts{})
		_, err := b.DB.AddSchema(ctx, c12SDL(p.Branchable))
		core.Must(err)
		putAll(b)
		// no key-management service runs on B: the harness answers its key requests (encrypted histories) with A's keys,
		// otherwise nothing of an encrypted document is merged and the negative control could not change B
		ks := c11ServeKeys(ctx, b, a, func(*coreblock.Encryption) bool { return true })
		docID := string(st.Block.Delta.GetDocID())
		if p.ReceiverHasParents && st.Kind == "composite" {
			for _, h := range st.Block.Heads {
				if merr := b.Merge(ctx, docID, h.Cid, colID); merr != nil {
					logf("B: merge of parent %s failed: %v", h.Cid, merr)
				}
			}
		}
		bsrv := blockservice.New(b.Blockstore(), offline.Exchange(b.Blockstore()))
		before := c12Dump(ctx, b)
		rawBefore := c12Raw(ctx, b)
		linker := c12LinkerOf(all, st.Cid)

		// merge raises the merge event for a block that got through syncDAG, as the push-log handler does (document
		// commits under their docID, collection commits under the collection). ran=false: nothing to merge (field block).
		merge := func(blk *coreblock.Block, c cid.Cid) (ran bool, err error) {
			switch {
			case blk.Delta.IsComposite():
				return true, b.Merge(ctx, docID, c, colID)
			case blk.Delta.IsCollection():
				return true, b.Merge(ctx, "", c, colID)
			}
			return false, nil
		}
		// offer delivers one block that must be rejected to B's receive path. Rejected: nil (B's raw state is compared).
		// Accepted: the merge runs, so that a forged delta shows up as changed state, and the hit is returned.
		offer := func(step, tmName string, blk *coreblock.Block, c cid.Cid) *c12Hit {
			serr := dnet.VerifSyncDAG(ctx, bsrv, blk)
			if serr == nil {
				ran, merr := merge(blk, c)
				// (the query dump is expensive; with identical raw values and heads it cannot differ)
				after, rawAfter := before, c12Raw(ctx, b)
				if rawAfter != rawBefore {
					after = c12Dump(ctx, b)
				}
				h := &c12Hit{Cell: tmName, Step: step, Kind: st.Kind, Original: st.Cid.String(), Tampered: c.String(),
					Extra: fmt.Sprintf("%s: merge ran=%v err=%v, receiver state changed=%v", step, ran, merr, after != before), Before: before, After: after}
				// start again from the new receiver state for the following deliveries
				before, rawBefore = after, rawAfter
				return h
			}
			if rawAfter := c12Raw(ctx, b); rawAfter != rawBefore {
				after := c12Dump(ctx, b)
				violate("receive/rejected-but-state-changed/"+c12Group(tmName),
					fmt.Sprintf("syncDAG rejected the delivery (%s; tampered %s block, %s changed: %v) but the receiver's stored document values or heads changed", step, st.Kind, tmName, serr),
					map[string]any{"raw_before": rawBefore, "raw_after": rawAfter, "before": before, "after": after})
				before, rawBefore = after, rawAfter
			}
			return nil
		}
		// the steps that follow the first (rejected) delivery of a forged block, all on the same receiver
		type forged struct {
			tm      string
			blk     *coreblock.Block
			cid     cid.Cid
			follows []*c12Followup
			hit     *c12Hit // the first delivery of the sequence that got through; later ones are consequences of the same defect
		}
		sequence := func(phase string, f *forged) {
			got := func(h *c12Hit) {
				if h == nil {
					return
				}
				if f.hit == nil {
					f.hit = h
				} else {
					f.hit.Later++
				}
			}
			// (1) the same forged block again
			r.Count("evaluations", 1)
			r.Count("tampered_redelivered", 1)
			r.Count("tampered_redelivered_"+phase, 1)
			h := offer(phase+"/redelivery", f.tm, f.blk, f.cid)
			if h == nil {
				r.Count("tampered_redelivered_rejected", 1)
			}
			got(h)
			// (2) commits that have the forged block as head / link
			for _, fu := range f.follows {
				if fu.SigRaw != nil {
					c12Put(ctx, b, fu.SigCid, fu.SigRaw)
				}
				r.Count("evaluations", 1)
				r.Count("followup:"+fu.Name, 1)
				r.Count("followup_"+phase, 1)
				if strings.HasPrefix(fu.Name, "child/") {
					r.Count("child_of_tampered_delivered", 1)
				} else {
					r.Count("linker_of_tampered_delivered", 1)
				}
				r.Count("followup_on_"+st.Kind, 1)
				h := offer(phase+"/"+fu.Name, f.tm, fu.Block, fu.Cid)
				if h == nil {
					r.Count("followup_rejected", 1)
				} else {
					h.Follow = fu.Name
				}
				got(h)
			}
		}
		var forgeds []*forged

		for _, tm := range matrix {
			tb, ts, ok := tm.Apply(tgt)
			if !ok {
				continue
			}
			// re-encode; a new signature block gets its own cid and the block is re-pointed to it
			var sigRaw []byte
			var sigCid cid.Cid
			if ts != nil {
				sigRaw, err = ts.Marshal()
				core.Must(err)
				l, err := coreblock.GetLinkFromNode(ts.GenerateNode())
				core.Must(err)
				sigCid = l.Cid
				tb.Signature = &cidlink.Link{Cid: sigCid}
			}
			raw, err := tb.Marshal()
			if err != nil {
				r.Note("tampered_block_not_encodable/" + tm.Name)
				continue
			}
			tl, err := tb.GenerateLink()
			core.Must(err)
			cell := fmt.Sprintf("%s|%s|%s", p.KeyType, st.Kind, tm.Name)
			if bytes.Equal(raw, st.Raw) || tl.Cid.Equals(st.Cid) {
				r.Note("tampering_without_effect/" + tm.Name)
				continue
			}
			// the tampered block must decode again (otherwise the receive path would not even get to the signature)
			if _, derr := coreblock.GetFromBytes(raw); derr != nil {
				r.Note("tampered_block_not_decodable/" + tm.Name)
				continue
			}
			r.Nontrivial(cell)
			r.Count("evaluations", 2)
			r.Count("tamperings", 1)
			r.Count("tampered:"+tm.Name+"/"+p.KeyType, 1)
			r.Count("tampered_"+p.KeyType, 1)
			r.Count("tampered_kind_"+st.Kind, 1)

			// (a) stored on a scratch node: must not verify under the signer's key
			c12Put(ctx, scratch, tl.Cid, raw)
			if ts != nil {
				c12Put(ctx, scratch, sigCid, sigRaw)
			}
			verr := scratch.DB.VerifySignature(ctx, tl.Cid.String(), signer.PublicKey())
			if tm.Name != "signature.type-swapped" {
				nChecked++
			}
			if verr == nil {
				if tm.Name == "signature.type-swapped" {
					// content, parents, links and the signature value are authentic and the key is the signer's:
					// VerifySignature(cid, key) does not look at the declared type. Not a forgery.
					r.Note("type_swapped_signature_still_verifies_under_explicit_signer_key")
				} else {
					stillVerifies = append(stillVerifies, c12Hit{Cell: tm.Name, Kind: st.Kind, Original: st.Cid.String(), Tampered: tl.Cid.String()})
				}
			}
			if tm.Class == "resigned" {
				// authenticates the author: the re-signed block verifies under the other identity only
				if oerr := scratch.DB.VerifySignature(ctx, tl.Cid.String(), other.PublicKey()); oerr != nil {
					r.Note("resigned_block_does_not_verify_under_its_new_signer")
				}
				r.Count("resigned_checked", 1)
				continue // a commit genuinely signed by somebody else is not a forgery: the receive path may take it
			}

			// (b) receive path of B: first delivery
			c12Put(ctx, b, sigSt.Cid, sigSt.Raw)
			if ts != nil {
				c12Put(ctx, b, sigCid, sigRaw)
			}
			r.Count("tampered_deliveries", 1)
			nDelivered++
			if h := offer("first-delivery", tm.Name, tb, tl.Cid); h != nil {
				// everything that follows on this receiver would be a consequence of the same defect
				accepted = append(accepted, *h)
				continue
			}
			r.Count("tampered_rejected", 1)
			if has, _ := b.Blockstore().Has(ctx, tl.Cid); has {
				r.Note("rejected_forged_block_stays_in_block_store_as_orphan")
			}
			// (c) the same receiver, which now may hold the forged block as an orphan: the block again, then commits that have
			// it in their DAG
			f := &forged{tm: tm.Name, blk: tb, cid: tl.Cid, follows: c12Followups(tb, tl.Cid, st.Cid, linker, signer, other)}
			forgeds = append(forgeds, f)
			nSequences++
			sequence("before-control", f)
		}

		// the dump through the query interface, once per block under test, after the whole matrix
		if after := c12Dump(ctx, b); after != before {
			violate("receive/rejected-but-state-changed/query-dump",
				fmt.Sprintf("after %s block %s had been offered in all its tampered forms, again, and below other commits (all rejected) the receiver's documents, commits or heads differ", st.Kind, st.Cid),
				map[string]any{"before": before, "after": after})
			before = after
		}
		r.Count("receiver_dump_comparisons", 1)

		// negative control: the untampered block goes through and changes B
		cerr := dnet.VerifSyncDAG(ctx, bsrv, st.Block)
		if cerr != nil {
			violate("control/untampered-rejected/"+st.Kind, fmt.Sprintf("the receive path rejects the untampered signed %s block: %v", st.Kind, cerr), map[string]any{"cid": st.Cid.String()})
		} else {
			r.Count("control_sync_ok", 1)
			if st.Kind == "composite" {
				merr := b.Merge(ctx, docID, st.Cid, colID)
				after := c12Dump(ctx, b)
				if merr != nil {
					if p.Encrypted {
						r.Note("control_merge_error_encrypted")
					} else {
						violate("control/untampered-merge-error", fmt.Sprintf("merging the untampered signed composite fails: %v", merr), map[string]any{"cid": st.Cid.String()})
					}
				} else if after == before {
					violate("control/untampered-no-effect", "the untampered signed composite went through syncDAG and merge without changing the receiver (rejections would be vacuous)",
						map[string]any{"cid": st.Cid.String(), "state": after})
				} else {
					r.Count("control_changed_receiver", 1)
				}
			} else if linker != nil && cerr == nil {
				// a field / collection-recorded block becomes part of the receiver's documents through the genuine commit that links it
				if lerr := dnet.VerifSyncDAG(ctx, bsrv, linker.Block); lerr != nil {
					violate("control/untampered-rejected/"+linker.Kind, fmt.Sprintf("the receive path rejects the untampered %s block that links the %s block under test: %v", linker.Kind, st.Kind, lerr),
						map[string]any{"cid": linker.Cid.String()})
				} else if _, merr := merge(linker.Block, linker.Cid); merr != nil {
					r.Note("control_linker_merge_error")
				} else {
					r.Count("control_linker_merged", 1)
				}
			}
		}

		// (d) the receiver now also holds (and, for a commit, has merged) the genuine history: the forged blocks and the
		// commits on top of them come in once more
		before, rawBefore = c12Dump(ctx, b), c12Raw(ctx, b)
		for _, f := range forgeds {
			sequence("after-control", f)
		}
		if after := c12Dump(ctx, b); after != before {
			violate("receive/rejected-but-state-changed/query-dump",
				fmt.Sprintf("after the genuine %s block %s was merged, its tampered forms and the commits on top of them were offered again (all rejected) and the receiver's documents, commits or heads differ", st.Kind, st.Cid),
				map[string]any{"before": before, "after": after})
			before = after
		}

		// control of the follow-ups: the same constructions on top of the GENUINE block are good commits. The one signed by the
		// original signer must get through the receive path and, for a commit, the merge must move the receiver.
		if cerr == nil {
			for _, fu := range c12Followups(st.Block, st.Cid, st.Cid, nil, signer, other) {
				if fu.SigRaw != nil {
					c12Put(ctx, b, fu.SigCid, fu.SigRaw)
				}
				serr := dnet.VerifSyncDAG(ctx, bsrv, fu.Block)
				if fu.Name != "child/signed-by-signer" {
					if serr != nil {
						r.Note("control_" + fu.Name + "_of_genuine_block_rejected")
					}
					continue
				}
				if serr != nil {
					violate("control/validly-signed-child-of-genuine-block-rejected/"+st.Kind,
						fmt.Sprintf("a child commit of the genuine %s block, signed by the same identity the way signBlock signs, is rejected by the receive path: %v (the rejections of children of forged blocks would be vacuous)", st.Kind, serr),
						map[string]any{"cid": st.Cid.String()})
					continue
				}
				r.Count("control_child_accepted", 1)
				if ran, merr := merge(fu.Block, fu.Cid); ran && st.Kind == "composite" {
					if after := c12Dump(ctx, b); merr != nil {
						if p.Encrypted {
							r.Note("control_child_merge_error_encrypted")
						} else {
							violate("control/validly-signed-child-merge-error", fmt.Sprintf("merging a validly signed child of the genuine composite fails: %v", merr), map[string]any{"cid": st.Cid.String()})
						}
					} else if after == before {
						violate("control/validly-signed-child-no-effect", "a validly signed child of the genuine composite went through syncDAG and merge without changing the receiver", map[string]any{"cid": st.Cid.String()})
					} else {
						r.Count("control_child_changed_receiver", 1)
						before = after
					}
				}
			}
		}
		for _, f := range forgeds {
			switch {
			case f.hit == nil:
			case f.hit.Follow == "":
				reaccepted = append(reaccepted, *f.hit)
			default:
				followAccepted = append(followAccepted, *f.hit)
			}
		}
		ks.close()
		b.Close()
	}
	// One defect, one signature: when every tampering passes, the check as a whole is ineffective;
	// otherwise the part of the block that is not covered names the defect.
	report := func(hits []c12Hit, total int, allSig, partSig, allMsg, partMsg string) {
		if len(hits) == 0 {
			return
		}
		if len(hits) == total {
			violate(allSig, fmt.Sprintf(allMsg, total), map[string]any{"first": hits[0], "count": len(hits)})
			return
		}
		byGroup := map[string][]c12Hit{}
		for _, h := range hits {
			g := c12Group(h.Cell)
			byGroup[g] = append(byGroup[g], h)
		}
		for g, hs := range byGroup {
			cells := map[string]bool{}
			for _, h := range hs {
				cells[h.Cell] = true
			}
			var cl []string
			for c := range cells {
				cl = append(cl, c)
			}
			sort.Strings(cl)
			violate(partSig+"/"+g, fmt.Sprintf(partMsg, hs[0].Kind, strings.Join(cl, ", "), hs[0].Extra), map[string]any{"first": hs[0], "count": len(hs), "cells": cl})
		}
	}
	report(stillVerifies, nChecked, "tamper/every-tampering-still-verifies", "tamper/still-verifies",
		"all %d tampered blocks still pass VerifySignature under the signer's key",
		"a signed %s block whose %s was changed still passes VerifySignature under the signer's key %s")
	report(accepted, nDelivered, "receive/accepts-every-tampered-block", "receive/tampered-accepted",
		"the receive path (syncDAG) accepted all %d tampered signed blocks offered to it",
		"the receive path (syncDAG) accepts a signed %s block whose %s was changed (%s)")
	// the sequences: per forged block the FIRST delivery that got through names the defect
	report(reaccepted, nSequences, "receive/tampered-accepted-on-redelivery/every-tampering", "receive/tampered-accepted-on-redelivery",
		"the receive path (syncDAG) rejected each of %d tampered signed blocks when it first came in and accepted every one of them when the same block was delivered again to the same node",
		"the receive path (syncDAG) rejects a signed %s block whose %s was changed when it first comes in, but accepts the same block when it is delivered again to the same node (%s)")
	byFollow := map[string][]c12Hit{}
	for _, h := range followAccepted {
		byFollow[h.Follow] = append(byFollow[h.Follow], h)
	}
	for fn, hs := range byFollow {
		pre := "receive/child-of-rejected-forged-block-accepted/" + strings.TrimPrefix(fn, "child/")
		what := "a child commit (Heads = [the forged block], " + strings.TrimPrefix(fn, "child/") + ")"
		if strings.HasPrefix(fn, "linker/") {
			pre = "receive/linker-of-rejected-forged-block-accepted/" + strings.TrimPrefix(fn, "linker/")
			what = "the commit that links the original block, re-pointed to the forged block (" + strings.TrimPrefix(fn, "linker/") + ")"
		}
		report(hs, nSequences, pre+"/every-tampering", pre,
			"the receive path (syncDAG) rejected each of %d tampered signed blocks, and afterwards accepted for every one of them "+what+" although the forged block is part of the delivered DAG",
			"after a signed %s block whose %s was changed had been rejected, the receive path (syncDAG) accepts "+what+": the forged block stayed in the block store and is not verified when it is reached again (%s)")
	}
	r.Sample(map[string]any{"params": p, "signed_blocks": len(signed), "log": log})
}

type c12Hit struct {
	Cell     string `json:"cell"`
	Step     string `json:"step,omitempty"`   // first-delivery | <phase>/redelivery | <phase>/<follow-up>
	Follow   string `json:"follow,omitempty"` // the follow-up commit that got through (child/..., linker/...)
	Later    int    `json:"later_deliveries_also_accepted,omitempty"`
	Kind     string `json:"kind"`
	Original string `json:"original"`
	Tampered string `json:"tampered"`
	Extra    string `json:"extra,omitempty"`
	Before   string `json:"before,omitempty"`
	After    string `json:"after,omitempty"`
}

// c12Group: the part of a block a tampering touches (delta / heads / links / encryption-link / signature.<what>).
func c12Group(cell string) string {
	if i := strings.IndexByte(cell, '.'); i > 0 && !strings.HasPrefix(cell, "signature.") {
		return cell[:i]
	}
	return cell
}

// colUpdateAny updates through the collection API (JSON numbers arrive as float64 after a params round trip).
func colUpdateAny(ctx context.Context, n *core.Node, docID string, vals map[string]any) error {
	col := n.Col(ctx, "U")
	id, err := client.NewDocIDFromString(docID)
	if err != nil {
		return err
	}
	doc, err := col.Get(ctx, id, false)
	if err != nil {
		return err
	}
	ks := []string{}
	for k := range vals {
		ks = append(ks, k)
	}
	sort.Strings(ks)
	for _, k := range ks {
		v := vals[k]
		if f, ok := v.(float64); ok && (k == "n" || k == "c") {
			v = int64(f)
		}
		if err := doc.Set(k, v); err != nil {
			return err
		}
	}
	return col.Update(ctx, doc)
}

func init() {
	var floors []string
	for _, kt := range []string{"secp256k1", "ed25519"} {
		floors = append(floors, "tampered_"+kt, "signed_composite_"+kt, "signed_field-genesis_"+kt)
	}
	for _, tm := range c12Matrix() {
		floors = append(floors, "tampered:"+tm.Name+"/secp256k1", "tampered:"+tm.Name+"/ed25519")
	}
	floors = append(floors, "tampered_kind_composite", "tampered_kind_field-genesis", "tampered_kind_collection", "control_changed_receiver", "control_sync_ok",
		"tampered_rejected", "signed_blocks_verified", "resigned_checked", "unsigned_field_update_blocks_by_design")
	// delivery sequences on one receiver
	floors = append(floors, "tampered_redelivered", "tampered_redelivered_before-control", "tampered_redelivered_after-control", "tampered_redelivered_rejected",
		"child_of_tampered_delivered", "linker_of_tampered_delivered", "followup_before-control", "followup_after-control", "followup_rejected",
		"followup_on_composite", "followup_on_field-genesis", "followup_on_collection",
		"control_child_accepted", "control_child_changed_receiver", "control_linker_merged")
	for _, n := range c12FollowupNames {
		floors = append(floors, "followup:"+n)
	}
	core.Register(&core.Check{
		ID: "C12", Level: "exploration",
		Rule: "10 anchor histories + generated histories on a signing node (secp256k1 / ed25519 identity derived from the case seed; 1-3 documents, 1-5 updates incl. counters and deletes; " +
			"plain, branchable, document-level encrypted). Every block written is verified under the signer's key, a fresh key of the same type and a key of the other type; " +
			"every signed block x every single-field tampering of the block or its signature block is re-encoded, checked with VerifySignature on a scratch node and offered to " +
			"net.VerifSyncDAG (+ merge only on success, as the push-log handler does) on a receiver that holds all linked blocks; documents, commits and raw heads of the receiver are compared. " +
			"Each rejected tampered block is followed, on the same receiver (block store not reset), by the same block again and by commits that have it in their DAG " +
			"(child with Heads=[forged] and the re-pointed linking commit, each unsigned / signed by the signer / signed by another identity), before and again after the untampered control was merged; " +
			"all must be rejected with the receiver unchanged; a validly signed child of the genuine block must be accepted (control). " +
			"distinct = (key type, block kind, tampered field); non-trivial = the tampering changed the encoded bytes and the block still decodes.",
		Cases:       c12Cases,
		Run:         runC12,
		Floors:      floors,
		CaseTimeout: 15 * time.Minute, // a case is ~5 s of work; the watchdog must not fire because the machine is loaded
		Assumptions: []string{
			"receive path = net.syncDAG through hook H2 with an offline block service over the receiver's own block store; the merge event is raised only when syncDAG returns nil (net/server.go pushLogHandler)",
			"a block whose signature link was stripped is an unsigned block, which the property does not speak about; it is not part of the matrix",
			"a block changed and re-signed by another identity is an authentic commit of that identity, not a forgery: only VerifySignature under the original signer's key is required to fail",
			"a commit whose DAG contains a forged signed block is itself a delivery of that forged block: the receive path walks the whole DAG and must reject it whatever the signature state of the commit on top (net/sync_dag.go loadBlockLinks verifies every signed block it reaches)",
			"a rejected forged block that stays in the block store as an orphan is a note, not a violation: the property speaks of documents' state, history and heads",
		},
	})
}
