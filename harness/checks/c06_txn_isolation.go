package checks

// C06 — explicit transactions are isolated: snapshot reads, no lost updates.
//
// Oracle: an executable snapshot-isolation model run in lock-step with a deterministic,
// single-goroutine interleaving of the steps of 2-3 explicit transactions and an observer
// that reads (without a transaction) after every step:
//
//   S            committed state (documents by key: values, deleted flag, number of commits)
//   T.view       copy of S taken at db.NewTxn, updated by T's own successful writes
//   read in T    must equal T.view;  observer read must equal S
//   Commit       nil  -> S := S (+) T's written documents, visible to the next observer read
//                error-> S unchanged (must be a conflict error)
//   demanded conflict: ONLY when an overlapping transaction that modified the same document
//                has already committed (the one case the property states). Any other conflict
//                is counted as spurious and never flagged.
//   no trace     a step that is not a successful commit must leave the raw store byte-identical
//                and must not publish update events; a successful commit publishes exactly one
//                update event per write of the transaction.

import (
	"context"
	"errors"
	"fmt"
	"math/rand/v2"
	"sort"
	"strings"
	"time"

	"github.com/sourcenetwork/corekv"

	"github.com/sourcenetwork/defradb/client"
	"github.com/sourcenetwork/defradb/event"
	"github.com/sourcenetwork/defradb/internal/db"
	"github.com/sourcenetwork/defradb/verifharness/core"
)

// ---------------------------------------------------------------------------------------
// programs

type c06Op struct {
	Op    string `json:"op"`              // get | upd | del | new | list | count | find
	Doc   string `json:"doc,omitempty"`   // document key: d1, d2, n<txn>.<op> (created by that op)
	Field string `json:"field,omitempty"` // upd: v (String, indexed in the indexed configuration) | w (Int)
	Val   string `json:"val,omitempty"`   // upd: the unique new value; find: the value of v searched
}

type c06Txn struct {
	Route string  `json:"route"` // col: collection methods with db.InitContext(ctx, txn) | gql: txn.ExecRequest
	Ops   []c06Op `json:"ops"`
	End   string  `json:"end"` // commit | discard
	// Concurrent: the transaction is obtained with DB.NewConcurrentTxn (the concurrency-safe flavour
	// of an explicit transaction) instead of DB.NewTxn; the isolation contract is the same.
	Concurrent bool `json:"concurrent,omitempty"`
}

type c06Params struct {
	Store   string   `json:"store"` // badger | memory
	Indexed bool     `json:"indexed"`
	Txns    []c06Txn `json:"txns"`
	// Sched: one explicit interleaving (txn index per step; txn t appears len(ops)+2 times:
	// begin, ops..., end). Empty = ALL interleavings of the programs.
	Sched []int `json:"sched,omitempty"`
	// Part/Parts: with Sched empty, this case executes the interleavings whose index (in the
	// lexicographic enumeration) is congruent to Part modulo Parts; the Parts cases of one
	// program pair together execute every interleaving (cases are kept small so that the
	// per-case watchdog cannot fire on a loaded machine).
	Part  int `json:"part,omitempty"`
	Parts int `json:"parts,omitempty"`
	// Batch: several independent (programs, schedule) items executed one after the other on the
	// same node, each on a collection of its own (random 3-transaction schedules).
	Batch []c06Params `json:"batch,omitempty"`
}

const c06MaxSchedulesPerCase = 16

// c06Split returns the cases that together execute all interleavings of p's programs.
func c06Split(kind string, seed uint64, p c06Params) []core.Case {
	n := len(c06Interleavings(c06StepCounts(p.Txns)))
	p.Parts = (n + c06MaxSchedulesPerCase - 1) / c06MaxSchedulesPerCase
	var cs []core.Case
	for i := 0; i < p.Parts; i++ {
		p.Part = i
		cs = append(cs, core.MkCase(c06Kind(kind, p), seed, p))
	}
	return cs
}

func (o c06Op) String() string {
	switch o.Op {
	case "upd":
		return fmt.Sprintf("upd %s.%s=%s", o.Doc, o.Field, o.Val)
	case "find":
		return "find v=" + o.Val
	case "list", "count":
		return o.Op
	}
	return o.Op + " " + o.Doc
}

func c06IsWrite(op string) bool { return op == "upd" || op == "del" || op == "new" }

// c06Interleavings enumerates all distinct orderings of the multiset {t repeated counts[t]}.
func c06Interleavings(counts []int) [][]int {
	total := 0
	for _, c := range counts {
		total += c
	}
	var out [][]int
	cur := make([]int, 0, total)
	left := append([]int(nil), counts...)
	var rec func()
	rec = func() {
		if len(cur) == total {
			out = append(out, append([]int(nil), cur...))
			return
		}
		for t := range left {
			if left[t] > 0 {
				left[t]--
				cur = append(cur, t)
				rec()
				cur = cur[:len(cur)-1]
				left[t]++
			}
		}
	}
	rec()
	return out
}

func c06StepCounts(txns []c06Txn) []int {
	cs := make([]int, len(txns))
	for i, t := range txns {
		cs[i] = len(t.Ops) + 2
	}
	return cs
}

// c06GenTxn generates the program of transaction t. memory=true restricts the program to
// what the corekv memory store can execute (no iterate+write inside one transaction:
// collection route only, no delete).
func c06GenTxn(rng *rand.Rand, t, nTxns, maxOps int, memory bool) c06Txn {
	tx := c06Txn{Route: "col"}
	if !memory && rng.IntN(2) == 0 {
		tx.Route = "gql"
	}
	tx.Concurrent = rng.IntN(3) == 0
	k := 1 + rng.IntN(maxOps)
	pickDoc := func() string {
		switch x := rng.IntN(20); {
		case x < 13:
			return "d1"
		case x < 18:
			return "d2"
		default:
			// a document that (maybe) another transaction creates with its first operation
			return fmt.Sprintf("n%d.0", rng.IntN(nTxns))
		}
	}
	for i := 0; i < k; i++ {
		var o c06Op
		x := rng.IntN(100)
		switch {
		case x < 32:
			o = c06Op{Op: "upd", Doc: pickDoc(), Field: "v", Val: fmt.Sprintf("u%d.%d", t, i)}
			if rng.IntN(4) == 0 {
				o.Field, o.Val = "w", fmt.Sprint((t+1)*100+i)
			}
		case x < 50:
			o = c06Op{Op: "get", Doc: pickDoc()}
		case x < 64:
			if memory {
				o = c06Op{Op: "get", Doc: pickDoc()}
			} else {
				o = c06Op{Op: "del", Doc: pickDoc()}
			}
		case x < 74:
			o = c06Op{Op: "new", Doc: fmt.Sprintf("n%d.%d", t, i)}
		case x < 84:
			o = c06Op{Op: "list"}
		case x < 91:
			o = c06Op{Op: "count"}
		default:
			vals := []string{"i1", "i2", "u0.0", "u1.0", "u0.1", "u1.1", "c0.0"}
			o = c06Op{Op: "find", Val: vals[rng.IntN(len(vals))]}
		}
		tx.Ops = append(tx.Ops, o)
	}
	tx.End = "commit"
	if rng.IntN(5) == 0 {
		tx.End = "discard"
	}
	return tx
}

func c06Kind(base string, p c06Params) string {
	k := base
	if p.Store == "memory" {
		k += "-mem"
	}
	if p.Indexed {
		k += "/indexed"
	} else {
		k += "/plain"
	}
	return k
}

func c06Anchors() []core.Case {
	up := func(d, f, v string) c06Op { return c06Op{Op: "upd", Doc: d, Field: f, Val: v} }
	var cs []core.Case
	add := func(name string, p c06Params) { cs = append(cs, c06Split("anchor/"+name, 1, p)...) }
	for _, route := range []string{"col", "gql"} {
		// read-then-write across the other's commit; both write the same document
		add("read-write-across-commit-"+route, c06Params{Store: "badger", Txns: []c06Txn{
			{Route: route, Ops: []c06Op{{Op: "get", Doc: "d1"}, up("d1", "v", "u0.1")}, End: "commit"},
			{Route: route, Ops: []c06Op{up("d1", "v", "u1.0")}, End: "commit"}}})
		// delete vs update with a secondary index on the updated field
		add("index-update-vs-delete-"+route, c06Params{Store: "badger", Indexed: true, Txns: []c06Txn{
			{Route: route, Ops: []c06Op{up("d1", "v", "u0.0"), {Op: "find", Val: "u0.0"}}, End: "commit"},
			{Route: route, Ops: []c06Op{{Op: "del", Doc: "d1"}, {Op: "find", Val: "i1"}}, End: "commit"}}})
		// discard after writes to two documents; the other transaction lists and counts
		add("discard-after-write-"+route, c06Params{Store: "badger", Txns: []c06Txn{
			{Route: route, Ops: []c06Op{up("d1", "v", "u0.0"), up("d2", "w", "101")}, End: "discard"},
			{Route: route, Ops: []c06Op{{Op: "list"}, {Op: "count"}}, End: "commit"}}})
	}
	// different fields of the same document, different routes
	add("same-doc-different-fields", c06Params{Store: "badger", Txns: []c06Txn{
		{Route: "col", Ops: []c06Op{up("d1", "v", "u0.0")}, End: "commit"},
		{Route: "gql", Ops: []c06Op{up("d1", "w", "200")}, End: "commit"}}})
	// a document created inside one transaction is invisible to the other until commit
	add("create-visibility", c06Params{Store: "badger", Indexed: true, Txns: []c06Txn{
		{Route: "gql", Ops: []c06Op{{Op: "new", Doc: "n0.0"}, {Op: "list"}}, End: "commit"},
		{Route: "col", Ops: []c06Op{{Op: "get", Doc: "n0.0"}, up("n0.0", "v", "u1.1")}, End: "commit"}}})
	// the same contract for transactions obtained with NewConcurrentTxn
	add("concurrent-flavour-both-write-and-discard", c06Params{Store: "badger", Indexed: true, Txns: []c06Txn{
		{Route: "col", Concurrent: true, Ops: []c06Op{{Op: "get", Doc: "d1"}, up("d1", "v", "u0.1"), {Op: "new", Doc: "n0.2"}}, End: "commit"},
		{Route: "col", Concurrent: true, Ops: []c06Op{up("d1", "v", "u1.0"), {Op: "list"}}, End: "commit"}}})
	add("concurrent-flavour-discard-after-write", c06Params{Store: "badger", Txns: []c06Txn{
		{Route: "gql", Concurrent: true, Ops: []c06Op{up("d1", "v", "u0.0"), {Op: "new", Doc: "n0.1"}}, End: "discard"},
		{Route: "col", Ops: []c06Op{{Op: "list"}, up("d1", "w", "200")}, End: "commit"}}})
	// corekv memory store (collection route, no delete)
	add("read-write-across-commit", c06Params{Store: "memory", Txns: []c06Txn{
		{Route: "col", Ops: []c06Op{{Op: "get", Doc: "d1"}, up("d1", "v", "u0.1")}, End: "commit"},
		{Route: "col", Ops: []c06Op{up("d1", "v", "u1.0")}, End: "commit"}}})
	add("discard-after-write", c06Params{Store: "memory", Indexed: true, Txns: []c06Txn{
		{Route: "col", Ops: []c06Op{up("d1", "v", "u0.0"), {Op: "new", Doc: "n0.1"}}, End: "discard"},
		{Route: "col", Ops: []c06Op{{Op: "list"}, up("d1", "w", "200")}, End: "commit"}}})
	return cs
}

func c06Cases(seed uint64, tier string) []core.Case {
	cs := append(c06Anchors(), c06dAnchors()...)
	rng := rand.New(rand.NewPCG(seed, 606))
	nPairs, maxOps, nRand := 60, 2, 300
	if tier == "thorough" {
		nPairs, maxOps, nRand = 600, 3, 5000
	}
	seen := map[string]bool{}
	for len(seen) < nPairs {
		p := c06Params{Store: "badger", Indexed: rng.IntN(2) == 0}
		if rng.IntN(8) == 0 {
			p.Store = "memory"
		}
		for t := 0; t < 2; t++ {
			p.Txns = append(p.Txns, c06GenTxn(rng, t, 2, maxOps, p.Store == "memory"))
		}
		// at least one write in the pair, otherwise nothing can be isolated from anything
		hasWrite := false
		for _, t := range p.Txns {
			for _, o := range t.Ops {
				hasWrite = hasWrite || c06IsWrite(o.Op)
			}
		}
		key := core.Canon(p)
		if !hasWrite || seen[key] {
			continue
		}
		seen[key] = true
		cs = append(cs, c06Split("pair-all-interleavings", rng.Uint64(), p)...)
	}
	var batch c06Params
	for i := 0; i < nRand; i++ {
		if i%10 == 0 {
			batch = c06Params{Store: "badger"}
			if rng.IntN(8) == 0 {
				batch.Store = "memory"
			}
		}
		p := c06Params{Store: batch.Store, Indexed: rng.IntN(2) == 0}
		for t := 0; t < 3; t++ {
			p.Txns = append(p.Txns, c06GenTxn(rng, t, 3, 3, p.Store == "memory"))
		}
		for t, n := range c06StepCounts(p.Txns) {
			for j := 0; j < n; j++ {
				p.Sched = append(p.Sched, t)
			}
		}
		rng.Shuffle(len(p.Sched), func(a, b int) { p.Sched[a], p.Sched[b] = p.Sched[b], p.Sched[a] })
		batch.Batch = append(batch.Batch, p)
		if i%10 == 9 || i == nRand-1 {
			kind := "random-3txn"
			if batch.Store == "memory" {
				kind += "-mem"
			}
			cs = append(cs, core.MkCase(kind, rng.Uint64(), batch))
		}
	}
	// second workload: schema and index operations (c06_ddl.go)
	return append(cs, c06dCases(seed, tier)...)
}

// ---------------------------------------------------------------------------------------
// model

type c06Doc struct {
	ID  string
	K   string
	V   string
	W   int64
	Del bool
	H   int // number of composite commits
}

type c06State map[string]c06Doc

func (s c06State) clone() c06State {
	o := make(c06State, len(s))
	for k, v := range s {
		o[k] = v
	}
	return o
}

func (d c06Doc) row(withDeleted bool) map[string]any {
	m := map[string]any{"_docID": d.ID, "k": d.K, "v": d.V, "w": d.W}
	if withDeleted {
		m["_deleted"] = d.Del
	}
	return m
}

// rows renders the documents selected by keep, sorted by docID, as canonical JSON.
func (s c06State) rows(withDeleted bool, keep func(c06Doc) bool) string {
	rows := []map[string]any{}
	for _, d := range s {
		if keep(d) {
			rows = append(rows, d.row(withDeleted))
		}
	}
	return c06CanonRows(rows)
}

func c06CanonRows(rows []map[string]any) string {
	sort.Slice(rows, func(i, j int) bool { return fmt.Sprint(rows[i]["_docID"]) < fmt.Sprint(rows[j]["_docID"]) })
	if rows == nil {
		rows = []map[string]any{}
	}
	return core.Canon(rows)
}

func c06Live(d c06Doc) bool { return !d.Del }

type c06Access struct {
	Pos   int
	Txn   int
	Op    string
	Doc   string // "*" = every document (list / count / find)
	Field string
	Write bool // a write that succeeded inside the transaction
}

type c06RT struct {
	prog      c06Txn
	txn       client.Txn
	tctx      context.Context
	view      c06State
	wrote     map[string]bool
	writeDocs []string // docIDs of successful writes in order (expected update events on commit)
	next      int      // next step (0 = begin, 1..k = ops, k+1 = end)
	beginPos  int
	endPos    int
	committed bool
	commitPos int
}

// c06Env is the node of one case; every schedule of the case runs on a collection of its own.
type c06Env struct {
	n   *core.Node
	rec *core.BusRecorder
	seq int
}

func c06NewEnv(ctx context.Context, store string) *c06Env {
	e := &c06Env{n: core.NewNode(ctx, core.NodeOpts{Store: store})}
	e.rec = core.NewBusRecorder(e.n.DB.Events(), nil, event.UpdateName)
	return e
}

func (e *c06Env) Close() {
	e.rec.Close()
	e.n.Close()
}

type c06Run struct {
	ctx   context.Context
	p     c06Params
	r     *core.Rec
	n     *core.Node
	cn    string // collection name of this schedule
	col   client.Collection
	ids   map[string]string // doc key -> docID
	S     c06State
	rts   []*c06RT
	log   []string
	acc   []c06Access
	sched []int
	bad   bool
}

func (x *c06Run) logf(f string, a ...any) { x.log = append(x.log, fmt.Sprintf(f, a...)) }

func (x *c06Run) violate(sig, msg string, extra map[string]any) {
	x.bad = true
	if x.p.Store == "memory" {
		// The corekv memory store has its own (dependency) defects; its violations are kept apart
		// from those of the default store and collapsed over operation kind and route.
		if strings.HasPrefix(sig, "txn-") {
			sig = "memory-store/operation-inside-transaction-differs-from-snapshot-plus-own-writes"
		} else {
			sig = "memory-store/" + sig
		}
		msg = "[corekv memory store] " + msg
	}
	d := map[string]any{"store": x.p.Store, "indexed": x.p.Indexed, "programs": x.p.Txns, "schedule": x.sched, "steps": x.log}
	for k, v := range extra {
		d[k] = v
	}
	x.r.Violate(sig, msg, d)
}

func c06SDL(name string, indexed bool) string {
	if indexed {
		return `type ` + name + ` { k: String  v: String @index  w: Int }`
	}
	return `type ` + name + ` { k: String  v: String  w: Int }`
}

func (x *c06Run) mkDoc(k, v string, w int64) *client.Document {
	d, err := client.NewDocFromMap(map[string]any{"k": k, "v": v, "w": w}, x.col.Definition())
	core.Must(err)
	return d
}

// created documents: k = key, v = "c<t>.<i>" (from the key n<t>.<i>), w = 0
func c06NewVals(key string) (string, string, int64) {
	return key, "c" + strings.TrimPrefix(key, "n"), 0
}

func (x *c06Run) docID(key string) string {
	if id, ok := x.ids[key]; ok {
		return id
	}
	var id string
	switch key {
	case "d1":
		id = x.mkDoc("d1", "i1", 1).ID().String()
	case "d2":
		id = x.mkDoc("d2", "i2", 2).ID().String()
	default:
		k, v, w := c06NewVals(key)
		id = x.mkDoc(k, v, w).ID().String()
	}
	x.ids[key] = id
	return id
}

func c06IsConflict(err error) bool {
	return errors.Is(err, corekv.ErrTxnConflict) || (err != nil && strings.Contains(err.Error(), corekv.ErrTxnConflict.Error()))
}

// gqlRows executes a request inside (or outside) a transaction and returns canonical rows.
func c06Rows(ctx context.Context, ex interface {
	ExecRequest(ctx context.Context, request string, opts ...client.RequestOption) *client.RequestResult
}, req, name string) (string, int, error) {
	rows, err := core.ExecRows(ctx, ex, req, name)
	if err != nil {
		return "", 0, err
	}
	return c06CanonRows(rows), len(rows), nil
}

// ---------------------------------------------------------------------------------------
// one schedule

func c06RunSchedule(ctx context.Context, env *c06Env, p c06Params, sched []int, r *core.Rec) {
	x := &c06Run{ctx: ctx, p: p, r: r, ids: map[string]string{}, S: c06State{}, sched: sched}
	x.n = env.n
	env.seq++
	x.cn = fmt.Sprintf("Doc%d", env.seq)
	_, err := x.n.DB.AddSchema(ctx, c06SDL(x.cn, p.Indexed))
	core.Must(err)
	x.col = x.n.Col(ctx, x.cn)
	// whatever happens, no transaction of this schedule stays open on the shared node
	defer func() {
		for _, T := range x.rts {
			if T.txn != nil {
				T.txn.Discard(ctx)
			}
		}
	}()
	for _, k := range []string{"d1", "d2"} {
		w := int64(1)
		if k == "d2" {
			w = 2
		}
		d := x.mkDoc(k, "i"+k[1:], w)
		core.Must(x.col.Create(ctx, d))
		x.S[k] = c06Doc{ID: d.ID().String(), K: k, V: "i" + k[1:], W: w, H: 1}
		x.ids[k] = d.ID().String()
	}
	rec := env.rec
	rec.Barrier()
	nEvents := rec.Len()
	raw := x.n.RawScan(ctx, "/")
	for _, t := range p.Txns {
		x.rts = append(x.rts, &c06RT{prog: t, wrote: map[string]bool{}, beginPos: -1, endPos: -1, commitPos: -1})
	}
	r.Count("evaluations", 1)
	r.Count("schedules", 1)
	if p.Store == "memory" {
		r.Count("schedules_memory_store", 1)
	}
	if p.Indexed {
		r.Count("schedules_indexed", 1)
	}

	for pos, ti := range sched {
		T := x.rts[ti]
		step := T.next
		T.next++
		storeMayChange := false
		wantEvents := []string{}
		stepKind := "op"
		switch {
		case step == 0:
			stepKind = "begin"
			var txn client.Txn
			var err error
			if T.prog.Concurrent {
				txn, err = x.n.DB.NewConcurrentTxn(ctx, false)
				x.r.Count("txns_concurrent_flavour", 1)
			} else {
				txn, err = x.n.DB.NewTxn(ctx, false)
			}
			core.Must(err)
			T.txn, T.tctx = txn, db.InitContext(ctx, txn)
			T.view = x.S.clone()
			T.beginPos = pos
			x.logf("%d: T%d begin", pos, ti)
		case step <= len(T.prog.Ops):
			x.doOp(pos, ti, T, T.prog.Ops[step-1])
		default:
			T.endPos = pos
			if T.prog.End == "discard" {
				stepKind = "discard"
				T.txn.Discard(ctx)
				x.logf("%d: T%d discard", pos, ti)
				r.Count("txn_discarded", 1)
				break
			}
			// the one conflict the property demands
			demanded, other := false, -1
			for oj, O := range x.rts {
				if oj == ti || !O.committed || O.commitPos < T.beginPos {
					continue
				}
				for k := range T.wrote {
					if O.wrote[k] {
						demanded, other = true, oj
					}
				}
			}
			err := T.txn.Commit(ctx)
			T.txn.Discard(ctx) // the usual `defer txn.Discard(ctx)`: must be harmless after Commit
			if err == nil {
				stepKind = "commit-ok"
				x.logf("%d: T%d commit -> ok", pos, ti)
				r.Count("txn_committed", 1)
				if demanded {
					x.violate("lost-update/overlapping-writers-of-one-document-both-committed",
						fmt.Sprintf("T%d and T%d overlap and both modified the same document; T%d had already committed, yet the commit of T%d succeeded as well", ti, other, other, ti), nil)
					break
				}
				T.committed, T.commitPos = true, pos
				for k := range T.wrote {
					x.S[k] = T.view[k]
				}
				storeMayChange = true
				wantEvents = T.writeDocs
			} else {
				stepKind = "commit-fail"
				x.logf("%d: T%d commit -> %v", pos, ti, err)
				if !c06IsConflict(err) {
					x.violate("commit/error-is-not-a-conflict-error", fmt.Sprintf("Commit of T%d failed with an error that is not a transaction conflict: %v", ti, err), nil)
					break
				}
				if demanded {
					r.Count("conflicts_demanded_and_reported", 1)
				} else {
					r.Count("conflicts_not_demanded", 1) // allowed: never flagged
					if len(T.wrote) == 0 {
						r.Note("conflict_on_transaction_without_writes")
					}
				}
			}
		}
		if x.bad {
			return
		}
		// --- update events: nothing before / without a successful commit, one per write after it
		rec.Barrier()
		evs := rec.Events()[nEvents:]
		nEvents += len(evs)
		gotEv := []string{}
		for _, e := range evs {
			gotEv = append(gotEv, e.DocID)
		}
		sort.Strings(gotEv)
		we := append([]string(nil), wantEvents...)
		sort.Strings(we)
		r.Count("event_checks", 1)
		if strings.Join(gotEv, ",") != strings.Join(we, ",") {
			sig := "events/update-event-without-successful-commit/after-" + stepKind
			if stepKind == "commit-ok" {
				sig = "events/committed-transaction-events-differ-from-its-writes"
			}
			x.violate(sig, fmt.Sprintf("after step %d (%s of T%d): update events for documents %v, expected %v", pos, stepKind, ti, gotEv, we), nil)
			return
		}
		// --- raw store: only a successful commit may change it
		raw2 := x.n.RawScan(ctx, "/")
		r.Count("raw_store_checks", 1)
		if !storeMayChange {
			if diff := c06RawDiff(raw, raw2); len(diff) > 0 {
				x.violate("trace/raw-store-changed/after-"+stepKind, fmt.Sprintf("step %d (%s of T%d) changed the committed store although no transaction committed: %d keys differ", pos, stepKind, ti, len(diff)),
					map[string]any{"changed_keys": diff})
				return
			}
		}
		raw = raw2
		// --- observer (no transaction): must see exactly S
		got, _, err := c06Rows(ctx, x.n.DB, `query { `+x.cn+`(showDeleted: true) { _docID _deleted k v w } }`, x.cn)
		core.Must(err)
		want := x.S.rows(true, func(c06Doc) bool { return true })
		r.Count("observer_reads", 1)
		if got != want {
			x.violate("observer/read-differs-from-committed-state/after-"+stepKind,
				fmt.Sprintf("non-transactional read after step %d (%s of T%d) differs from the committed state of the model", pos, stepKind, ti), map[string]any{"got": got, "want": want})
			return
		}
		if p.Indexed && (stepKind == "commit-ok" || stepKind == "commit-fail" || stepKind == "discard") {
			// index-served observer reads (initial value of d1 and every value written so far) when a
			// transaction ends; index entries of running transactions are covered by the raw-store comparison
			for _, v := range x.obsFindValues() {
				got, _, err := c06Rows(ctx, x.n.DB, fmt.Sprintf(`query { %s(filter: {v: {_eq: %q}}) { _docID k v w } }`, x.cn, v), x.cn)
				core.Must(err)
				want := x.S.rows(false, func(d c06Doc) bool { return !d.Del && d.V == v })
				r.Count("observer_reads", 1)
				if got != want {
					x.violate("observer/index-read-differs-from-committed-state/after-"+stepKind,
						fmt.Sprintf("non-transactional index-served read (v=%s) after step %d (%s of T%d) differs from the committed state of the model", v, pos, stepKind, ti), map[string]any{"got": got, "want": want})
					return
				}
			}
		}
	}
	// --- end of schedule: the commit DAG of every document holds exactly the committed writes
	if p.Store != "memory" {
		keys := []string{}
		for k := range x.ids {
			keys = append(keys, k)
		}
		sort.Strings(keys)
		for _, k := range keys {
			_, n, err := c06Rows(ctx, x.n.DB, fmt.Sprintf(`query { commits(docID: %q, fieldName: "_C") { cid height } }`, x.ids[k]), "commits")
			core.Must(err)
			r.Count("final_dag_checks", 1)
			if n != x.S[k].H {
				x.violate("trace/commit-count-differs-from-committed-writes", fmt.Sprintf("document %s has %d composite commits, the committed transactions wrote %d", k, n, x.S[k].H), nil)
				return
			}
		}
	}
	x.coverage()
}

// obsFindValues: values of v the observer looks up through the index.
func (x *c06Run) obsFindValues() []string {
	vals := []string{"i1"}
	for _, T := range x.rts {
		for i, o := range T.prog.Ops {
			if o.Op == "upd" && o.Field == "v" && i+1 < T.next {
				vals = append(vals, o.Val)
			}
		}
	}
	return vals
}

func c06RawDiff(a, b map[string]string) []string {
	var d []string
	for k, v := range a {
		if w, ok := b[k]; !ok {
			d = append(d, "removed "+k)
		} else if w != v {
			d = append(d, "changed "+k)
		}
	}
	for k := range b {
		if _, ok := a[k]; !ok {
			d = append(d, "added "+k)
		}
	}
	sort.Strings(d)
	if len(d) > 40 {
		d = d[:40]
	}
	return d
}

// doOp executes one operation of T against the real transaction and against T.view.
func (x *c06Run) doOp(pos, ti int, T *c06RT, o c06Op) {
	ctx, r := x.ctx, x.r
	route := T.prog.Route
	r.Count("txn_ops", 1)
	r.Count("op_"+o.Op+"_"+route, 1)
	mismatch := func(what, got, want string) {
		x.logf("%d: T%d %s -> %s (model: %s)", pos, ti, o, got, want)
		x.violate(fmt.Sprintf("txn-%s/%s/%s/differs-from-snapshot-plus-own-writes", what, o.Op, route),
			fmt.Sprintf("step %d: `%s` inside T%d (route %s) returned %s, but the state at the start of T%d plus its own writes gives %s", pos, o, ti, route, got, ti, want),
			map[string]any{"got": got, "want": want})
	}
	// opErr: an API call inside T failed in a way the model has no explanation for
	opErr := func(err error) bool {
		if err == nil {
			return false
		}
		x.logf("%d: T%d %s -> unexpected error: %v", pos, ti, o, err)
		x.violate(fmt.Sprintf("txn-op-error/%s/%s", o.Op, route), fmt.Sprintf("step %d: `%s` inside T%d (route %s) failed: %v", pos, o, ti, route, err), nil)
		return true
	}
	acc := c06Access{Pos: pos, Txn: ti, Op: o.Op, Doc: o.Doc, Field: o.Field}
	defer func() { x.acc = append(x.acc, acc) }()
	switch o.Op {
	case "get":
		id := x.docID(o.Doc)
		d, ok := T.view[o.Doc]
		want := "[]"
		if ok && !d.Del {
			want = core.Canon([]map[string]any{d.row(false)})
		}
		var got string
		if route == "col" {
			did, err := client.NewDocIDFromString(id)
			core.Must(err)
			doc, err := x.col.Get(T.tctx, did, false)
			if err != nil {
				if !errors.Is(err, client.ErrDocumentNotFoundOrNotAuthorized) && opErr(err) {
					return
				}
				got = "[]"
			} else {
				m, err := doc.ToMap()
				core.Must(err)
				got = core.Canon([]map[string]any{m})
			}
		} else {
			g, _, err := c06Rows(ctx, T.txn, fmt.Sprintf(`query { %s(docID: %q) { _docID k v w } }`, x.cn, id), x.cn)
			if opErr(err) {
				return
			}
			got = g
		}
		r.Count("txn_reads", 1)
		if got != want {
			mismatch("read", got, want)
			return
		}
		x.logf("%d: T%d get %s -> %s", pos, ti, o.Doc, got)
	case "list":
		var got, want string
		if route == "col" {
			// collection route: GetAllDocIDs lists every primary key (live and deleted)
			ch, err := x.col.GetAllDocIDs(T.tctx)
			if opErr(err) {
				return
			}
			ids := []string{}
			var chErr error
			for res := range ch {
				if res.Err != nil {
					chErr = res.Err
					continue
				}
				ids = append(ids, res.ID.String())
			}
			if opErr(chErr) {
				return
			}
			sort.Strings(ids)
			got = strings.Join(ids, ",")
			wids := []string{}
			for _, d := range T.view {
				wids = append(wids, d.ID)
			}
			sort.Strings(wids)
			want = strings.Join(wids, ",")
		} else {
			g, _, err := c06Rows(ctx, T.txn, `query { `+x.cn+` { _docID k v w } }`, x.cn)
			if opErr(err) {
				return
			}
			got, want = g, T.view.rows(false, c06Live)
		}
		acc.Doc = "*"
		r.Count("txn_reads", 1)
		if got != want {
			mismatch("read", got, want)
			return
		}
		x.logf("%d: T%d list -> %s", pos, ti, got)
	case "count":
		res := T.txn.ExecRequest(ctx, `query { _count(`+x.cn+`: {}) }`)
		if len(res.GQL.Errors) > 0 && opErr(res.GQL.Errors[0]) {
			return
		}
		got := core.Canon(res.GQL.Data)
		n := 0
		for _, d := range T.view {
			if !d.Del {
				n++
			}
		}
		want := fmt.Sprintf(`{"_count":%d}`, n)
		acc.Doc = "*"
		r.Count("txn_reads", 1)
		if got != want {
			mismatch("read", got, want)
			return
		}
		x.logf("%d: T%d count -> %d", pos, ti, n)
	case "find":
		got, _, err := c06Rows(ctx, T.txn, fmt.Sprintf(`query { %s(filter: {v: {_eq: %q}}) { _docID k v w } }`, x.cn, o.Val), x.cn)
		if opErr(err) {
			return
		}
		want := T.view.rows(false, func(d c06Doc) bool { return !d.Del && d.V == o.Val })
		acc.Doc = "*"
		r.Count("txn_reads", 1)
		if x.p.Indexed {
			r.Count("txn_index_reads", 1)
		}
		if got != want {
			mismatch("read", got, want)
			return
		}
		x.logf("%d: T%d find v=%s -> %s", pos, ti, o.Val, got)
	case "upd", "del", "new":
		id := x.docID(o.Doc)
		d, exists := T.view[o.Doc]
		wantOK := exists && !d.Del
		if o.Op == "new" {
			wantOK = !exists
		}
		var ok bool
		var detail string
		switch {
		case o.Op == "upd" && route == "col":
			did, err := client.NewDocIDFromString(id)
			core.Must(err)
			// the usual idiom: read the document inside the transaction, set the field, update.
			// (A document built with client.NewDocWithID that carries only the changed field makes
			// collection.Update drop the secondary-index entry of the fields it does not carry;
			// that is an index question (C07), not an isolation question, and is avoided here.)
			doc, err := x.col.Get(T.tctx, did, false)
			if err != nil {
				ok, detail = false, "get: "+err.Error()
				break
			}
			if o.Field == "w" {
				var w int64
				fmt.Sscan(o.Val, &w)
				core.Must(doc.Set("w", w))
			} else {
				core.Must(doc.Set("v", o.Val))
			}
			err = x.col.Update(T.tctx, doc)
			ok, detail = err == nil, fmt.Sprint(err)
		case o.Op == "upd":
			in := fmt.Sprintf(`{v: %q}`, o.Val)
			if o.Field == "w" {
				in = fmt.Sprintf(`{w: %s}`, o.Val)
			}
			g, n, err := c06Rows(ctx, T.txn, fmt.Sprintf(`mutation { update_%s(docID: %q, input: %s) { _docID } }`, x.cn, id, in), "update_"+x.cn)
			if opErr(err) {
				return
			}
			ok, detail = n == 1, g
		case o.Op == "del" && route == "col":
			did, err := client.NewDocIDFromString(id)
			core.Must(err)
			_, err = x.col.Delete(T.tctx, did)
			ok, detail = err == nil, fmt.Sprint(err)
		case o.Op == "del":
			g, n, err := c06Rows(ctx, T.txn, fmt.Sprintf(`mutation { delete_%s(docID: %q) { _docID } }`, x.cn, id), "delete_"+x.cn)
			if opErr(err) {
				return
			}
			ok, detail = n == 1, g
		case o.Op == "new" && route == "col":
			k, v, w := c06NewVals(o.Doc)
			err := x.col.Create(T.tctx, x.mkDoc(k, v, w))
			ok, detail = err == nil, fmt.Sprint(err)
		default:
			k, v, w := c06NewVals(o.Doc)
			g, n, err := c06Rows(ctx, T.txn, fmt.Sprintf(`mutation { create_%s(input: {k: %q, v: %q, w: %d}) { _docID } }`, x.cn, k, v, w), "create_"+x.cn)
			if err != nil {
				ok, detail = false, err.Error()
			} else {
				ok, detail = n == 1 && strings.Contains(g, id), g
			}
		}
		r.Count("txn_writes_attempted", 1)
		if ok != wantOK {
			mismatch("write-outcome", fmt.Sprintf("ok=%v (%s)", ok, detail), fmt.Sprintf("ok=%v", wantOK))
			return
		}
		x.logf("%d: T%d %s -> ok=%v", pos, ti, o, ok)
		if !ok {
			r.Count("txn_writes_refused_as_modelled", 1)
			return
		}
		switch o.Op {
		case "upd":
			if o.Field == "w" {
				fmt.Sscan(o.Val, &d.W)
			} else {
				d.V = o.Val
			}
			d.H++
		case "del":
			d.Del = true
			d.H++
		case "new":
			k, v, w := c06NewVals(o.Doc)
			d = c06Doc{ID: id, K: k, V: v, W: w, H: 1}
		}
		T.view[o.Doc] = d
		T.wrote[o.Doc] = true
		T.writeDocs = append(T.writeDocs, id)
		acc.Write = true
		r.Count("txn_writes", 1)
	}
}

// coverage derives the floor counters and the non-trivial key from the executed trace.
func (x *c06Run) coverage() {
	r := x.r
	overlap := func(a, b *c06RT) bool { return a.beginPos < b.endPos && b.beginPos < a.endPos }
	flags := map[string]bool{}
	nontrivial := false
	for ai, A := range x.rts {
		hasWrite := false
		for _, ac := range x.acc {
			if ac.Txn == ai && ac.Write {
				hasWrite = true
			}
		}
		if hasWrite && A.prog.End == "discard" {
			flags["floor_discard_after_write"] = true
		}
		for bi, B := range x.rts {
			if ai == bi {
				continue
			}
			for _, a := range x.acc {
				if a.Txn != ai {
					continue
				}
				for _, b := range x.acc {
					if b.Txn != bi || !b.Write {
						continue
					}
					same := a.Doc == b.Doc || a.Doc == "*"
					if !same {
						continue
					}
					// non-trivial: B writes d between an access of A to d and A's commit
					if b.Pos > a.Pos && A.prog.End == "commit" && A.endPos > b.Pos {
						nontrivial = true
					}
					if !overlap(A, B) {
						continue
					}
					if a.Write && a.Doc == b.Doc {
						if A.prog.End == "commit" && B.prog.End == "commit" {
							flags["floor_both_write_same_doc"] = true
						}
						if a.Op == "del" && b.Op == "upd" || a.Op == "upd" && b.Op == "del" {
							flags["floor_delete_vs_update"] = true
							if x.p.Indexed && (a.Op == "upd" && a.Field == "v" || b.Op == "upd" && b.Field == "v") {
								flags["floor_index_maintenance_vs_delete"] = true
							}
						}
					}
					// A reads d, B (writer of d) commits, then A writes d
					if !a.Write && B.committed && B.commitPos > a.Pos {
						for _, a2 := range x.acc {
							if a2.Txn == ai && a2.Write && a2.Doc == b.Doc && a2.Pos > B.commitPos {
								flags["floor_read_then_write_across_others_commit"] = true
							}
						}
					}
				}
			}
		}
	}
	for f := range flags {
		r.Count(f, 1)
	}
	if nontrivial {
		r.Count("nontrivial_schedules", 1)
		r.Nontrivial(core.Canon(x.p.Txns) + fmt.Sprint(x.p.Store, x.p.Indexed, x.sched))
	}
	r.Sample(map[string]any{"store": x.p.Store, "indexed": x.p.Indexed, "programs": x.p.Txns, "schedule": x.sched, "steps": x.log})
}

func c06Run1(ctx context.Context, c core.Case, r *core.Rec) {
	if strings.HasPrefix(c.Kind, "ddl/") {
		c06dRun1(ctx, c, r)
		return
	}
	var p c06Params
	c.P(&p)
	// badger: one node per case, one collection per schedule. corekv memory store: one node per
	// schedule (adding a second collection iterates and writes inside one transaction, which
	// self-deadlocks on that store).
	var shared *c06Env
	if p.Store != "memory" {
		shared = c06NewEnv(ctx, p.Store)
		defer shared.Close()
	}
	run := func(it c06Params, sched []int) {
		env := shared
		if env == nil {
			env = c06NewEnv(ctx, it.Store)
			defer env.Close()
		}
		c06RunSchedule(ctx, env, it, sched, r)
	}
	if len(p.Batch) > 0 {
		for _, it := range p.Batch {
			run(it, it.Sched)
			r.Count("schedules_random_3txn", 1)
		}
		return
	}
	if len(p.Sched) > 0 {
		run(p, p.Sched)
		return
	}
	all := c06Interleavings(c06StepCounts(p.Txns))
	if p.Parts < 1 {
		p.Parts = 1
	}
	n := 0
	for i, s := range all {
		if i%p.Parts == p.Part {
			run(p, s)
			n++
		}
	}
	if p.Part == 0 {
		r.Count("programs_with_all_interleavings", 1) // the other parts are cases of the same run
	}
	r.Count("schedules_from_full_enumeration", int64(n))
}

func init() {
	core.Register(&core.Check{
		ID: "C06", Level: "exploration",
		Rule: "deterministic single-goroutine interleavings of 2-3 explicit transactions (1-3 operations each from read-by-id, update a register with a unique value, delete, create, list, count, " +
			"find-by-indexed-value; commit or discard; collection route with db.InitContext and txn.ExecRequest route; badger in-memory and corekv memory store; with/without secondary index) " +
			"checked step by step against a snapshot-isolation model, with a non-transactional observer read, a raw-store comparison and an update-event count after every step. " +
			"quick: ALL interleavings of 10 anchor pairs and 60 generated program pairs with <=2 operations each + 300 random 3-transaction schedules; thorough: all interleavings of 600 pairs with <=3 operations + 5000 random. " +
			"distinct = (programs, configuration, interleaving); non-trivial = one transaction writes document d between an access of the other to d and the other's commit.",
		Cases: c06Cases,
		Run:   c06Run1,
		Floors: []string{"floor_read_then_write_across_others_commit", "floor_both_write_same_doc", "floor_delete_vs_update", "floor_discard_after_write",
			"floor_index_maintenance_vs_delete", "conflicts_demanded_and_reported", "nontrivial_schedules", "schedules_memory_store", "txn_index_reads", "programs_with_all_interleavings",
			// schema / index DDL workload (c06_ddl.go)
			"ddl_schedules", "ddl_nontrivial_schedules", "floor_schema_commit_after_foreign_schema_commit", "floor_create_index_uncommitted", "floor_drop_index_uncommitted",
			"floor_index_ddl_commit_failed", "ddl_post_phase_writes", "observer_index_reads", "ddl_txn_reads", "ddl_programs_with_all_interleavings"},
		CaseTimeout: 180 * time.Second,
		Exhaustive:  func(string) bool { return false },
		Assumptions: []string{
			"the program pairs are sampled; for each sampled pair every interleaving of begin/operations/commit-or-discard is executed (counter programs_with_all_interleavings), the 3-transaction schedules are sampled",
			"schedules are interleavings of whole API calls on one goroutine; thread-level interleavings inside API calls are C16's business",
			"a conflict is demanded only when an overlapping transaction that modified the same document has already committed; every other conflict is counted (conflicts_not_demanded), never flagged",
			"corekv memory store programs are restricted to the collection route without delete (the store self-deadlocks on iterate+write inside one transaction); its violations carry the signature prefix memory-store/",
			"badger: the schedules of one case run one after the other on one node, each on a collection of its own (the raw-store comparison spans the whole store); memory store: one node per schedule",
			"collection-route updates use the idiom Get(txn) -> Set -> Update(txn); a write operation that the model expects to be refused (document missing or deleted in the transaction's view) must be refused and has no effect",
		},
	})
}
