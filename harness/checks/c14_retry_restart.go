package checks

import (
	"bytes"
	"context"
	"fmt"
	"os"
	"path/filepath"
	"runtime"
	"strings"
	"sync"
	"time"

	"github.com/fxamacker/cbor/v2"
	"github.com/sourcenetwork/corekv"

	"github.com/sourcenetwork/defradb/verifharness/core"
	"github.com/sourcenetwork/defradb/verifharness/p2p"
)

// C14, mode "retry-restart": a crash point inside the replication retry machinery.
//
// A replicates collection Doc to B. B becomes unreachable, A writes, the push fails and A
// persists a retry record. The retry loop then marks the record "retrying" - one direct Set on the
// peer store - and starts the retry goroutine. That Set is a completed storage commit, so by the
// property "opening [the node] on the store contents as of any completed commit ... behaves
// exactly like a twin that was never restarted": a twin finishes the retry (it fails while B is
// down and is re-armed, it succeeds once B is back), so the reopened node must deliver the pending
// commit too once B is reachable.
//
// The crash point is produced on the real store, not fabricated: A's root store is wrapped so
// that every write AFTER the first Set of a retry record with Retrying=true fails (nothing later
// reaches the disk: the process is dead as far as storage is concerned); A is then closed and
// reopened on the same directory, and the precondition "record on disk says retrying" is checked.
//
// Verdict without a clock: delivered to B => held. Violated only in the absorbing state "the
// record says a retry is in progress, no retry goroutine exists, nothing was delivered", seen on
// 14 successive observations (only the retry goroutine itself ever clears the mark, and the retry
// loop skips records that carry it). Anything else at the end of the observation window is
// inconclusive for the case.

const c14RetrySDL = `type Doc { name: String  n: Int }`

type c14CrashStore struct {
	corekv.TxnStore
	mu    sync.Mutex
	armed bool
	dead  bool
	match func(k, v []byte) bool
}

func (s *c14CrashStore) isDead() bool { s.mu.Lock(); defer s.mu.Unlock(); return s.dead }

func (s *c14CrashStore) Set(ctx context.Context, k, v []byte) error {
	if s.isDead() {
		return core.ErrInjected
	}
	err := s.TxnStore.Set(ctx, k, v)
	if err == nil {
		s.mu.Lock()
		if s.armed && s.match(k, v) {
			s.dead = true
		}
		s.mu.Unlock()
	}
	return err
}

func (s *c14CrashStore) Delete(ctx context.Context, k []byte) error {
	if s.isDead() {
		return core.ErrInjected
	}
	return s.TxnStore.Delete(ctx, k)
}

func (s *c14CrashStore) NewTxn(ro bool) corekv.Txn {
	return &c14CrashTxn{Txn: s.TxnStore.NewTxn(ro), s: s}
}

type c14CrashTxn struct {
	corekv.Txn
	s *c14CrashStore
}

func (t *c14CrashTxn) Set(ctx context.Context, k, v []byte) error {
	if t.s.isDead() {
		return core.ErrInjected
	}
	return t.Txn.Set(ctx, k, v)
}

func (t *c14CrashTxn) Delete(ctx context.Context, k []byte) error {
	if t.s.isDead() {
		return core.ErrInjected
	}
	return t.Txn.Delete(ctx, k)
}

func (t *c14CrashTxn) Commit() error {
	if t.s.isDead() {
		t.Txn.Discard()
		return core.ErrInjected
	}
	return t.Txn.Commit()
}

func c14RetryGoroutineAlive() bool {
	buf := make([]byte, 8<<20)
	s := string(buf[:runtime.Stack(buf, true)])
	return strings.Contains(s, "net.(*Peer).retryReplicator") || strings.Contains(s, "net.(*Peer).retryDoc")
}

func runC14RetryRestart(ctx context.Context, c core.Case, r *core.Rec) {
	var p c14Params
	c.P(&p)
	var log []string
	logf := func(f string, a ...any) { log = append(log, fmt.Sprintf(f, a...)) }
	detail := func() map[string]any { return map[string]any{"params": p, "log": log} }
	inconclusive := func(why string) {
		r.Count("retry_restart_inconclusive", 1)
		r.Note("retry-restart inconclusive: " + why)
		logf("INCONCLUSIVE %s", why)
	}

	dir := filepath.Join(c14ScratchBase(), fmt.Sprintf("retry-%d-%d-%d", os.Getpid(), c.Index, c.Seed))
	_ = os.RemoveAll(dir)
	core.Must(os.MkdirAll(dir, 0o755))
	defer os.RemoveAll(dir)

	crash := &c14CrashStore{match: func(k, v []byte) bool {
		if !bytes.Contains(k, []byte("/rep/retry/id/")) {
			return false
		}
		var ri struct{ Retrying bool }
		return cbor.Unmarshal(v, &ri) == nil && ri.Retrying
	}}
	base := p2p.AllocPort()
	a, err := p2p.New(ctx, p2p.Cfg{Name: "A", KeySeed: []byte(fmt.Sprintf("c14r-a-%d", c.Seed)), Port: base, Store: "file", Path: dir, Retry: time.Second,
		Wrap: func(s corekv.TxnStore) corekv.TxnStore { crash.TxnStore = s; return crash }})
	core.Must(err)
	defer func() { a.NodeDown() }()
	b, err := p2p.New(ctx, p2p.Cfg{Name: "B", KeySeed: []byte(fmt.Sprintf("c14r-b-%d", c.Seed)), Port: p2p.AllocPort(), Retry: time.Second})
	core.Must(err)
	defer func() { b.NodeDown() }()
	for _, n := range []*p2p.Node{a, b} {
		_, err := n.DB.AddSchema(ctx, c14RetrySDL)
		core.Must(err)
		core.Must(n.PeerUp(ctx))
	}
	core.Must(a.Peer.SetReplicator(ctx, b.Info(), "Doc"))
	r.Count("retry_restart_runs", 1)

	readN := func(n *p2p.Node, name string) (string, bool) {
		rows, err := n.Rows(ctx, fmt.Sprintf(`query { Doc(filter: {name: {_eq: %q}}) { n } }`, name), "Doc")
		if err != nil || len(rows) != 1 {
			return "", false
		}
		return fmt.Sprint(rows[0]["n"]), true
	}
	waitFor := func(what string, polls int, f func() bool) bool {
		for i := 0; i < polls; i++ {
			if f() {
				return true
			}
			time.Sleep(100 * time.Millisecond)
		}
		logf("gave up waiting for: %s", what)
		return false
	}

	nDocs := 1 + int(c.Seed%3)
	for d := 0; d < nDocs; d++ {
		_, errs := a.GQL(ctx, fmt.Sprintf(`mutation { create_Doc(input: {name: "d%d", n: 1}) { _docID } }`, d))
		if len(errs) > 0 {
			panic(strings.Join(errs, "; "))
		}
	}
	if !waitFor("initial documents on B", 600, func() bool {
		for d := 0; d < nDocs; d++ {
			if v, ok := readN(b, fmt.Sprintf("d%d", d)); !ok || v != "1" {
				return false
			}
		}
		return true
	}) {
		inconclusive("the initial push did not reach B")
		return
	}
	logf("B holds the %d initial documents", nDocs)

	// outage of B; A writes; the push fails and a retry record is persisted
	b.PeerDown()
	for d := 0; d < nDocs; d++ {
		_, errs := a.GQL(ctx, fmt.Sprintf(`mutation { update_Doc(filter: {name: {_eq: "d%d"}}, input: {n: 2}) { _docID } }`, d))
		if len(errs) > 0 {
			panic(strings.Join(errs, "; "))
		}
	}
	if !waitFor("retry record on A", 600, func() bool { return a.ReplicatorState(ctx, b.ID).RetryRecord }) {
		inconclusive("no retry record appeared on A after the failed push")
		return
	}
	logf("A persisted a retry record for B: %+v", a.ReplicatorState(ctx, b.ID))

	// crash point: the first Set that marks the record "retrying" is the last write that reaches the disk
	crash.mu.Lock()
	crash.armed = true
	crash.mu.Unlock()
	if !waitFor("retry loop marks the record as retrying", 900, crash.isDead) {
		inconclusive("the retry loop never marked the record as retrying")
		return
	}
	r.Count("retry_restart_crash_point_reached", 1)
	logf("crash point reached: record marked retrying, every later write of A fails")
	a.NodeDown()

	// reopen A on the same store, unwrapped; B reachable again
	a.Cfg.Wrap = nil
	core.Must(a.OpenDB(ctx))
	st := a.ReplicatorState(ctx, b.ID)
	logf("A reopened: replicator state on disk %+v", st)
	if !st.RetryRecord || !st.Retrying {
		inconclusive(fmt.Sprintf("store after the crash point does not hold a record in state retrying (%+v)", st))
		return
	}
	r.Count("retry_restart_reopened_with_record_in_state_retrying", 1)
	core.Must(b.PeerUp(ctx))
	core.Must(a.PeerUp(ctx))

	delivered := func() bool {
		for d := 0; d < nDocs; d++ {
			if v, ok := readN(b, fmt.Sprintf("d%d", d)); !ok || v != "2" {
				return false
			}
		}
		return true
	}
	stuck := 0
	for i := 0; i < 120; i++ {
		if delivered() {
			r.Count("retry_restart_pending_push_delivered_after_restart", 1)
			r.Count("evaluations", 1)
			r.Nontrivial(fmt.Sprintf("retry-restart|docs%d|delivered", nDocs))
			logf("observation %d: B holds the commits made during the outage", i)
			r.Sample(map[string]any{"kind": "retry-restart", "documents": nDocs, "log": log})
			return
		}
		st := a.ReplicatorState(ctx, b.ID)
		if st.RetryRecord && st.Retrying && !c14RetryGoroutineAlive() {
			stuck++
		} else {
			stuck = 0
		}
		if stuck >= 14 {
			r.Count("evaluations", 1)
			logf("observation %d: record still 'retrying' (NumRetries=%d, %d documents queued), no retry goroutine, nothing delivered", i, st.NumRetries, len(st.RetryDocs))
			r.Violate("sender-restart/retry-record-left-in-state-retrying/pending-push-never-retried",
				fmt.Sprintf("A was stopped right after its retry loop marked the retry record of B as 'retrying' (a completed write of the peer store) and reopened on that store: the record keeps the mark, the retry loop skips marked records and nothing else clears it, so the %d commit(s) made while B was down are never pushed although B is reachable (a node that was not restarted delivers them at the next retry)", nDocs),
				detail())
			return
		}
		time.Sleep(500 * time.Millisecond)
	}
	inconclusive("pending commits neither delivered nor provably stuck within the observation window")
}
