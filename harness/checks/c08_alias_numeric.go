package checks

import (
	"fmt"
	"math"
	"math/rand/v2"
	"strconv"

	"github.com/sourcenetwork/defradb/verifharness/qsem"
)

// Numeric comparisons through an `_alias` filter. An alias filter is the one place where the
// request language does not type the operand, so an Int value meets a Float literal (and a Float
// value an Int literal): the comparison code has a separate branch for every combination of
// (value type x literal type). The laws demanded are arithmetic, not a reading of the code:
//
//	trichotomy    for every literal c:  R(_ge c) and R(_lt c) partition the rows whose value is
//	              not null, and so do R(_gt c) and R(_le c)
//	alias=direct  where the field's own input type accepts the literal, the alias filter returns
//	              what the direct filter returns (which the reference evaluator judges elsewhere)
//	spelling      an integral literal spelled `N` and `N.0` is the same number: same rows
func (e *c08env) aliasNumeric(rng *rand.Rand) {
	field := []string{"i", "d", "f"}[rng.IntN(3)]
	dataKind := "int"
	if field == "f" {
		dataKind = "float"
	}
	// literal: a value that occurs in the column (ties are where >= and > differ), sometimes a neighbour
	var pool []float64
	var nonNull []string
	for _, d := range e.ds.U {
		switch v := d[field].(type) {
		case int64:
			if v > -2000000000 && v < 2000000000 {
				pool = append(pool, float64(v))
			}
			nonNull = append(nonNull, fmt.Sprint(d["k"]))
		case float64:
			if math.Abs(v) < 1e9 && math.Abs(v) > 1e-9 || v == 0 {
				pool = append(pool, v)
			}
			nonNull = append(nonNull, fmt.Sprint(d["k"]))
		}
	}
	if len(pool) == 0 {
		return
	}
	c := pool[rng.IntN(len(pool))]
	if rng.IntN(4) == 0 {
		c += []float64{-1, 1, 0.5}[rng.IntN(3)]
	}
	integral := c == math.Trunc(c)
	var spellings []struct{ kind, lit string }
	if integral {
		spellings = append(spellings, struct{ kind, lit string }{"int", strconv.FormatInt(int64(c), 10)},
			struct{ kind, lit string }{"float", strconv.FormatInt(int64(c), 10) + ".0"})
	} else {
		spellings = append(spellings, struct{ kind, lit string }{"float", strconv.FormatFloat(c, 'f', -1, 64)})
	}
	bySpelling := map[string]map[string][]string{}
	for _, sp := range spellings {
		res := map[string][]string{}
		okAll := true
		for _, op := range []string{"_lt", "_ge", "_gt", "_le", "_eq", "_ne"} {
			req := fmt.Sprintf(`query { U(filter: {_alias: {x: {%s: %s}}}) { k x: %s } }`, op, sp.lit, field)
			ks, ok := e.ks("filter", req)
			if !ok {
				okAll = false
				break
			}
			res[op] = ks
			// alias = direct, where the field's input type accepts the literal
			if dataKind == "float" || sp.kind == "int" {
				dreq := fmt.Sprintf(`query { U(filter: {%s: {%s: %s}}) { k } }`, field, op, sp.lit)
				if dks, ok := e.ks("filter", dreq); ok {
					e.r.Count("alias_numeric_vs_direct", 1)
					if !qsem.SameMultiset(ks, dks) {
						e.r.Violate(fmt.Sprintf("filter/alias-numeric/differs-from-direct-filter/%s/data=%s/literal=%s", op, dataKind, sp.kind),
							"an _alias filter on a renamed field returns other rows than the same condition on the field itself",
							map[string]any{"request_alias": req, "request_direct": dreq, "alias": ks, "direct": dks})
					}
				}
			}
		}
		if !okAll {
			continue
		}
		bySpelling[sp.kind] = res
		e.r.Count("alias_numeric_laws", 1)
		e.r.Count("alias_numeric_data_"+dataKind+"_literal_"+sp.kind, 1)
		for _, pair := range [][2]string{{"_ge", "_lt"}, {"_gt", "_le"}} {
			both := append(append([]string{}, res[pair[0]]...), res[pair[1]]...)
			if !qsem.SameMultiset(both, nonNull) {
				e.r.Violate(fmt.Sprintf("filter/alias-numeric/trichotomy/%s-and-%s-do-not-partition-the-non-null-rows/data=%s/literal=%s", pair[0], pair[1], dataKind, sp.kind),
					fmt.Sprintf("R(%s c) and R(%s c) must partition the rows whose %s is not null (c = %s)", pair[0], pair[1], field, sp.lit),
					map[string]any{"field": field, "literal": sp.lit, pair[0]: res[pair[0]], pair[1]: res[pair[1]], "non_null_rows": nonNull,
						"request": fmt.Sprintf(`query { U(filter: {_alias: {x: {%s: %s}}}) { k x: %s } }`, pair[0], sp.lit, field)})
			}
		}
		if len(res["_ge"]) > len(res["_gt"]) {
			e.nontrivial(fmt.Sprintf("alias-numeric:%s:%s:tie", dataKind, sp.kind), 1, true)
			e.r.Count("alias_numeric_literal_ties_with_a_value", 1)
		}
	}
	if a, b := bySpelling["int"], bySpelling["float"]; a != nil && b != nil {
		e.r.Count("alias_numeric_spelling_pairs", 1)
		for op, ks := range a {
			if !qsem.SameMultiset(ks, b[op]) {
				e.r.Violate(fmt.Sprintf("filter/alias-numeric/spelling/%s/N-and-N.0-select-different-rows/data=%s", op, dataKind),
					"the same number spelled as an integer and as a float literal selects different rows",
					map[string]any{"field": field, "op": op, "int_literal": spellings[0].lit, "float_literal": spellings[1].lit, "rows_int": ks, "rows_float": b[op]})
			}
		}
	}
}
