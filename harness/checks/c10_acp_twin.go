package checks

// C10 — documents you may not read are invisible through every query path.
//
// Oracle = twin database. The REAL database (local document ACP, policy with owner / reader /
// updater relations, two related collections with @policy) holds public and private documents.
// For every restricted requester X a TWIN database is built from the same history with the
// documents X may not read omitted (rebuilt from the operation log whenever X's visibility
// changes). Signing is off and there are no counter fields, so both sides produce identical
// commit ids for the shared documents. Every generated request is sent to both AS X; data and
// error text must be equal. After every mutating step the auditor-view dump of the real database
// restricted to X's visible documents must equal the dump of X's twin, and a mutation issued by
// X must not change any document X cannot read. X's (persistent) subscription on the real
// database must deliver exactly what the subscription on the twin delivers.

import (
	"context"
	"encoding/json"
	"fmt"
	"math/rand/v2"
	"os"
	"regexp"
	"runtime"
	"runtime/debug"
	"sort"
	"strconv"
	"strings"
	"sync"
	"sync/atomic"
	"time"

	badgerds "github.com/dgraph-io/badger/v4"
	"github.com/sourcenetwork/corekv/badger"
	"github.com/sourcenetwork/corelog"
	"github.com/sourcenetwork/immutable"
	"github.com/sourcenetwork/lens/host-go/config/model"

	"github.com/sourcenetwork/defradb/acp/identity"
	"github.com/sourcenetwork/defradb/client"
	"github.com/sourcenetwork/defradb/crypto"
	"github.com/sourcenetwork/defradb/verifharness/core"
)

const c10Policy = `
name: c10
description: policy of the C10 monitor
actor:
  name: actor
resources:
  emp:
    permissions:
      read:
        expr: owner + reader + updater
      update:
        expr: owner + updater
      delete:
        expr: owner
    relations:
      owner:
        types:
          - actor
      reader:
        types:
          - actor
      updater:
        types:
          - actor
  comp:
    permissions:
      read:
        expr: owner + reader + updater
      update:
        expr: owner + updater
      delete:
        expr: owner
    relations:
      owner:
        types:
          - actor
      reader:
        types:
          - actor
      updater:
        types:
          - actor
`

// actors: owner and owner2 create private documents; reader receives grants; stranger never
// receives an individual grant; anon has no identity; auditor is granted `reader` on every private
// document right after its creation and is the harness's all-seeing view (non-triviality, dumps).
var c10ActorNames = []string{"owner", "owner2", "reader", "stranger", "auditor"}

// restricted requesters that get a twin each
var c10Requesters = []string{"reader", "stranger", "anon", "owner2"}

type c10Params struct {
	Config    string `json:"config"` // plain | indexed | composite
	Anchor    bool   `json:"anchor,omitempty"`
	Steps     int    `json:"steps,omitempty"`
	Reqs      int    `json:"reqs,omitempty"`       // requests per requester after every step
	SubFilter bool   `json:"sub_filter,omitempty"` // subscription carries a filter on a secret field
	// Sub: subscriptions stay open during the generated steps (see c10DeleteHangWorkaround).
	Sub bool `json:"sub,omitempty"`
}

func c10SDL(cfg, pid string) string {
	switch cfg {
	case "indexed":
		return fmt.Sprintf(`type Emp @policy(id: "%s", resource: "emp") { name: String  salary: Int @index  dept: String @index  age: Int  company: Comp @index }
type Comp @policy(id: "%s", resource: "comp") { name: String  capital: Int @index  emps: [Emp] }`, pid, pid)
	case "branchable":
		return fmt.Sprintf(`type Emp @branchable @policy(id: "%s", resource: "emp") { name: String  salary: Int  dept: String  age: Int  company: Comp }
type Comp @policy(id: "%s", resource: "comp") { name: String  capital: Int  emps: [Emp] }`, pid, pid)
	case "composite":
		return fmt.Sprintf(`type Emp @policy(id: "%s", resource: "emp") @index(includes: [{field: "dept"}, {field: "salary"}]) { name: String @index  salary: Int  dept: String  age: Int  company: Comp }
type Comp @policy(id: "%s", resource: "comp") { name: String  capital: Int  emps: [Emp] }`, pid, pid)
	default:
		return fmt.Sprintf(`type Emp @policy(id: "%s", resource: "emp") { name: String  salary: Int  dept: String  age: Int  company: Comp }
type Comp @policy(id: "%s", resource: "comp") { name: String  capital: Int  emps: [Emp] }`, pid, pid)
	}
}

var c10Once sync.Once

// Workarounds for generic defects (no access control involved) that were found while this monitor
// was built and that would otherwise mask everything else. Each is a single switch.
//
// c10DeleteHangWorkaround — time travel to a commit that deletes a document never returned
// (DocComposite.Merge -> deleteWithPrefix iterated and wrote inside one corekv memory transaction of
// the VersionedFetcher's transient store); a subscription runs such a selection for every update
// event, so the first delete (or a grant on a deleted document, which republishes its heads)
// silenced every subscription. Repaired by 77157df: switch is off. While on: nothing is deleted and
// no relationship is added on a deleted document while subscriptions are open, and time-travel
// requests never name a commit of a deleted document.
const c10DeleteHangWorkaround = false

// c10IndexedSubscriptionWorkaround — a subscription (and any time-travel select) whose filter is on
// a field with a secondary index delivers nothing: the planner picks the index although the
// VersionedFetcher's transient store holds no index entries. While on, the filtered subscription of
// the indexed configurations filters on a non-indexed field.
// (candidate repair: candidate-fixes/versioned-select-no-secondary-index.diff)
const c10IndexedSubscriptionWorkaround = false

// c10IndexInWorkaround — an index-served `_in` filter combined with limit, or with groupBy plus an
// aggregate, leaves an iterator open and the request panics ("Unclosed iterator at time of
// Txn.Discard"). While on, `_in` on a possibly indexed field is generated for plain filtered
// listings only. (candidate repair: candidate-fixes/index-in-iterator-unclosed.diff)
const c10IndexInWorkaround = false

// Not switchable, noted here: selecting a relation's `_id` field together with `_version` panics the
// planner (multiScanNode.Source nil dereference), so no generated selection contains both; a
// top-level `_or` over indexed fields loses rows on the index path in a run-dependent way (known
// finding of C07), so it is only generated in the configuration without indexes.

// quiet reports whether delete events must be avoided right now.
func (w *c10World) quiet() bool { return c10DeleteHangWorkaround && w.subText != "" }

// c10Timing (development aid, C10_TIMING=1): per-family latency counters in the evidence.
var c10Timing = os.Getenv("C10_TIMING") != ""

func c10Ident(i int) identity.Identity {
	k := make([]byte, 32)
	for j := range k {
		k[j] = byte(17*i + j + 1)
	}
	pk, err := crypto.PrivateKeyFromBytes(crypto.KeyTypeSecp256k1, k)
	core.Must(err)
	id, err := identity.FromPrivateKey(pk)
	core.Must(err)
	return id
}

// ---------------------------------------------------------------------------------------
// model

type c10Op struct {
	Actor  string         `json:"actor"`
	Kind   string         `json:"kind"` // create | update | delete | grant | revoke
	Col    string         `json:"col"`
	DocID  string         `json:"doc,omitempty"`
	Input  map[string]any `json:"input,omitempty"`
	Rel    string         `json:"rel,omitempty"`
	Target string         `json:"target,omitempty"` // actor name or "*"
}

func (o c10Op) String() string {
	switch o.Kind {
	case "grant", "revoke":
		return fmt.Sprintf("%s: %s %s on %s/%s to %s", o.Actor, o.Kind, o.Rel, o.Col, o.DocID, o.Target)
	default:
		return fmt.Sprintf("%s: %s %s/%s %s", o.Actor, o.Kind, o.Col, o.DocID, c10Val(o.Input))
	}
}

type c10Doc struct {
	Col     string
	ID      string
	Owner   string                     // "" = public
	Rels    map[string]map[string]bool // target actor (or "*") -> relations
	Fields  map[string]any             // current values, read back from the auditor dump
	Deleted bool
}

type c10Commit struct {
	Cid, DocID, Field string
	Height            int
}

type c10Twin struct {
	x    string
	node *core.Node
	sub  *c10Sub
	mark int // subscription results consumed so far
}

type c10World struct {
	ctx     context.Context
	p       c10Params
	r       *core.Rec
	rng     *rand.Rand
	real    *core.Node
	pid     string
	ctxs    map[string]context.Context
	dids    map[string]string
	docs    map[string]*c10Doc
	order   []string // docIDs in creation order
	log     []c10Op
	hist    []string // readable history for witnesses
	twins   map[string]*c10Twin
	subs    map[string]*c10Sub // persistent subscriptions of X on the real database
	marks   map[string]int
	subText string
	commits []c10Commit
	dump    map[string]string // last auditor dump of the real database
	sentID  string
	sentN   int
	nameSeq int
	failed  bool
	// docs whose visibility for X changed in the current step (grant notifications are legitimate)
	granted map[string]map[string]bool
}

func (w *c10World) visible(x string, d *c10Doc) bool {
	if d.Owner == "" || d.Owner == x {
		return true
	}
	if len(d.Rels["*"]) > 0 {
		return true
	}
	return x != "anon" && len(d.Rels[x]) > 0
}

func (w *c10World) cx(actor string) context.Context {
	if c, ok := w.ctxs[actor]; ok {
		return c
	}
	return w.ctx
}

func (w *c10World) histf(f string, a ...any) {
	w.hist = append(w.hist, fmt.Sprintf(f, a...))
}

func (w *c10World) tail(n int) []string {
	if len(w.hist) > n {
		return append([]string{fmt.Sprintf("... (%d earlier steps)", len(w.hist)-n)}, w.hist[len(w.hist)-n:]...)
	}
	return w.hist
}

// c10Val renders a Go value as a GraphQL literal.
func c10Val(v any) string {
	switch t := v.(type) {
	case nil:
		return "null"
	case string:
		return strconv.Quote(t)
	case int:
		return strconv.Itoa(t)
	case int64:
		return strconv.FormatInt(t, 10)
	case float64:
		return strconv.FormatFloat(t, 'g', -1, 64)
	case json.Number:
		return t.String()
	case bool:
		return strconv.FormatBool(t)
	case []any:
		var sb []string
		for _, e := range t {
			sb = append(sb, c10Val(e))
		}
		return "[" + strings.Join(sb, ", ") + "]"
	case []string:
		var sb []string
		for _, e := range t {
			sb = append(sb, strconv.Quote(e))
		}
		return "[" + strings.Join(sb, ", ") + "]"
	case map[string]any:
		ks := make([]string, 0, len(t))
		for k := range t {
			ks = append(ks, k)
		}
		sort.Strings(ks)
		var sb []string
		for _, k := range ks {
			sb = append(sb, k+": "+c10Val(t[k]))
		}
		return "{" + strings.Join(sb, ", ") + "}"
	}
	return fmt.Sprintf("%v", v)
}

type c10Resp struct {
	Data string   `json:"data"`
	Errs []string `json:"errors,omitempty"`
}

func (a c10Resp) equal(b c10Resp) bool {
	return a.Data == b.Data && strings.Join(a.Errs, "\n") == strings.Join(b.Errs, "\n")
}

func c10GQL(ctx context.Context, n *core.Node, req string) c10Resp {
	d, e := n.GQL(ctx, req)
	return c10Resp{Data: d, Errs: e}
}

// exec performs one logged operation on a node as its actor.
func (w *c10World) exec(n *core.Node, op c10Op) (c10Resp, error) {
	ctx := w.cx(op.Actor)
	switch op.Kind {
	case "create":
		return c10GQL(ctx, n, fmt.Sprintf(`mutation { create_%s(input: %s) { _docID } }`, op.Col, c10Val(op.Input))), nil
	case "update":
		return c10GQL(ctx, n, fmt.Sprintf(`mutation { update_%s(docID: %q, input: %s) { _docID } }`, op.Col, op.DocID, c10Val(op.Input))), nil
	case "delete":
		return c10GQL(ctx, n, fmt.Sprintf(`mutation { delete_%s(docID: %q) { _docID } }`, op.Col, op.DocID)), nil
	case "grant":
		_, err := n.DB.AddDACActorRelationship(ctx, op.Col, op.DocID, op.Rel, w.did(op.Target))
		return c10Resp{}, err
	case "revoke":
		_, err := n.DB.DeleteDACActorRelationship(ctx, op.Col, op.DocID, op.Rel, w.did(op.Target))
		return c10Resp{}, err
	}
	panic("unknown op " + op.Kind)
}

func (w *c10World) did(target string) string {
	if target == "*" {
		return "*"
	}
	return w.dids[target]
}

var c10DocIDRe = regexp.MustCompile(`"_docID":"(bae-[0-9a-f-]+)"`)

func c10DocIDs(data string) []string {
	var out []string
	for _, m := range c10DocIDRe.FindAllStringSubmatch(data, -1) {
		out = append(out, m[1])
	}
	return out
}

func (w *c10World) newNode() *core.Node {
	// A history builds a dozen short-lived databases of a few dozen documents each: small badger
	// memtables keep a worker at a few hundred MB instead of 1.5 GB (16 workers run in parallel).
	bo := badgerds.DefaultOptions("").WithInMemory(true).WithLogger(nil).WithMemTableSize(16 << 20).WithNumMemtables(2).WithValueThreshold(64 << 10)
	rs, err := badger.NewDatastore("", bo)
	core.Must(err)
	n := core.NewNode(w.ctx, core.NodeOpts{ACP: true, Existing: rs})
	pr, err := n.DB.AddDACPolicy(w.cx("owner"), c10Policy)
	core.Must(err)
	if w.pid == "" {
		w.pid = pr.PolicyID
	} else if w.pid != pr.PolicyID {
		panic("policy id is not deterministic: the twin oracle needs identical schema versions")
	}
	_, err = n.DB.AddSchema(w.ctx, c10SDL(w.p.Config, pr.PolicyID))
	core.Must(err)
	if w.p.Config != "branchable" {
		for _, v := range c10Views {
			_, err = n.DB.AddView(w.ctx, v.Query, v.SDL, immutable.None[model.Lens]())
			core.Must(err)
		}
	}
	return n
}

// Views over the collections with a policy. A view is one more query path to the documents of its
// source: what a requester reads through it must be what the twin (same views, private documents
// absent) returns. The materialized ones answer from a cache that RefreshViews fills; the harness
// refreshes both sides (as the identity named by the request) right before every request on such a
// view, so that the age of the cache is never part of a comparison. The cacheless ones are the control.
type c10View struct{ Name, Source, Query, SDL string }

var c10Views = []c10View{
	{"EmpCache", "Emp", `Emp { name salary dept age }`, `type EmpCache { name: String salary: Int dept: String age: Int }`},
	{"EmpLive", "Emp", `Emp { name salary dept age }`, `type EmpLive @materialized(if: false) { name: String salary: Int dept: String age: Int }`},
	{"CompCache", "Comp", `Comp { name capital emps { name salary } }`, `type CompCache { name: String capital: Int emps: [CompCacheEmp] }
interface CompCacheEmp { name: String salary: Int }`},
	{"CompLive", "Comp", `Comp { name capital emps { name salary } }`, `type CompLive @materialized(if: false) { name: String capital: Int emps: [CompLiveEmp] }
interface CompLiveEmp { name: String salary: Int }`},
}

// refreshViews rebuilds the caches of the materialized views of n as actor.
func (w *c10World) refreshViews(n *core.Node, actor string) error {
	return n.DB.RefreshViews(w.cx(actor), client.CollectionFetchOptions{})
}

// do performs a history operation on the real database, then on every twin whose requester can
// see the document, rebuilding the twins whose visibility changed. Returns false when the real
// database refused the operation (nothing is logged then).
func (w *c10World) do(op c10Op) bool {
	before := map[string]bool{}
	var d *c10Doc
	if op.Kind != "create" {
		d = w.docs[op.DocID]
		for _, x := range c10Requesters {
			before[x] = w.visible(x, d)
		}
	}
	resp, err := w.exec(w.real, op)
	if err != nil || len(resp.Errs) > 0 {
		w.histf("REFUSED %s -> %v %v", op, err, resp.Errs)
		w.r.Note("history_op_refused/" + op.Kind)
		return false
	}
	switch op.Kind {
	case "create":
		ids := c10DocIDs(resp.Data)
		if len(ids) != 1 {
			panic("create returned no docID: " + resp.Data)
		}
		op.DocID = ids[0]
		owner := op.Actor
		if owner == "anon" {
			owner = ""
		}
		d = &c10Doc{Col: op.Col, ID: op.DocID, Owner: owner, Rels: map[string]map[string]bool{}, Fields: map[string]any{}}
		for k, v := range op.Input {
			d.Fields[k] = v
		}
		w.docs[d.ID] = d
		w.order = append(w.order, d.ID)
	case "update", "delete":
		if len(c10DocIDs(resp.Data)) != 1 {
			w.histf("NO-EFFECT %s -> %s", op, resp.Data)
			w.r.Note("history_op_without_effect/" + op.Kind)
			return false
		}
		if op.Kind == "delete" {
			d.Deleted = true
		} else {
			for k, v := range op.Input {
				d.Fields[k] = v
			}
		}
	case "grant":
		if d.Rels[op.Target] == nil {
			d.Rels[op.Target] = map[string]bool{}
		}
		d.Rels[op.Target][op.Rel] = true
	case "revoke":
		delete(d.Rels[op.Target], op.Rel)
	}
	w.log = append(w.log, op)
	w.histf("%s", op)
	for _, x := range c10Requesters {
		tw := w.twins[x]
		if tw == nil {
			continue
		}
		after := w.visible(x, d)
		switch {
		case op.Kind != "create" && before[x] != after:
			if after {
				if w.granted[x] == nil {
					w.granted[x] = map[string]bool{}
				}
				w.granted[x][d.ID] = true
			}
			w.rebuild(x)
			w.r.Count("twin_rebuilds", 1)
		case after:
			w.applyTwin(tw, op)
		}
	}
	return true
}

func (w *c10World) applyTwin(tw *c10Twin, op c10Op) {
	resp, err := w.exec(tw.node, op)
	if err != nil || len(resp.Errs) > 0 {
		panic(fmt.Sprintf("harness: twin of %s refused logged operation %s: %v %v", tw.x, op, err, resp.Errs))
	}
}

// rebuild constructs the twin of requester x: a fresh database that receives, in log order, every
// operation on the documents x can currently read.
func (w *c10World) rebuild(x string) {
	if old := w.twins[x]; old != nil {
		if old.sub != nil {
			old.sub.close()
		}
		old.node.Close()
	}
	tw := &c10Twin{x: x, node: w.newNode()}
	w.twins[x] = tw
	for _, op := range w.log {
		if w.visible(x, w.docs[op.DocID]) {
			w.applyTwin(tw, op)
		}
	}
	if w.subText != "" {
		tw.sub = c10OpenSub(w.cx(x), tw.node, w.subText)
	}
}

// stopSubs closes every subscription; from here on documents may be deleted (see c10DeleteHangWorkaround).
func (w *c10World) stopSubs() {
	for _, s := range w.subs {
		s.close()
	}
	w.subs = map[string]*c10Sub{}
	for _, tw := range w.twins {
		if tw.sub != nil {
			tw.sub.close()
			tw.sub = nil
		}
	}
	w.subText = ""
}

func (w *c10World) close() {
	for _, s := range w.subs {
		s.close()
	}
	for _, tw := range w.twins {
		if tw.sub != nil {
			tw.sub.close()
		}
		tw.node.Close()
	}
	w.real.Close()
}

// ---------------------------------------------------------------------------------------
// dumps (auditor view)

// (company_id is read by a query of its own: selecting it together with _version panics the planner,
// multiScanNode.Source nil dereference, which is not C10's business)
const c10EmpDump = `query { Emp(showDeleted: true) { _docID _deleted name salary dept age _version { cid height } } }`
const c10EmpDump2 = `query { Emp(showDeleted: true) { _docID company_id } }`
const c10CompDump = `query { Comp(showDeleted: true) { _docID _deleted name capital _version { cid height } } }`

func (w *c10World) dumpOf(n *core.Node) map[string]string {
	out := map[string]string{}
	rowsOf := map[string]map[string]any{}
	for i, q := range []string{c10EmpDump, c10CompDump, c10EmpDump2} {
		rows, err := n.Rows(w.cx("auditor"), q, []string{"Emp", "Comp", "Emp"}[i])
		if err != nil {
			panic("harness: auditor dump failed: " + err.Error())
		}
		for _, row := range rows {
			id := row["_docID"].(string)
			if rowsOf[id] == nil {
				rowsOf[id] = row
			} else {
				for k, v := range row {
					rowsOf[id][k] = v
				}
			}
		}
	}
	for id, row := range rowsOf {
		out[id] = core.Canon(row)
	}
	return out
}

// refresh re-reads the auditor dump and the commit list of the real database and synchronises the
// model's field values with it.
func (w *c10World) refresh() {
	w.dump = w.dumpOf(w.real)
	for id, row := range w.dump {
		d := w.docs[id]
		if d == nil {
			panic("harness: auditor sees a document the model does not know: " + row)
		}
		var m map[string]any
		dec := json.NewDecoder(strings.NewReader(row))
		dec.UseNumber()
		core.Must(dec.Decode(&m))
		d.Deleted, _ = m["_deleted"].(bool)
		for k := range d.Fields {
			if v, ok := m[k]; ok {
				d.Fields[k] = v
			}
		}
	}
	for _, id := range w.order {
		if _, ok := w.dump[id]; !ok {
			panic("harness: auditor cannot see document " + id + " (model/ACP mismatch)")
		}
	}
	rows, err := w.real.Rows(w.cx("auditor"), `query { commits { cid docID fieldName height } }`, "commits")
	core.Must(err)
	w.commits = w.commits[:0]
	for _, row := range rows {
		h, _ := row["height"].(json.Number).Int64()
		f, _ := row["fieldName"].(string)
		w.commits = append(w.commits, c10Commit{Cid: row["cid"].(string), DocID: row["docID"].(string), Field: f, Height: int(h)})
	}
}

// checkTwins: the twin of x must hold exactly the documents x can read, in exactly the state
// (values, deletion flag, commit ids) they have on the real database.
func (w *c10World) checkTwins(context string) {
	for _, x := range c10Requesters {
		tw := w.twins[x]
		if tw == nil {
			continue
		}
		td := w.dumpOf(tw.node)
		want := map[string]string{}
		for id, row := range w.dump {
			if w.visible(x, w.docs[id]) {
				want[id] = row
			}
		}
		w.r.Count("twin_dump_comparisons", 1)
		if len(td) != len(want) {
			w.violate(context+"/twin-dump-differs", fmt.Sprintf("after %s: the twin of %s holds %d documents, the real database shows %d readable ones", context, x, len(td), len(want)), map[string]any{"requester": x})
			continue
		}
		for id, row := range want {
			if td[id] != row {
				w.violate(context+"/twin-dump-differs", fmt.Sprintf("after %s: document %s differs between the real database and the twin of %s", context, id, x),
					map[string]any{"requester": x, "real": row, "twin": td[id]})
				break
			}
		}
	}
}

func (w *c10World) violate(sig, msg string, detail map[string]any) {
	if detail == nil {
		detail = map[string]any{}
	}
	detail["history_tail"] = w.tail(40)
	detail["config"] = w.p.Config
	w.r.Violate(sig, msg, detail)
}

// ---------------------------------------------------------------------------------------
// subscriptions

type c10Sub struct {
	mu     sync.Mutex
	res    []c10Resp
	cancel context.CancelFunc
	wake   chan struct{}
	err    []string
}

func c10OpenSub(ctx context.Context, n *core.Node, text string) *c10Sub {
	sctx, cancel := context.WithCancel(ctx)
	s := &c10Sub{cancel: cancel, wake: make(chan struct{}, 1)}
	rr := n.DB.ExecRequest(sctx, text)
	for _, e := range rr.GQL.Errors {
		s.err = append(s.err, e.Error())
	}
	if rr.Subscription == nil {
		if len(s.err) == 0 {
			s.err = []string{"no subscription channel"}
		}
		return s
	}
	go func() {
		for r := range rr.Subscription {
			b, _ := json.Marshal(r.Data)
			resp := c10Resp{Data: string(b)}
			for _, e := range r.Errors {
				resp.Errs = append(resp.Errs, e.Error())
			}
			s.mu.Lock()
			s.res = append(s.res, resp)
			s.mu.Unlock()
			select {
			case s.wake <- struct{}{}:
			default:
			}
		}
	}()
	return s
}

func (s *c10Sub) close() { s.cancel() }

// waitFor blocks until a result at index >= from satisfies pred; returns its index or -1 on timeout
// (the timeout is a hang watchdog, not an oracle).
func (s *c10Sub) waitFor(from int, pred func(c10Resp) bool, timeout time.Duration) int {
	deadline := time.After(timeout)
	for {
		s.mu.Lock()
		for i := from; i < len(s.res); i++ {
			if pred(s.res[i]) {
				s.mu.Unlock()
				return i
			}
		}
		s.mu.Unlock()
		select {
		case <-s.wake:
		case <-deadline:
			return -1
		}
	}
}

func (s *c10Sub) slice(a, b int) []c10Resp {
	s.mu.Lock()
	defer s.mu.Unlock()
	return append([]c10Resp(nil), s.res[a:b]...)
}

// barrier: a public sentinel document is updated on the real database and on every twin; its
// notification marks, in every subscription, the end of what the preceding step produced
// (notifications of one subscription are produced in event order by a single goroutine).
// What X's subscription on the real database delivered since the previous barrier must equal
// what X's subscription on the twin delivered.
func (w *c10World) barrier(stepTouchedInvisible map[string]bool, unordered ...bool) {
	if w.subText == "" || w.failed {
		return
	}
	w.sentN++
	n := w.sentN
	if !w.do(c10Op{Actor: "anon", Kind: "update", Col: "Emp", DocID: w.sentID, Input: map[string]any{"age": n}}) {
		panic("harness: sentinel update refused")
	}
	isSent := func(r c10Resp) bool {
		return strings.Contains(r.Data, w.sentID) && strings.Contains(r.Data, fmt.Sprintf(`"age":%d`, n))
	}
	for _, x := range c10Requesters {
		tw := w.twins[x]
		rs := w.subs[x]
		if tw == nil || rs == nil || tw.sub == nil {
			continue
		}
		ri := rs.waitFor(w.marks[x], isSent, c10RequestTimeout)
		ti := tw.sub.waitFor(tw.mark, isSent, c10RequestTimeout)
		if ri < 0 || ti < 0 {
			w.violate("subscription/sentinel-notification-missing", fmt.Sprintf("subscription of %s did not deliver the update of a public document within %s (delivered: real=%v twin=%v)", x, c10RequestTimeout, ri >= 0, ti >= 0),
				map[string]any{"requester": x, "subscription": w.subText, "goroutines": c10Goroutines()})
			w.failed = true
			return
		}
		real := rs.slice(w.marks[x], ri)
		twin := tw.sub.slice(tw.mark, ti)
		w.marks[x], tw.mark = ri+1, ti+1
		w.r.Count("evaluations", 1)
		w.r.Count("subscription_windows", 1)
		w.r.Count("subscription_results", int64(len(real)))
		if stepTouchedInvisible[x] {
			w.r.Count("nt:subscription", 1)
			w.r.Nontrivial("subscription|" + x)
		}
		// results caused by the grant itself (AddDACActorRelationship republishes the heads of the
		// document): legitimate, the requester may read the document from now on.
		var filtered []c10Resp
		for _, r := range real {
			legit := false
			for id := range w.granted[x] {
				if strings.Contains(r.Data, id) && len(c10DocIDs(r.Data)) == 1 {
					legit = true
				}
			}
			if legit {
				w.r.Note("subscription_result_caused_by_grant")
				continue
			}
			filtered = append(filtered, r)
		}
		if len(unordered) > 0 && unordered[0] {
			// one request changed several documents: the other twins received the per-document effects
			// in docID order, the order of the notifications within this window carries no meaning
			sort.Slice(filtered, func(i, j int) bool { return core.Canon(filtered[i]) < core.Canon(filtered[j]) })
			sort.Slice(twin, func(i, j int) bool { return core.Canon(twin[i]) < core.Canon(twin[j]) })
		}
		if core.Canon(filtered) != core.Canon(twin) {
			kind := "results-differ"
			if len(filtered) < len(twin) {
				kind = "real-delivers-fewer"
			} else if len(filtered) > len(twin) {
				// what kind of result does only the real database deliver?
				inTwin := map[string]int{}
				for _, t := range twin {
					inTwin[core.Canon(t)]++
				}
				kind = "real-delivers-more"
				for _, f := range filtered {
					if inTwin[core.Canon(f)] > 0 {
						inTwin[core.Canon(f)]--
						continue
					}
					switch {
					case len(f.Errs) > 0 && strings.Contains(strings.Join(f.Errs, " "), "the given field does not exist"):
						kind = "real-delivers-error-result-for-update-in-other-collection"
					case len(f.Errs) > 0:
						kind = "real-delivers-error-result"
					case c10EmptyLists(f.Data):
						kind = "real-delivers-empty-result"
					default:
						kind = "real-delivers-data"
					}
					break
				}
			}
			w.violate("subscription/"+kind, fmt.Sprintf("subscription of %s: the real database delivered %d results where the twin (private documents absent) delivered %d", x, len(filtered), len(twin)),
				map[string]any{"requester": x, "subscription": w.subText, "real": filtered, "twin": twin})
		}
	}
	w.granted = map[string]map[string]bool{}
}

// ---------------------------------------------------------------------------------------
// requests

type c10Req struct {
	Class   string `json:"class"`
	Text    string `json:"text"`
	PrivCid bool   `json:"names_private_cid,omitempty"`
	Mut     string `json:"mutation,omitempty"` // "update" | "delete": the request is a mutation by X
	Probe   string `json:"probe,omitempty"`    // for filter mutations: query with the same filter
	API     string `json:"api,omitempty"`      // get | exists | docids
	Col     string `json:"col,omitempty"`
	DocID   string `json:"doc,omitempty"`
	// requests on a view: Refresh = identity that calls RefreshViews (both sides) right before the
	// request (materialized views only); Src = the same request on the view's source collection
	// (non-triviality: the all-seeing auditor's answer to Src differs from X's answer on the view)
	Refresh string `json:"refresh_views_as,omitempty"`
	Src     string `json:"source_request,omitempty"`
	// create-over: X submits the creation content (hence the docID) of the existing document DocID
	Input map[string]any `json:"input,omitempty"`
	Route string         `json:"route,omitempty"` // gql-create | gql-upsert | api-create | api-create-many | api-save
}

func c10Family(class string) string {
	if i := strings.IndexByte(class, '/'); i > 0 {
		return class[:i]
	}
	return class
}

type c10Gen struct {
	w   *c10World
	x   string
	rng *rand.Rand
	out []c10Req
}

func (g *c10Gen) add(class, f string, a ...any) {
	g.out = append(g.out, c10Req{Class: class, Text: fmt.Sprintf(f, a...)})
}

// docsOf returns docs of a collection split into invisible / visible for the requester.
func (g *c10Gen) docsOf(col string, alive bool) (inv, vis []*c10Doc) {
	for _, id := range g.w.order {
		d := g.w.docs[id]
		if d.Col != col || (alive && d.Deleted) || id == g.w.sentID {
			continue
		}
		if g.w.visible(g.x, d) {
			vis = append(vis, d)
		} else {
			inv = append(inv, d)
		}
	}
	return
}

func c10Pick[T any](rng *rand.Rand, s []T) (T, bool) {
	var z T
	if len(s) == 0 {
		return z, false
	}
	return s[rng.IntN(len(s))], true
}

// secret returns the value of `field` of a random live invisible document (falls back to def).
func (g *c10Gen) secret(col, field string, def any) any {
	inv, _ := g.docsOf(col, true)
	var cands []any
	for _, d := range inv {
		if v := d.Fields[field]; v != nil {
			cands = append(cands, v)
		}
	}
	if v, ok := c10Pick(g.rng, cands); ok {
		return v
	}
	return def
}

func (g *c10Gen) privID(col string, alive bool) string {
	inv, vis := g.docsOf(col, alive)
	if d, ok := c10Pick(g.rng, inv); ok {
		return d.ID
	}
	if d, ok := c10Pick(g.rng, vis); ok {
		return d.ID
	}
	return "bae-00000000-0000-5000-8000-000000000000"
}

func (g *c10Gen) pubID(col string) string {
	_, vis := g.docsOf(col, true)
	if d, ok := c10Pick(g.rng, vis); ok {
		return d.ID
	}
	return g.w.sentID
}

// commitOf picks a commit of an invisible (priv=true) or visible document; field "" = any.
func (g *c10Gen) commitOf(priv bool, composite bool, anyDoc bool) (c10Commit, bool) {
	var cands []c10Commit
	for _, c := range g.w.commits {
		d := g.w.docs[c.DocID]
		if d == nil || g.w.visible(g.x, d) == priv {
			continue
		}
		if d.Deleted && !anyDoc && c10DeleteHangWorkaround {
			continue
		}
		if composite != (c.Field == "_C") {
			continue
		}
		cands = append(cands, c)
	}
	return c10Pick(g.rng, cands)
}

func (g *c10Gen) sel() string {
	fs := []string{"_docID", "name", "salary", "dept", "age", "company_id"} // never together with _version (planner panic, see dump)
	out := []string{"name"}
	for _, f := range fs {
		if f != "name" && g.rng.IntN(2) == 0 {
			out = append(out, f)
		}
	}
	return strings.Join(out, " ")
}

func (g *c10Gen) dir() string { return []string{"ASC", "DESC"}[g.rng.IntN(2)] }

// empFilter returns a filter on secret fields of Emp plus its class suffix and whether an index of
// the indexed configurations could serve it.
func (g *c10Gen) empFilter() (string, string) { return g.empFilterIn(false) }

// empFilterIn: allowIn permits `_in` on a field that may be indexed (see c10IndexInWorkaround).
func (g *c10Gen) empFilterIn(allowIn bool) (string, string) {
	sal := g.secret("Emp", "salary", 20)
	k := g.rng.IntN(10)
	if k == 3 && !allowIn && g.w.p.Config != "plain" && c10IndexInWorkaround {
		k = 2
	}
	if k == 6 && g.w.p.Config != "plain" {
		k = 7 // top-level _or over indexed fields: see the note next to the workaround switches
	}
	switch k {
	case 0:
		return fmt.Sprintf(`{salary: {_eq: %s}}`, c10Val(sal)), "eq-secret"
	case 1:
		return fmt.Sprintf(`{name: {_eq: %s}}`, c10Val(g.secret("Emp", "name", "S0"))), "eq-secret"
	case 2:
		return fmt.Sprintf(`{salary: {%s: %d}}`, []string{"_gt", "_ge", "_lt", "_le"}[g.rng.IntN(4)], 10*(1+g.rng.IntN(5))), "range"
	case 3:
		return fmt.Sprintf(`{salary: {_in: [%s, %d]}}`, c10Val(sal), 10*(1+g.rng.IntN(5))), "in"
	case 4:
		return fmt.Sprintf(`{dept: {_eq: %s}}`, c10Val(g.secret("Emp", "dept", "a"))), "eq-secret"
	case 5:
		return fmt.Sprintf(`{name: {_like: "%s%%"}}`, []string{"S", "T", "p", "S1"}[g.rng.IntN(4)]), "like"
	case 6:
		return fmt.Sprintf(`{_or: [{salary: {_eq: %s}}, {dept: {_eq: %s}}]}`, c10Val(sal), c10Val(g.secret("Emp", "dept", "b"))), "compound"
	case 7:
		return fmt.Sprintf(`{_and: [{salary: {_ge: %d}}, {_not: {dept: {_eq: "a"}}}]}`, 10*(1+g.rng.IntN(4))), "compound"
	case 8:
		return fmt.Sprintf(`{salary: {_ne: %s}}`, c10Val(sal)), "ne"
	default:
		return `{salary: {_eq: null}}`, "null"
	}
}

// all generates one instance of every request template for requester x on the current state.
func (g *c10Gen) all() []c10Req {
	rng := g.rng
	// listings
	g.add("listing", `query { Emp { %s } }`, g.sel())
	g.add("listing", `query { Comp { _docID name capital } }`)
	// filters on secret fields
	for i := 0; i < 4; i++ {
		f, k := g.empFilterIn(true)
		g.add("filter/"+k, `query { Emp(filter: %s) { %s } }`, f, g.sel())
	}
	g.add("filter/eq-secret", `query { Emp(filter: {salary: {_eq: %s}}) { %s } }`, c10Val(g.secret("Emp", "salary", 20)), g.sel())
	g.add("filter/eq-secret", `query { Comp(filter: {capital: {_eq: %s}}) { name capital } }`, c10Val(g.secret("Comp", "capital", 777)))
	g.add("filter/range", `query { Comp(filter: {capital: {_gt: %d}}) { name capital } }`, 100*rng.IntN(4))
	g.add("filter/eq-secret", `query { Emp(filter: {company_id: {_eq: %q}}) { name } }`, g.privID("Comp", true))
	// order
	g.add("order/single", `query { Emp(order: {salary: %s}) { %s } }`, g.dir(), g.sel())
	g.add("order/single", `query { Emp(order: {name: %s}) { name } }`, g.dir())
	g.add("order/single", `query { Comp(order: {capital: %s}) { name capital } }`, g.dir())
	g.add("order/multi", `query { Emp(order: [{dept: %s}, {salary: %s}, {name: ASC}]) { name dept salary } }`, g.dir(), g.dir())
	// limit / offset
	g.add("limit/plain", `query { Emp(limit: %d, offset: %d) { %s } }`, 1+rng.IntN(4), rng.IntN(3), g.sel())
	g.add("limit/ordered", `query { Emp(order: {salary: %s}, limit: %d, offset: %d) { name salary } }`, g.dir(), 1+rng.IntN(3), rng.IntN(3))
	g.add("limit/ordered", `query { Emp(order: {name: DESC}, limit: %d) { name } }`, 1+rng.IntN(3))
	// aggregates
	f, _ := g.empFilter()
	g.add("aggregate/_count", `query { _count(Emp: {}) }`)
	g.add("aggregate/_count", `query { _count(Emp: {filter: %s}) }`, f)
	g.add("aggregate/_count", `query { _count(Comp: {}) }`)
	for _, a := range []string{"_sum", "_avg", "_min", "_max"} {
		g.add("aggregate/"+a, `query { %s(Emp: {field: salary}) }`, a)
		f, _ := g.empFilter()
		g.add("aggregate/"+a, `query { %s(Emp: {field: salary, filter: %s}) }`, a, f)
	}
	g.add("aggregate/_sum", `query { _sum(Emp: {field: salary, order: {salary: DESC}, limit: %d}) }`, 1+rng.IntN(3))
	g.add("aggregate/_max", `query { _max(Comp: {field: capital}) }`)
	g.add("aggregate/_sum", `query { _sum(Comp: {field: capital}) }`)
	// groupBy
	g.add("groupby/simple", `query { Emp(groupBy: [dept]) { dept _group { name salary } } }`)
	g.add("groupby/agg", `query { Emp(groupBy: [dept]) { dept _count(_group: {}) _sum(_group: {field: salary}) _avg(_group: {field: salary}) _min(_group: {field: salary}) _max(_group: {field: salary}) } }`)
	g.add("groupby/agg", `query { Emp(groupBy: [dept, age]) { dept age _count(_group: {}) } }`)
	g.add("groupby/agg", `query { Emp(groupBy: [salary], order: {salary: %s}) { salary _count(_group: {}) _group(order: {name: ASC}, limit: 1) { name } } }`, g.dir())
	f, _ = g.empFilter()
	g.add("groupby/agg", `query { Emp(groupBy: [age], filter: %s) { age _count(_group: {}) } }`, f)
	// joins
	g.add("join/many-side", `query { Emp { name company { name capital } } }`)
	g.add("join/one-side", `query { Comp { name emps { name salary } } }`)
	g.add("join/one-side", `query { Comp { name emps(filter: {salary: {_ge: %d}}, order: {name: ASC}, limit: 2) { name } } }`, 10*(1+rng.IntN(4)))
	g.add("join/filter-via-parent", `query { Emp(filter: {company: {name: {_eq: %s}}}) { name } }`, c10Val(g.secret("Comp", "name", "SecCo")))
	g.add("join/filter-via-parent", `query { Emp(filter: {company: {capital: {_gt: %d}}}) { name company_id } }`, 100*rng.IntN(4))
	g.add("join/filter-via-children", `query { Comp(filter: {emps: {salary: {_eq: %s}}}) { name } }`, c10Val(g.secret("Emp", "salary", 40)))
	g.add("join/filter-via-children", `query { Comp(filter: {emps: {name: {_eq: %s}}}) { name capital } }`, c10Val(g.secret("Emp", "name", "S1")))
	g.add("join/order-related", `query { Emp(order: {company: {capital: %s}}) { name } }`, g.dir())
	g.add("join/agg-children", `query { Comp { name _count(emps: {}) _sum(emps: {field: salary}) _avg(emps: {field: salary}) _min(emps: {field: salary}) _max(emps: {field: salary}) } }`)
	g.add("join/agg-children", `query { Comp { name _count(emps: {filter: {salary: {_gt: %d}}}) } }`, 10*rng.IntN(4))
	g.add("join/by-docid", `query { Comp(docID: %q) { name emps { name } } }`, g.privID("Comp", true))
	g.add("join/by-docid", `query { Comp(docID: %q) { name emps { name salary } } }`, g.pubID("Comp"))
	// commits
	csel := []string{`cid docID fieldName height`, `cid docID fieldName height delta`, `cid height links { cid name }`, `docID delta schemaVersionId`}[rng.IntN(4)]
	g.add("commits/all", `query { commits { %s } }`, csel)
	g.add("commits/docid", `query { commits(docID: %q) { %s } }`, g.privID("Emp", false), csel)
	g.add("commits/docid", `query { commits(docID: %q) { %s } }`, g.privID("Comp", false), csel)
	g.add("commits/docid", `query { commits(docID: %q, depth: 1) { %s } }`, g.privID("Emp", false), csel)
	g.add("commits/docid-field", `query { commits(docID: %q, fieldName: %q) { %s } }`, g.privID("Emp", false), []string{"salary", "name", "_C", "age"}[rng.IntN(4)], csel)
	g.add("commits/field", `query { commits(fieldName: %q) { %s } }`, []string{"salary", "name", "_C", "capital"}[rng.IntN(4)], csel)
	g.add("commits/ordered", `query { commits(order: {height: %s}, limit: %d) { cid docID height } }`, g.dir(), 2+rng.IntN(5))
	g.add("commits/grouped", `query { commits(groupBy: [height]) { height _group { cid docID fieldName } } }`)
	g.add("commits/grouped", `query { commits(groupBy: [docID]) { docID _group { cid } } }`)
	if c, ok := g.commitOf(true, rng.IntN(2) == 0, true); ok {
		g.out = append(g.out, c10Req{Class: "commits/cid", PrivCid: true, Text: fmt.Sprintf(`query { commits(cid: %q) { %s } }`, c.Cid, csel)})
		g.out = append(g.out, c10Req{Class: "commits/cid", PrivCid: true, Text: fmt.Sprintf(`query { commits(cid: %q, depth: 3) { %s } }`, c.Cid, csel)})
		g.out = append(g.out, c10Req{Class: "commits/cid", PrivCid: true, Text: fmt.Sprintf(`query { commits(cid: %q, docID: %q) { %s } }`, c.Cid, c.DocID, csel)})
	}
	if c, ok := g.commitOf(false, rng.IntN(2) == 0, true); ok {
		g.add("commits/public-cid", `query { commits(cid: %q, depth: 2) { %s } }`, c.Cid, csel)
	}
	g.add("commits/latest", `query { latestCommits(docID: %q) { cid height links { cid name } } }`, g.privID("Emp", false))
	g.add("commits/latest", `query { latestCommits(docID: %q) { cid docID delta } }`, g.privID("Comp", false))
	g.add("commits/latest-field", `query { latestCommits(docID: %q, fieldName: %q) { cid height delta } }`, g.privID("Emp", false), []string{"salary", "name", "dept"}[rng.IntN(3)])
	// _version
	g.add("version", `query { Emp { name _version { cid height } } }`)
	g.add("version", `query { Emp(filter: {salary: {_eq: %s}}) { name _version { cid links { cid name } } } }`, c10Val(g.secret("Emp", "salary", 20)))
	g.add("version", `query { Comp { name _version { cid height docID } } }`)
	// by docID
	g.add("docid/single", `query { Emp(docID: %q) { %s } }`, g.privID("Emp", true), g.sel())
	g.add("docid/single", `query { Comp(docID: %q) { name capital } }`, g.privID("Comp", true))
	g.add("docid/list", `query { Emp(docID: [%q, %q]) { %s } }`, g.privID("Emp", true), g.pubID("Emp"), g.sel())
	g.add("docid/filter", `query { Emp(filter: {_docID: {_eq: %q}}) { name salary } }`, g.privID("Emp", true))
	g.add("docid/filter", `query { Emp(filter: {_docID: {_in: [%q, %q]}}) { name } }`, g.privID("Emp", true), g.pubID("Emp"))
	// showDeleted
	g.add("showdeleted/listing", `query { Emp(showDeleted: true) { _deleted %s } }`, g.sel())
	g.add("showdeleted/listing", `query { Comp(showDeleted: true) { _deleted name } }`)
	f, _ = g.empFilter()
	g.add("showdeleted/filter", `query { Emp(showDeleted: true, filter: %s) { _deleted name salary } }`, f)
	g.add("showdeleted/docid", `query { Emp(showDeleted: true, docID: %q) { _deleted name } }`, g.privDeleted("Emp"))
	g.add("showdeleted/aggregate", `query { _count(Emp: {showDeleted: true}) }`)
	// several selections in one request
	g.add("multi", `query { a: Emp(filter: {salary: {_eq: %s}}) { name } b: _count(Emp: {}) c: Comp { name } }`, c10Val(g.secret("Emp", "salary", 20)))
	// execution statistics (exploratory)
	f, _ = g.empFilter()
	g.add("explain/execute", `query @explain(type: execute) { Emp(filter: %s) { name } }`, f)
	g.add("explain/execute", `query @explain(type: execute) { Emp { name } }`)
	g.views()
	// collection API
	g.timeTravel()
	g.out = append(g.out,
		c10Req{Class: "api/get", API: "get", Col: "Emp", DocID: g.privID("Emp", true), Text: "collection.Get(private Emp)"},
		c10Req{Class: "api/get", API: "get-deleted", Col: "Emp", DocID: g.privDeleted("Emp"), Text: "collection.Get(deleted private Emp, showDeleted)"},
		c10Req{Class: "api/exists", API: "exists", Col: "Comp", DocID: g.privID("Comp", true), Text: "collection.Exists(private Comp)"},
		c10Req{Class: "api/docids", API: "docids", Col: "Emp", Text: "collection.GetAllDocIDs(Emp)"},
	)
	if c, ok := g.commitOf(true, rng.IntN(2) == 0, true); ok {
		g.out = append(g.out, c10Req{Class: "api/verify-signature", API: "verify-signature", PrivCid: true, DocID: c.Cid, Text: fmt.Sprintf("db.VerifySignature(%s = cid of a private commit)", c.Cid)})
	}
	return g.out
}

// views generates requests on the views over the policy collections. Every selection carries the
// alias `v`, so that the answer is textually comparable with the answer to the same request on the
// view's source collection.
func (g *c10Gen) views() {
	rng := g.rng
	for _, v := range c10Views {
		kind, refresh := "cacheless", ""
		if strings.HasSuffix(v.Name, "Cache") {
			kind = "materialized"
			// who fills the cache: mostly somebody who can read more than the requester
			refresh = []string{"owner", "owner", "auditor", "owner2", "anon", g.x}[rng.IntN(6)]
		}
		add := func(shape, f string, a ...any) {
			t := fmt.Sprintf(f, a...)
			g.out = append(g.out, c10Req{Class: "view/" + kind + "/" + shape, Refresh: refresh,
				Text: strings.ReplaceAll(t, "$V", v.Name), Src: strings.ReplaceAll(t, "$V", v.Source)})
		}
		if v.Source == "Emp" {
			add("listing", `query { v: $V { name salary dept age } }`)
			add("filter", `query { v: $V(filter: {salary: {_eq: %s}}) { name salary } }`, c10Val(g.secret("Emp", "salary", 20)))
			add("filter", `query { v: $V(filter: {name: {_eq: %s}}) { name dept } }`, c10Val(g.secret("Emp", "name", "S1")))
			add("order-limit", `query { v: $V(order: [{salary: %s}, {name: ASC}], limit: %d) { name salary } }`, g.dir(), 1+rng.IntN(3))
			add("aggregate", `query { v: _count($V: {}) }`)
			add("aggregate", `query { v: %s($V: {field: salary}) }`, []string{"_sum", "_avg", "_min", "_max"}[rng.IntN(4)])
			add("groupby", `query { v: $V(groupBy: [dept]) { dept _count(_group: {}) _group { name } } }`)
		} else {
			add("listing", `query { v: $V { name capital } }`)
			add("join", `query { v: $V { name emps { name salary } } }`)
			add("filter", `query { v: $V(filter: {capital: {_eq: %s}}) { name capital } }`, c10Val(g.secret("Comp", "capital", 777)))
			add("aggregate", `query { v: _sum($V: {field: capital}) }`)
		}
	}
}

// timeTravel generates the requests that read a document at a commit. They are part of every burst
// and, at the end of a history, of timeTravelPhase, where each of them is framed by a raw scan of
// the head store (a time-travel query used to re-add the named commit to the document's head set:
// VersionedFetcher merged with the request's transaction in the context; repaired by 2f80c59).
func (g *c10Gen) timeTravel() []c10Req {
	w := g.w
	if c, ok := g.commitOf(true, true, false); ok {
		g.out = append(g.out, c10Req{Class: "timetravel/private-cid", PrivCid: true, Text: fmt.Sprintf(`query { %s(cid: %q, docID: %q) { _docID name } }`, w.docs[c.DocID].Col, c.Cid, c.DocID)})
		g.out = append(g.out, c10Req{Class: "timetravel/private-cid", PrivCid: true, Text: fmt.Sprintf(`query { %s(cid: %q) { name } }`, w.docs[c.DocID].Col, c.Cid)})
		g.out = append(g.out, c10Req{Class: "timetravel/private-cid", PrivCid: true, Text: fmt.Sprintf(`query { %s(cid: %q, docID: %q) { name } }`, w.docs[c.DocID].Col, c.Cid, g.pubID(w.docs[c.DocID].Col))})
	}
	if c, ok := g.commitOf(true, false, false); ok {
		g.out = append(g.out, c10Req{Class: "timetravel/private-cid", PrivCid: true, Text: fmt.Sprintf(`query { %s(cid: %q, docID: %q) { _docID name } }`, w.docs[c.DocID].Col, c.Cid, c.DocID)})
	}
	if c, ok := g.commitOf(false, true, false); ok {
		g.add("timetravel/public-cid", `query { %s(cid: %q, docID: %q) { _docID name } }`, w.docs[c.DocID].Col, c.Cid, c.DocID)
		g.add("timetravel/public-cid-private-docid", `query { %s(cid: %q, docID: %q) { _docID name } }`, w.docs[c.DocID].Col, c.Cid, g.privID(w.docs[c.DocID].Col, true))
	}
	return g.out
}

func (g *c10Gen) privDeleted(col string) string {
	inv, _ := g.docsOf(col, false)
	var del []*c10Doc
	for _, d := range inv {
		if d.Deleted {
			del = append(del, d)
		}
	}
	if d, ok := c10Pick(g.rng, del); ok {
		return d.ID
	}
	return g.privID(col, false)
}

// mutations generates mutation attempts of requester x.
func (g *c10Gen) mutations() []c10Req {
	rng := g.rng
	var out []c10Req
	age := 4 + rng.IntN(5)
	id := g.privID("Emp", true)
	out = append(out, c10Req{Class: "update/by-id", Mut: "update", Col: "Emp", DocID: id,
		Text: fmt.Sprintf(`mutation { update_Emp(docID: %q, input: {age: %d}) { _docID name age } }`, id, age)})
	id = g.privID("Comp", true)
	out = append(out, c10Req{Class: "update/by-id", Mut: "update", Col: "Comp", DocID: id,
		Text: fmt.Sprintf(`mutation { update_Comp(docID: %q, input: {capital: %d}) { _docID name } }`, id, 100*(1+rng.IntN(9)))})
	subsOpen := g.w.quiet()
	id = g.privID("Emp", true)
	if d := g.w.docs[id]; !subsOpen || (d != nil && !g.w.visible(g.x, d)) {
		out = append(out, c10Req{Class: "delete/by-id", Mut: "delete", Col: "Emp", DocID: id,
			Text: fmt.Sprintf(`mutation { delete_Emp(docID: %q) { _docID } }`, id)})
	}
	// by filter on a secret field; the input never touches a filtered field
	var f string
	switch rng.IntN(3) {
	case 0:
		f = fmt.Sprintf(`{salary: {_eq: %s}}`, c10Val(g.secret("Emp", "salary", 20)))
	case 1:
		f = fmt.Sprintf(`{name: {_like: "%s%%"}}`, []string{"S", "T"}[rng.IntN(2)])
	default:
		f = fmt.Sprintf(`{dept: {_eq: %s}}`, c10Val(g.secret("Emp", "dept", "a")))
	}
	f = fmt.Sprintf(`{_and: [%s, {name: {_ne: "sentinel"}}]}`, f)
	out = append(out, c10Req{Class: "update/by-filter", Mut: "update", Col: "Emp", Probe: fmt.Sprintf(`query { Emp(filter: %s) { _docID } }`, f),
		Text: fmt.Sprintf(`mutation { update_Emp(filter: %s, input: {age: %d}) { _docID name age } }`, f, age)})
	f2 := fmt.Sprintf(`{name: {_eq: %s}}`, c10Val(g.secret("Emp", "name", "S1")))
	if rng.IntN(3) == 0 {
		f2 = fmt.Sprintf(`{_and: [{salary: {_eq: %s}}, {name: {_ne: "sentinel"}}]}`, c10Val(g.secret("Emp", "salary", 20)))
	}
	if !subsOpen {
		out = append(out, c10Req{Class: "delete/by-filter", Mut: "delete", Col: "Emp", Probe: fmt.Sprintf(`query { Emp(filter: %s) { _docID } }`, f2),
			Text: fmt.Sprintf(`mutation { delete_Emp(filter: %s) { _docID } }`, f2)})
	}
	// create with the creation content (hence the docID) of an existing document
	// (the anchor history makes its fixed attempts at its very end, see createOverPhase)
	routes := []string{"gql-create", "gql-create", "gql-upsert", "api-create", "api-create-many", "api-save"}
	for _, live := range []bool{true, false} {
		if g.w.p.Anchor {
			break
		}
		col := []string{"Emp", "Emp", "Comp"}[rng.IntN(3)]
		id := g.privID(col, true)
		if !live {
			if id = g.privDeleted("Emp"); g.w.docs[id] == nil || !g.w.docs[id].Deleted {
				continue
			}
		}
		if q, ok := g.w.createOverReq(g.x, id, routes[rng.IntN(len(routes))]); ok && !(subsOpen && !live) {
			out = append(out, q)
		}
	}
	return out
}

// createOverReq builds the request that submits the creation content of document id once more.
func (w *c10World) createOverReq(x, id, route string) (c10Req, bool) {
	d := w.docs[id]
	if d == nil || id == w.sentID {
		return c10Req{}, false
	}
	if w.visible(x, d) {
		switch route { // these would take their update branch
		case "gql-upsert":
			route = "gql-create"
		case "api-save":
			route = "api-create"
		}
	}
	var in map[string]any
	for _, op := range w.log {
		if op.Kind == "create" && op.DocID == id {
			in = op.Input
			break
		}
	}
	if in == nil {
		return c10Req{}, false
	}
	state := "live"
	if d.Deleted {
		state = "deleted"
	}
	q := c10Req{Class: "create-over/" + state, Mut: "create-over", Col: d.Col, DocID: id, Input: in, Route: route}
	switch route {
	case "gql-create":
		q.Text = fmt.Sprintf(`mutation { create_%s(input: %s) { _docID } }`, d.Col, c10Val(in))
	case "gql-upsert":
		// the filter matches nothing the requester can read, so the create branch is taken
		upd := "{name: " + c10Val(in["name"]) + "}"
		q.Text = fmt.Sprintf(`mutation { upsert_%s(filter: {_docID: {_eq: %q}}, create: %s, update: %s) { _docID } }`, d.Col, id, c10Val(in), upd)
	default:
		q.API = route
		q.Text = fmt.Sprintf("collection.%s(%s %s)", strings.TrimPrefix(route, "api-"), d.Col, c10Val(in))
	}
	return q, true
}

// c10RequestTimeout is the per-request hang watchdog (every property presupposes that calls return).
const c10RequestTimeout = 90 * time.Second

// c10Hung: a request of an earlier case of this worker process never returned; its goroutine may
// still be spinning, so the remaining cases of this worker are skipped (the run has failed anyway
// and must not take a watchdog period per case).
var c10Hung atomic.Bool

// run executes a request as actor on a node, under a watchdog and with the request text attached
// to a panic: a request that never returns or panics is reported with its text and ends the history.
func (w *c10World) run(n *core.Node, actor string, q c10Req) c10Resp {
	type res struct {
		r     c10Resp
		panic string
	}
	ch := make(chan res, 1)
	go func() {
		defer func() {
			if p := recover(); p != nil {
				ch <- res{panic: fmt.Sprintf("%v\n%s", p, debug.Stack())}
			}
		}()
		ch <- res{r: w.run0(n, actor, q)}
	}()
	side := "twin"
	if n == w.real {
		side = "real"
	}
	select {
	case r := <-ch:
		if r.panic != "" {
			frame := "unknown-frame"
			for _, l := range strings.Split(r.panic, "\n") {
				l = strings.TrimSpace(l)
				if strings.HasPrefix(l, "github.com/sourcenetwork/defradb/") && !strings.Contains(l, "verifharness") {
					if i := strings.LastIndex(l, "("); i > 0 {
						l = l[:i]
					}
					frame = strings.TrimPrefix(l, "github.com/sourcenetwork/defradb/")
					break
				}
			}
			w.violate("panic-in-request/"+c10Family(q.Class)+"/"+frame, fmt.Sprintf("a %s request of %s panicked (%s database): %s", q.Class, actor, side, strings.SplitN(r.panic, "\n", 2)[0]),
				map[string]any{"requester": actor, "request": q.Text, "side": side, "stack": r.panic})
			w.failed = true
			return c10Resp{Errs: []string{"PANIC"}}
		}
		return r.r
	case <-time.After(c10RequestTimeout):
		w.violate("hang/"+c10Family(q.Class), fmt.Sprintf("a %s request of %s did not return within %s (%s database)", q.Class, actor, c10RequestTimeout, side),
			map[string]any{"requester": actor, "request": q.Text, "side": side, "goroutines": c10Goroutines()})
		w.failed = true
		c10Hung.Store(true)
		return c10Resp{Errs: []string{"HANG"}}
	}
}

// c10Goroutines returns the stacks of the goroutines that are inside the system under test.
func c10Goroutines() string {
	buf := make([]byte, 4<<20)
	buf = buf[:runtime.Stack(buf, true)]
	var keep []string
	for _, g := range strings.Split(string(buf), "\n\n") {
		if strings.Contains(g, "ExecRequest") || strings.Contains(g, "handleSubscription") || strings.Contains(g, "run0") {
			keep = append(keep, g)
		}
	}
	s := strings.Join(keep, "\n\n")
	if len(s) > 40000 {
		s = s[:40000] + "\n...[truncated]"
	}
	return s
}

func (w *c10World) run0(n *core.Node, actor string, q c10Req) c10Resp {
	ctx := w.cx(actor)
	if q.API == "" {
		return c10GQL(ctx, n, q.Text)
	}
	if q.API == "verify-signature" {
		if err := n.DB.VerifySignature(ctx, q.DocID, c10Ident(0).PublicKey()); err != nil {
			return c10Resp{Errs: []string{err.Error()}}
		}
		return c10Resp{Data: "verified"}
	}
	col, err := n.DB.GetCollectionByName(ctx, q.Col)
	if err != nil {
		return c10Resp{Errs: []string{err.Error()}}
	}
	switch q.API {
	case "api-create", "api-create-many", "api-save":
		b, err := json.Marshal(q.Input)
		core.Must(err)
		doc, err := client.NewDocFromJSON(b, col.Definition())
		if err != nil {
			return c10Resp{Errs: []string{err.Error()}}
		}
		if doc.ID().String() != q.DocID {
			panic("harness: creation content does not reproduce the docID: " + doc.ID().String() + " vs " + q.DocID)
		}
		switch q.API {
		case "api-create":
			err = col.Create(ctx, doc)
		case "api-create-many":
			err = col.CreateMany(ctx, []*client.Document{doc})
		default:
			err = col.Save(ctx, doc)
		}
		if err != nil {
			return c10Resp{Errs: []string{err.Error()}}
		}
		return c10Resp{Data: strconv.Quote(doc.ID().String())}
	case "get", "get-deleted":
		id, err := client.NewDocIDFromString(q.DocID)
		if err != nil {
			return c10Resp{Errs: []string{err.Error()}}
		}
		doc, err := col.Get(ctx, id, q.API == "get-deleted")
		if err != nil {
			return c10Resp{Errs: []string{err.Error()}}
		}
		m, err := doc.ToMap()
		if err != nil {
			return c10Resp{Errs: []string{err.Error()}}
		}
		return c10Resp{Data: core.Canon(m)}
	case "exists":
		id, err := client.NewDocIDFromString(q.DocID)
		if err != nil {
			return c10Resp{Errs: []string{err.Error()}}
		}
		ok, err := col.Exists(ctx, id)
		if err != nil {
			return c10Resp{Errs: []string{err.Error()}}
		}
		return c10Resp{Data: strconv.FormatBool(ok)}
	case "docids":
		ch, err := col.GetAllDocIDs(ctx)
		if err != nil {
			return c10Resp{Errs: []string{err.Error()}}
		}
		var ids, errs []string
		for r := range ch {
			if r.Err != nil {
				errs = append(errs, r.Err.Error())
				continue
			}
			ids = append(ids, r.ID.String())
		}
		sort.Strings(ids)
		return c10Resp{Data: core.Canon(ids), Errs: errs}
	}
	panic("unknown api " + q.API)
}

var c10IndexFetchRe = regexp.MustCompile(`"indexFetches":[1-9]`)

// diffKind classifies how the answer of the real database differs from the twin's.
func c10DiffKind(real, twin c10Resp) string {
	switch {
	case len(real.Errs) > 0 && len(twin.Errs) == 0:
		return "real-error-twin-data"
	case len(real.Errs) == 0 && len(twin.Errs) > 0:
		return "real-data-twin-error"
	case len(real.Errs) > 0:
		return "error-text-differs"
	}
	ra, ta := c10Leaves(real.Data), c10Leaves(twin.Data)
	switch {
	case ra > ta:
		return "real-returns-more"
	case ra < ta:
		return "real-returns-fewer"
	}
	return "values-differ"
}

// c10Leaves counts list elements in a JSON document (a rough size used only to name the diff).
func c10Leaves(s string) int {
	var v any
	if json.Unmarshal([]byte(s), &v) != nil {
		return len(s)
	}
	var walk func(v any) int
	walk = func(v any) int {
		n := 0
		switch t := v.(type) {
		case []any:
			n += len(t)
			for _, e := range t {
				n += walk(e)
			}
		case map[string]any:
			for _, e := range t {
				n += walk(e)
			}
		}
		return n
	}
	return walk(v)
}

// c10SortedLists returns the canonical JSON of s with every list sorted (for requests without an
// explicit order the sequence of rows is not part of the contract).
func c10SortedLists(s string) string {
	var v any
	dec := json.NewDecoder(strings.NewReader(s))
	dec.UseNumber()
	if dec.Decode(&v) != nil {
		return s
	}
	var walk func(v any) any
	walk = func(v any) any {
		switch t := v.(type) {
		case []any:
			for i := range t {
				t[i] = walk(t[i])
			}
			sort.Slice(t, func(i, j int) bool { return core.Canon(t[i]) < core.Canon(t[j]) })
		case map[string]any:
			for k := range t {
				t[k] = walk(t[k])
			}
		}
		return v
	}
	return core.Canon(walk(v))
}

func c10EmptyLists(s string) bool {
	var m map[string]any
	if json.Unmarshal([]byte(s), &m) != nil {
		return false
	}
	for _, v := range m {
		l, ok := v.([]any)
		if !ok || len(l) > 0 {
			return false
		}
	}
	return true
}

// eval sends one read request as x to the real database and to x's twin and compares.
// tag ("" | "after-grant" | "after-revoke") replaces the family in signature and coverage.
func (w *c10World) eval(x string, q c10Req, tag string) (c10Resp, bool) {
	tw := w.twins[x]
	if q.Refresh != "" {
		// a request on a materialized view: both caches are rebuilt right before it
		er, et := w.refreshViews(w.real, q.Refresh), w.refreshViews(tw.node, q.Refresh)
		w.r.Count("view_refreshes", 1)
		if er != nil || et != nil {
			if fmt.Sprint(er) != fmt.Sprint(et) {
				w.violate("materialized-view/refresh-fails-on-one-side", fmt.Sprintf("RefreshViews as %s: real database %v, twin of %s %v", q.Refresh, er, x, et),
					map[string]any{"requester": x, "refreshed_as": q.Refresh, "real": fmt.Sprint(er), "twin": fmt.Sprint(et)})
			}
			w.r.Note("view_refresh_refused")
			return c10Resp{}, false
		}
	}
	t0 := time.Now()
	real := w.run(w.real, x, q)
	t1 := time.Now()
	twin := w.run(tw.node, x, q)
	if c10Timing {
		w.r.Count("us_real:"+c10Family(q.Class), t1.Sub(t0).Microseconds())
		w.r.Count("us_twin:"+c10Family(q.Class), time.Since(t1).Microseconds())
	}
	if w.failed {
		return real, false
	}
	w.r.Count("evaluations", 1)
	class := q.Class
	if tag != "" {
		class = tag
	}
	w.r.Count("req:"+class, 1)
	// non-trivial: the private documents matter to this request (the all-seeing auditor gets a different answer)
	aud := w.run(w.real, "auditor", q)
	nontrivial := !aud.equal(real)
	if q.PrivCid {
		nontrivial = true
	}
	if q.Src != "" {
		// views: the private documents matter when the auditor reads something else from the source collection
		aud = w.run(w.real, "auditor", c10Req{Class: q.Class, Text: q.Src})
		nontrivial = !aud.equal(real) && c10SortedLists(aud.Data) != c10SortedLists(real.Data)
		if nontrivial {
			w.r.Count("nt:"+strings.Join(strings.Split(class, "/")[:2], "/"), 1)
		}
	}
	if nontrivial && tag == "" {
		w.r.Count("nt:"+class, 1)
		w.r.Nontrivial(class + "|" + x)
		if strings.HasPrefix(class, "filter/") || strings.HasPrefix(class, "aggregate/") || class == "listing" || strings.HasPrefix(class, "order/") || strings.HasPrefix(class, "limit/") || class == "version" {
			if w.p.Config != "plain" && q.API == "" && strings.Contains(q.Text, "filter:") {
				// was the plan served from a secondary index? (execution statistics of the auditor's run)
				ex := c10GQL(w.cx("auditor"), w.real, strings.Replace(q.Text, "query {", "query @explain(type: execute) {", 1))
				if c10IndexFetchRe.MatchString(ex.Data) {
					w.r.Count("nt:index-backed-plan", 1)
					w.r.Nontrivial("index-backed-plan|" + x)
				}
			}
		}
	}
	if real.equal(twin) {
		return real, nontrivial
	}
	if !strings.Contains(q.Text, "order:") && len(real.Errs) == 0 && len(twin.Errs) == 0 && c10SortedLists(real.Data) == c10SortedLists(twin.Data) {
		w.r.Note("row_order_differs_without_order_argument/" + class)
		if os.Getenv("C10_ORDER_STRICT") != "" { // development aid: show such a pair
			w.violate("debug/row-order", "row order differs", map[string]any{"requester": x, "request": q.Text, "real": real, "twin": twin})
		}
		return real, nontrivial
	}
	// second defence against crying wolf: an answer that the twin itself (no private documents
	// at all) does not reproduce is not evidence about access control
	for i := 0; i < 2; i++ {
		if again := w.run(tw.node, x, q); !again.equal(twin) {
			w.r.Note("answer_of_twin_not_reproducible/" + c10Family(class))
			return real, nontrivial
		}
	}
	kind := c10DiffKind(real, twin)
	fam := c10Family(class)
	if tag == "" && w.p.Config != "plain" && q.API == "" && strings.Contains(q.Text, "filter:") && strings.HasPrefix(q.Text, "query {") {
		// one signature for everything that was served from a secondary index
		ex := c10GQL(w.cx("auditor"), w.real, strings.Replace(q.Text, "query {", "query @explain(type: execute) {", 1))
		if c10IndexFetchRe.MatchString(ex.Data) {
			fam = "index-backed-plan"
		}
	}
	sig := fam + "/" + kind
	msg := fmt.Sprintf("requester %s, %s request: the answer of the real database differs from the answer of the twin that never contained the unreadable documents (%s)", x, class, kind)
	if q.PrivCid && kind == "real-data-twin-error" && c10EmptyLists(real.Data) {
		sig = "names-private-cid/empty-result-instead-of-not-found-error"
		msg = fmt.Sprintf("requester %s: a request that names the cid of a private commit answers with an empty list; on the twin the same request fails with a not-found error", x)
	} else if q.PrivCid && q.API == "verify-signature" && kind == "error-text-differs" {
		sig = "names-private-cid/verify-signature/refusal-instead-of-not-found-error"
		msg = fmt.Sprintf("requester %s: VerifySignature for the cid of a private commit is refused with %q; on the twin the same call fails with a not-found error (%q)", x, strings.Join(real.Errs, "; "), strings.Join(twin.Errs, "; "))
	} else if q.PrivCid {
		sig = "names-private-cid/" + fam + "/" + kind
	} else if strings.HasPrefix(class, "view/materialized/") {
		sig = "materialized-view/" + kind
		msg = fmt.Sprintf("requester %s, %s request on a materialized view over a collection with a document policy (cache refreshed by %s): the answer differs from the answer of the twin that never contained the unreadable documents (%s)", x, class, q.Refresh, kind)
		// root cause visible in the answer: it is what the refreshing identity reads from the source
		// collection, or it carries the name of a document the requester cannot read
		asRefresher := w.run(w.real, q.Refresh, c10Req{Class: q.Class, Text: q.Src})
		leaks := len(asRefresher.Errs) == 0 && c10SortedLists(asRefresher.Data) == c10SortedLists(real.Data)
		for _, d := range w.docs {
			if name, _ := d.Fields["name"].(string); !w.visible(x, d) && name != "" && strings.Contains(real.Data, strconv.Quote(name)) {
				leaks = true
			}
		}
		if leaks {
			sig = "materialized-view/serves-what-the-refreshing-identity-may-read"
			msg = fmt.Sprintf("requester %s reads through a materialized view what %s, who called RefreshViews, can read from the source collection: the cache is filled with the refreshing identity's view and served to every requester without an access check", x, q.Refresh)
		}
	} else if strings.HasPrefix(class, "view/cacheless/") {
		sig = "cacheless-view/" + kind
	} else if fam == "explain" && kind == "values-differ" {
		sig = "explain-execute/statistics-count-unreadable-documents"
		msg = fmt.Sprintf("requester %s: the execution statistics of an @explain(type: execute) request (docFetches / indexFetches / fieldFetches) count documents the requester cannot read", x)
	}
	w.violate(sig, msg, map[string]any{"requester": x, "class": q.Class, "request": q.Text, "real": real, "twin": twin, "auditor": aud})
	return real, nontrivial
}

// mutate sends a mutation attempt of x to the real database and the twin; the answers must be
// equal, no document x cannot read may change, and the effects on the documents x can read must be
// those the twin shows.
func (w *c10World) mutate(x string, q c10Req) {
	if w.failed {
		return
	}
	if q.Mut == "create-over" {
		w.createOver(x, q)
		return
	}
	tw := w.twins[x]
	nontrivial := false
	if q.Probe != "" {
		for _, id := range c10DocIDs(c10GQL(w.cx("auditor"), w.real, q.Probe).Data) {
			if d := w.docs[id]; d != nil && !w.visible(x, d) {
				nontrivial = true
			}
		}
	} else if d := w.docs[q.DocID]; d != nil && !w.visible(x, d) {
		nontrivial = true
	}
	before := w.dumpOf(w.real)
	real := w.run(w.real, x, q)
	twin := w.run(tw.node, x, q)
	w.histf("%s: %s -> %s %v", x, q.Text, real.Data, real.Errs)
	if w.failed {
		return
	}
	w.r.Count("evaluations", 1)
	w.r.Count("req:"+q.Class, 1)
	if nontrivial {
		w.r.Count("nt:"+q.Class, 1)
		w.r.Nontrivial(q.Class + "|" + x)
	}
	if !real.equal(twin) && !(len(real.Errs) == 0 && len(twin.Errs) == 0 && c10SortedLists(real.Data) == c10SortedLists(twin.Data)) {
		w.violate(c10Family(q.Class)+"/"+c10DiffKind(real, twin), fmt.Sprintf("requester %s, %s: the answer of the real database differs from the twin's", x, q.Class),
			map[string]any{"requester": x, "request": q.Text, "real": real, "twin": twin})
		w.failed = true // the two histories may have diverged
	}
	w.refresh()
	// which documents changed on the real database?
	var changed []string
	for id, row := range w.dump {
		if before[id] != row {
			changed = append(changed, id)
		}
	}
	sort.Strings(changed)
	for _, id := range changed {
		d := w.docs[id]
		if !w.visible(x, d) {
			w.violate(c10Family(q.Class)+"/changed-unreadable-document", fmt.Sprintf("a %s by %s changed a document %s cannot read", q.Class, x, x),
				map[string]any{"requester": x, "request": q.Text, "before": before[id], "after": w.dump[id]})
			w.failed = true
		}
	}
	if w.failed {
		return
	}
	// log the effects per document and bring the other twins up to date
	var input map[string]any
	if q.Mut == "update" {
		input = c10ParseInput(q.Text)
	}
	touched := map[string]bool{}
	for _, id := range changed {
		d := w.docs[id]
		op := c10Op{Actor: x, Kind: q.Mut, Col: d.Col, DocID: id, Input: input}
		w.log = append(w.log, op)
		for _, y := range c10Requesters {
			if y != x && w.twins[y] != nil {
				if w.visible(y, d) {
					w.applyTwin(w.twins[y], op)
				} else {
					touched[y] = true
				}
			}
		}
	}
	w.r.Count("mutations_by_requester_with_effect", int64(len(changed)))
	w.checkTwins(c10Family(q.Class))
	w.barrier(touched, len(changed) > 1)
}

// rawDocState: the raw head store and data store of a node (a refused write leaves both untouched).
func (w *c10World) rawDocState(n *core.Node) map[string]string {
	out := map[string]string{}
	for _, pre := range []string{"/db/heads/", "/db/data/"} {
		for k, v := range n.RawScan(w.ctx, pre) {
			out[k] = fmt.Sprintf("%x", v)
		}
	}
	return out
}

// createOver: requester x submits the creation content of an existing document d once more. DocIDs
// are derived from the content, so this is a write aimed at d. When x cannot read d the statement
// allows only one outcome for the stored state: nothing changes - the auditor's view of every
// document, the raw head store and the raw data store stay as they were (what the request ANSWERS is
// not compared with the twin here: the docID is taken, and no answer can both keep d intact and
// equal the twin's, where the create simply succeeds). When x can read d the twin holds d too: the
// answers must be equal and nothing may change on either side.
func (w *c10World) createOver(x string, q c10Req) {
	d, tw := w.docs[q.DocID], w.twins[x]
	vis := w.visible(x, d)
	before, rawBefore := w.dumpOf(w.real), w.rawDocState(w.real)
	real := w.run(w.real, x, q)
	w.histf("%s: %s -> %s %v", x, q.Text, real.Data, real.Errs)
	if w.failed {
		return
	}
	w.r.Count("evaluations", 1)
	w.r.Count("req:"+q.Class, 1)
	w.r.Count("create_over:"+q.Route, 1)
	if !vis {
		w.r.Count("nt:"+q.Class, 1)
		w.r.Nontrivial(q.Class + "|" + x)
		w.r.Nontrivial("create-over-route|" + q.Route)
	} else {
		twinBefore := w.dumpOf(tw.node)
		twin := w.run(tw.node, x, q)
		if w.failed {
			return
		}
		if !real.equal(twin) {
			w.violate("create-over/readable-document/"+c10DiffKind(real, twin), fmt.Sprintf("requester %s re-submits the creation content of a document it can read (%s): the answer of the real database differs from the twin's", x, q.Class),
				map[string]any{"requester": x, "request": q.Text, "real": real, "twin": twin})
		}
		if core.Canon(twinBefore) != core.Canon(w.dumpOf(tw.node)) {
			w.failed = true // the twin accepted a create of a document it already holds: not comparable any further
			w.r.Note("create_over_changed_the_twin")
		}
	}
	after, rawAfter := w.dumpOf(w.real), w.rawDocState(w.real)
	var changed, rawChanged []string
	for id, row := range after {
		if before[id] != row {
			changed = append(changed, id)
		}
	}
	for k, v := range rawAfter {
		if rawBefore[k] != v {
			rawChanged = append(rawChanged, k)
		}
	}
	for k := range rawBefore {
		if _, ok := rawAfter[k]; !ok {
			rawChanged = append(rawChanged, "removed:"+k)
		}
	}
	sort.Strings(changed)
	sort.Strings(rawChanged)
	if len(changed) == 0 && len(rawChanged) == 0 {
		return
	}
	w.failed = true // the model no longer describes the real database
	if len(rawChanged) > 12 {
		rawChanged = append(rawChanged[:12], fmt.Sprintf("... (%d more)", len(rawChanged)-12))
	}
	detail := map[string]any{"requester": x, "request": q.Text, "route": q.Route, "answer": real, "target_document": q.DocID, "target_readable_by_requester": vis,
		"target_deleted": d.Deleted, "auditor_view_before": before[q.DocID], "auditor_view_after": after[q.DocID], "documents_changed": changed, "raw_keys_changed": rawChanged}
	if vis {
		w.violate("create-over/readable-document/changed-state", fmt.Sprintf("requester %s re-submitted the creation content of an existing document it can read; the stored state changed", x), detail)
		return
	}
	w.violate("create-over/written-on-top-of-unreadable-document", fmt.Sprintf("requester %s, who cannot read document %s, submitted its creation content (%s, document %s): the create was applied on top of the existing document (%d documents differ in the auditor's view, %d raw head/data keys changed)",
		x, q.DocID, q.Route, map[bool]string{false: "live", true: "deleted"}[d.Deleted], len(changed), len(rawChanged)), detail)
}

var c10InputRe = regexp.MustCompile(`input: \{(\w+): (\d+)\}`)

func c10ParseInput(text string) map[string]any {
	m := c10InputRe.FindStringSubmatch(text)
	if m == nil {
		panic("harness: cannot parse mutation input: " + text)
	}
	n, _ := strconv.Atoi(m[2])
	return map[string]any{m[1]: n}
}

// step performs a history operation (by an owner / anonymous writer), then the invariants.
func (w *c10World) step(op c10Op) bool {
	if w.failed {
		return false
	}
	touched := map[string]bool{}
	ok := w.do(op)
	if !ok {
		return false
	}
	w.r.Count("history_ops", 1)
	w.r.Count("history_op:"+op.Kind, 1)
	d := w.docs[w.log[len(w.log)-1].DocID]
	if op.Kind == "create" && d.Owner != "" {
		// the auditor may read every private document
		w.do(c10Op{Actor: d.Owner, Kind: "grant", Col: d.Col, DocID: d.ID, Rel: "reader", Target: "auditor"})
	}
	for _, x := range c10Requesters {
		if !w.visible(x, d) && (op.Kind == "create" || op.Kind == "update" || op.Kind == "delete") {
			touched[x] = true
		}
	}
	w.refresh()
	w.checkTwins("history")
	w.barrier(touched)
	return true
}

// battery runs the fixed set of requests that must reflect a grant / revoke immediately.
func (w *c10World) reflectRequests(d *c10Doc) []c10Req {
	return []c10Req{
		{Class: "reflect", Text: fmt.Sprintf(`query { %s { _docID name } }`, d.Col)},
		{Class: "reflect", Text: fmt.Sprintf(`query { %s(docID: %q) { _docID name } }`, d.Col, d.ID)},
		{Class: "reflect", Text: fmt.Sprintf(`query { commits(docID: %q) { cid fieldName height } }`, d.ID)},
		{Class: "reflect", Text: fmt.Sprintf(`query { latestCommits(docID: %q) { cid } }`, d.ID)},
		{Class: "reflect", Text: fmt.Sprintf(`query { _count(%s: {}) }`, d.Col)},
	}
}

// acl performs a grant or revoke and checks that the very next requests of the affected
// requesters reflect it.
func (w *c10World) acl(op c10Op) {
	if w.failed {
		return
	}
	d := w.docs[op.DocID]
	was := map[string]bool{}
	prev := map[string][]c10Resp{}
	reqs := w.reflectRequests(d)
	for _, x := range c10Requesters {
		was[x] = w.visible(x, d)
		for _, q := range reqs {
			prev[x] = append(prev[x], w.run(w.real, x, q))
		}
	}
	if !w.step(op) {
		return
	}
	for _, x := range c10Requesters {
		now := w.visible(x, d)
		if now == was[x] {
			continue
		}
		tag := "after-revoke"
		if now {
			tag = "after-grant"
		}
		for i, q := range reqs {
			got, _ := w.eval(x, q, tag)
			if !got.equal(prev[x][i]) {
				w.r.Count("nt:"+tag, 1)
				w.r.Nontrivial(tag + "|" + x)
			}
		}
	}
}

// burst evaluates k random requests (k<=0: all) for requester x.
func (w *c10World) burst(x string, k int) {
	if w.failed || w.twins[x] == nil {
		return
	}
	g := &c10Gen{w: w, x: x, rng: w.rng}
	all := g.all()
	if k <= 0 || k >= len(all) {
		for _, q := range all {
			if !w.failed {
				w.eval(x, q, "")
			}
		}
		return
	}
	for i := 0; i < k && !w.failed; i++ {
		w.eval(x, all[w.rng.IntN(len(all))], "")
	}
}

// timeTravelPhase: time-travel requests of every requester, each preceded and followed by a raw
// scan of the head store: a read request must not change the head set, least of all the head set
// of a document the requester cannot read.
func (w *c10World) timeTravelPhase() {
	for _, x := range c10Requesters {
		if w.failed || w.twins[x] == nil {
			return
		}
		g := &c10Gen{w: w, x: x, rng: w.rng}
		for _, q := range g.timeTravel() {
			before := w.real.RawScan(w.ctx, "/db/heads/")
			tw := w.twins[x]
			twinBefore := tw.node.RawScan(w.ctx, "/db/heads/")
			w.eval(x, q, "")
			w.r.Count("head_set_checks", 1)
			after := w.real.RawScan(w.ctx, "/db/heads/")
			twinAfter := tw.node.RawScan(w.ctx, "/db/heads/")
			if core.Canon(before) != core.Canon(after) || core.Canon(twinBefore) != core.Canon(twinAfter) {
				sig := "timetravel/query-changed-head-set"
				msg := fmt.Sprintf("a time-travel query of %s changed the stored head set (the named commit was re-added as a head)", x)
				if q.PrivCid && core.Canon(before) != core.Canon(after) {
					sig = "names-private-cid/query-changed-head-set-of-unreadable-document"
					msg = fmt.Sprintf("a time-travel query of %s naming the cid of a private commit changed the head set of a document %s cannot read", x, x)
				}
				var added []string
				for k := range after {
					if _, ok := before[k]; !ok {
						added = append(added, k)
					}
				}
				for k := range twinAfter {
					if _, ok := twinBefore[k]; !ok {
						added = append(added, "twin:"+k)
					}
				}
				sort.Strings(added)
				w.violate(sig, msg, map[string]any{"requester": x, "request": q.Text, "head_keys_added": added})
			}
		}
	}
}

// viewPhase: every requester sends every request template on the views; the caches of the
// materialized ones are refreshed by `refresher` ("" = as generated).
func (w *c10World) viewPhase(refresher string, xs ...string) {
	for _, x := range xs {
		if w.failed || w.twins[x] == nil {
			return
		}
		g := &c10Gen{w: w, x: x, rng: w.rng}
		g.views()
		for _, q := range g.out {
			if q.Refresh != "" && refresher != "" {
				q.Refresh = refresher
			}
			if !w.failed {
				w.eval(x, q, "")
			}
		}
	}
}

// createOverPhase: fixed create-over attempts (requester, target, route).
func (w *c10World) createOverPhase(attempts [][3]string) {
	for _, a := range attempts {
		if w.failed || w.twins[a[0]] == nil {
			return
		}
		if q, ok := w.createOverReq(a[0], a[1], a[2]); ok {
			w.mutate(a[0], q)
		}
	}
}

func (w *c10World) mutationBurst(x string, all bool) {
	if w.failed || w.twins[x] == nil {
		return
	}
	g := &c10Gen{w: w, x: x, rng: w.rng}
	ms := g.mutations()
	if all {
		for _, q := range ms {
			w.mutate(x, q)
		}
		return
	}
	w.mutate(x, ms[w.rng.IntN(len(ms))])
}

// ---------------------------------------------------------------------------------------
// histories

func (w *c10World) name(prefix string) string {
	w.nameSeq++
	return fmt.Sprintf("%s%d", prefix, w.nameSeq)
}

func (w *c10World) create(actor, col string, in map[string]any) string {
	if !w.step(c10Op{Actor: actor, Kind: "create", Col: col, Input: in}) {
		return ""
	}
	for i := len(w.log) - 1; i >= 0; i-- {
		if w.log[i].Kind == "create" {
			return w.log[i].DocID
		}
	}
	return ""
}

func c10NewWorld(ctx context.Context, c core.Case, r *core.Rec) *c10World {
	c10Once.Do(func() {
		cfg := corelog.DefaultConfig()
		cfg.Level = "error"
		corelog.SetConfig(cfg)
		debug.SetMaxStack(256 << 20) // a request that recurses forever should die quickly
	})
	w := &c10World{ctx: ctx, r: r, rng: c.Rng(), ctxs: map[string]context.Context{}, dids: map[string]string{}, docs: map[string]*c10Doc{},
		twins: map[string]*c10Twin{}, subs: map[string]*c10Sub{}, marks: map[string]int{}, granted: map[string]map[string]bool{}}
	c.P(&w.p)
	for i, a := range c10ActorNames {
		id := c10Ident(i)
		w.ctxs[a] = identity.WithContext(ctx, immutable.Some[identity.Identity](id))
		w.dids[a] = id.DID()
	}
	w.real = w.newNode()
	return w
}

// start builds the twins and opens the subscriptions (after the initial population).
func (w *c10World) start() {
	if w.p.Sub || w.p.Anchor || !c10DeleteHangWorkaround {
		w.subText = `subscription { Emp { _docID name salary age } }`
		if w.p.SubFilter {
			w.subText = `subscription { Emp(filter: {salary: {_ge: 20}}) { _docID name salary age } }`
			if w.p.Config != "plain" && c10IndexedSubscriptionWorkaround {
				w.subText = `subscription { Emp(filter: {age: {_ge: 1}}) { _docID name salary age } }`
			}
		}
	}
	for _, x := range c10Requesters {
		if w.subText != "" {
			w.subs[x] = c10OpenSub(w.cx(x), w.real, w.subText)
			if len(w.subs[x].err) > 0 {
				panic("harness: subscription refused: " + strings.Join(w.subs[x].err, "; "))
			}
		}
		w.rebuild(x)
	}
	w.refresh()
	w.checkTwins("history")
	w.barrier(nil)
}

func c10RunAnchor(w *c10World) {
	w.sentID = w.create("anon", "Emp", map[string]any{"name": "sentinel", "salary": 1000, "dept": "z", "age": 0})
	pub1 := w.create("anon", "Comp", map[string]any{"name": "PubCo", "capital": 100})
	pub2 := w.create("anon", "Comp", map[string]any{"name": "PubCo2", "capital": 300})
	sec1 := w.create("owner", "Comp", map[string]any{"name": "SecCo", "capital": 777})
	sec2 := w.create("owner2", "Comp", map[string]any{"name": "SecCo2", "capital": 200})
	w.create("anon", "Emp", map[string]any{"name": "p1", "salary": 10, "dept": "a", "age": 1, "company_id": pub1})
	w.create("anon", "Emp", map[string]any{"name": "p2", "salary": 30, "dept": "b", "age": 2, "company_id": sec1})
	p3 := w.create("anon", "Emp", map[string]any{"name": "p3", "salary": 20, "dept": "a", "age": 3, "company_id": pub2})
	p4 := w.create("anon", "Emp", map[string]any{"name": "p4", "dept": "c", "age": 1})
	s1 := w.create("owner", "Emp", map[string]any{"name": "S1", "salary": 20, "dept": "a", "age": 1, "company_id": pub1})
	s2 := w.create("owner", "Emp", map[string]any{"name": "S2", "salary": 40, "dept": "b", "age": 2, "company_id": sec1})
	s3 := w.create("owner", "Emp", map[string]any{"name": "S3", "salary": 777, "dept": "c", "age": 3, "company_id": sec1})
	s4 := w.create("owner", "Emp", map[string]any{"name": "S4", "salary": 10, "dept": "a", "age": 2, "company_id": pub2})
	t1 := w.create("owner2", "Emp", map[string]any{"name": "T1", "salary": 50, "dept": "b", "age": 1, "company_id": sec2})
	w.create("owner2", "Emp", map[string]any{"name": "T2", "salary": 30, "dept": "a", "age": 2, "company_id": pub1})
	w.step(c10Op{Actor: "owner", Kind: "update", Col: "Emp", DocID: s1, Input: map[string]any{"salary": 21}})
	w.step(c10Op{Actor: "owner", Kind: "update", Col: "Emp", DocID: s2, Input: map[string]any{"dept": "c"}})
	w.step(c10Op{Actor: "owner", Kind: "delete", Col: "Emp", DocID: s4})
	w.step(c10Op{Actor: "anon", Kind: "delete", Col: "Emp", DocID: p4})
	w.start()
	// private updates while the subscriptions are open
	w.step(c10Op{Actor: "owner", Kind: "update", Col: "Emp", DocID: s2, Input: map[string]any{"salary": 41}})
	w.step(c10Op{Actor: "owner", Kind: "update", Col: "Comp", DocID: sec1, Input: map[string]any{"capital": 778}})
	w.step(c10Op{Actor: "anon", Kind: "update", Col: "Emp", DocID: w.docs[w.order[5]].ID, Input: map[string]any{"age": 2}})
	for _, x := range c10Requesters {
		w.burst(x, 25)
	}
	// grant / revoke
	w.acl(c10Op{Actor: "owner", Kind: "grant", Col: "Emp", DocID: s1, Rel: "reader", Target: "reader"})
	w.acl(c10Op{Actor: "owner", Kind: "grant", Col: "Emp", DocID: s2, Rel: "updater", Target: "reader"})
	w.acl(c10Op{Actor: "owner", Kind: "grant", Col: "Comp", DocID: sec1, Rel: "reader", Target: "reader"})
	w.step(c10Op{Actor: "reader", Kind: "update", Col: "Emp", DocID: s2, Input: map[string]any{"age": 7}})
	w.acl(c10Op{Actor: "owner", Kind: "grant", Col: "Emp", DocID: s3, Rel: "reader", Target: "*"})
	w.burst("reader", 40)
	w.burst("anon", 25)
	w.acl(c10Op{Actor: "owner", Kind: "revoke", Col: "Emp", DocID: s1, Rel: "reader", Target: "reader"})
	w.acl(c10Op{Actor: "owner", Kind: "revoke", Col: "Emp", DocID: s3, Rel: "reader", Target: "*"})
	w.step(c10Op{Actor: "owner", Kind: "update", Col: "Emp", DocID: s1, Input: map[string]any{"salary": 22}})
	w.burst("reader", 25)
	// write attempts by every requester while the subscriptions are open (no deletes with effect)
	for _, x := range c10Requesters {
		w.mutationBurst(x, true)
	}
	w.step(c10Op{Actor: "owner2", Kind: "update", Col: "Emp", DocID: t1, Input: map[string]any{"salary": 51}})
	// deletes (without subscriptions as long as the workaround is needed)
	if c10DeleteHangWorkaround {
		w.stopSubs()
	}
	w.step(c10Op{Actor: "owner", Kind: "delete", Col: "Emp", DocID: s3})
	w.step(c10Op{Actor: "anon", Kind: "delete", Col: "Emp", DocID: p3})
	for _, x := range c10Requesters {
		w.mutationBurst(x, true)
	}
	w.acl(c10Op{Actor: "owner", Kind: "revoke", Col: "Emp", DocID: s2, Rel: "updater", Target: "reader"})
	w.acl(c10Op{Actor: "owner", Kind: "grant", Col: "Emp", DocID: s1, Rel: "reader", Target: "reader"})
	for _, x := range c10Requesters {
		w.burst(x, 0)
	}
	w.timeTravelPhase()
	w.viewPhase("owner", c10Requesters...)
	// creates aimed at existing documents come last: on a tree that applies one, the history ends there
	w.createOverPhase([][3]string{
		{"reader", s1, "gql-create"},      // control: reader can read s1 (live, updated twice)
		{"reader", s1, "api-save"},        // control
		{"stranger", s2, "api-create"},    // live private, updated
		{"owner2", sec1, "gql-upsert"},    // private Comp
		{"reader", s3, "api-create-many"}, // deleted private document
		{"stranger", s4, "gql-create"},    // deleted private document
		{"anon", s3, "api-save"},
		{"anon", s4, "gql-upsert"},
		{"anon", s2, "api-create"},
		{"anon", s1, "gql-create"},
	})
}

func c10RunRandom(w *c10World) {
	rng := w.rng
	sal := func() any { return []any{10, 20, 30, 40, 50, 777, nil}[rng.IntN(7)] }
	dept := func() any { return []any{"a", "b", "c", nil}[rng.IntN(4)] }
	comps := func() []*c10Doc {
		var out []*c10Doc
		for _, id := range w.order {
			if d := w.docs[id]; d.Col == "Comp" && !d.Deleted {
				out = append(out, d)
			}
		}
		return out
	}
	newEmp := func(actor string) {
		prefix := map[string]string{"anon": "p", "owner": "S", "owner2": "T"}[actor]
		in := map[string]any{"name": w.name(prefix), "age": 1 + rng.IntN(3)}
		if v := sal(); v != nil {
			in["salary"] = v
		}
		if v := dept(); v != nil {
			in["dept"] = v
		}
		if c, ok := c10Pick(rng, comps()); ok && rng.IntN(4) > 0 {
			in["company_id"] = c.ID
		}
		w.create(actor, "Emp", in)
	}
	newComp := func(actor string) {
		prefix := map[string]string{"anon": "PubCo", "owner": "SecCo", "owner2": "TCo"}[actor]
		w.create(actor, "Comp", map[string]any{"name": w.name(prefix), "capital": []int{100, 200, 300, 777}[rng.IntN(4)]})
	}
	w.sentID = w.create("anon", "Emp", map[string]any{"name": "sentinel", "salary": 1000, "dept": "z", "age": 0})
	newComp("anon")
	newComp("owner")
	if rng.IntN(2) == 0 {
		newComp("owner2")
	}
	for i, n := 0, 2+rng.IntN(3); i < n; i++ {
		newEmp("anon")
	}
	for i, n := 0, 2+rng.IntN(4); i < n; i++ {
		newEmp([]string{"owner", "owner", "owner2"}[rng.IntN(3)])
	}
	// some history (updates, a deleted private and a deleted public document) before the twins are built
	for i, n := 0, rng.IntN(4); i < n; i++ {
		id := w.order[1+rng.IntN(len(w.order)-1)]
		if d := w.docs[id]; d.Col == "Emp" && !d.Deleted {
			actor := d.Owner
			if actor == "" {
				actor = "anon"
			}
			if rng.IntN(3) == 0 {
				w.step(c10Op{Actor: actor, Kind: "delete", Col: "Emp", DocID: id})
			} else {
				w.step(c10Op{Actor: actor, Kind: "update", Col: "Emp", DocID: id, Input: map[string]any{"salary": 10 * (1 + rng.IntN(5))}})
			}
		}
	}
	w.start()
	// docs by predicate
	pick := func(pred func(d *c10Doc) bool) *c10Doc {
		var cands []*c10Doc
		for _, id := range w.order {
			if d := w.docs[id]; id != w.sentID && pred(d) {
				cands = append(cands, d)
			}
		}
		d, _ := c10Pick(rng, cands)
		return d
	}
	update := func(d *c10Doc, actor string) {
		in := map[string]any{}
		if d.Col == "Comp" {
			in["capital"] = []int{100, 200, 300, 777, 778}[rng.IntN(5)]
		} else {
			switch rng.IntN(4) {
			case 0:
				in["salary"] = sal()
			case 1:
				in["dept"] = dept()
			case 2:
				in["age"] = 1 + rng.IntN(3)
			default:
				if c, ok := c10Pick(rng, comps()); ok {
					in["company_id"] = c.ID
				} else {
					in["salary"] = sal()
				}
			}
		}
		w.step(c10Op{Actor: actor, Kind: "update", Col: d.Col, DocID: d.ID, Input: in})
	}
	for s := 0; s < w.p.Steps && !w.failed; s++ {
		switch k := rng.IntN(100); {
		case k < 12:
			newEmp([]string{"owner", "owner", "owner2"}[rng.IntN(3)])
		case k < 16:
			newComp([]string{"owner", "owner2"}[rng.IntN(2)])
		case k < 22:
			newEmp("anon")
		case k < 42: // private update by its owner
			if d := pick(func(d *c10Doc) bool { return d.Owner != "" && !d.Deleted }); d != nil {
				update(d, d.Owner)
			}
		case k < 48: // public update
			if d := pick(func(d *c10Doc) bool { return d.Owner == "" && !d.Deleted }); d != nil {
				update(d, []string{"anon", "stranger", "owner"}[rng.IntN(3)])
			}
		case k < 56: // private delete
			if d := pick(func(d *c10Doc) bool { return d.Owner != "" && !d.Deleted && d.Col == "Emp" }); d != nil {
				if w.quiet() {
					update(d, d.Owner)
				} else {
					w.step(c10Op{Actor: d.Owner, Kind: "delete", Col: d.Col, DocID: d.ID})
				}
			}
		case k < 59:
			if d := pick(func(d *c10Doc) bool { return d.Owner == "" && !d.Deleted && d.Col == "Emp" }); d != nil && !w.quiet() {
				w.step(c10Op{Actor: "anon", Kind: "delete", Col: d.Col, DocID: d.ID})
			}
		case k < 74: // grant
			if d := pick(func(d *c10Doc) bool { return d.Owner != "" && !(d.Deleted && w.quiet()) }); d != nil {
				target := []string{"reader", "reader", "reader", "stranger", "*"}[rng.IntN(5)]
				rel := []string{"reader", "reader", "updater"}[rng.IntN(3)]
				if target == "*" {
					rel = "reader"
				}
				w.acl(c10Op{Actor: d.Owner, Kind: "grant", Col: d.Col, DocID: d.ID, Rel: rel, Target: target})
			}
		case k < 86: // revoke an existing relationship
			type gr struct {
				d      *c10Doc
				target string
				rel    string
			}
			var grants []gr
			for _, id := range w.order {
				d := w.docs[id]
				for _, t := range []string{"reader", "stranger", "*"} {
					for _, rel := range []string{"reader", "updater"} {
						if d.Rels[t][rel] {
							grants = append(grants, gr{d, t, rel})
						}
					}
				}
			}
			if g, ok := c10Pick(rng, grants); ok {
				w.acl(c10Op{Actor: g.d.Owner, Kind: "revoke", Col: g.d.Col, DocID: g.d.ID, Rel: g.rel, Target: g.target})
			}
		default: // a restricted requester tries to write
			w.mutationBurst(c10Requesters[rng.IntN(len(c10Requesters))], false)
		}
		for _, x := range c10Requesters {
			w.burst(x, w.p.Reqs)
		}
	}
	w.timeTravelPhase()
	w.viewPhase("", c10Requesters[rng.IntN(len(c10Requesters))])
	// creates aimed at existing documents (generated ones are also among the write attempts above)
	for i := 0; i < 2 && !w.failed; i++ {
		x := []string{"anon", "anon", "stranger", "reader", "owner2"}[rng.IntN(5)]
		g := &c10Gen{w: w, x: x, rng: rng}
		id := g.privID([]string{"Emp", "Emp", "Comp"}[rng.IntN(3)], true)
		if i == 1 {
			id = g.privDeleted("Emp")
		}
		if q, ok := w.createOverReq(x, id, []string{"gql-create", "gql-upsert", "api-create", "api-create-many", "api-save"}[rng.IntN(5)]); ok {
			w.mutate(x, q)
		}
	}
}

// c10RunBranchable: a @branchable collection keeps a collection-wide commit DAG. The commits of
// that DAG carry no docID and are shown to everybody; each of them links the document commit it
// records. A requester's `commits` answer must nevertheless be what it would be without the
// private documents: same number of collection-level commits as on the twin, and no link to a
// commit of a document the requester cannot read. (Commit ids of the two collection DAGs differ by
// construction, so this configuration is compared by shape, not by text.)
func c10RunBranchable(ctx context.Context, c core.Case, r *core.Rec) {
	w := c10NewWorld(ctx, c, r)
	defer w.close()
	rng := w.rng
	nPub, nPriv, nUpd := 1+rng.IntN(3), 1+rng.IntN(3), 1+rng.IntN(3)
	twin := w.newNode()
	defer twin.Close()
	privCids := map[string]bool{}
	var privIDs []string
	for i := 0; i < nPub; i++ {
		q := fmt.Sprintf(`mutation { create_Emp(input: {name: "p%d", salary: %d}) { _docID } }`, i, 10*(1+rng.IntN(5)))
		c10GQL(ctx, w.real, q)
		c10GQL(ctx, twin, q)
	}
	for i := 0; i < nPriv; i++ {
		resp := c10GQL(w.cx("owner"), w.real, fmt.Sprintf(`mutation { create_Emp(input: {name: "S%d", salary: %d}) { _docID } }`, i, 10*(1+rng.IntN(5))))
		privIDs = append(privIDs, c10DocIDs(resp.Data)...)
	}
	for i := 0; i < nUpd && len(privIDs) > 0; i++ {
		c10GQL(w.cx("owner"), w.real, fmt.Sprintf(`mutation { update_Emp(docID: %q, input: {salary: %d}) { _docID } }`, privIDs[rng.IntN(len(privIDs))], 100+i))
	}
	for _, id := range privIDs {
		rows, err := w.real.Rows(w.cx("owner"), fmt.Sprintf(`query { commits(docID: %q) { cid } }`, id), "commits")
		core.Must(err)
		for _, row := range rows {
			privCids[row["cid"].(string)] = true
		}
	}
	const q = `query { commits { cid docID fieldName height links { cid name } } }`
	shape := func(n *core.Node, actor string) (collectionCommits int, leaked []string) {
		rows, err := n.Rows(w.cx(actor), q, "commits")
		core.Must(err)
		for _, row := range rows {
			if row["docID"] == nil {
				collectionCommits++
			}
			if privCids[row["cid"].(string)] {
				leaked = append(leaked, row["cid"].(string))
			}
			links, _ := row["links"].([]any)
			for _, l := range links {
				if m, ok := l.(map[string]any); ok {
					if cid, _ := m["cid"].(string); privCids[cid] && row["docID"] == nil {
						leaked = append(leaked, cid)
					}
				}
			}
		}
		sort.Strings(leaked)
		return
	}
	for _, x := range []string{"stranger", "anon"} {
		rn, leaked := shape(w.real, x)
		tn, _ := shape(twin, x)
		r.Count("evaluations", 1)
		r.Count("req:branchable/commits", 1)
		r.Count("nt:branchable/commits", 1)
		r.Nontrivial("branchable/commits|" + x)
		if rn != tn || len(leaked) > 0 {
			r.Violate("branchable/collection-commits-reveal-private-commits",
				fmt.Sprintf("requester %s on a @branchable collection: `commits` shows %d collection-level commits where the twin without the private documents shows %d, and they link %d commit ids of documents %s cannot read",
					x, rn, tn, len(leaked), x),
				map[string]any{"requester": x, "request": q, "public_documents": nPub, "private_documents": nPriv, "private_updates": nUpd,
					"collection_commits_real": rn, "collection_commits_twin": tn, "private_cids_linked": leaked})
		}
	}
	r.Count("histories", 1)
}

func c10Run(ctx context.Context, c core.Case, r *core.Rec) {
	if c10Hung.Load() {
		r.Note("case_skipped_after_hang_in_this_worker")
		return
	}
	if c.Kind == "acp/branchable" {
		c10RunBranchable(ctx, c, r)
		return
	}
	w := c10NewWorld(ctx, c, r)
	defer w.close()
	r.Count("histories", 1)
	if w.p.Anchor {
		c10RunAnchor(w)
	} else {
		c10RunRandom(w)
	}
	var priv, pub int
	for _, d := range w.docs {
		if d.Owner != "" {
			priv++
		} else {
			pub++
		}
	}
	r.Sample(map[string]any{"kind": c.Kind, "params": w.p, "documents_private": priv, "documents_public": pub, "logged_ops": len(w.log), "history_head": w.hist[:min(len(w.hist), 12)]})
}

var c10Floors = []string{
	"nt:listing", "nt:filter/eq-secret", "nt:filter/range", "nt:order/single", "nt:limit/plain", "nt:limit/ordered",
	"nt:aggregate/_count", "nt:aggregate/_sum", "nt:aggregate/_avg", "nt:aggregate/_min", "nt:aggregate/_max",
	"nt:groupby/simple", "nt:groupby/agg",
	"nt:join/many-side", "nt:join/one-side", "nt:join/filter-via-parent", "nt:join/filter-via-children", "nt:join/agg-children",
	"nt:index-backed-plan",
	"nt:timetravel/private-cid", "nt:commits/all", "nt:commits/docid", "nt:commits/docid-field", "nt:commits/field", "nt:commits/cid",
	"nt:commits/latest", "nt:commits/latest-field", "nt:version", "nt:docid/single", "nt:docid/list", "nt:showdeleted/listing", "nt:showdeleted/docid",
	"nt:update/by-id", "nt:update/by-filter", "nt:delete/by-id", "nt:delete/by-filter",
	"nt:subscription", "nt:after-grant", "nt:after-revoke", "nt:branchable/commits", "twin_rebuilds", "twin_dump_comparisons",
	"nt:view/materialized", "nt:view/cacheless", "nt:create-over/live", "nt:create-over/deleted",
}

func init() {
	core.Register(&core.Check{
		ID: "C10", Level: "exploration",
		Rule: "anchor history per schema configuration (plain / single-field indexes / composite index) + generated histories of public and private creates, updates, deletes, " +
			"grants and revokes (owner, second owner, reader-by-grant, stranger, anonymous, grant to all actors); after every step each restricted requester X sends generated requests " +
			"(listing, filters on secret fields, order, limit/offset, aggregates, groupBy, joins from both sides, index-backed plans, time travel, commits/latestCommits, _version, by-docID, showDeleted, " +
			"collection API, views over the policy collections - materialized (cache refreshed on both sides right before the request, by owner / auditor / anonymous / the requester) and cacheless -, " +
			"update/delete by id and by filter, create with the creation content of an existing document (GraphQL create/upsert, collection Create/CreateMany/Save; live and deleted targets), persistent subscription) to the real database and to a twin built without the documents X cannot read; answers (data and error text) must be equal. " +
			"non-trivial = the all-seeing auditor gets a different answer than X (the private documents matter); distinct by (request path class, requester class).",
		Cases:  c10Cases,
		Run:    c10Run,
		Floors: c10Floors, CaseTimeout: 15 * time.Minute, // backstop only: every request has its own 90 s watchdog
		Assumptions: []string{
			"signing off and no counter fields: the real database and the twin produce identical commit ids for shared documents (checked at every step by comparing _version cids)",
			"a create whose content (hence docID) is that of an existing unreadable document is a write attempt aimed at it: the stored state (auditor view, raw head and data store) must not change; its ANSWER is not compared with the twin (the docID is taken, the twin's create succeeds). A unique-index collision with a private document is not generated",
			"materialized views: the age of the cache is not judged - both sides are refreshed (by the same identity) right before every request on such a view",
			"local document ACP engine; visibility model: public (created without identity), owner, reader/updater relationship, relationship to all actors (*)",
			"subscription windows are delimited by the notification of a public sentinel document (clock-free); notifications caused by the grant itself are legitimate",
		},
	})
}

func c10Cases(seed uint64, tier string) []core.Case {
	var cs []core.Case
	for _, cfg := range []string{"plain", "indexed", "composite"} {
		cs = append(cs, core.MkCase("acp/anchor/"+cfg, 1, c10Params{Config: cfg, Anchor: true, SubFilter: cfg == "indexed"}))
	}
	cs = append(cs, core.MkCase("acp/branchable", 1, c10Params{Config: "branchable", Anchor: true}))
	rng := rand.New(rand.NewPCG(seed, 1010))
	for i := 0; i < tierN(tier, 2, 20); i++ {
		cs = append(cs, core.MkCase("acp/branchable", rng.Uint64(), c10Params{Config: "branchable"}))
	}
	cfgs := []string{"plain", "indexed", "indexed", "composite"}
	n := tierN(tier, 60, 1500)
	for i := 0; i < n; i++ {
		p := c10Params{Config: cfgs[rng.IntN(len(cfgs))], Steps: 6 + rng.IntN(7), Reqs: 2, SubFilter: rng.IntN(2) == 0, Sub: rng.IntN(2) == 0}
		cs = append(cs, core.MkCase("acp/random/"+p.Config, rng.Uint64(), p))
	}
	return cs
}
