package checks

// C17 — index key encoding preserves value order and loses nothing.
//
// Direct mode: internal/encoding.EncodeFieldValue / DecodeFieldValue and
// internal/keys.EncodeIndexDataStoreKey / DecodeIndexDataStoreKey on pools of edge values (all
// ordered pairs of a pool: exhaustive for the pool), on random pairs and on random tuples.
// Oracle: sign(bytes.Compare(enc(a), enc(b))) == sign(cmp(a, b)) (reversed for descending
// fields, lexicographic for tuples incl. the trailing docID), decode(encode(v)) == v.
// End-to-end mode: the C07 twin with edge-value documents and range / order queries on the
// indexed column.

import (
	"bytes"
	"context"
	"fmt"
	"math"
	"math/rand/v2"
	"sort"
	"strings"
	"time"

	"github.com/sourcenetwork/immutable"

	"github.com/sourcenetwork/defradb/client"
	"github.com/sourcenetwork/defradb/internal/encoding"
	"github.com/sourcenetwork/defradb/internal/keys"
	"github.com/sourcenetwork/defradb/verifharness/core"
	"github.com/sourcenetwork/defradb/verifharness/qgen"
)

// encKind is one indexable scalar kind in direct mode.
type encKind struct {
	name string
	kind client.FieldKind
	pool func() []any           // edge values (no nil)
	rnd  func(r *rand.Rand) any // random value
	nv   func(v any) client.NormalValue
	cmp  func(a, b any) int // value order
	back func(nv client.NormalValue) (any, bool)
	eq   func(a, b any) bool // equality of a value and its decoded image
	cls  func(v any) string  // value class (coverage)
}

type jsonVal struct {
	Path []string
	V    any // float64 | string | bool | nil(JSON null)
}

func jpath(p []string) client.JSONPath {
	var jp client.JSONPath
	for _, s := range p {
		jp = jp.AppendProperty(s)
	}
	return jp
}

func cmpInt(a, b any) int   { return cmpO(a.(int64), b.(int64)) }
func cmpFloat(a, b any) int { return cmpO(a.(float64), b.(float64)) }
func cmpO[T int64 | float64 | float32 | string](x, y T) int {
	switch {
	case x < y:
		return -1
	case x > y:
		return 1
	}
	return 0
}

func signOf(x int) int {
	switch {
	case x < 0:
		return -1
	case x > 0:
		return 1
	}
	return 0
}

func intPool() []any {
	set := map[int64]bool{}
	add := func(v int64) { set[v] = true }
	for _, v := range []int64{0, 1, -1, 2, -2, 108, 109, 110, 111, -108, -109, -110, math.MaxInt64, math.MaxInt64 - 1, math.MinInt64, math.MinInt64 + 1, math.MaxInt32, math.MinInt32, 1000, -1000} {
		add(v)
	}
	for k := uint(1); k <= 7; k++ {
		p := int64(1) << (8 * k)
		for _, d := range []int64{-2, -1, 0, 1, 2} {
			add(p + d)
			add(-p + d)
			add(p - 1 + d - 255) // around 0xff..ff - 255
		}
		add(p - 1)
		add(-(p - 1))
	}
	for k := uint(1); k < 63; k += 3 {
		add(int64(1) << k)
		add(-(int64(1) << k))
		add(int64(1)<<k - 1)
	}
	out := make([]any, 0, len(set))
	keys := make([]int64, 0, len(set))
	for v := range set {
		keys = append(keys, v)
	}
	sort.Slice(keys, func(i, j int) bool { return keys[i] < keys[j] })
	for _, v := range keys {
		out = append(out, v)
	}
	return out
}

func floatPool() []any {
	vs := []float64{0, math.Copysign(0, -1), 1, -1, 0.5, -0.5, 2, -2, math.MaxFloat64, -math.MaxFloat64, math.SmallestNonzeroFloat64, -math.SmallestNonzeroFloat64,
		math.Inf(1), math.Inf(-1), 2.2250738585072014e-308, -2.2250738585072014e-308, 2.225073858507201e-308, math.MaxFloat32, -math.MaxFloat32, math.SmallestNonzeroFloat32,
		-math.SmallestNonzeroFloat32, 1.0000000000000002, 0.9999999999999999, -1.0000000000000002, 1e-300, -1e-300, 1e300, -1e300, 255, 256, 65535, 65536, -255, -256,
		float64(math.MaxInt64), float64(math.MinInt64), 9007199254740992, 9007199254740993, -9007199254740992, math.Pi, -math.Pi, math.E}
	for e := -1074; e <= 1023; e += 37 {
		vs = append(vs, math.Ldexp(1, e), -math.Ldexp(1, e), math.Ldexp(1.5, e))
	}
	// bit patterns around byte boundaries of the big-endian image
	for k := uint(0); k < 63; k += 4 {
		b := uint64(1) << k
		for _, u := range []uint64{b, b - 1, b + 1} {
			f := math.Float64frombits(u)
			if !math.IsNaN(f) {
				vs = append(vs, f, -f)
			}
		}
	}
	return dedupFloats(vs)
}

func dedupFloats(vs []float64) []any {
	seen := map[uint64]bool{}
	var out []any
	for _, v := range vs {
		if math.IsNaN(v) || seen[math.Float64bits(v)] {
			continue
		}
		seen[math.Float64bits(v)] = true
		out = append(out, v)
	}
	return out
}

func float32Pool() []any {
	vs := []float32{0, float32(math.Copysign(0, -1)), 1, -1, 0.5, -0.5, math.MaxFloat32, -math.MaxFloat32, math.SmallestNonzeroFloat32, -math.SmallestNonzeroFloat32,
		float32(math.Inf(1)), float32(math.Inf(-1)), 1.1754944e-38, -1.1754944e-38, 1.0000001, 0.99999994, 255, 256, 65535, 65536, 16777216, 16777217, -16777216, 3.1415927}
	for e := -149; e <= 127; e += 7 {
		vs = append(vs, float32(math.Ldexp(1, e)), -float32(math.Ldexp(1, e)), float32(math.Ldexp(1.5, e)))
	}
	for k := uint(0); k < 31; k += 2 {
		b := uint32(1) << k
		for _, u := range []uint32{b, b - 1, b + 1} {
			f := math.Float32frombits(u)
			if f == f {
				vs = append(vs, f, -f)
			}
		}
	}
	seen := map[uint32]bool{}
	var out []any
	for _, v := range vs {
		if v != v || seen[math.Float32bits(v)] {
			continue
		}
		seen[math.Float32bits(v)] = true
		out = append(out, v)
	}
	return out
}

var strAlphabet = []byte{0x00, 0x01, '/', 'a', 'b', 0x7f, 0x80, 0xfe, 0xff}

func stringPool() []any {
	set := map[string]bool{"": true}
	// every string of length <= 2 over the alphabet, plus selected longer ones
	for _, a := range strAlphabet {
		set[string([]byte{a})] = true
		for _, b := range strAlphabet {
			set[string([]byte{a, b})] = true
		}
	}
	for _, s := range []string{"a\x00b", "a\x00\x00", "a\x00\x01", "a\x00\xff", "\x00\x00\x00", "\xff\xff\xff", "\x00\xff\x00", "\xff\x00\xff", "ab/", "a/b", "abc", "abd", "ab\x00", "ab\xff",
		"\x00\x01\x00\x01", "\xff\xfe\xff\xfe", strings.Repeat("a", 40), strings.Repeat("\x00", 9), strings.Repeat("\xff", 9), "ÿ", "￿", "bae-00000000-0000-5000-8000-000000000000"} {
		set[s] = true
	}
	var ks []string
	for s := range set {
		ks = append(ks, s)
	}
	sort.Strings(ks)
	out := make([]any, len(ks))
	for i, s := range ks {
		out[i] = s
	}
	return out
}

func timePool() []any {
	var out []any
	add := func(t time.Time) { out = append(out, t) }
	secs := []int64{0, 1, -1, 59, 60, -60, 108, 109, 110, 255, 256, -255, -256, 65535, 65536, -65536, 1 << 31, 1<<31 - 1, -(1 << 31), 1 << 32, -(1 << 32), 946684800, 946684799,
		-62135596800, -62135596799, 253402300799, 253402300798, 1577934245, 1623053350, -2208988800, 4102444800, 1 << 40, -(1 << 40), 9223372036, -9223372037}
	nss := []int64{0, 1, 999999999, 109, 110, 255, 256, 65535, 65536, 500000000, 16777215, 16777216}
	for _, s := range secs {
		for i, ns := range nss {
			if i < 3 || (s+ns)%5 == 0 {
				add(time.Unix(s, ns).UTC())
			}
		}
	}
	// the same instants in another zone (the zone is not part of the value)
	z := time.FixedZone("x", 5*3600+1800)
	for i := 0; i < len(out) && i < 20; i += 3 {
		add(out[i].(time.Time).In(z))
	}
	return out
}

func jsonPool() []any {
	var out []any
	paths := [][]string{nil, {"a"}, {"a", "b"}, {"b"}, {""}, {"a\x00"}}
	nums := []float64{0, math.Copysign(0, -1), 1, -1, 2.5, -2.5, math.MaxFloat64, -math.MaxFloat64, math.SmallestNonzeroFloat64, -math.SmallestNonzeroFloat64, math.Inf(1), math.Inf(-1), 255, 256, 1e300, -1e-300}
	strs := []string{"", "\x00", "a", "a\x00", "a\x00b", "ab", "b", "\xff", "\xff\x00", "/", "a/b"}
	for _, p := range paths {
		for _, n := range nums {
			out = append(out, jsonVal{p, n})
		}
		for _, s := range strs {
			out = append(out, jsonVal{p, s})
		}
		out = append(out, jsonVal{p, true}, jsonVal{p, false}, jsonVal{p, nil})
	}
	return out
}

func jsonKindRank(v any) int {
	switch v.(type) {
	case nil:
		return 0
	case float64:
		return 1
	case string:
		return 2
	case bool:
		return 3
	}
	return 4
}

// cmpJSON: only values with the same path and of the same JSON kind have a value order; other
// pairs return 2 (no order demanded, encodings must merely differ).
func cmpJSON(a, b any) int {
	x, y := a.(jsonVal), b.(jsonVal)
	if strings.Join(x.Path, "\x1f") != strings.Join(y.Path, "\x1f") || len(x.Path) != len(y.Path) || jsonKindRank(x.V) != jsonKindRank(y.V) {
		return 2
	}
	switch v := x.V.(type) {
	case nil:
		return 0
	case float64:
		return cmpO(v, y.V.(float64))
	case string:
		return cmpO(v, y.V.(string))
	case bool:
		w := y.V.(bool)
		switch {
		case v == w:
			return 0
		case !v:
			return -1
		}
		return 1
	}
	return 2
}

func lenClass(n int) string { return fmt.Sprintf("len%d", n) }

var encKinds = []encKind{
	{name: "int", kind: client.FieldKind_NILLABLE_INT, pool: intPool,
		rnd: func(r *rand.Rand) any {
			switch r.IntN(4) {
			case 0:
				return int64(r.Uint64())
			case 1:
				return int64(r.Uint64()) >> uint(r.IntN(64))
			case 2:
				return int64(r.IntN(600)) - 300
			}
			k := uint(8 * (1 + r.IntN(7)))
			return (int64(1)<<k)*int64(1-2*r.IntN(2)) + int64(r.IntN(5)) - 2
		},
		nv:   func(v any) client.NormalValue { return client.NewNormalInt(v.(int64)) },
		cmp:  cmpInt,
		back: func(nv client.NormalValue) (any, bool) { return nv.Int() },
		eq:   func(a, b any) bool { return a == b },
		cls: func(v any) string {
			x := v.(int64)
			s := "pos"
			if x < 0 {
				s = "neg"
			} else if x == 0 {
				s = "zero"
			}
			return s + "/" + lenClass(len(encoding.EncodeVarintAscending(nil, x)))
		}},
	{name: "float64", kind: client.FieldKind_NILLABLE_FLOAT64, pool: floatPool,
		rnd: func(r *rand.Rand) any {
			for {
				var f float64
				if r.IntN(3) == 0 {
					f = (r.Float64() - 0.5) * math.Pow(10, float64(r.IntN(40)-20))
				} else {
					f = math.Float64frombits(r.Uint64())
				}
				if !math.IsNaN(f) {
					return f
				}
			}
		},
		nv:   func(v any) client.NormalValue { return client.NewNormalFloat64(v.(float64)) },
		cmp:  cmpFloat,
		back: func(nv client.NormalValue) (any, bool) { return nv.Float64() },
		eq:   func(a, b any) bool { return a.(float64) == b.(float64) },
		cls: func(v any) string {
			x := v.(float64)
			switch {
			case x == 0:
				return "zero"
			case math.IsInf(x, 0):
				return fmt.Sprintf("inf%v", x > 0)
			case math.Abs(x) < 2.2250738585072014e-308:
				return fmt.Sprintf("subnormal%v", x > 0)
			}
			return fmt.Sprintf("normal%v/exp%d", x > 0, math.Ilogb(x)/128)
		}},
	{name: "float32", kind: client.FieldKind_NILLABLE_FLOAT32, pool: float32Pool,
		rnd: func(r *rand.Rand) any {
			for {
				f := math.Float32frombits(r.Uint32())
				if f == f {
					return f
				}
			}
		},
		nv:   func(v any) client.NormalValue { return client.NewNormalFloat32(v.(float32)) },
		cmp:  func(a, b any) int { return cmpO(a.(float32), b.(float32)) },
		back: func(nv client.NormalValue) (any, bool) { return nv.Float32() },
		eq:   func(a, b any) bool { return a.(float32) == b.(float32) },
		cls: func(v any) string {
			x := float64(v.(float32))
			switch {
			case x == 0:
				return "zero"
			case math.IsInf(x, 0):
				return fmt.Sprintf("inf%v", x > 0)
			case math.Abs(x) < 1.1754944e-38:
				return fmt.Sprintf("subnormal%v", x > 0)
			}
			return fmt.Sprintf("normal%v/exp%d", x > 0, math.Ilogb(x)/32)
		}},
	{name: "bool", kind: client.FieldKind_NILLABLE_BOOL, pool: func() []any { return []any{false, true} },
		rnd: func(r *rand.Rand) any { return r.IntN(2) == 0 },
		nv:  func(v any) client.NormalValue { return client.NewNormalBool(v.(bool)) },
		cmp: func(a, b any) int {
			x, y := a.(bool), b.(bool)
			switch {
			case x == y:
				return 0
			case !x:
				return -1
			}
			return 1
		},
		back: func(nv client.NormalValue) (any, bool) { return nv.Bool() },
		eq:   func(a, b any) bool { return a == b },
		cls:  func(v any) string { return fmt.Sprint(v) }},
	{name: "string", kind: client.FieldKind_NILLABLE_STRING, pool: stringPool,
		rnd: func(r *rand.Rand) any {
			n := r.IntN(7)
			b := make([]byte, n)
			for i := range b {
				if r.IntN(3) == 0 {
					b[i] = byte(r.IntN(256))
				} else {
					b[i] = strAlphabet[r.IntN(len(strAlphabet))]
				}
			}
			return string(b)
		},
		nv:   func(v any) client.NormalValue { return client.NewNormalString(v.(string)) },
		cmp:  func(a, b any) int { return cmpO(a.(string), b.(string)) },
		back: func(nv client.NormalValue) (any, bool) { return nv.String() },
		eq:   func(a, b any) bool { return a == b },
		cls: func(v any) string {
			s := v.(string)
			c := lenClass(min(len(s), 3))
			if strings.ContainsRune(s, 0) {
				c += "+00"
			}
			if strings.Contains(s, "\xff") {
				c += "+ff"
			}
			return c
		}},
	{name: "bytes", kind: client.FieldKind_NILLABLE_BLOB, pool: func() []any {
		var out []any
		for _, s := range stringPool() {
			out = append(out, []byte(s.(string)))
		}
		return out
	},
		rnd: func(r *rand.Rand) any {
			b := make([]byte, r.IntN(6))
			for i := range b {
				b[i] = strAlphabet[r.IntN(len(strAlphabet))]
			}
			return b
		},
		// values of odd length travel as the nillable normal value (what a document field of kind Blob
		// holds), the others as the plain one: both forms meet in every order / round-trip law (seeded C17-d)
		nv: func(v any) client.NormalValue {
			if b := v.([]byte); len(b)%2 == 1 {
				return client.NewNormalNillableBytes(immutable.Some(b))
			}
			return client.NewNormalBytes(v.([]byte))
		},
		cmp: func(a, b any) int { return bytes.Compare(a.([]byte), b.([]byte)) },
		back: func(nv client.NormalValue) (any, bool) {
			if b, ok := nv.Bytes(); ok {
				return b, true
			}
			s, ok := nv.String() // the decoder hands byte strings back as strings
			return []byte(s), ok
		},
		eq: func(a, b any) bool { return bytes.Equal(a.([]byte), b.([]byte)) },
		cls: func(v any) string {
			s := v.([]byte)
			c := lenClass(min(len(s), 3))
			if bytes.IndexByte(s, 0) >= 0 {
				c += "+00"
			}
			if bytes.IndexByte(s, 0xff) >= 0 {
				c += "+ff"
			}
			return c
		}},
	{name: "time", kind: client.FieldKind_NILLABLE_DATETIME, pool: timePool,
		rnd: func(r *rand.Rand) any {
			switch r.IntN(3) {
			case 0:
				return time.Unix(int64(r.IntN(4_000_000_000))-2_000_000_000, int64(r.IntN(1_000_000_000))).UTC()
			case 1:
				return time.Unix(int64(r.IntN(512))-256, int64(r.IntN(70000))).UTC()
			}
			return time.Unix(int64(r.Uint64()>>uint(24+r.IntN(30)))*int64(1-2*r.IntN(2)), int64(r.IntN(1_000_000_000))).UTC()
		},
		nv:   func(v any) client.NormalValue { return client.NewNormalTime(v.(time.Time)) },
		cmp:  func(a, b any) int { return a.(time.Time).Compare(b.(time.Time)) },
		back: func(nv client.NormalValue) (any, bool) { return nv.Time() },
		eq:   func(a, b any) bool { return a.(time.Time).Equal(b.(time.Time)) },
		cls: func(v any) string {
			t := v.(time.Time)
			s := "post-epoch"
			if t.Unix() < 0 {
				s = "pre-epoch"
			}
			return fmt.Sprintf("%s/%s/ns%s", s, lenClass(len(encoding.EncodeVarintAscending(nil, t.Unix()))), lenClass(len(encoding.EncodeVarintAscending(nil, int64(t.Nanosecond())))))
		}},
	{name: "json", kind: client.FieldKind_NILLABLE_JSON, pool: jsonPool,
		rnd: func(r *rand.Rand) any {
			p := [][]string{nil, {"a"}, {"a", "b"}}[r.IntN(3)]
			switch r.IntN(4) {
			case 0:
				for {
					f := math.Float64frombits(r.Uint64())
					if !math.IsNaN(f) {
						return jsonVal{p, f}
					}
				}
			case 1:
				b := make([]byte, r.IntN(5))
				for i := range b {
					b[i] = strAlphabet[r.IntN(len(strAlphabet))]
				}
				return jsonVal{p, string(b)}
			case 2:
				return jsonVal{p, r.IntN(2) == 0}
			}
			return jsonVal{p, float64(r.IntN(20) - 10)}
		},
		nv: func(v any) client.NormalValue {
			j := v.(jsonVal)
			x, err := client.NewJSONWithPath(j.V, jpath(j.Path))
			core.Must(err)
			return client.NewNormalJSON(x)
		},
		cmp: cmpJSON,
		back: func(nv client.NormalValue) (any, bool) {
			j, ok := nv.JSON()
			if !ok {
				return nil, false
			}
			var p []string
			for _, part := range j.GetPath() {
				if s, ok := part.Property(); ok {
					p = append(p, s)
				}
			}
			return jsonVal{p, j.Value()}, true
		},
		eq: func(a, b any) bool {
			x, y := a.(jsonVal), b.(jsonVal)
			if strings.Join(x.Path, "\x1f") != strings.Join(y.Path, "\x1f") || len(x.Path) != len(y.Path) {
				return false
			}
			if f, ok := x.V.(float64); ok {
				g, ok := y.V.(float64)
				return ok && f == g
			}
			return x.V == y.V
		},
		cls: func(v any) string {
			j := v.(jsonVal)
			return fmt.Sprintf("path%d/%T", len(j.Path), j.V)
		}},
}

func encKindByName(n string) *encKind {
	for i := range encKinds {
		if encKinds[i].name == n {
			return &encKinds[i]
		}
	}
	panic("unknown kind " + n)
}

type encParams struct {
	Mode string `json:"mode"` // pool | random | tuples
	Kind string `json:"kind,omitempty"`
	Desc bool   `json:"desc"`
	N    int    `json:"n,omitempty"`
}

func dirName(desc bool) string {
	if desc {
		return "desc"
	}
	return "asc"
}

func render(v any) string {
	switch x := v.(type) {
	case nil:
		return "null"
	case string:
		return fmt.Sprintf("%q", x)
	case []byte:
		return fmt.Sprintf("bytes(%x)", x)
	case float64:
		return fmt.Sprintf("%v (bits %016x)", x, math.Float64bits(x))
	case float32:
		return fmt.Sprintf("%v (bits %08x)", x, math.Float32bits(x))
	case time.Time:
		return fmt.Sprintf("%s (unix %d ns %d)", x.Format(time.RFC3339Nano), x.Unix(), x.Nanosecond())
	case jsonVal:
		return fmt.Sprintf("json(path=%q value=%s)", x.Path, render(x.V))
	}
	return fmt.Sprint(v)
}

// encVal encodes one value (nil = null of the kind).
func (k *encKind) enc(v any, desc bool) []byte {
	if v == nil {
		n, err := client.NewNormalNil(k.kind)
		core.Must(err)
		return encoding.EncodeFieldValue(nil, n, desc)
	}
	return encoding.EncodeFieldValue(nil, k.nv(v), desc)
}

func pairClass(k *encKind, a, b any, ea, eb []byte) string {
	switch {
	case a == nil || b == nil:
		return "null"
	}
	sa, sb := signClass(a), signClass(b)
	if sa != sb && sa != 0 && sb != 0 {
		return "sign"
	}
	if len(ea) != len(eb) {
		return "length"
	}
	n := 0
	for n < len(ea) && n < len(eb) && ea[n] == eb[n] {
		n++
	}
	if n >= 2 {
		return "prefix"
	}
	return "plain"
}

func signClass(v any) int {
	switch x := v.(type) {
	case int64:
		return signOf(cmpO(x, 0))
	case float64:
		if x == 0 {
			return 0
		}
		return signOf(cmpO(x, 0))
	case float32:
		if x == 0 {
			return 0
		}
		return signOf(cmpO(x, 0))
	case time.Time:
		if x.Unix() < 0 {
			return -1
		}
		return 1
	case jsonVal:
		if f, ok := x.V.(float64); ok {
			return signClass(f)
		}
	}
	return 0
}

// checkRoundTrip: decode(encode(v)) == v through DecodeFieldValue and through the index key codec.
func checkRoundTrip(r *core.Rec, k *encKind, v any, desc bool) {
	e := k.enc(v, desc)
	rest, nv, err := encoding.DecodeFieldValue(append(append([]byte{}, e...), '/', 'x'), desc, k.kind)
	r.Count("roundtrips", 1)
	det := map[string]any{"kind": k.name, "direction": dirName(desc), "value": render(v), "encoded": fmt.Sprintf("%x", e)}
	sig := "roundtrip/" + k.name + "/" + dirName(desc)
	switch {
	case err != nil:
		r.Violate(sig+"/decode-error", fmt.Sprintf("DecodeFieldValue fails on the encoding of %s: %v", render(v), err), det)
		return
	case string(rest) != "/x":
		r.Violate(sig+"/consumed-wrong-length", fmt.Sprintf("DecodeFieldValue of %s leaves %q instead of the bytes that follow the value", render(v), rest), det)
		return
	}
	if v == nil {
		if !nv.IsNil() {
			r.Violate(sig+"/null-decodes-to-value", "encoded null decodes to a non-null value", det)
		}
		return
	}
	if nv.IsNil() {
		r.Violate(sig+"/value-decodes-to-null", fmt.Sprintf("%s decodes to null", render(v)), det)
		return
	}
	got, ok := k.back(nv)
	if !ok {
		det["decoded"] = fmt.Sprintf("%T %v", nv.Unwrap(), nv.Unwrap())
		r.Violate(sig+"/decodes-to-other-type", fmt.Sprintf("%s decodes to a value of another type: %T", render(v), nv.Unwrap()), det)
		return
	}
	if !k.eq(v, got) {
		det["decoded"] = render(got)
		r.Violate(sig+"/value-changed", fmt.Sprintf("decode(encode(v)) != v: %s came back as %s", render(v), render(got)), det)
	}
}

// checkPair applies the order oracle to one ordered pair. nullSign remembers, per direction, on
// which side of the non-null values a descending null sorts (only consistency is demanded).
func checkPair(r *core.Rec, k *encKind, a, b any, desc bool, nullSign *int) {
	ea, eb := k.enc(a, desc), k.enc(b, desc)
	bc := signOf(bytes.Compare(ea, eb))
	r.Count("evaluations", 1)
	det := func() map[string]any {
		return map[string]any{"kind": k.name, "direction": dirName(desc), "a": render(a), "b": render(b), "enc_a": fmt.Sprintf("%x", ea), "enc_b": fmt.Sprintf("%x", eb), "bytes_compare": bc}
	}
	sig := "order/" + k.name + "/" + dirName(desc)
	cls := pairClass(k, a, b, ea, eb)
	switch {
	case a == nil && b == nil:
		if bc != 0 {
			r.Violate(sig+"/null-vs-null-differ", "two nulls encode differently", det())
		}
		return
	case a == nil || b == nil:
		r.Count("cell/"+k.name+"/"+dirName(desc)+"/null", 1)
		s := bc // sign of null relative to value
		if a != nil {
			s = -bc
		}
		if s == 0 {
			r.Violate(sig+"/null-equals-value", "null and a non-null value have the same encoding", det())
			return
		}
		if !desc {
			if s > 0 {
				r.Violate(sig+"/null-not-first", "ascending field: null does not sort before a non-null value", det())
			}
			return
		}
		if *nullSign == 0 {
			*nullSign = s
		} else if *nullSign != s {
			r.Violate(sig+"/null-position-inconsistent", "descending field: null sorts before some non-null values and after others", det())
		}
		return
	}
	c := k.cmp(a, b)
	if c == 2 { // no value order between the two (JSON of different kind / path): encodings must differ
		if bc == 0 {
			r.Violate(sig+"/distinct-values-same-encoding", fmt.Sprintf("different values have the same encoding: %s and %s", render(a), render(b)), det())
			return
		}
		// ... and a JSON null sorts first among the scalars under its path in ascending keys ("null
		// first"), hence last in descending keys ("reversed for descending fields")
		if x, ok := a.(jsonVal); ok && desc {
			y := b.(jsonVal)
			// (between scalars of different non-null kinds there is no order of "the values themselves":
			// the law is applied where the statement fixes the order - a JSON null against the others)
			if strings.Join(x.Path, "\x1f") == strings.Join(y.Path, "\x1f") && len(x.Path) == len(y.Path) && (x.V == nil) != (y.V == nil) {
				asc := signOf(bytes.Compare(k.enc(a, false), k.enc(b, false)))
				r.Count("json_null_scalar_direction_reversal_pairs", 1)
				if bc != -asc {
					cls := "json-null-against-scalar"
					d := det()
					d["ascending_bytes_compare"] = asc
					r.Violate("order/json/desc/"+cls+"/descending-order-is-not-the-reverse-of-the-ascending-order",
						fmt.Sprintf("JSON scalars under one path: ascending keys compare %d, descending keys compare %d (must be the reverse) for a=%s b=%s", asc, bc, render(a), render(b)), d)
				}
			}
		}
		return
	}
	if c != 0 {
		r.Count("cell/"+k.name+"/"+dirName(desc)+"/"+cls, 1)
		r.Nontrivial(k.name + "|" + dirName(desc) + "|" + k.cls(a) + "|" + k.cls(b))
	}
	want := c
	if desc {
		want = -c
	}
	if c == 0 {
		// equal values (+0 / -0, same instant in two zones): either byte order is accepted
		r.Count("equal_value_pairs", 1)
		return
	}
	if bc != want {
		what := "reversed"
		if bc == 0 {
			what = "equal"
		}
		r.Violate(sig+"/"+cls+"/bytes-"+what, fmt.Sprintf("%s %s: cmp(a,b)=%d but bytes.Compare(enc(a),enc(b))=%d for a=%s b=%s", k.name, dirName(desc), c, bc, render(a), render(b)), det())
	}
}

// notEncoded: EncodeFieldValue writes nothing at all for a non-null value of this kind (one
// defect, one signature; the pairwise oracles would only repeat it thousands of times).
func notEncoded(r *core.Rec, k *encKind, desc bool) bool {
	pool := k.pool()
	n := 0
	for _, v := range pool {
		if len(k.enc(v, desc)) == 0 {
			n++
		}
	}
	if n == 0 {
		return false
	}
	r.Count("evaluations", int64(len(pool)))
	r.Violate("encode/"+k.name+"/value-not-encoded", fmt.Sprintf("EncodeFieldValue appends nothing for %d of %d non-null %s values (%s): every value of the kind gets the same (empty) key component, the value cannot be decoded", n, len(pool), k.name, dirName(desc)),
		map[string]any{"kind": k.name, "field_kind": fmt.Sprint(k.kind), "example": render(pool[len(pool)/2]), "encoded": fmt.Sprintf("%x", k.enc(pool[len(pool)/2], desc))})
	return true
}

func runEncPool(c core.Case, p encParams, r *core.Rec) {
	k := encKindByName(p.Kind)
	if notEncoded(r, k, p.Desc) {
		return
	}
	pool := append([]any{nil}, k.pool()...)
	nullSign := 0
	for _, a := range pool {
		checkRoundTrip(r, k, a, p.Desc)
		for _, b := range pool {
			checkPair(r, k, a, b, p.Desc, &nullSign)
		}
	}
	r.Count("pool_values/"+k.name, int64(len(pool)))
	r.Count("pool_pairs_exhaustive", int64(len(pool)*len(pool)))
	r.Sample(map[string]any{"mode": "pool", "kind": k.name, "direction": dirName(p.Desc), "pool_size": len(pool), "first_values": []string{render(pool[1]), render(pool[len(pool)/2]), render(pool[len(pool)-1])}})
}

func runEncRandom(c core.Case, p encParams, r *core.Rec) {
	rng := c.Rng()
	k := encKindByName(p.Kind)
	if notEncoded(r, k, p.Desc) {
		return
	}
	pool := k.pool()
	nullSign := 0
	for i := 0; i < p.N; i++ {
		var a, b any
		a = k.rnd(rng)
		switch rng.IntN(10) {
		case 0:
			b = nil
		case 1, 2:
			b = pool[rng.IntN(len(pool))]
		case 3:
			b = neighbour(rng, a)
		default:
			b = k.rnd(rng)
		}
		if rng.IntN(2) == 0 {
			a, b = b, a
		}
		checkPair(r, k, a, b, p.Desc, &nullSign)
		checkRoundTrip(r, k, a, p.Desc)
	}
	r.Count("random_pairs", int64(p.N))
}

// neighbour returns a value next to v (adjacent integer, adjacent float bit pattern, string with
// one more / one changed byte).
func neighbour(rng *rand.Rand, v any) any {
	switch x := v.(type) {
	case int64:
		if x == math.MaxInt64 {
			return x - 1
		}
		return x + 1
	case float64:
		return math.Nextafter(x, math.Inf(1-2*rng.IntN(2)))
	case float32:
		return math.Nextafter32(x, float32(math.Inf(1-2*rng.IntN(2))))
	case string:
		if rng.IntN(2) == 0 || x == "" {
			return x + string([]byte{strAlphabet[rng.IntN(len(strAlphabet))]})
		}
		b := []byte(x)
		b[len(b)-1] = strAlphabet[rng.IntN(len(strAlphabet))]
		return string(b)
	case []byte:
		return append(append([]byte{}, x...), strAlphabet[rng.IntN(len(strAlphabet))])
	case time.Time:
		return x.Add(time.Duration(1 - 2*rng.IntN(2)))
	case jsonVal:
		return jsonVal{x.Path, neighbour(rng, x.V)}
	case bool:
		return !x
	}
	return v
}

// tuples: 2-3 components of random kinds and directions (nulls included) + docID, encoded as a
// whole index key. Expected order: lexicographic over the components (value order, reversed
// for descending components; null first when ascending; for a descending null the position
// observed on the single component is taken), then docID bytewise.
func runEncTuples(c core.Case, p encParams, r *core.Rec) {
	rng := c.Rng()
	tupleKinds := []string{"int", "float64", "float32", "bool", "string", "time", "json"}
	for i := 0; i < p.N; i++ {
		n := 1 + rng.IntN(3)
		ks := make([]*encKind, n)
		ds := make([]bool, n)
		va, vb := make([]any, n), make([]any, n)
		for j := 0; j < n; j++ {
			ks[j] = encKindByName(tupleKinds[rng.IntN(len(tupleKinds))])
			ds[j] = rng.IntN(2) == 0
			pool := ks[j].pool()
			pick := func() any {
				switch rng.IntN(8) {
				case 0:
					return nil
				case 1, 2, 3:
					return pool[rng.IntN(len(pool))]
				}
				return ks[j].rnd(rng)
			}
			va[j] = pick()
			switch rng.IntN(3) {
			case 0:
				vb[j] = va[j] // equal prefix: later components / docID decide
			default:
				vb[j] = pick()
			}
		}
		docs := []string{"bae-0", "bae-1", "bae-10", "bae-00000000-0000-5000-8000-000000000000", ""}
		da, db := docs[rng.IntN(len(docs))], docs[rng.IntN(len(docs))]
		mk := func(vs []any, doc string) (*keys.IndexDataStoreKey, []byte) {
			key := &keys.IndexDataStoreKey{CollectionShortID: 1, IndexID: 1}
			for j, v := range vs {
				var nv client.NormalValue
				if v == nil {
					var err error
					nv, err = client.NewNormalNil(ks[j].kind)
					core.Must(err)
				} else {
					nv = ks[j].nv(v)
				}
				key.Fields = append(key.Fields, keys.IndexedField{Value: nv, Descending: ds[j]})
			}
			key.Fields = append(key.Fields, keys.IndexedField{Value: client.NewNormalString(doc)})
			return key, keys.EncodeIndexDataStoreKey(key)
		}
		ka, ea := mk(va, da)
		_, eb := mk(vb, db)
		r.Count("evaluations", 1)
		r.Count("tuples", 1)
		// expected order
		want, decided := 0, true
		for j := 0; j < n && want == 0; j++ {
			a, b := va[j], vb[j]
			switch {
			case a == nil && b == nil:
			case a == nil || b == nil:
				// component order of a null as the single-value encoding gives it (checked in pool mode)
				want = signOf(bytes.Compare(ks[j].enc(a, ds[j]), ks[j].enc(b, ds[j])))
				r.Count("tuples_decided_by_null", 1)
			default:
				cj := ks[j].cmp(a, b)
				if cj == 2 {
					decided = false
				} else if cj == 0 && !bytes.Equal(ks[j].enc(a, ds[j]), ks[j].enc(b, ds[j])) {
					decided = false // equal values with two encodings (never observed; -0/+0 encode alike)
				} else if ds[j] {
					want = -cj
				} else {
					want = cj
				}
			}
			if !decided {
				break
			}
			if want != 0 && j > 0 {
				r.Count("tuples_decided_by_later_component", 1)
			}
		}
		if decided && want == 0 {
			want = signOf(strings.Compare(da, db))
			r.Count("tuples_decided_by_docid", 1)
		}
		desc := func() map[string]any {
			var comp []string
			for j := range ks {
				comp = append(comp, fmt.Sprintf("%s %s: a=%s b=%s", ks[j].name, dirName(ds[j]), render(va[j]), render(vb[j])))
			}
			return map[string]any{"components": comp, "docid_a": da, "docid_b": db, "key_a": fmt.Sprintf("%x", ea), "key_b": fmt.Sprintf("%x", eb)}
		}
		var kn []string
		for j := range ks {
			kn = append(kn, ks[j].name+"-"+dirName(ds[j]))
		}
		if decided {
			if got := signOf(bytes.Compare(ea, eb)); got != want {
				r.Violate("tuple-order/"+strings.Join(kn, "+"), fmt.Sprintf("composite key order is not the lexicographic order of the components: want %d got %d", want, got), desc())
			}
			r.Nontrivial("tuple|" + strings.Join(kn, "+") + fmt.Sprintf("|%d", want))
		}
		// round trip of the whole key
		idesc := &client.IndexDescription{}
		var fdefs []client.FieldDefinition
		for j := range ks {
			idesc.Fields = append(idesc.Fields, client.IndexedFieldDescription{Name: fmt.Sprintf("f%d", j), Descending: ds[j]})
			fdefs = append(fdefs, client.FieldDefinition{Name: fmt.Sprintf("f%d", j), Kind: ks[j].kind})
		}
		dk, err := keys.DecodeIndexDataStoreKey(ea, idesc, fdefs)
		r.Count("key_roundtrips", 1)
		if err != nil {
			d := desc()
			d["error"] = err.Error()
			r.Violate("key-roundtrip/decode-error/"+strings.Join(kn, "+"), "DecodeIndexDataStoreKey fails on an encoded key: "+err.Error(), d)
			continue
		}
		if len(dk.Fields) != len(ka.Fields) {
			r.Violate("key-roundtrip/field-count/"+strings.Join(kn, "+"), fmt.Sprintf("decoded key has %d fields, encoded %d", len(dk.Fields), len(ka.Fields)), desc())
			continue
		}
		for j := range ks {
			f := dk.Fields[j].Value
			if va[j] == nil {
				if !f.IsNil() {
					r.Violate("key-roundtrip/null-decodes-to-value/"+ks[j].name, "null component decodes to a value", desc())
				}
				continue
			}
			got, ok := ks[j].back(f)
			if f.IsNil() || !ok || !ks[j].eq(va[j], got) {
				d := desc()
				d["component"] = j
				d["decoded"] = fmt.Sprintf("%v", f.Unwrap())
				r.Violate("key-roundtrip/value-changed/"+ks[j].name+"/"+dirName(ds[j]), fmt.Sprintf("component %d of a composite key decodes to another value: %s -> %v", j, render(va[j]), f.Unwrap()), d)
			}
		}
		if s, ok := dk.Fields[n].Value.String(); !ok || s != da {
			r.Violate("key-roundtrip/docid-changed", fmt.Sprintf("docID %q decodes as %v", da, dk.Fields[n].Value.Unwrap()), desc())
		}
	}
}

func encCases(seed uint64, tier string) []core.Case {
	var cs []core.Case
	for _, k := range encKinds {
		for _, d := range []bool{false, true} {
			cs = append(cs, core.MkCase("enc/pool/"+k.name+"/"+dirName(d), 1, encParams{Mode: "pool", Kind: k.name, Desc: d}))
		}
	}
	mult := tierN(tier, 1, 20)
	rng := rand.New(rand.NewPCG(seed, 1717))
	for _, k := range encKinds {
		for _, d := range []bool{false, true} {
			for i := 0; i < mult; i++ {
				cs = append(cs, core.MkCase("enc/random/"+k.name+"/"+dirName(d), rng.Uint64(), encParams{Mode: "random", Kind: k.name, Desc: d, N: 12500}))
			}
		}
	}
	for i := 0; i < 20*mult; i++ {
		cs = append(cs, core.MkCase("enc/tuples", rng.Uint64(), encParams{Mode: "tuples", N: 5000}))
	}
	// end-to-end: the twin with edge-value documents, range / order queries on the indexed column
	e2eSets := [][]qgen.IndexSpec{{sp(false, "i")}, {sp(false, "d-")}, {sp(false, "f")}, {sp(false, "f-")}, {sp(false, "f32")}, {sp(false, "f32-")}, {sp(false, "s")}, {sp(false, "s-")},
		{sp(false, "t")}, {sp(false, "t-")}, {sp(false, "bl")}, {sp(false, "i", "s-")}, {sp(false, "f-", "i")}, {sp(false, "t", "f")}, {sp(false, "s-", "d-")}, {sp(false, "j")}}
	for i, s := range e2eSets { // anchors: one fixed history per index set
		cs = append(cs, core.MkCase("e2e/anchor/"+s[0].Class(), uint64(100+i), twinParams{Specs: s, Mode: "api-before", Edge: true, RangeOnly: true, Steps: 4, Queries: 16, JSONMode: "objects", NoRemote: true, Quiet: true}))
	}
	cs = append(cs, core.MkCase("e2e/anchor/zero-time", 99, twinParams{Specs: []qgen.IndexSpec{sp(false, "t")}, Mode: "api-before", Edge: true, Anchor: "zero-time", NoRemote: true, Quiet: true}))
	for i := 0; i < tierN(tier, 60, 1500); i++ {
		s := e2eSets[rng.IntN(len(e2eSets))]
		p := twinParams{Specs: s, Mode: twinModes[rng.IntN(len(twinModes))], Edge: true, RangeOnly: true, Steps: 5 + rng.IntN(6), Queries: 20, JSONMode: "objects", Quiet: true}
		cs = append(cs, core.MkCase("e2e/"+p.Mode, rng.Uint64(), p))
	}
	return cs
}

func encFloors() []string {
	fl := []string{"pool_pairs_exhaustive", "random_pairs", "tuples", "tuples_decided_by_later_component", "tuples_decided_by_docid", "tuples_decided_by_null", "key_roundtrips", "roundtrips",
		"equal_value_pairs", "index_served_queries", "nontrivial_pairs", "order_served_by_index", "json_null_scalar_direction_reversal_pairs"}
	for _, k := range encKinds {
		for _, d := range []string{"asc", "desc"} {
			fl = append(fl, "cell/"+k.name+"/"+d+"/null")
			switch k.name {
			case "int", "float64", "float32", "time", "json":
				fl = append(fl, "cell/"+k.name+"/"+d+"/sign")
			}
			switch k.name {
			case "int", "string", "bytes", "time", "json":
				fl = append(fl, "cell/"+k.name+"/"+d+"/length")
			}
			if k.name != "bool" {
				fl = append(fl, "cell/"+k.name+"/"+d+"/prefix")
			}
		}
	}
	return fl
}

func init() {
	core.Register(&core.Check{
		ID: "C17", Level: "exploration",
		Rule: "direct mode: per kind (int, float64, float32, bool, string, bytes, time, JSON scalars with paths) and direction, ALL ordered pairs of a pool of edge values incl. null (exhaustive for the pool: counter pool_pairs_exhaustive), " +
			"random pairs (random / pool / adjacent values), random 1-3 component tuples with mixed kinds and directions + docID through the index key codec; round trip of every value and key. " +
			"end-to-end: C07 twin histories with edge-value documents and range / order queries on the indexed column. " +
			"non-trivial = the two values differ; distinct by (kind, direction, value class of a, value class of b) resp. (component kinds and directions, outcome).",
		Cases: encCases,
		Run: func(ctx context.Context, c core.Case, r *core.Rec) {
			if strings.HasPrefix(c.Kind, "e2e/") {
				runTwin(ctx, c, r)
				return
			}
			var p encParams
			c.P(&p)
			switch p.Mode {
			case "pool":
				runEncPool(c, p, r)
			case "random":
				runEncRandom(c, p, r)
			case "tuples":
				runEncTuples(c, p, r)
			}
		},
		Floors: encFloors(), CaseTimeout: 300 * time.Second,
		Assumptions: []string{"value order: integers and floats numeric (-0 == +0: either byte order accepted, decoded value must be ==), strings and bytes bytewise, false < true, times by instant, " +
			"JSON scalars only within one path and one JSON kind (across kinds / paths only distinct encodings are demanded)",
			"null sorts before every non-null value in ascending fields; for descending fields only a consistent position is demanded", "NaN is out of scope",
			"JSON array positions are deliberately not encoded (encodeJSONPath writes 0 for every index): paths with array indexes are not part of the round-trip oracle"},
	})
}
