package checks

// C15, scenario families beyond the plain collection: @branchable collections (every write also
// makes a collection-level commit, announced by an update event without a document id, that B must
// receive as well), document ACP on both nodes (documents registered to an owner identity on A),
// and replicators configured after documents exist (`setrep` step).

import (
	"fmt"
	"math/rand/v2"
)

const c15Policy = `
name: c15
description: policy of the C15 monitor
actor:
  name: actor
resources:
  docs:
    permissions:
      read:
        expr: owner + reader
      update:
        expr: owner
      delete:
        expr: owner
    relations:
      owner:
        types:
          - actor
      reader:
        types:
          - actor
`

func c15SDLFor(sc c15Scenario, policyID string) string {
	dir := ""
	if sc.Branchable {
		dir += " @branchable"
	}
	if sc.ACP {
		dir += fmt.Sprintf(` @policy(id: "%s", resource: "docs")`, policyID)
	}
	if dir == "" {
		return c15SDL
	}
	return `type Doc` + dir + ` { name: String  s: String  n: Int  k: Int @crdt(type: pncounter) }`
}

func setrep() c15Step { return c15Step{Op: "setrep"} }
func crp(d int, vals map[string]any) c15Step {
	return c15Step{Op: "create", Doc: d, Vals: vals, Private: true}
}

func c15VariantAnchors() []c15Scenario {
	return []c15Scenario{
		// branchable: the last write on A is made while B is down, so the collection-level commit that
		// comes with it can reach B only through A's retry
		{Name: "anchor/branchable-update-during-outage", Config: "rep", BStore: "badger", Branchable: true, Steps: []c15Step{
			cr(0, M{"name": "q0", "n": 1}), settle(), down("peer"), up(0, M{"n": 5}), bup()}},
		// the same with a document created during the outage of a node on a file store
		{Name: "anchor/branchable-create-during-node-outage", Config: "rep", BStore: "file", Branchable: true, Steps: []c15Step{
			down("node"), cr(0, M{"name": "r0", "n": 21}), bup()}},
		// a write after the outage carries the collection-level history with it (the new collection-level
		// head links to the one made during the outage)
		{Name: "anchor/branchable-write-after-outage", Config: "both", BStore: "badger", Branchable: true, Steps: []c15Step{
			cr(0, M{"name": "s0", "k": 1}), settle(), down("peer"), up(0, M{"k": 2}), cr(1, M{"name": "s1"}), waitretry(), bup(), settle(), up(1, M{"s": "later"})}},
		// replicator configured when documents (and a collection-level history) exist already; nothing
		// is written afterwards
		{Name: "anchor/branchable-existing-at-setreplicator", Config: "rep", BStore: "badger", Branchable: true, Steps: []c15Step{
			cr(0, M{"name": "t0", "n": 1}), cr(1, M{"name": "t1"}), up(0, M{"n": 2}), setrep()}},
		// the same on a plain collection: SetReplicator pushes the heads of the existing documents
		{Name: "anchor/existing-at-setreplicator", Config: "rep", BStore: "badger", Steps: []c15Step{
			cr(0, M{"name": "u0", "n": 1}), cr(1, M{"name": "u1"}), up(0, M{"n": 2}), del(1), setrep(), cr(2, M{"name": "u2"})}},
		// the replicator is deleted while retries for B are pending and configured again later
		{Name: "anchor/replicator-deleted-during-outage-then-set-again", Config: "rep", BStore: "badger", Steps: []c15Step{
			cr(0, M{"name": "y0", "n": 1}), settle(), down("peer"), up(0, M{"n": 2}), cr(1, M{"name": "y1"}), waitretry(), {Op: "delrep"}, up(1, M{"s": "while-deleted"}), bup(), setrep(), up(0, M{"n": 3})}},
		// document ACP: a public and a private document exist when the replicator is configured, a
		// private one is created afterwards
		{Name: "anchor/acp-private-document-existing-at-setreplicator", Config: "rep", BStore: "badger", ACP: true, Steps: []c15Step{
			cr(0, M{"name": "v0", "n": 1}), crp(1, M{"name": "v1", "n": 2}), setrep(), crp(2, M{"name": "v2", "n": 3})}},
		// document ACP: private documents written during an outage (replicator configured first)
		{Name: "anchor/acp-private-writes-during-outage", Config: "rep", BStore: "badger", ACP: true, Steps: []c15Step{
			crp(0, M{"name": "w0", "n": 1}), cr(1, M{"name": "w1"}), settle(), down("peer"), up(0, M{"n": 2, "s": "x"}), crp(2, M{"name": "w2"}), waitretry(), bup()}},
		// document ACP: the private document that existed at SetReplicator is updated afterwards (the
		// push of the new head lets B fetch the whole history)
		{Name: "anchor/acp-private-document-updated-after-setreplicator", Config: "both", BStore: "badger", ACP: true, Steps: []c15Step{
			crp(0, M{"name": "x0", "k": 1}), setrep(), up(0, M{"k": 2})}},
	}
}

// c15GenerateBranchable: a random schedule (c15Generate) on a @branchable collection; half of them
// are cut so that the last write on A is made during an outage, a quarter configure the replicator
// after the first writes.
func c15GenerateBranchable(rng *rand.Rand, idx int) c15Scenario {
	var s c15Scenario
	for {
		s = c15Generate(rng, idx)
		if s.Config != "pubsub" {
			break
		}
	}
	s.Name = fmt.Sprintf("genbranch/%d", idx)
	s.Branchable = true
	if rng.IntN(2) == 0 {
		s.Steps = c15EndInOutage(s.Steps)
	}
	if rng.IntN(4) == 0 {
		s.Steps = c15LateSetRep(rng, s.Steps)
	}
	return s
}

// c15EndInOutage drops the writes that follow the last `up` of a schedule (when writes were made
// during that outage), so that the newest commits of A are those made while B was down.
func c15EndInOutage(steps []c15Step) []c15Step {
	lastUp, lastDown := -1, -1
	for i, st := range steps {
		switch st.Op {
		case "up":
			lastUp = i
		case "down":
			lastDown = i
		}
	}
	if lastUp < 0 || lastDown < 0 || lastDown > lastUp {
		return steps
	}
	wrote := false
	for _, st := range steps[lastDown:lastUp] {
		switch st.Op {
		case "create", "update", "delete":
			wrote = true
		}
	}
	if !wrote {
		return steps
	}
	out := append([]c15Step(nil), steps[:lastUp+1]...)
	for _, st := range steps[lastUp+1:] {
		switch st.Op {
		case "create", "update", "delete":
			continue
		}
		out = append(out, st)
	}
	return out
}

// c15LateSetRep inserts a `setrep` step after one of the writes that precede the first outage.
func c15LateSetRep(rng *rand.Rand, steps []c15Step) []c15Step {
	var pos []int
	for i, st := range steps {
		if st.Op == "down" || st.Op == "arm" {
			break
		}
		switch st.Op {
		case "create", "update", "delete":
			pos = append(pos, i)
		}
	}
	if len(pos) == 0 {
		return steps
	}
	at := pos[rng.IntN(len(pos))] + 1
	out := append([]c15Step(nil), steps[:at]...)
	out = append(out, setrep())
	return append(out, steps[at:]...)
}

// c15GenerateACP: documents (private with probability 2/3) created and updated before the
// replicator is configured, then further writes, optionally around an outage of B's peer.
func c15GenerateACP(rng *rand.Rand, idx int) c15Scenario {
	s := c15Scenario{Name: fmt.Sprintf("genacp/%d", idx), Config: "rep", BStore: "badger", ACP: true}
	if rng.IntN(3) == 0 {
		s.Config = "both"
	}
	serial := 0
	vals := func() M {
		serial++
		v := M{}
		switch rng.IntN(3) {
		case 0:
			v["n"] = serial
		case 1:
			v["s"] = fmt.Sprintf("s%d", serial)
		default:
			v["k"] = 1 + rng.IntN(3)
		}
		return v
	}
	docs := 0
	create := func() {
		v := vals()
		v["name"] = fmt.Sprintf("acp%d-%d", idx, docs)
		st := cr(docs, v)
		st.Private = rng.IntN(3) != 0
		s.Steps = append(s.Steps, st)
		docs++
	}
	write := func() {
		if docs == 0 || (docs < 4 && rng.IntN(3) == 0) {
			create()
			return
		}
		s.Steps = append(s.Steps, up(rng.IntN(docs), vals()))
	}
	before := rng.IntN(5) // 0 = replicator first
	for i := 0; i < before; i++ {
		write()
	}
	s.Steps = append(s.Steps, setrep())
	after := rng.IntN(5)
	outage := rng.IntN(2) == 0 && after > 0
	outAt := 0
	if outage {
		outAt = rng.IntN(after)
	}
	for i := 0; i < after; i++ {
		if outage && i == outAt {
			if rng.IntN(2) == 0 {
				s.Steps = append(s.Steps, settle())
			}
			s.Steps = append(s.Steps, down("peer"))
		}
		write()
		if outage && i == outAt+rng.IntN(2) {
			s.Steps = append(s.Steps, bup())
			outage = false
		}
	}
	return s
}
