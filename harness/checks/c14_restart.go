package checks

// C14 — a node restarted on its store is indistinguishable from one that never stopped.
//
// Two parts, both driven by one generated operation history:
//
//   twin   N1 (badger FILE store, local DAC persisted on a path when the profile uses ACP) is
//          closed and reopened at generated points; N2 (badger in-memory) never restarts; both
//          receive the same history in lock-step. After every restart the full canonical dumps
//          must be equal and from then on every operation must give the same result on both
//          (descriptions incl. assigned index ids, docIDs, cids, error texts, raw short ids).
//   crash  N3 runs on the fault store with the commit log on. For every commit index j a fresh
//          in-memory store is materialised from the first j logged write-sets and a DB is opened
//          on it. When commit j is the last commit of its API operation the dump must equal
//          N3's own dump taken at that operation boundary; inside a multi-commit operation only
//          "opens, every query of the dump returns" is demanded.
//
// Independently of the twin, every node is checked for identifier reuse after every operation
// (collection short ids, field short ids, index ids: read from the raw system store and from
// the descriptions), because a defect that restarts a sequence identically on both twins would
// otherwise be invisible to the comparison.

import (
	"context"
	"crypto/ed25519"
	"encoding/json"
	"fmt"
	"math/rand/v2"
	"os"
	"path/filepath"
	"sort"
	"strings"
	"time"

	"github.com/ipfs/go-cid"
	libp2pCrypto "github.com/libp2p/go-libp2p/core/crypto"
	"github.com/libp2p/go-libp2p/core/peer"
	ma "github.com/multiformats/go-multiaddr"
	"github.com/sourcenetwork/immutable"
	"github.com/sourcenetwork/lens/host-go/config/model"

	"github.com/sourcenetwork/defradb/acp/identity"
	"github.com/sourcenetwork/defradb/client"
	"github.com/sourcenetwork/defradb/crypto"
	"github.com/sourcenetwork/defradb/event"
	dnet "github.com/sourcenetwork/defradb/net"
	netConfig "github.com/sourcenetwork/defradb/net/config"
	"github.com/sourcenetwork/defradb/verifharness/core"
)

type c14Params struct {
	Profile  string   `json:"profile"` // plain | acp | p2p
	Mode     string   `json:"mode"`    // twin | crash
	NOps     int      `json:"n_ops"`
	Restarts int      `json:"restarts"`
	Script   []string `json:"script,omitempty"` // anchors: explicit op kinds ("restart" included)
}

// operation kinds (floor: each appears before some restart)
var c14KindsPlain = []string{"addSchema", "patchSchema", "setActive", "createIndex", "dropIndex", "create", "update", "delete", "gqlMutation", "query"}
var c14KindsACP = []string{"addPolicy", "addRel", "delRel"}
var c14KindsP2P = []string{"setReplicator", "delReplicator", "addP2PCol", "delP2PCol", "addP2PDoc", "delP2PDoc"}

const c14Policy = `
name: test
description: A Policy
actor:
  name: actor
resources:
  users:
    permissions:
      read:
        expr: owner + reader
      update:
        expr: owner
      delete:
        expr: owner
    relations:
      owner:
        types:
          - actor
      reader:
        types:
          - actor
`

type c14SDL struct {
	SDL    string
	Policy bool
}

var c14PoolPlain = []c14SDL{
	{SDL: `type Ua { name: String  n: Int  f: Float  b: Boolean }`},
	{SDL: `type Ub { name: String @index  n: Int  tags: [String] }`},
	{SDL: "type Pa { name: String  v: Int  cs: [Ch] }\ntype Ch { name: String  w: Int  p: Pa }"},
	{SDL: `type Uc @branchable { name: String  n: Int @index(unique: true) }`},
	{SDL: `type Ud { name: String  n: Int  j: JSON  t: DateTime }`},
	{SDL: `type Ue { name: String @index  n: Int @index  b: Boolean }`},
}

var c14PoolACP = []c14SDL{
	{SDL: `type Users @policy(id: "%s", resource: "users") { name: String  age: Int }`, Policy: true},
	{SDL: `type Ua { name: String  n: Int  f: Float  b: Boolean }`},
	{SDL: `type Notes @policy(id: "%s", resource: "users") { name: String @index  n: Int }`, Policy: true},
	{SDL: `type Ub { name: String @index  n: Int  tags: [String] }`},
}

// ---------------------------------------------------------------------------------------
// case list

func c14Cases(seed uint64, tier string) []core.Case {
	var cs []core.Case
	// anchors (seed independent): every op kind before a restart, id-allocating ops after it
	plainScript := []string{"addSchema", "create", "create", "createIndex", "patchSchema", "update", "setActive", "addSchema", "create",
		"createIndex", "dropIndex", "delete", "gqlMutation", "query", "restart",
		"createIndex", "patchSchema", "addSchema", "create", "create", "update", "query", "setActive", "restart", "createIndex", "create", "addSchema", "patchSchema", "query"}
	cs = append(cs, core.MkCase("twin/anchor/plain", 1, c14Params{Profile: "plain", Mode: "twin", Script: plainScript}))
	acpScript := []string{"addPolicy", "addSchema", "create", "create", "addRel", "query", "addSchema", "create", "delRel", "addRel", "createIndex", "patchSchema",
		"update", "delete", "query", "restart", "query", "create", "addRel", "addPolicy", "addSchema", "create", "createIndex", "query", "delRel", "query", "restart", "create", "addRel", "query"}
	cs = append(cs, core.MkCase("twin/anchor/acp", 2, c14Params{Profile: "acp", Mode: "twin", Script: acpScript}))
	crashScript := []string{"addSchema", "create", "create", "createIndex", "patchSchema", "update", "setActive", "addSchema", "create", "gqlMutation",
		"dropIndex", "delete", "createIndex", "setActive", "create", "query"}
	cs = append(cs, core.MkCase("crash/anchor/plain", 3, c14Params{Profile: "plain", Mode: "crash", Script: crashScript}))

	p2pScript := []string{"addSchema", "create", "create", "setReplicator", "addP2PCol", "addP2PDoc", "addSchema", "create", "setReplicator", "delReplicator", "addP2PCol",
		"delP2PCol", "addP2PDoc", "delP2PDoc", "patchSchema", "query", "restart", "setReplicator", "addP2PCol", "addP2PDoc", "create", "createIndex", "delReplicator", "restart", "addSchema", "setReplicator", "query"}
	cs = append(cs, core.MkCase("twin/anchor/p2p", 4, c14Params{Profile: "p2p", Mode: "twin", Script: p2pScript}))
	cs = append(cs, core.MkCase("crash/anchor/p2p", 5, c14Params{Profile: "p2p", Mode: "crash", Script: p2pScript[:16]}))
	// two replicators with different collection sets, then a restart (routing table rebuilt from the store)
	splitScript := []string{"addSchema", "addSchema", "create", "create", "setReplicatorSplit0", "setReplicatorSplit1", "query", "restart", "create", "query", "restart", "query"}
	cs = append(cs, core.MkCase("twin/anchor/p2p-split-replicators", 6, c14Params{Profile: "p2p", Mode: "twin", Script: splitScript}))
	cs = append(cs, core.MkCase("crash/anchor/p2p-split-replicators", 7, c14Params{Profile: "p2p", Mode: "crash", Script: splitScript[:7]}))

	// crash point inside the replication retry machinery (c14_retry_restart.go): seeds give 1-3 queued documents
	for i := 0; i < tierN(tier, 3, 12); i++ {
		cs = append(cs, core.MkCase("crash/retry-in-flight", uint64(100+i), c14Params{Profile: "p2p", Mode: "retry-restart"}))
	}

	rng := rand.New(rand.NewPCG(seed, 1414))
	nTwin, nCrash := tierN(tier, 150, 1600), tierN(tier, 30, 500)
	for i := 0; i < nTwin; i++ {
		p := c14Params{Mode: "twin", Profile: "plain", NOps: 10 + rng.IntN(31), Restarts: 1 + rng.IntN(4)}
		switch rng.IntN(8) {
		case 0, 1:
			// (the persistent local ACP store reopens slowly: fewer restarts there)
			p.Profile, p.Restarts = "acp", 1+rng.IntN(2)
		case 2:
			p.Profile = "p2p"
		}
		cs = append(cs, core.MkCase("twin/"+p.Profile, rng.Uint64(), p))
	}
	for i := 0; i < nCrash; i++ {
		p := c14Params{Mode: "crash", Profile: "plain", NOps: 10 + rng.IntN(21)}
		if rng.IntN(6) == 0 {
			p.Profile = "p2p"
		}
		cs = append(cs, core.MkCase("crash/"+p.Profile, rng.Uint64(), p))
	}
	// (cases are dealt to the workers round-robin, so the costlier crash cases spread evenly)
	return cs
}

// ---------------------------------------------------------------------------------------
// run state

type c14Node struct {
	name     string
	n        *core.Node
	opts     core.NodeOpts
	restarts int
	fault    *core.FaultKV
	peer     *dnet.Peer // p2p profile
	key      []byte     // libp2p private key (same across restarts)
	// identifier bookkeeping of this node (no-reuse invariant)
	idxSeen map[string]map[uint32]string // collectionID -> index id -> index name
}

type c14Col struct {
	Name     string
	ColID    string
	Fields   []client.FieldDefinition // active version
	Versions []string
	Indexes  []string
	Policy   bool
}

type c14Actor struct {
	name string
	id   immutable.Option[identity.Identity]
	did  string
}

type c14Run struct {
	ctx   context.Context
	r     *core.Rec
	rng   *rand.Rand
	p     c14Params
	c     core.Case
	dir   string
	nodes []*c14Node // nodes[0] = reference (never restarts); twin: nodes[1] = restarted node
	ref   *c14Node
	sut   *c14Node // restarted node (nil in crash mode)

	cols      map[string]*c14Col
	docs      map[string][]string
	docOwner  map[string]string // docID -> actor name that created it
	poolUsed  map[int]bool
	policyIDs []string
	p2pKey    []byte
	targets   []peer.AddrInfo // p2p profile: replication targets (nobody listens there)
	seq       int
	actors    []c14Actor

	log         []string
	kindsBefore map[string]bool // kinds executed since start (for floor accounting at a restart)
	kindSeq     []string
	restartPos  []int
	allocAfter  map[string]bool
	failed      bool
	unstable    bool // a background activity could not be awaited: stop comparing, no verdict

	// crash mode
	boundary map[int][]c14Section // op index -> dump of N3 at that boundary
}

type c14Section struct {
	Name  string
	Value string
}

var c14Debug = os.Getenv("C14_DEBUG") != ""

func errS(err error) string {
	if err == nil {
		return ""
	}
	return err.Error()
}

func (x *c14Run) logf(format string, a ...any) {
	x.log = append(x.log, fmt.Sprintf(format, a...))
	if c14Debug {
		fmt.Println(time.Now().Format("05.000"), c14Trunc(x.log[len(x.log)-1])[:min(200, len(x.log[len(x.log)-1]))])
	}
}

func (x *c14Run) detail(extra map[string]any) map[string]any {
	d := map[string]any{"params": x.p, "ops": x.log}
	for k, v := range extra {
		d[k] = v
	}
	return d
}

func (x *c14Run) actorCtx(a c14Actor) context.Context {
	if !a.id.HasValue() {
		return x.ctx
	}
	return identity.WithContext(x.ctx, a.id)
}

// ---------------------------------------------------------------------------------------
// canonical dump

func c14SortedJSON[T any](items []T, key func(T) string) string {
	type kv struct {
		k string
		v string
	}
	var l []kv
	for _, it := range items {
		b, _ := json.Marshal(it)
		l = append(l, kv{key(it), string(b)})
	}
	sort.Slice(l, func(i, j int) bool {
		if l[i].k != l[j].k {
			return l[i].k < l[j].k
		}
		return l[i].v < l[j].v
	})
	var sb strings.Builder
	for _, e := range l {
		sb.WriteString(e.v)
		sb.WriteByte('\n')
	}
	return sb.String()
}

func c14Descriptions(ctx context.Context, n *core.Node) (string, []client.Collection, error) {
	cols, err := n.DB.GetCollections(ctx, client.CollectionFetchOptions{IncludeInactive: immutable.Some(true)})
	if err != nil {
		return "ERR " + err.Error(), nil, err
	}
	vs := make([]client.CollectionVersion, 0, len(cols))
	for _, c := range cols {
		vs = append(vs, c.Version())
	}
	return c14SortedJSON(vs, func(v client.CollectionVersion) string { return v.VersionID }), cols, nil
}

// c14ShortIDs: raw identifier tables of the system store (collection / field short ids, sequences).
func c14ShortIDs(ctx context.Context, n *core.Node) map[string]string {
	out := map[string]string{}
	for _, p := range []string{"/db/system/collection/shortID", "/db/system/field/shortID", "/db/system/seq"} {
		for k, v := range n.RawScan(ctx, p) {
			if strings.HasPrefix(k, "/db/system/seq") {
				out[k] = fmt.Sprintf("%x", v)
			} else {
				out[k] = v
			}
		}
	}
	return out
}

func c14SortRows(data string, errs []string) string {
	// data is {"Name":[rows...]} ; rows are sorted by their canonical rendering
	var m map[string]any
	dec := json.NewDecoder(strings.NewReader(data))
	dec.UseNumber()
	if err := dec.Decode(&m); err != nil {
		return data + " errs=" + strings.Join(errs, "|")
	}
	for k, v := range m {
		if l, ok := v.([]any); ok {
			ss := make([]string, len(l))
			for i, e := range l {
				ss[i] = core.Canon(e)
			}
			sort.Strings(ss)
			m[k] = ss
		}
	}
	return core.Canon(m) + " errs=" + strings.Join(errs, "|")
}

func c14DocSelection(fields []client.FieldDefinition) string {
	var fs []string
	for _, f := range fields {
		if f.Name == "_docID" {
			continue
		}
		if f.Kind.IsObject() {
			continue // relation objects are covered by their _id fields
		}
		fs = append(fs, f.Name)
	}
	sort.Strings(fs)
	return strings.Join(fs, " ")
}

// dump returns the ordered sections of the full logical dump of a node.
func (x *c14Run) dump(cn *c14Node) []c14Section {
	ctx := x.ctx
	n := cn.n
	var out []c14Section
	add := func(name, v string) { out = append(out, c14Section{name, v}) }
	desc, cols, _ := c14Descriptions(ctx, n)
	add("collections", desc)
	schemas, err := n.DB.GetSchemas(ctx, client.SchemaFetchOptions{})
	if err != nil {
		add("schemas", "ERR "+err.Error())
	} else {
		add("schemas", c14SortedJSON(schemas, func(s client.SchemaDescription) string { return s.VersionID }))
	}
	idx, err := n.DB.GetAllIndexes(ctx)
	if err != nil {
		add("indexes", "ERR "+err.Error())
	} else {
		m := map[string]string{}
		for name, l := range idx {
			m[string(name)] = c14SortedJSON(l, func(d client.IndexDescription) string { return fmt.Sprintf("%08d", d.ID) })
		}
		add("indexes", core.Canon(m))
	}
	if os.Getenv("C14_NO_RAW") == "" { // (sensitivity experiments can switch the raw identifier tables off)
		add("short-ids", core.Canon(c14ShortIDs(ctx, n)))
	}
	// documents of every active collection, as every actor
	var active []client.Collection
	names := map[string]bool{}
	for _, c := range cols {
		names[c.Name()] = true
		if c.Version().IsActive {
			active = append(active, c)
		}
	}
	sort.Slice(active, func(i, j int) bool { return active[i].Name() < active[j].Name() })
	for _, c := range active {
		sel := c14DocSelection(c.Definition().GetFields())
		// (selecting a relation id field together with _version panics in the planner —
		// selectNode.addSubPlan, nil multiscan — which is not this property's concern: two requests)
		req := fmt.Sprintf(`query { %s(showDeleted: true) { _docID _deleted %s } }`, c.Name(), sel)
		req2 := fmt.Sprintf(`query { %s(showDeleted: true) { _docID _version { cid height } } }`, c.Name())
		for _, a := range x.actors {
			if a.name != "anon" && !c.Version().Policy.HasValue() {
				continue
			}
			if c14Debug {
				fmt.Println("   dump:", req)
			}
			data, errs := core.ExecGQL(x.actorCtx(a), n.DB, req)
			add("docs:"+c.Name()+"@"+a.name, c14SortRows(data, errs))
			data, errs = core.ExecGQL(x.actorCtx(a), n.DB, req2)
			add("heads:"+c.Name()+"@"+a.name, c14SortRows(data, errs))
		}
	}
	// GraphQL type system (the in-memory cache that load code rebuilds)
	var ns []string
	for k := range names {
		ns = append(ns, k)
	}
	sort.Strings(ns)
	for _, name := range ns {
		data, errs := core.ExecGQL(ctx, n.DB, fmt.Sprintf(`query { __type(name: "%s") { name fields { name type { name kind ofType { name kind } } } } }`, name))
		add("gql-type:"+name, c14SortTypeFields(data)+" errs="+strings.Join(errs, "|"))
	}
	for _, a := range x.actors {
		if a.name == "reader" {
			continue
		}
		data, errs := core.ExecGQL(x.actorCtx(a), n.DB, `query { commits { cid height docID fieldName delta links { cid name } } }`)
		add("commits@"+a.name, c14SortRows(data, errs))
	}
	if cn.peer != nil {
		add("p2p", core.Canon(x.p2pState(cn)))
	}
	return out
}

// p2pState: the persisted peer configuration (replicators without the time stamp, p2p
// collections, p2p documents), sorted.
func (x *c14Run) p2pState(cn *c14Node) map[string]any {
	out := map[string]any{}
	reps, err := cn.peer.GetAllReplicators(x.ctx)
	if err != nil {
		out["replicators_err"] = err.Error()
	}
	var rs []string
	for _, r := range reps {
		ids := append([]string(nil), r.CollectionIDs...)
		sort.Strings(ids)
		var addrs []string
		for _, a := range r.Info.Addrs {
			addrs = append(addrs, a.String())
		}
		sort.Strings(addrs)
		rs = append(rs, fmt.Sprintf("%s %v %v status=%d", r.Info.ID, addrs, ids, r.Status))
	}
	sort.Strings(rs)
	out["replicators"] = rs
	cols, err := cn.peer.GetAllP2PCollections(x.ctx)
	if err != nil {
		out["collections_err"] = err.Error()
	}
	sort.Strings(cols)
	out["collections"] = cols
	docs, err := cn.peer.GetAllP2PDocuments(x.ctx)
	if err != nil {
		out["documents_err"] = err.Error()
	}
	sort.Strings(docs)
	out["documents"] = docs
	// the in-memory routing state rebuilt from the peer store on start (hook H3): which peers each
	// collection is pushed to, and which pubsub topics are subscribed
	routing, topics := cn.peer.VerifReplicatorRouting()
	for col, peers := range routing {
		if len(peers) == 0 {
			// a collection whose last replicator was removed keeps an empty set in memory;
			// that routes nothing, exactly like the absent entry of a restarted node
			delete(routing, col)
		}
	}
	out["routing"] = routing
	out["topics"] = topics
	return out
}

// startPeer starts the libp2p peer of a node. NewPeer gives up after 5 s when libp2p has not
// announced its listen address by then, which happens on an overloaded machine and says nothing
// about the store: that error is retried.
func (x *c14Run) startPeer(cn *c14Node) error {
	var err error
	for try := 0; try < 4; try++ {
		if err = x.startPeerOnce(cn); err == nil || !strings.Contains(err.Error(), dnet.ErrTimeoutWaitingForPeerInfo.Error()) {
			return err
		}
		x.r.Note("peer_start_timeout_retried")
	}
	return err
}

func (x *c14Run) startPeerOnce(cn *c14Node) error {
	p, err := dnet.NewPeer(x.ctx, cn.n.DB.Events(), cn.n.DB.DocumentACP(), cn.n.DB,
		netConfig.WithListenAddresses("/ip4/127.0.0.1/tcp/0"),
		netConfig.WithPrivateKey(cn.key),
		// no pubsub: the replication targets of this check are never reachable; with pubsub on every
		// document update would start background pushes and failure bookkeeping that race with the
		// lock-step comparison. The persisted configuration and its reload are what is examined.
		netConfig.WithEnablePubSub(false),
		netConfig.WithRetryInterval([]time.Duration{time.Hour}),
	)
	if err != nil {
		return err
	}
	cn.peer = p
	return nil
}

func c14Libp2pKey(rng *rand.Rand) ([]byte, peer.ID) {
	seed := make([]byte, 32)
	for i := range seed {
		seed[i] = byte(rng.IntN(256))
	}
	priv := ed25519.NewKeyFromSeed(seed)
	k, err := libp2pCrypto.UnmarshalEd25519PrivateKey(priv)
	core.Must(err)
	id, err := peer.IDFromPrivateKey(k)
	core.Must(err)
	return priv, id
}

func c14SortTypeFields(data string) string {
	var m map[string]map[string]any
	if err := json.Unmarshal([]byte(data), &m); err != nil || m["__type"] == nil {
		return data
	}
	if l, ok := m["__type"]["fields"].([]any); ok {
		ss := make([]string, len(l))
		for i, e := range l {
			ss[i] = core.Canon(e)
		}
		sort.Strings(ss)
		m["__type"]["fields"] = ss
	}
	return core.Canon(m)
}

func c14SectionClass(name string) string {
	if i := strings.IndexAny(name, ":@"); i >= 0 {
		return name[:i]
	}
	return name
}

// diffDumps returns the first differing section (class, name, a, b) or "".
func c14DiffDumps(a, b []c14Section) (string, string, string, string) {
	am, bm := map[string]string{}, map[string]string{}
	for _, s := range a {
		am[s.Name] = s.Value
	}
	for _, s := range b {
		bm[s.Name] = s.Value
	}
	for _, s := range a {
		v, ok := bm[s.Name]
		if !ok {
			return c14SectionClass(s.Name), s.Name, s.Value, "(section missing)"
		}
		if v != s.Value {
			return c14SectionClass(s.Name), s.Name, s.Value, v
		}
	}
	for _, s := range b {
		if _, ok := am[s.Name]; !ok {
			return c14SectionClass(s.Name), s.Name, "(section missing)", s.Value
		}
	}
	return "", "", "", ""
}

func c14Trunc(s string) string {
	if len(s) > 6000 {
		return s[:6000] + "...[truncated]"
	}
	return s
}

// firstDiff renders the neighbourhood of the first differing byte.
func c14FirstDiff(a, b string) string {
	i := 0
	for i < len(a) && i < len(b) && a[i] == b[i] {
		i++
	}
	lo := i - 120
	if lo < 0 {
		lo = 0
	}
	cut := func(s string) string {
		hi := i + 200
		if hi > len(s) {
			hi = len(s)
		}
		if lo > len(s) {
			return ""
		}
		return s[lo:hi]
	}
	return fmt.Sprintf("at byte %d: expected …%s… got …%s…", i, cut(a), cut(b))
}

// ---------------------------------------------------------------------------------------
// world model (derived from the reference node)

func (x *c14Run) refresh() {
	cols, err := x.ref.n.DB.GetCollections(x.ctx, client.CollectionFetchOptions{IncludeInactive: immutable.Some(true)})
	if err != nil {
		return
	}
	for _, c := range cols {
		name := c.Name()
		if name == "" {
			continue
		}
		ci := x.cols[name]
		if ci == nil {
			ci = &c14Col{Name: name}
			x.cols[name] = ci
		}
		v := c.Version()
		ci.ColID = v.CollectionID
		seen := false
		for _, id := range ci.Versions {
			if id == v.VersionID {
				seen = true
			}
		}
		if !seen {
			ci.Versions = append(ci.Versions, v.VersionID)
		}
		if v.IsActive {
			ci.Fields = c.Definition().GetFields()
			ci.Indexes = ci.Indexes[:0]
			for _, ix := range v.Indexes {
				ci.Indexes = append(ci.Indexes, ix.Name)
			}
			ci.Policy = v.Policy.HasValue()
		}
	}
}

func (x *c14Run) colNames() []string {
	var ns []string
	for k := range x.cols {
		ns = append(ns, k)
	}
	sort.Strings(ns)
	return ns
}

func (x *c14Run) pickCol() *c14Col {
	ns := x.colNames()
	if len(ns) == 0 {
		return nil
	}
	return x.cols[ns[x.rng.IntN(len(ns))]]
}

func (x *c14Run) pickColWithDocs() *c14Col {
	var ns []string
	for _, n := range x.colNames() {
		if len(x.docs[n]) > 0 {
			ns = append(ns, n)
		}
	}
	if len(ns) == 0 {
		return nil
	}
	return x.cols[ns[x.rng.IntN(len(ns))]]
}

var c14RelTarget = map[string]string{"p_id": "Pa"}

func (x *c14Run) genValue(f client.FieldDefinition) (any, bool) {
	pick := func(vs ...any) any { return vs[x.rng.IntN(len(vs))] }
	switch f.Kind {
	case client.FieldKind_NILLABLE_STRING:
		return pick("a", "b", "c", "", nil), true
	case client.FieldKind_NILLABLE_INT:
		return pick(0, 1, 2, 7, -3, nil), true
	case client.FieldKind_NILLABLE_FLOAT64:
		return pick(0.5, 2.25, -1.0, nil), true
	case client.FieldKind_NILLABLE_BOOL:
		return pick(true, false, nil), true
	case client.FieldKind_NILLABLE_JSON:
		return pick(map[string]any{"k": 1}, "x", []any{1, 2}, nil), true
	case client.FieldKind_NILLABLE_DATETIME:
		return pick("2020-01-02T03:04:05Z", "2021-06-07T08:09:10.123456789Z", nil), true
	case client.FieldKind_NILLABLE_STRING_ARRAY:
		return pick([]any{"x", "y"}, []any{}, nil), true
	case client.FieldKind_DocID:
		if t, ok := c14RelTarget[f.Name]; ok {
			if ds := x.docs[t]; len(ds) > 0 && x.rng.IntN(4) > 0 {
				return ds[x.rng.IntN(len(ds))], true
			}
			return nil, true
		}
	}
	return nil, false
}

func c14IsSimple(f client.FieldDefinition) bool {
	switch f.Kind {
	case client.FieldKind_NILLABLE_STRING, client.FieldKind_NILLABLE_INT, client.FieldKind_NILLABLE_FLOAT64, client.FieldKind_NILLABLE_BOOL:
		return true
	}
	return false
}

func (x *c14Run) genDoc(ci *c14Col) map[string]any {
	m := map[string]any{}
	for _, f := range ci.Fields {
		if f.Name == "_docID" {
			continue
		}
		if v, ok := x.genValue(f); ok && (x.rng.IntN(4) > 0 || f.Name == "name") {
			m[f.Name] = v
		}
	}
	// names carry a serial so that most creates succeed (docIDs are content derived)
	if x.rng.IntN(8) > 0 {
		x.seq++
		m["name"] = fmt.Sprintf("d%d", x.seq)
	}
	return m
}

func c14GQLVal(v any) string {
	switch t := v.(type) {
	case nil:
		return "null"
	case []any:
		ps := make([]string, len(t))
		for i, e := range t {
			ps[i] = c14GQLVal(e)
		}
		return "[" + strings.Join(ps, ", ") + "]"
	default:
		b, _ := json.Marshal(t)
		return string(b)
	}
}

func c14GQLInput(m map[string]any) string {
	var ks []string
	for k := range m {
		ks = append(ks, k)
	}
	sort.Strings(ks)
	ps := make([]string, 0, len(ks))
	for _, k := range ks {
		ps = append(ps, k+": "+c14GQLVal(m[k]))
	}
	return "{" + strings.Join(ps, ", ") + "}"
}

// ---------------------------------------------------------------------------------------
// lock-step execution

type c14Op struct {
	Kind   string
	Desc   string
	Allocs string // identifier class allocated by this op ("" = none)
	Schema bool   // schema / index / ACP operation
	F      func(cn *c14Node) any
	After  func(res string)
}

// exec runs op on every node and compares the results with the reference.
func (x *c14Run) exec(i int, op c14Op) bool {
	x.logf("%d %s %s", i, op.Kind, op.Desc)
	var results []string
	for _, cn := range x.nodes {
		if cn.fault != nil {
			cn.fault.SetOpIndex(i)
		}
		results = append(results, core.Canon(op.F(cn)))
	}
	if x.unstable {
		x.r.Note("history_abandoned_background_activity_not_awaited")
		x.failed = true
		return false
	}
	x.r.Count("evaluations", 1)
	x.r.Count("ops_executed", 1)
	x.kindSeq = append(x.kindSeq, op.Kind)
	x.kindsBefore[op.Kind] = true
	x.logf("   => %s", c14Trunc(results[0]))
	for k := 1; k < len(results); k++ {
		if results[k] == results[0] {
			continue
		}
		cn := x.nodes[k]
		if cn.restarts == 0 {
			x.r.Violate("harness/twin-diverged-before-any-restart/"+op.Kind,
				fmt.Sprintf("operation %s gives different results on the file-store node and on the in-memory node although neither has been restarted: %s", op.Kind, c14FirstDiff(results[0], results[k])),
				x.detail(map[string]any{"op": op.Desc, "reference": c14Trunc(results[0]), cn.name: c14Trunc(results[k])}))
		} else {
			x.r.Violate("post-restart/"+op.Kind+"/result-differs-from-never-restarted-twin",
				fmt.Sprintf("after %d restart(s) operation %s (%s) gives a different result than on the twin that never stopped: %s", cn.restarts, op.Kind, op.Desc, c14FirstDiff(results[0], results[k])),
				x.detail(map[string]any{"op": op.Desc, "reference": c14Trunc(results[0]), cn.name: c14Trunc(results[k])}))
		}
		x.failed = true
		return false
	}
	if x.sut != nil && x.sut.restarts > 0 {
		x.r.Count("post_restart_ops_compared", 1)
		if op.Allocs != "" {
			x.r.Count("post_restart_alloc_"+op.Allocs, 1)
			x.allocAfter[op.Allocs] = true
		}
	}
	if op.After != nil {
		op.After(results[0])
	}
	if op.Schema || op.Allocs != "" {
		x.refresh()
		for _, cn := range x.nodes {
			if !x.checkIDs(cn, op) {
				x.failed = true
				return false
			}
		}
	}
	return true
}

// checkIDs: no identifier reuse on one node (independent of the twin comparison).
func (x *c14Run) checkIDs(cn *c14Node, op c14Op) bool {
	ids := c14ShortIDs(x.ctx, cn.n)
	x.r.Count("id_reuse_checks", 1)
	colShort := map[string]string{}
	fieldShort := map[string]string{}
	for k, v := range ids {
		switch {
		case strings.HasPrefix(k, "/db/system/collection/shortID/"):
			if other, dup := colShort[v]; dup {
				x.r.Violate("id-reuse/collection-short-id", fmt.Sprintf("node %s: two collections share short id %s after %s", cn.name, v, op.Kind),
					x.detail(map[string]any{"keys": []string{other, k}, "ids": ids}))
				return false
			}
			colShort[v] = k
		case strings.HasPrefix(k, "/db/system/field/shortID/"):
			rest := strings.TrimPrefix(k, "/db/system/field/shortID/")
			col := rest
			if i := strings.IndexByte(rest, '/'); i >= 0 {
				col = rest[:i]
			}
			key := col + "#" + v
			if other, dup := fieldShort[key]; dup {
				x.r.Violate("id-reuse/field-short-id", fmt.Sprintf("node %s: two fields of collection %s share short id %s after %s", cn.name, col, v, op.Kind),
					x.detail(map[string]any{"keys": []string{other, k}, "ids": ids}))
				return false
			}
			fieldShort[key] = k
		}
	}
	cols, err := cn.n.DB.GetCollections(x.ctx, client.CollectionFetchOptions{IncludeInactive: immutable.Some(true)})
	if err != nil {
		return true
	}
	for _, c := range cols {
		v := c.Version()
		seen := cn.idxSeen[v.CollectionID]
		if seen == nil {
			seen = map[uint32]string{}
			cn.idxSeen[v.CollectionID] = seen
		}
		inVersion := map[uint32]string{}
		for _, ix := range v.Indexes {
			if other, dup := inVersion[ix.ID]; dup && other != ix.Name {
				x.r.Violate("id-reuse/index-id", fmt.Sprintf("node %s: indexes %q and %q of collection %s share id %d after %s", cn.name, other, ix.Name, v.Name, ix.ID, op.Kind), x.detail(nil))
				return false
			}
			inVersion[ix.ID] = ix.Name
			if other, ok := seen[ix.ID]; ok && other != ix.Name {
				x.r.Violate("id-reuse/index-id", fmt.Sprintf("node %s: index %q of collection %s got id %d which index %q had before (after %s, %d restarts)", cn.name, ix.Name, v.Name, ix.ID, other, op.Kind, cn.restarts), x.detail(nil))
				return false
			}
			seen[ix.ID] = ix.Name
		}
	}
	return true
}

// ---------------------------------------------------------------------------------------
// operations

func (x *c14Run) opAddSchema() (c14Op, bool) {
	pool := c14PoolPlain
	if x.p.Profile == "acp" {
		pool = c14PoolACP
	}
	var free []int
	for i, s := range pool {
		if x.poolUsed[i] {
			continue
		}
		if s.Policy && len(x.policyIDs) == 0 {
			continue
		}
		free = append(free, i)
	}
	if len(free) == 0 {
		return c14Op{}, false
	}
	k := free[0]
	if x.rng.IntN(2) == 0 {
		k = free[x.rng.IntN(len(free))]
	}
	sdl := pool[k].SDL
	if pool[k].Policy {
		sdl = fmt.Sprintf(sdl, x.policyIDs[x.rng.IntN(len(x.policyIDs))])
	}
	x.poolUsed[k] = true
	return c14Op{Kind: "addSchema", Desc: sdl, Allocs: "collection", Schema: true, F: func(cn *c14Node) any {
		vs, err := cn.n.DB.AddSchema(x.ctx, sdl)
		d, _, _ := c14Descriptions(x.ctx, cn.n)
		return map[string]any{"err": errS(err), "returned": c14SortedJSON(vs, func(v client.CollectionVersion) string { return v.Name + v.VersionID }), "descriptions": d}
	}}, true
}

func (x *c14Run) opPatchSchema() (c14Op, bool) {
	ci := x.pickCol()
	if ci == nil {
		return c14Op{}, false
	}
	x.seq++
	kinds := []int{11, 4, 2, 6}
	kind := kinds[x.rng.IntN(len(kinds))]
	fname := fmt.Sprintf("x%d", x.seq)
	if x.rng.IntN(12) == 0 && len(ci.Fields) > 1 {
		fname = ci.Fields[len(ci.Fields)-1].Name // existing name: both sides must reject alike
	}
	setDefault := x.rng.IntN(4) > 0
	patch := fmt.Sprintf(`[{ "op": "add", "path": "/%s/Fields/-", "value": {"Name": "%s", "Kind": %d} }]`, ci.Name, fname, kind)
	return c14Op{Kind: "patchSchema", Desc: fmt.Sprintf("%s setDefault=%v", patch, setDefault), Allocs: "field", Schema: true, F: func(cn *c14Node) any {
		err := cn.n.DB.PatchSchema(x.ctx, patch, immutable.None[model.Lens](), setDefault)
		d, _, _ := c14Descriptions(x.ctx, cn.n)
		return map[string]any{"err": errS(err), "descriptions": d}
	}}, true
}

func (x *c14Run) opSetActive() (c14Op, bool) {
	var cands []*c14Col
	for _, n := range x.colNames() {
		if len(x.cols[n].Versions) > 1 {
			cands = append(cands, x.cols[n])
		}
	}
	if len(cands) == 0 {
		return c14Op{}, false
	}
	ci := cands[x.rng.IntN(len(cands))]
	// SetActiveSchemaVersion takes the SCHEMA version id
	schemas, err := x.ref.n.DB.GetSchemas(x.ctx, client.SchemaFetchOptions{Name: immutable.Some(ci.Name)})
	if err != nil || len(schemas) == 0 {
		return c14Op{}, false
	}
	sort.Slice(schemas, func(i, j int) bool { return schemas[i].VersionID < schemas[j].VersionID })
	ver := schemas[x.rng.IntN(len(schemas))].VersionID
	return c14Op{Kind: "setActive", Desc: ci.Name + " -> " + ver, Schema: true, F: func(cn *c14Node) any {
		err := cn.n.DB.SetActiveSchemaVersion(x.ctx, ver)
		d, _, _ := c14Descriptions(x.ctx, cn.n)
		return map[string]any{"err": errS(err), "descriptions": d}
	}}, true
}

func (x *c14Run) opCreateIndex() (c14Op, bool) {
	ci := x.pickCol()
	if ci == nil {
		return c14Op{}, false
	}
	var fs []string
	for _, f := range ci.Fields {
		if c14IsSimple(f) {
			fs = append(fs, f.Name)
		}
	}
	if len(fs) == 0 {
		return c14Op{}, false
	}
	x.seq++
	req := client.IndexCreateRequest{Name: fmt.Sprintf("ix%d", x.seq), Unique: x.rng.IntN(6) == 0}
	nf := 1 + x.rng.IntN(2)
	perm := x.rng.Perm(len(fs))
	for i := 0; i < nf && i < len(fs); i++ {
		req.Fields = append(req.Fields, client.IndexedFieldDescription{Name: fs[perm[i]], Descending: x.rng.IntN(3) == 0})
	}
	name := ci.Name
	actor := x.actors[0]
	if ci.Policy && len(x.actors) > 1 {
		actor = x.actors[1]
	}
	return c14Op{Kind: "createIndex", Desc: fmt.Sprintf("%s %s", name, core.Canon(req)), Allocs: "index", Schema: true, F: func(cn *c14Node) any {
		col, err := cn.n.DB.GetCollectionByName(x.ctx, name)
		if err != nil {
			return map[string]any{"err": errS(err)}
		}
		d, err := col.CreateIndex(x.actorCtx(actor), req)
		all, _ := cn.n.DB.GetAllIndexes(x.ctx)
		return map[string]any{"err": errS(err), "desc": d, "all": all}
	}}, true
}

func (x *c14Run) opDropIndex() (c14Op, bool) {
	var cands []*c14Col
	for _, n := range x.colNames() {
		if len(x.cols[n].Indexes) > 0 {
			cands = append(cands, x.cols[n])
		}
	}
	if len(cands) == 0 {
		return c14Op{}, false
	}
	ci := cands[x.rng.IntN(len(cands))]
	ix := ci.Indexes[x.rng.IntN(len(ci.Indexes))]
	name := ci.Name
	return c14Op{Kind: "dropIndex", Desc: name + " " + ix, Schema: true, F: func(cn *c14Node) any {
		col, err := cn.n.DB.GetCollectionByName(x.ctx, name)
		if err != nil {
			return map[string]any{"err": errS(err)}
		}
		err = col.DropIndex(x.ctx, ix)
		all, _ := cn.n.DB.GetAllIndexes(x.ctx)
		return map[string]any{"err": errS(err), "all": all}
	}}, true
}

func (x *c14Run) pickActor(ci *c14Col) c14Actor {
	if !ci.Policy || len(x.actors) == 1 {
		return x.actors[0]
	}
	// owner mostly
	switch x.rng.IntN(6) {
	case 0:
		return x.actors[0]
	case 1:
		return x.actors[2]
	}
	return x.actors[1]
}

func (x *c14Run) opCreate() (c14Op, bool) {
	ci := x.pickCol()
	if ci == nil {
		return c14Op{}, false
	}
	m := x.genDoc(ci)
	name := ci.Name
	actor := x.pickActor(ci)
	return c14Op{Kind: "create", Desc: fmt.Sprintf("%s as %s %s", name, actor.name, core.Canon(m)), Allocs: "doc", F: func(cn *c14Node) any {
		col, err := cn.n.DB.GetCollectionByName(x.ctx, name)
		if err != nil {
			return map[string]any{"err": errS(err)}
		}
		doc, err := client.NewDocFromMap(m, col.Definition())
		if err != nil {
			return map[string]any{"err": "newdoc: " + errS(err)}
		}
		err = col.Create(x.actorCtx(actor), doc)
		return map[string]any{"err": errS(err), "docID": doc.ID().String()}
	}, After: func(res string) {
		var m struct {
			Err   string `json:"err"`
			DocID string `json:"docID"`
		}
		_ = json.Unmarshal([]byte(res), &m)
		if m.Err == "" && m.DocID != "" {
			x.docs[name] = append(x.docs[name], m.DocID)
			x.docOwner[m.DocID] = actor.name
		}
	}}, true
}

func (x *c14Run) opUpdate() (c14Op, bool) {
	ci := x.pickColWithDocs()
	if ci == nil {
		return c14Op{}, false
	}
	ds := x.docs[ci.Name]
	docID := ds[x.rng.IntN(len(ds))]
	changes := map[string]any{}
	for tries := 0; tries < 6 && len(changes) < 2; tries++ {
		f := ci.Fields[x.rng.IntN(len(ci.Fields))]
		if f.Name == "_docID" {
			continue
		}
		if v, ok := x.genValue(f); ok {
			changes[f.Name] = v
		}
	}
	if len(changes) == 0 {
		return c14Op{}, false
	}
	name := ci.Name
	actor := x.pickActor(ci)
	return c14Op{Kind: "update", Desc: fmt.Sprintf("%s %s as %s %s", name, docID, actor.name, core.Canon(changes)), F: func(cn *c14Node) any {
		col, err := cn.n.DB.GetCollectionByName(x.ctx, name)
		if err != nil {
			return map[string]any{"err": errS(err)}
		}
		id, err := client.NewDocIDFromString(docID)
		if err != nil {
			return map[string]any{"err": errS(err)}
		}
		actx := x.actorCtx(actor)
		dd, err := col.Get(actx, id, false)
		if err != nil {
			return map[string]any{"err": "get: " + errS(err)}
		}
		var ks []string
		for k := range changes {
			ks = append(ks, k)
		}
		sort.Strings(ks)
		for _, k := range ks {
			if err := dd.Set(k, changes[k]); err != nil {
				return map[string]any{"err": "set: " + errS(err)}
			}
		}
		err = col.Update(actx, dd)
		return map[string]any{"err": errS(err)}
	}}, true
}

func (x *c14Run) opDelete() (c14Op, bool) {
	ci := x.pickColWithDocs()
	if ci == nil {
		return c14Op{}, false
	}
	ds := x.docs[ci.Name]
	docID := ds[x.rng.IntN(len(ds))]
	name := ci.Name
	actor := x.pickActor(ci)
	return c14Op{Kind: "delete", Desc: fmt.Sprintf("%s %s as %s", name, docID, actor.name), F: func(cn *c14Node) any {
		col, err := cn.n.DB.GetCollectionByName(x.ctx, name)
		if err != nil {
			return map[string]any{"err": errS(err)}
		}
		id, err := client.NewDocIDFromString(docID)
		if err != nil {
			return map[string]any{"err": errS(err)}
		}
		ok, err := col.Delete(x.actorCtx(actor), id)
		return map[string]any{"err": errS(err), "deleted": ok}
	}}, true
}

func (x *c14Run) gqlOp(kind, req string, actor c14Actor, allocs string, after func(string)) c14Op {
	return c14Op{Kind: kind, Desc: "as " + actor.name + " " + req, Allocs: allocs, After: after, F: func(cn *c14Node) any {
		data, errs := core.ExecGQL(x.actorCtx(actor), cn.n.DB, req)
		return map[string]any{"data": json.RawMessage(data), "errs": errs}
	}}
}

func (x *c14Run) simpleInput(ci *c14Col) map[string]any {
	m := map[string]any{}
	for _, f := range ci.Fields {
		if c14IsSimple(f) && x.rng.IntN(3) > 0 {
			v, _ := x.genValue(f)
			m[f.Name] = v
		}
	}
	x.seq++
	m["name"] = fmt.Sprintf("g%d", x.seq)
	return m
}

func (x *c14Run) opGQLMutation() (c14Op, bool) {
	ci := x.pickCol()
	if ci == nil {
		return c14Op{}, false
	}
	hasName := false
	for _, f := range ci.Fields {
		if f.Name == "name" {
			hasName = true
		}
	}
	if !hasName {
		return c14Op{}, false
	}
	name := ci.Name
	actor := x.pickActor(ci)
	switch k := x.rng.IntN(4); {
	case k <= 1 || len(x.docs[name]) == 0:
		n := 1 + x.rng.IntN(3)
		var ins []string
		for i := 0; i < n; i++ {
			ins = append(ins, c14GQLInput(x.simpleInput(ci)))
		}
		req := fmt.Sprintf(`mutation { create_%s(input: [%s]) { _docID name } }`, name, strings.Join(ins, ", "))
		return x.gqlOp("gqlMutation", req, actor, "doc", func(res string) {
			var m struct {
				Data map[string][]map[string]any `json:"data"`
			}
			_ = json.Unmarshal([]byte(res), &m)
			for _, row := range m.Data["create_"+name] {
				if id, ok := row["_docID"].(string); ok {
					x.docs[name] = append(x.docs[name], id)
					x.docOwner[id] = actor.name
				}
			}
		}), true
	case k == 2:
		// update by filter on name prefix / by docID
		ds := x.docs[name]
		in := x.simpleInput(ci)
		delete(in, "name")
		if len(in) == 0 {
			in["name"] = "upd"
		}
		req := fmt.Sprintf(`mutation { update_%s(docID: %q, input: %s) { _docID name } }`, name, ds[x.rng.IntN(len(ds))], c14GQLInput(in))
		if x.rng.IntN(2) == 0 {
			req = fmt.Sprintf(`mutation { update_%s(filter: {name: {_like: "%%%d"}}, input: %s) { _docID name } }`, name, x.rng.IntN(10), c14GQLInput(in))
		}
		return x.gqlOp("gqlMutation", req, actor, "", nil), true
	default:
		ds := x.docs[name]
		req := fmt.Sprintf(`mutation { delete_%s(docID: %q) { _docID } }`, name, ds[x.rng.IntN(len(ds))])
		return x.gqlOp("gqlMutation", req, actor, "", nil), true
	}
}

func (x *c14Run) opQuery() (c14Op, bool) {
	ci := x.pickCol()
	if ci == nil {
		return c14Op{}, false
	}
	name := ci.Name
	sel := c14DocSelection(ci.Fields)
	actor := x.actors[x.rng.IntN(len(x.actors))]
	var simple []client.FieldDefinition
	for _, f := range ci.Fields {
		if c14IsSimple(f) {
			simple = append(simple, f)
		}
	}
	var req string
	switch x.rng.IntN(9) {
	case 0:
		req = fmt.Sprintf(`query { %s(showDeleted: true) { _docID _deleted %s } }`, name, sel)
	case 1:
		if len(simple) > 0 {
			f := simple[x.rng.IntN(len(simple))]
			v, _ := x.genValue(f)
			op := []string{"_eq", "_ne"}[x.rng.IntN(2)]
			if v != nil && f.Kind != client.FieldKind_NILLABLE_BOOL && x.rng.IntN(2) == 0 {
				op = []string{"_gt", "_le"}[x.rng.IntN(2)]
			}
			req = fmt.Sprintf(`query { %s(filter: {%s: {%s: %s}}) { _docID %s } }`, name, f.Name, op, c14GQLVal(v), sel)
		}
	case 2:
		if len(simple) > 0 {
			f := simple[x.rng.IntN(len(simple))]
			req = fmt.Sprintf(`query { %s(order: {%s: %s}, limit: %d) { _docID %s } }`, name, f.Name, []string{"ASC", "DESC"}[x.rng.IntN(2)], 1+x.rng.IntN(5), f.Name)
		}
	case 3:
		req = fmt.Sprintf(`query { _count(%s: {}) }`, name)
	case 4:
		if ds := x.docs[name]; len(ds) > 0 {
			req = fmt.Sprintf(`query { commits(docID: %q) { cid height fieldName delta links { cid name } } }`, ds[x.rng.IntN(len(ds))])
		}
	case 5:
		if ds := x.docs[name]; len(ds) > 0 {
			req = fmt.Sprintf(`query { latestCommits(docID: %q) { cid height } }`, ds[x.rng.IntN(len(ds))])
		}
	case 6:
		if ds := x.docs[name]; len(ds) > 0 {
			req = fmt.Sprintf(`query { %s(docID: %q) { _docID name _version { cid height } } }`, name, ds[x.rng.IntN(len(ds))])
		}
	case 7:
		if name == "Pa" {
			req = `query { Pa { _docID name cs { _docID name } } }`
		} else if name == "Ch" {
			req = `query { Ch { _docID name p { _docID name } } }`
		}
	}
	if req == "" {
		req = fmt.Sprintf(`query { %s { _docID %s } }`, name, sel)
	}
	return x.gqlOp("query", req, actor, "", nil), true
}

// ACP operations

func (x *c14Run) opAddPolicy() (c14Op, bool) {
	if x.p.Profile != "acp" || len(x.policyIDs) >= 3 {
		return c14Op{}, false
	}
	owner := x.actors[1]
	pol := strings.Replace(c14Policy, "name: test", fmt.Sprintf("name: test%d", len(x.policyIDs)), 1)
	return c14Op{Kind: "addPolicy", Desc: fmt.Sprintf("policy #%d as owner", len(x.policyIDs)), Allocs: "policy", Schema: true, F: func(cn *c14Node) any {
		res, err := cn.n.DB.AddDACPolicy(x.actorCtx(owner), pol)
		return map[string]any{"err": errS(err), "policyID": res.PolicyID}
	}, After: func(res string) {
		var m struct {
			Err      string `json:"err"`
			PolicyID string `json:"policyID"`
		}
		_ = json.Unmarshal([]byte(res), &m)
		if m.Err == "" && m.PolicyID != "" {
			x.policyIDs = append(x.policyIDs, m.PolicyID)
		}
	}}, true
}

func (x *c14Run) pickPolicyDoc() (string, string, bool) {
	var cands []string
	for _, n := range x.colNames() {
		if x.cols[n].Policy && len(x.docs[n]) > 0 {
			cands = append(cands, n)
		}
	}
	if len(cands) == 0 {
		return "", "", false
	}
	n := cands[x.rng.IntN(len(cands))]
	ds := x.docs[n]
	// prefer documents created by the owner (anonymous creates are public and have no owner)
	for tries := 0; tries < 4; tries++ {
		d := ds[x.rng.IntN(len(ds))]
		if x.docOwner[d] == "owner" {
			return n, d, true
		}
	}
	return n, ds[x.rng.IntN(len(ds))], true
}

func (x *c14Run) opRel(del bool) (c14Op, bool) {
	if x.p.Profile != "acp" {
		return c14Op{}, false
	}
	col, docID, ok := x.pickPolicyDoc()
	if !ok {
		return c14Op{}, false
	}
	by := x.actors[1]
	if x.rng.IntN(8) == 0 {
		by = x.actors[2] // not the owner: must be refused alike
	}
	target := x.actors[2].did
	if x.rng.IntN(6) == 0 {
		target = "*"
	}
	if del {
		return c14Op{Kind: "delRel", Desc: fmt.Sprintf("%s %s reader %s by %s", col, docID, target, by.name), Schema: true, F: func(cn *c14Node) any {
			res, err := cn.n.DB.DeleteDACActorRelationship(x.actorCtx(by), col, docID, "reader", target)
			return map[string]any{"err": errS(err), "found": res.RecordFound}
		}}, true
	}
	return c14Op{Kind: "addRel", Desc: fmt.Sprintf("%s %s reader %s by %s", col, docID, target, by.name), Schema: true, F: func(cn *c14Node) any {
		res, err := cn.n.DB.AddDACActorRelationship(x.actorCtx(by), col, docID, "reader", target)
		return map[string]any{"err": errS(err), "existed": res.ExistedAlready}
	}}, true
}

// P2P configuration operations (p2p profile). Targets are deterministic peer ids at an address
// where nobody listens: what is examined is the persisted configuration and its reload.

func (x *c14Run) p2pTarget() peer.AddrInfo {
	t := x.targets[x.rng.IntN(len(x.targets))]
	return t
}

func (x *c14Run) someColNames(max int) []string {
	ns := x.colNames()
	if len(ns) == 0 {
		return nil
	}
	k := x.rng.IntN(max + 1)
	var out []string
	for _, i := range x.rng.Perm(len(ns)) {
		if len(out) >= k {
			break
		}
		out = append(out, ns[i])
	}
	sort.Strings(out)
	return out
}

// waitReplicatorCompleted: SetReplicator pushes existing documents asynchronously after its
// commit and records the failures in the peerstore; the next step starts when that has finished.
func (x *c14Run) awaitReplicator(cn *c14Node, f func() error) error {
	sub, err := cn.n.DB.Events().Subscribe(event.ReplicatorCompletedName)
	if err != nil {
		x.unstable = true
		return f()
	}
	defer cn.n.DB.Events().Unsubscribe(sub)
	if err := f(); err != nil {
		return err
	}
	select {
	case <-sub.Message():
	case <-time.After(90 * time.Second):
		// not an oracle: without the completion event the background bookkeeping may still be
		// running, so the rest of this history is not compared (counted as a note)
		x.unstable = true
	}
	return nil
}

func (x *c14Run) opP2P(kind string) (c14Op, bool) {
	if x.p.Profile != "p2p" || len(x.cols) == 0 {
		return c14Op{}, false
	}
	res := func(cn *c14Node, err error) any {
		return map[string]any{"err": errS(err), "state": x.p2pState(cn)}
	}
	switch kind {
	case "setReplicator":
		t, names := x.p2pTarget(), x.someColNames(2)
		return c14Op{Kind: kind, Desc: fmt.Sprintf("%s %v", t.ID, names), Schema: true, Allocs: "replicator", F: func(cn *c14Node) any {
			return res(cn, x.awaitReplicator(cn, func() error { return cn.peer.SetReplicator(x.ctx, t, names...) }))
		}}, true
	case "setReplicatorSplit0", "setReplicatorSplit1":
		// deterministic shape: replicator i gets exactly the i-th collection (two replicators with
		// DIFFERENT collection sets on one node: the routing table rebuilt on start must keep them apart)
		i := int(kind[len(kind)-1] - '0')
		ns := x.colNames()
		if len(ns) < 2 {
			return c14Op{}, false
		}
		t, names := x.targets[i], []string{ns[i]}
		return c14Op{Kind: "setReplicator", Desc: fmt.Sprintf("%s %v", t.ID, names), Schema: true, Allocs: "replicator", F: func(cn *c14Node) any {
			return res(cn, x.awaitReplicator(cn, func() error { return cn.peer.SetReplicator(x.ctx, t, names...) }))
		}}, true
	case "delReplicator":
		t, names := x.p2pTarget(), x.someColNames(1)
		return c14Op{Kind: kind, Desc: fmt.Sprintf("%s %v", t.ID, names), Schema: true, F: func(cn *c14Node) any {
			return res(cn, cn.peer.DeleteReplicator(x.ctx, t, names...))
		}}, true
	case "addP2PCol", "delP2PCol":
		names := x.someColNames(2)
		if len(names) == 0 {
			names = x.colNames()[:1]
		}
		return c14Op{Kind: kind, Desc: fmt.Sprint(names), Schema: true, F: func(cn *c14Node) any {
			if kind == "addP2PCol" {
				return res(cn, cn.peer.AddP2PCollections(x.ctx, names...))
			}
			return res(cn, cn.peer.RemoveP2PCollections(x.ctx, names...))
		}}, true
	case "addP2PDoc", "delP2PDoc":
		ci := x.pickColWithDocs()
		if ci == nil {
			return c14Op{}, false
		}
		ds := x.docs[ci.Name]
		ids := []string{ds[x.rng.IntN(len(ds))]}
		if x.rng.IntN(2) == 0 {
			ids = append(ids, ds[x.rng.IntN(len(ds))])
		}
		return c14Op{Kind: kind, Desc: fmt.Sprint(ids), Schema: true, F: func(cn *c14Node) any {
			if kind == "addP2PDoc" {
				return res(cn, cn.peer.AddP2PDocuments(x.ctx, ids...))
			}
			return res(cn, cn.peer.RemoveP2PDocuments(x.ctx, ids...))
		}}, true
	}
	return c14Op{}, false
}

func (x *c14Run) makeOp(kind string) (c14Op, bool) {
	switch kind {
	case "setReplicator", "delReplicator", "addP2PCol", "delP2PCol", "addP2PDoc", "delP2PDoc", "setReplicatorSplit0", "setReplicatorSplit1":
		return x.opP2P(kind)
	case "addSchema":
		return x.opAddSchema()
	case "patchSchema":
		return x.opPatchSchema()
	case "setActive":
		return x.opSetActive()
	case "createIndex":
		return x.opCreateIndex()
	case "dropIndex":
		return x.opDropIndex()
	case "create":
		return x.opCreate()
	case "update":
		return x.opUpdate()
	case "delete":
		return x.opDelete()
	case "gqlMutation":
		return x.opGQLMutation()
	case "query":
		return x.opQuery()
	case "addPolicy":
		return x.opAddPolicy()
	case "addRel":
		return x.opRel(false)
	case "delRel":
		return x.opRel(true)
	}
	return c14Op{}, false
}

type c14Weighted struct {
	kind string
	w    int
}

func (x *c14Run) randomKind() string {
	ws := []c14Weighted{{"addSchema", 5}, {"patchSchema", 7}, {"setActive", 5}, {"createIndex", 8}, {"dropIndex", 4},
		{"create", 22}, {"update", 10}, {"delete", 5}, {"gqlMutation", 7}, {"query", 14}}
	if x.p.Profile == "acp" {
		ws = append(ws, c14Weighted{"addPolicy", 3}, c14Weighted{"addRel", 9}, c14Weighted{"delRel", 5})
	}
	if x.p.Profile == "p2p" {
		ws = append(ws, c14Weighted{"setReplicator", 8}, c14Weighted{"delReplicator", 4}, c14Weighted{"addP2PCol", 7}, c14Weighted{"delP2PCol", 3},
			c14Weighted{"addP2PDoc", 7}, c14Weighted{"delP2PDoc", 3})
	}
	t := 0
	for _, w := range ws {
		t += w.w
	}
	k := x.rng.IntN(t)
	for _, w := range ws {
		if k < w.w {
			return w.kind
		}
		k -= w.w
	}
	return "create"
}

// nextOp builds an operation of the wanted kind, falling back to what is possible.
func (x *c14Run) nextOp(kind string) c14Op {
	if op, ok := x.makeOp(kind); ok {
		return op
	}
	fallback := []string{"addSchema", "create", "query"}
	if x.p.Profile == "acp" {
		fallback = []string{"addPolicy", "addSchema", "create", "query"}
	}
	for _, k := range fallback {
		if len(x.cols) == 0 && k != "addSchema" && k != "addPolicy" {
			continue
		}
		if op, ok := x.makeOp(k); ok {
			return op
		}
	}
	// nothing possible (cannot happen: addSchema is possible on an empty node)
	return c14Op{Kind: "noop", Desc: "", F: func(cn *c14Node) any { return nil }}
}

// ---------------------------------------------------------------------------------------
// restart

func (x *c14Run) restart(i int) bool {
	cn := x.sut
	x.logf("%d restart %s", i, cn.name)
	before := x.dump(cn)
	if cn.peer != nil {
		cn.peer.Close()
		cn.peer = nil
	}
	cn.n.Close()
	n, err := core.NewNodeErr(x.ctx, cn.opts)
	if err != nil {
		x.r.Violate("restart/reopen-fails", "reopening the node on its own store fails: "+err.Error(), x.detail(nil))
		x.failed = true
		cn.n = nil
		return false
	}
	cn.n = n
	if x.p.Profile == "p2p" {
		if err := x.startPeer(cn); err != nil {
			x.r.Violate("restart/peer-fails-to-start", "starting the peer on the reopened node fails: "+err.Error(), x.detail(nil))
			x.failed = true
			return false
		}
	}
	cn.restarts++
	x.r.Count("restarts", 1)
	x.r.Count("evaluations", 1)
	for k := range x.kindsBefore {
		x.r.Count("before_restart_"+k, 1)
	}
	x.restartPos = append(x.restartPos, i)
	after := x.dump(cn)
	refd := x.dump(x.ref)
	x.r.Count("dump_comparisons", 2)
	if cls, name, a, b := c14DiffDumps(before, after); cls != "" {
		x.r.Violate("restart/dump-differs-from-own-dump-before-close/"+cls,
			fmt.Sprintf("section %s of the dump taken after reopening differs from the dump taken just before closing: %s", name, c14FirstDiff(a, b)),
			x.detail(map[string]any{"section": name, "before": c14Trunc(a), "after": c14Trunc(b)}))
		x.failed = true
		return false
	}
	if cls, name, a, b := c14DiffDumps(refd, after); cls != "" {
		x.r.Violate("restart/dump-differs-from-never-restarted-twin/"+cls,
			fmt.Sprintf("section %s of the dump of the restarted node differs from the twin that never stopped: %s", name, c14FirstDiff(a, b)),
			x.detail(map[string]any{"section": name, "twin": c14Trunc(a), "restarted": c14Trunc(b)}))
		x.failed = true
		return false
	}
	return true
}

// ---------------------------------------------------------------------------------------
// crash prefixes

func (x *c14Run) crashPrefixes() {
	commits := x.ref.fault.Commits()
	perOp := map[int]int{}
	lastOfOp := map[int]int{}
	for j, c := range commits {
		perOp[c.OpIndex]++
		lastOfOp[c.OpIndex] = j
	}
	for op, k := range perOp {
		if op == 0 {
			continue
		}
		if k == 1 {
			x.r.Count("crash_ops_single_commit", 1)
		} else {
			x.r.Count("crash_ops_multi_commit", 1)
		}
	}
	x.r.Count("crash_commits_logged", int64(len(commits)))
	for j := 0; j <= len(commits); j++ {
		store := core.OpenStore(core.NodeOpts{})
		for _, c := range commits[:j] {
			txn := store.NewTxn(false)
			for _, w := range c.Writes {
				if w.Delete {
					core.Must(txn.Delete(x.ctx, w.Key))
				} else {
					core.Must(txn.Set(x.ctx, w.Key, w.Value))
				}
			}
			core.Must(txn.Commit())
		}
		x.r.Count("crash_prefixes_replayed", 1)
		x.r.Count("evaluations", 1)
		where := "empty store"
		opIdx := -1
		strong := false
		if j > 0 {
			opIdx = commits[j-1].OpIndex
			strong = lastOfOp[opIdx] == j-1
			where = fmt.Sprintf("commit %d of %d (operation %d, commit %d of its %d)", j, len(commits), opIdx, perOp[opIdx]-(lastOfOp[opIdx]-(j-1)), perOp[opIdx])
		}
		n, err := core.NewNodeErr(x.ctx, core.NodeOpts{Existing: store})
		if err != nil {
			sig := "crash-prefix/open-fails/mid-operation"
			if strong || j == 0 {
				sig = "crash-prefix/open-fails/operation-boundary"
			}
			x.r.Violate(sig, fmt.Sprintf("opening a DB on the store contents as of %s fails: %s", where, err), x.detail(map[string]any{"prefix": j}))
			_ = store.Close()
			x.failed = true
			return
		}
		tmp := &c14Node{name: "prefix", n: n, key: x.p2pKey}
		if x.p.Profile == "p2p" {
			if err := x.startPeer(tmp); err != nil {
				x.r.Violate("crash-prefix/peer-fails-to-start", fmt.Sprintf("starting a peer on a DB opened on the store contents as of %s fails: %s", where, err), x.detail(map[string]any{"prefix": j}))
				n.Close()
				x.failed = true
				return
			}
		}
		got := x.dump(tmp)
		if tmp.peer != nil {
			tmp.peer.Close()
		}
		// structural audit of the commit graph at every prefix (also inside multi-commit operations)
		x.r.Count("crash_prefix_dag_audits", 1)
		if what, d := c14AuditDAG(x.ctx, n); what != "" {
			x.r.Violate("crash-prefix/dag-audit/"+what, fmt.Sprintf("store contents as of %s: %s", where, d), x.detail(map[string]any{"prefix": j}))
			n.Close()
			x.failed = true
			return
		}
		if j == 0 {
			// an empty store is simply a new database (the /init marker is commit 1)
			x.r.Count("crash_prefix_empty", 1)
		} else if strong {
			x.r.Count("crash_prefix_boundary_compared", 1)
			want := x.boundary[opIdx]
			if cls, name, a, b := c14DiffDumps(want, got); cls != "" {
				x.r.Violate("crash-prefix/dump-differs-at-operation-boundary/"+cls,
					fmt.Sprintf("a DB opened on the store contents as of %s differs in section %s from the live node at that operation boundary: %s", where, name, c14FirstDiff(a, b)),
					x.detail(map[string]any{"prefix": j, "section": name, "live": c14Trunc(a), "reopened": c14Trunc(b)}))
				n.Close()
				x.failed = true
				return
			}
		} else {
			x.r.Count("crash_prefix_mid_operation", 1)
			// inside a multi-commit operation: every query of the dump returned (x.dump did not hang or panic)
		}
		n.Close()
	}
}

// c14AuditDAG: every stored head names a stored block, and the link closure of the heads is
// completely stored (a node that only ever wrote locally holds every block it links to).
func c14AuditDAG(ctx context.Context, n *core.Node) (string, string) {
	seen := map[string]bool{}
	var walk func(c cid.Cid, from string) (string, string)
	walk = func(c cid.Cid, from string) (string, string) {
		if seen[c.KeyString()] {
			return "", ""
		}
		seen[c.KeyString()] = true
		blk, _, err := n.GetBlock(ctx, c)
		if err != nil {
			if from == "" {
				return "head-without-block", fmt.Sprintf("head %s has no stored block: %v", c, err)
			}
			return "dangling-link", fmt.Sprintf("block %s links to %s which is not stored: %v", from, c, err)
		}
		for _, l := range blk.AllLinks() {
			if w, d := walk(l.Cid, c.String()); w != "" {
				return w, d
			}
		}
		return "", ""
	}
	var ks []string
	for k := range n.RawScan(ctx, "/db/heads/") {
		ks = append(ks, k)
	}
	sort.Strings(ks)
	for _, k := range ks {
		c, err := cid.Decode(k[strings.LastIndexByte(k, '/')+1:])
		if err != nil {
			return "unparsable-head-key", k
		}
		if w, d := walk(c, ""); w != "" {
			return w, d + " (head key " + k + ")"
		}
	}
	return "", ""
}

// ---------------------------------------------------------------------------------------
// one case

func c14Identity(rng *rand.Rand) identity.Identity {
	seed := make([]byte, 32)
	for i := range seed {
		seed[i] = byte(rng.IntN(256))
	}
	priv := crypto.NewPrivateKey(ed25519.NewKeyFromSeed(seed))
	id, err := identity.FromPrivateKey(priv)
	core.Must(err)
	return id
}

func runC14(ctx context.Context, c core.Case, r *core.Rec) {
	var p c14Params
	c.P(&p)
	if p.Mode == "retry-restart" {
		runC14RetryRestart(ctx, c, r)
		return
	}
	x := &c14Run{ctx: ctx, r: r, rng: c.Rng(), p: p, c: c, cols: map[string]*c14Col{}, docs: map[string][]string{}, docOwner: map[string]string{},
		poolUsed: map[int]bool{}, kindsBefore: map[string]bool{}, allocAfter: map[string]bool{}, boundary: map[int][]c14Section{}}
	x.actors = []c14Actor{{name: "anon"}}
	acp := p.Profile == "acp"
	if acp {
		for _, name := range []string{"owner", "reader"} {
			id := c14Identity(x.rng)
			x.actors = append(x.actors, c14Actor{name: name, id: immutable.Some[identity.Identity](id), did: id.DID()})
		}
	}
	base := c14ScratchBase()
	x.dir = filepath.Join(base, fmt.Sprintf("case-%d-%d-%d", os.Getpid(), c.Index, c.Seed))
	_ = os.RemoveAll(x.dir)
	core.Must(os.MkdirAll(x.dir, 0o755))
	defer os.RemoveAll(x.dir)

	p2p := p.Profile == "p2p"
	if p2p {
		for i := 0; i < 2; i++ {
			_, id := c14Libp2pKey(x.rng)
			addr, err := ma.NewMultiaddr(fmt.Sprintf("/ip4/127.0.0.1/tcp/%d", 1+i))
			core.Must(err)
			x.targets = append(x.targets, peer.AddrInfo{ID: id, Addrs: []ma.Multiaddr{addr}})
		}
	}
	mk := func(name string, o core.NodeOpts) *c14Node {
		cn := &c14Node{name: name, opts: o, idxSeen: map[string]map[uint32]string{}}
		cn.n = core.NewNode(ctx, o)
		x.nodes = append(x.nodes, cn)
		if p2p {
			// every node of the case has the same libp2p identity (they never meet)
			if x.p2pKey == nil {
				x.p2pKey, _ = c14Libp2pKey(x.rng)
			}
			cn.key = x.p2pKey
			core.Must(x.startPeer(cn))
		}
		return cn
	}
	defer func() {
		for _, cn := range x.nodes {
			if cn.peer != nil {
				cn.peer.Close()
			}
			if cn.n != nil {
				cn.n.Close()
			}
		}
	}()
	if p.Mode == "crash" {
		// the commit log must be on before the DB is opened so that the /init commit is logged:
		// the fault store is built here and handed to the node as its (existing) store
		fk := core.NewFaultKV(core.OpenStore(core.NodeOpts{}))
		fk.EnableCommitLog()
		x.ref = mk("N3", core.NodeOpts{Existing: fk})
		x.ref.fault = fk
	} else {
		x.ref = mk("N2", core.NodeOpts{ACP: acp})
		o := core.NodeOpts{Store: "file", Path: filepath.Join(x.dir, "n1"), ACP: acp}
		if acp {
			o.ACPPath = filepath.Join(x.dir, "acp1")
			core.Must(os.MkdirAll(o.ACPPath, 0o755))
		}
		core.Must(os.MkdirAll(o.Path, 0o755))
		x.sut = mk("N1", o)
	}

	// the schedule: op kinds and restart points
	script := p.Script
	if len(script) == 0 {
		restartAt := map[int]bool{}
		if p.Mode == "twin" {
			for len(restartAt) < p.Restarts && len(restartAt) < p.NOps-3 {
				restartAt[2+x.rng.IntN(p.NOps-3)] = true
			}
		}
		for i := 0; i < p.NOps; i++ {
			if restartAt[i] {
				script = append(script, "restart")
			}
			script = append(script, "")
		}
	}

	if p.Mode == "crash" {
		x.boundary[0] = x.dump(x.ref)
	}
	i := 0
	for _, kind := range script {
		if kind == "restart" {
			if x.sut == nil {
				continue
			}
			if !x.restart(i) {
				break
			}
			continue
		}
		i++
		if kind == "" {
			kind = x.randomKind()
		}
		op := x.nextOp(kind)
		if !x.exec(i, op) {
			break
		}
		if p.Mode == "crash" {
			x.boundary[i] = x.dump(x.ref)
		}
	}
	if !x.failed && x.sut != nil {
		// final comparison of the complete dumps
		a, b := x.dump(x.ref), x.dump(x.sut)
		x.r.Count("dump_comparisons", 1)
		if cls, name, av, bv := c14DiffDumps(a, b); cls != "" {
			x.r.Violate("post-restart/final-dump-differs-from-never-restarted-twin/"+cls,
				fmt.Sprintf("at the end of the history section %s of the dump differs between the restarted node and its twin: %s", name, c14FirstDiff(av, bv)),
				x.detail(map[string]any{"section": name, "twin": c14Trunc(av), "restarted": c14Trunc(bv)}))
			x.failed = true
		}
	}
	if !x.failed && p.Mode == "crash" {
		x.crashPrefixes()
	}

	// coverage accounting
	if x.sut != nil && x.sut.restarts > 0 {
		r.Count("histories_with_restart", 1)
		nonTrivial := false
		// >=1 schema/index/ACP op before the first restart and >=1 identifier-allocating op after it
		first := x.restartPos[0]
		schemaBefore := false
		for k, kind := range x.kindSeq {
			if k < first && c14IsSchemaKind(kind) {
				schemaBefore = true
			}
		}
		if schemaBefore && len(x.allocAfter) > 0 {
			nonTrivial = true
		}
		if nonTrivial {
			r.Count("nontrivial_histories", 1)
			var before []string
			seen := map[string]bool{}
			for k, kind := range x.kindSeq {
				if k < first && !seen[kind] {
					seen[kind] = true
					before = append(before, kind)
				}
			}
			sort.Strings(before)
			r.Nontrivial(fmt.Sprintf("twin|%s|%s|%v", p.Profile, strings.Join(before, ","), x.restartPos))
		}
	}
	if p.Mode == "crash" && !x.failed {
		r.Count("crash_histories", 1)
		r.Nontrivial(fmt.Sprintf("crash|%s|%s", p.Profile, strings.Join(x.kindSeq, ",")))
	}
	r.Sample(map[string]any{"case": c, "ops": len(x.kindSeq), "restart_positions": x.restartPos, "first_ops": c14OpLines(x.log, 14)})
}

// c14ScratchBase: where the file stores of the restarted node live. VERIF_SCRATCH=<dir> selects a
// directory explicitly; otherwise a tmpfs (/dev/shm) is preferred when there is one, and
// core.WorkDir("C14") is the fallback. Reason: badger (manifest, memtable) and the goleveldb of the
// persistent local ACP fsync on every open and close; on a disk shared with other running checks
// one restart then costs seconds instead of milliseconds (measured: quick tier 25-50 s on tmpfs,
// 400 s on the busy disk) and cases run into the hang watchdog. What is examined — DefraDB's
// load code on a reopened file store — does not depend on the file system underneath.
// Directories of worker processes that no longer exist are removed on the way.
func c14ScratchBase() string {
	base := ""
	if d := os.Getenv("VERIF_SCRATCH"); d != "" {
		base = filepath.Join(d, "C14")
	} else if st, err := os.Stat("/dev/shm"); err == nil && st.IsDir() {
		base = filepath.Join("/dev/shm", "verif-scratch", "C14")
	}
	if base != "" {
		if err := os.MkdirAll(base, 0o755); err != nil {
			base = ""
		} else if f, err := os.CreateTemp(base, "probe"); err != nil {
			base = ""
		} else {
			f.Close()
			os.Remove(f.Name())
		}
	}
	if base == "" {
		base = core.WorkDir("C14")
	}
	if es, err := os.ReadDir(base); err == nil {
		for _, e := range es {
			var pid, a int
			var b uint64
			if n, _ := fmt.Sscanf(e.Name(), "case-%d-%d-%d", &pid, &a, &b); n == 3 && pid != os.Getpid() {
				if _, err := os.Stat(fmt.Sprintf("/proc/%d", pid)); os.IsNotExist(err) {
					_ = os.RemoveAll(filepath.Join(base, e.Name()))
				}
			}
		}
	}
	return base
}

func c14OpLines(log []string, n int) []string {
	var out []string
	for _, l := range log {
		if !strings.HasPrefix(l, "   ") && len(out) < n {
			out = append(out, c14Trunc(l)[:min(len(l), 200)])
		}
	}
	return out
}

func c14IsSchemaKind(k string) bool {
	switch k {
	case "addSchema", "patchSchema", "setActive", "createIndex", "dropIndex", "addPolicy", "addRel", "delRel",
		"setReplicator", "delReplicator", "addP2PCol", "delP2PCol", "addP2PDoc", "delP2PDoc":
		return true
	}
	return false
}

func init() {
	floors := []string{"restarts", "dump_comparisons", "post_restart_ops_compared", "nontrivial_histories",
		"post_restart_alloc_collection", "post_restart_alloc_field", "post_restart_alloc_index", "post_restart_alloc_doc", "post_restart_alloc_policy",
		"crash_prefixes_replayed", "crash_prefix_boundary_compared", "crash_prefix_mid_operation", "crash_prefix_dag_audits", "crash_histories", "id_reuse_checks",
		"retry_restart_crash_point_reached", "retry_restart_reopened_with_record_in_state_retrying"}
	for _, k := range c14KindsPlain {
		floors = append(floors, "before_restart_"+k)
	}
	for _, k := range c14KindsACP {
		floors = append(floors, "before_restart_"+k)
	}
	for _, k := range c14KindsP2P {
		floors = append(floors, "before_restart_"+k)
	}
	core.Register(&core.Check{
		ID: "C14", Level: "exploration",
		Rule: "generated histories (10-40 operations: AddSchema, PatchSchema add-field, SetActiveSchemaVersion, CreateIndex/DropIndex, document CRUD through the collection API and GraphQL, " +
			"local DAC policies and relationships, queries) applied in lock-step to a file-store node that is closed and reopened at 1-4 generated points and to an in-memory twin that never stops; " +
			"after each restart full canonical dumps are compared (own dump before close, and twin), afterwards every operation result; " +
			"crash part (fault_enumeration style): for every commit index of a history a fresh store is built from the logged write-sets and opened. " +
			"non-trivial = >=1 schema/index/ACP operation before the first restart and >=1 identifier-allocating operation after it; distinct by (profile, operation kinds before the first restart, restart positions).",
		Cases:       c14Cases,
		Run:         runC14,
		Floors:      floors,
		CaseTimeout: 10 * time.Minute, // generous: a case is normally < 3 s, but store open/close fsyncs stall on a loaded disk
		Exhaustive:  func(tier string) bool { return false },
		Assumptions: []string{
			"crash points are commit boundaries of the key-value store; torn storage commits are not generated (corekv commit atomicity is trusted)",
			"signing off and no counter fields, so that cids are reproducible across the twin nodes",
			"the state inside a multi-commit API operation is unspecified: only 'opens and every dump query returns' is demanded there",
			"all commit prefixes of each crash history are replayed (exhaustive per history), the set of histories is sampled",
		},
	})
}
