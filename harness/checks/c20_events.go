package checks

// C20 — update notifications are complete, ordered and only for committed changes.
//
// One case = one mutation history on one node, observed by k bus recorders (update events) and
// by GraphQL subscriptions (one with a generated filter, one without). Ground truth for "what
// was committed" is the raw block store: after every operation the new composite / collection
// blocks are diffed out of /db/blocks. See DESIGN.md section 6, C20.

import (
	"bytes"
	"context"
	"encoding/hex"
	"encoding/json"
	"fmt"
	"math/rand/v2"
	"runtime"
	"sort"
	"strings"
	"sync"
	"time"

	"github.com/ipfs/go-cid"
	mh "github.com/multiformats/go-multihash"

	"github.com/sourcenetwork/defradb/client"
	"github.com/sourcenetwork/defradb/event"
	coreblock "github.com/sourcenetwork/defradb/internal/core/block"
	"github.com/sourcenetwork/defradb/internal/db"
	"github.com/sourcenetwork/defradb/verifharness/core"
)

type c20Params struct {
	Config   string   `json:"config"` // plain | branchable
	Subs     int      `json:"subs"`   // number of bus recorders
	Steps    int      `json:"steps"`
	Filter   int      `json:"filter"`           // index into c20Filters
	Script   []string `json:"script,omitempty"` // anchors: forced step kinds
	Parallel bool     `json:"parallel,omitempty"`
}

var c20Filters = []string{
	`{i: {_ge: 2}}`,
	`{i: {_eq: 1}}`,
	`{s: {_eq: "a"}}`,
	`{_and: [{i: {_le: 2}}, {s: {_ne: "a"}}]}`,
	`{_or: [{i: {_eq: 3}}, {s: {_eq: "b"}}]}`,
	`{i: {_eq: null}}`,
	`{n: {_gt: 2}}`,
}

const c20Marker = "__marker"

// subscription stall watchdog: a result that has not arrived by then will never arrive (queries
// take milliseconds); a logical barrier through the subscription goroutine does not exist.
const c20StallTimeout = 90 * time.Second

func c20SDL(config string) string {
	dir := ""
	if config == "branchable" {
		dir = "@branchable"
	}
	return fmt.Sprintf(`type Doc %s {
	name: String
	i: Int
	s: String
	f: Float
	u: Int @index(unique: true)
	n: Int @crdt(type: pncounter)
}
type Other {
	x: String
	v: Int
}`, dir)
}

// ---------------------------------------------------------------------------------------

type c20Commit struct {
	Cid        string
	DocID      string // "" = collection-level
	Collection bool
	Deleted    bool
	Other      bool // belongs to collection Other
}

type c20SubResult struct {
	Docs []map[string]any
	Errs []string
	Raw  string
}

type c20Sub struct {
	name   string
	filter string // "" = none
	mu     sync.Mutex
	log    []c20SubResult
	notify chan struct{}
	pos    int
	dead   bool
	cancel context.CancelFunc
	done   chan struct{}
}

type c20Hist struct {
	ctx                   context.Context
	p                     c20Params
	r                     *core.Rec
	rng                   *rand.Rand
	n                     *core.Node
	col                   client.Collection
	oth                   client.Collection
	docV                  string // schema version id of Doc
	recs                  []*core.BusRecorder
	rpos                  int // events of recorder 0 consumed so far
	subs                  []*c20Sub
	blocks                map[string]bool
	live, deleted, others []string
	marker                string
	nextID                int
	step                  int
	log                   []string
	failed, multi         bool
	tuples                map[string]bool
	badReceipt            int
	origin                map[string]map[string]any // docID -> creation input
	abort                 bool
	oldSubG               map[string]bool // subscription goroutines left over from earlier cases of this worker
}

func (h *c20Hist) logf(format string, a ...any) {
	h.log = append(h.log, fmt.Sprintf("%03d ", h.step)+fmt.Sprintf(format, a...))
}

func (h *c20Hist) detail(extra map[string]any) map[string]any {
	m := map[string]any{"config": h.p.Config, "recorders": h.p.Subs, "history": h.log}
	if len(h.log) > 60 {
		m["history"] = h.log[len(h.log)-60:]
	}
	for k, v := range extra {
		m[k] = v
	}
	return m
}

func (h *c20Hist) violate(sig, msg string, extra map[string]any) {
	h.r.Violate(sig, msg, h.detail(extra))
}

// newCommits diffs /db/blocks against the last call and returns the new composite and
// collection blocks (= the document-level and collection-level commits that were committed).
func (h *c20Hist) newCommits() []c20Commit {
	var out []c20Commit
	raw := h.n.RawScan(h.ctx, "/db/blocks")
	for k, v := range raw {
		if h.blocks[k] {
			continue
		}
		h.blocks[k] = true
		blk, err := coreblock.GetFromBytes([]byte(v))
		if err != nil {
			continue
		}
		if !blk.Delta.IsComposite() && !blk.Delta.IsCollection() {
			continue
		}
		l, err := blk.GenerateLink()
		core.Must(err)
		c := c20Commit{Cid: l.Cid.String(), DocID: string(blk.Delta.GetDocID()), Collection: blk.Delta.IsCollection()}
		if blk.Delta.IsComposite() {
			c.Deleted = blk.Delta.DocCompositeDelta.Status.IsDeleted()
			c.Other = blk.Delta.GetSchemaVersionID() != h.docV
		}
		out = append(out, c)
	}
	sort.Slice(out, func(a, b int) bool { return out[a].Cid < out[b].Cid })
	return out
}

func (h *c20Hist) barrier() {
	for _, rc := range h.recs {
		rc.Barrier()
	}
}

// takeEvents returns the events recorder 0 received since the last call.
func (h *c20Hist) takeEvents() []core.BusEvent {
	evs := h.recs[0].Events()
	out := evs[h.rpos:]
	h.rpos = len(evs)
	return out
}

// checkEvents: the events of one quiescent window must be in bijection (by cid) with the commits
// found in the store for that window; docIDs must agree.
func (h *c20Hist) checkEvents(kind, outcome string, evs []core.BusEvent, commits []c20Commit) {
	h.r.Count("evaluations", 1)
	h.r.Count("events_seen", int64(len(evs)))
	h.r.Count("commits_seen", int64(len(commits)))
	want := map[string]c20Commit{}
	for _, c := range commits {
		want[c.Cid] = c
		if c.Collection {
			h.r.Count("collection_level_commits", 1)
		}
	}
	got := map[string]int{}
	for _, e := range evs {
		got[e.Cid]++
		if c, ok := want[e.Cid]; ok && c.DocID != e.DocID {
			h.violate("event/docid-differs-from-block", fmt.Sprintf("update event for %s names document %q, the block says %q", e.Cid, e.DocID, c.DocID), nil)
		}
	}
	var missing, extra, dup []string
	missKind := ""
	for cidS, c := range want {
		if got[cidS] == 0 {
			missing = append(missing, cidS)
			switch {
			case c.Collection:
				missKind = "collection-level"
			case c.Deleted && missKind == "":
				missKind = "delete"
			case missKind == "":
				missKind = "document-level"
			}
		}
	}
	for cidS, n := range got {
		if _, ok := want[cidS]; !ok {
			extra = append(extra, cidS)
		} else if n > 1 {
			dup = append(dup, cidS)
		}
	}
	ex := map[string]any{"operation": kind, "outcome": outcome, "events": c20EventList(evs), "commits_in_store": commits}
	if outcome != "success" && (len(evs) > 0 || len(commits) > 0) {
		if len(evs) > 0 {
			h.violate("event/for-"+outcome+"-operation", fmt.Sprintf("%s ended as %q and %d update event(s) were published (%d commits in the store)", kind, outcome, len(evs), len(commits)), ex)
		} else {
			h.violate("commit/left-by-"+outcome+"-operation", fmt.Sprintf("%s ended as %q but left %d new commit block(s) in the store", kind, outcome, len(commits)), ex)
		}
		return
	}
	if len(missing) > 0 {
		h.violate("event/missing/"+missKind, fmt.Sprintf("%s committed %d document/collection-level commit(s) but %d have no update event (%s)", kind, len(commits), len(missing), missKind), ex)
	}
	if len(extra) > 0 {
		h.violate("event/without-commit", fmt.Sprintf("%s: %d update event(s) announce a cid that is not a new commit in the store", kind, len(extra)), ex)
	}
	if len(dup) > 0 {
		h.violate("event/duplicate", fmt.Sprintf("%s: %d commit(s) were announced more than once", kind, len(dup)), ex)
	}
}

func c20EventList(evs []core.BusEvent) []string {
	var out []string
	for _, e := range evs {
		out = append(out, fmt.Sprintf("doc=%q cid=%s receipt=%v", e.DocID, e.Cid, e.AtReceipt))
	}
	return out
}

// ---------------------------------------------------------------------------------------
// GraphQL subscriptions

func (h *c20Hist) openSub(name, filter string) {
	sctx, cancel := context.WithCancel(h.ctx)
	arg := ""
	if filter != "" {
		arg = "(filter: " + filter + ")"
	}
	req := fmt.Sprintf(`subscription { Doc%s { _docID name i s f n } }`, arg)
	res := h.n.DB.ExecRequest(sctx, req)
	if len(res.GQL.Errors) > 0 {
		cancel()
		panic(fmt.Sprintf("subscription request rejected: %v (%s)", res.GQL.Errors[0], req))
	}
	s := &c20Sub{name: name, filter: filter, notify: make(chan struct{}, 1), cancel: cancel, done: make(chan struct{})}
	go func() {
		defer close(s.done)
		for r := range res.Subscription { // always drained: the channel is unbuffered
			sr := c20SubResult{}
			b, _ := json.Marshal(r.Data)
			sr.Raw = string(b)
			var m map[string][]map[string]any
			dec := json.NewDecoder(bytes.NewReader(b))
			dec.UseNumber()
			if dec.Decode(&m) == nil {
				sr.Docs = m["Doc"]
			}
			for _, e := range r.Errors {
				sr.Errs = append(sr.Errs, e.Error())
			}
			s.mu.Lock()
			s.log = append(s.log, sr)
			s.mu.Unlock()
			select {
			case s.notify <- struct{}{}:
			default:
			}
		}
	}()
	h.subs = append(h.subs, s)
}

// waitMarker waits until the subscription has delivered the result for marker update `step`
// (the subscription goroutine handles events in order, so everything before it has been handled)
// and returns the results that arrived before the marker's.
func (s *c20Sub) waitMarker(markerID string, step int, timeout time.Duration) (res []c20SubResult, ok bool) {
	deadline := time.NewTimer(timeout)
	defer deadline.Stop()
	want := fmt.Sprintf("%d.5", step)
	for {
		s.mu.Lock()
		for i := s.pos; i < len(s.log); i++ {
			for _, d := range s.log[i].Docs {
				if d["_docID"] == markerID && fmt.Sprint(d["f"]) == want {
					res = append([]c20SubResult(nil), s.log[s.pos:i]...)
					s.pos = i + 1
					s.mu.Unlock()
					return res, true
				}
			}
		}
		s.mu.Unlock()
		select {
		case <-s.notify:
		case <-deadline.C:
			s.mu.Lock()
			res = append([]c20SubResult(nil), s.log[s.pos:]...)
			s.pos = len(s.log)
			s.mu.Unlock()
			return res, false
		}
	}
}

// matching returns which of the given documents currently match the filter of the
// subscription, evaluated by an ordinary query.
func (h *c20Hist) matching(s *c20Sub, ids []string) map[string]bool {
	out := map[string]bool{}
	if len(ids) == 0 {
		return out
	}
	q, _ := json.Marshal(ids)
	arg := fmt.Sprintf("docID: %s", q)
	if s.filter != "" {
		arg += ", filter: " + s.filter
	}
	rows, err := h.n.Rows(h.ctx, fmt.Sprintf(`query { Doc(%s) { _docID } }`, arg), "Doc")
	core.Must(err)
	for _, r := range rows {
		out[fmt.Sprint(r["_docID"])] = true
	}
	return out
}

// settleSubs: marker update, wait for it on every live subscription, compare the results of the
// window with the committed changes of the window.
func (h *c20Hist) settleSubs(kind, outcome string, commits []c20Commit, judge bool) {
	if h.abort {
		return
	}
	// documents of Doc changed (not deleted) in this window, each touched once by construction
	var changed []string
	delDocs := map[string]bool{}
	otherTouched := false
	for _, c := range commits {
		switch {
		case c.Collection:
		case c.Other:
			otherTouched = true
		case c.Deleted:
			delDocs[c.DocID] = true
		default:
			changed = append(changed, c.DocID)
		}
	}
	expect := make([]map[string]bool, len(h.subs))
	for j, s := range h.subs {
		if !s.dead {
			expect[j] = h.matching(s, changed)
		}
	}
	// marker
	h.step++
	mstep := h.step
	d := h.getDoc(h.marker)
	core.Must(d.Set("f", float64(mstep)+0.5))
	err := h.col.Update(h.ctx, d)
	core.Must(err)
	mc := h.newCommits()
	h.barrier()
	h.checkEvents("marker-update", "success", h.takeEvents(), mc)

	for j, s := range h.subs {
		if s.dead {
			continue
		}
		timeout := c20StallTimeout
		if h.abort {
			timeout = 2 * time.Second // another subscription has just used up the watchdog time
		}
		res, ok := s.waitMarker(h.marker, mstep, timeout)
		blockedIn := ""
		var stacks []string
		for round := 0; !ok && !h.abort && round < 4; round++ {
			// nothing after the watchdog time: deadlocked, or merely slow on a loaded machine?
			blockedIn, stacks = h.blockedSubscription()
			if blockedIn != "" {
				break
			}
			h.r.Count("subscription_slow_waits", 1)
			var more []c20SubResult
			more, ok = s.waitMarker(h.marker, mstep, c20StallTimeout)
			res = append(res, more...)
		}
		ex := map[string]any{"subscription": s.name, "filter": s.filter, "operation": kind, "outcome": outcome, "commits_in_store": commits, "results": c20ResList(res)}
		if !ok {
			s.dead = true
			h.abort = true // the bus blocks once the dead subscriber's buffer is full: stop this history
			lastKind := "other"
			if len(delDocs) > 0 {
				lastKind = "delete"
			} else if otherTouched {
				lastKind = "change-in-other-collection"
			} else if len(commits) == 0 {
				lastKind = "no-commit"
			}
			if stacks == nil {
				_, stacks = h.blockedSubscription()
			}
			ex["subscription_goroutines"] = stacks
			if blockedIn != "" {
				h.violate("subscription/deadlocked-in/"+blockedIn, fmt.Sprintf("the goroutine of GraphQL subscription %s has been blocked for minutes in %s; no result for a matching committed update, every later change is lost for this subscriber (preceding operation: %s, %s)", s.name, blockedIn, kind, outcome), ex)
			} else {
				h.violate("subscription/stalled-after/"+lastKind, fmt.Sprintf("GraphQL subscription %s delivered nothing for a matching committed update within %s; the preceding operation was %s (%s) — every later change is lost for this subscriber", s.name, 5*c20StallTimeout, kind, outcome), ex)
			}
			continue
		}
		h.r.Count("subscription_windows", 1)
		got := map[string]int{}
		errRes := 0
		emptyRes := 0
		for _, sr := range res {
			if len(sr.Errs) > 0 {
				if strings.Contains(strings.Join(sr.Errs, " "), core.ErrInjected.Error()) {
					// the armed fault hit the subscription's own query (it reads through the same store)
					h.r.Count("fault_hit_subscription_query", 1)
					judge = false
					continue
				}
				errRes++
				continue
			}
			if len(sr.Docs) == 0 {
				emptyRes++
			}
			for _, dd := range sr.Docs {
				got[fmt.Sprint(dd["_docID"])]++
			}
		}
		h.r.Count("subscription_results", int64(len(res)))
		if !judge {
			continue
		}
		if errRes > 0 {
			if otherTouched && len(changed) == 0 && len(delDocs) == 0 {
				h.violate("subscription/error-result-for-change-in-other-collection", fmt.Sprintf("subscription on Doc (%s) delivered %d error result(s) for a change of a document of collection Other: %s", s.name, errRes, c20FirstErr(res)), ex)
			} else {
				h.violate("subscription/error-result", fmt.Sprintf("subscription %s delivered %d error result(s) after %s: %s", s.name, errRes, kind, c20FirstErr(res)), ex)
			}
		}
		if emptyRes > 0 {
			h.violate("subscription/empty-result", fmt.Sprintf("subscription %s delivered %d result(s) without any document after %s (%s)", s.name, emptyRes, kind, outcome), ex)
		}
		for id := range delDocs {
			if got[id] > 0 {
				h.r.Note("subscription_result_for_delete_commit")
				delete(got, id)
			}
		}
		var missing, extra, dup []string
		for id := range expect[j] {
			switch {
			case got[id] == 0:
				missing = append(missing, id)
			case got[id] > 1:
				dup = append(dup, id)
			}
		}
		for id := range got {
			if !expect[j][id] {
				extra = append(extra, id)
			}
		}
		h.r.Count("subscription_results_expected", int64(len(expect[j])))
		ex["expected_documents"] = expect[j]
		if outcome != "success" && len(got) > 0 {
			h.violate("subscription/result-for-"+outcome+"-operation", fmt.Sprintf("subscription %s delivered %d result(s) although %s ended as %q", s.name, len(got), kind, outcome), ex)
			continue
		}
		if len(missing) > 0 {
			h.violate("subscription/result-missing", fmt.Sprintf("subscription %s: %d committed change(s) whose post-state matches the filter produced no result (%s)", s.name, len(missing), kind), ex)
		}
		if len(extra) > 0 {
			h.violate("subscription/result-for-non-matching-change", fmt.Sprintf("subscription %s: %d result(s) for documents that were not changed or do not match the filter (%s)", s.name, len(extra), kind), ex)
		}
		if len(dup) > 0 {
			h.violate("subscription/result-duplicated", fmt.Sprintf("subscription %s: %d committed change(s) produced more than one result (%s)", s.name, len(dup), kind), ex)
		}
	}
}

// c20Goroutines returns the stacks of the goroutines whose stack mentions `what`.
func c20Goroutines(what string) []string {
	buf := make([]byte, 4<<20)
	buf = buf[:runtime.Stack(buf, true)]
	var out []string
	for _, g := range strings.Split(string(buf), "\n\n") {
		if strings.Contains(g, what) {
			if len(g) > 6000 {
				g = g[:6000]
			}
			out = append(out, g)
		}
	}
	return out
}

func c20GoroutineID(g string) string {
	f := strings.Fields(g)
	if len(f) >= 2 {
		return f[1]
	}
	return ""
}

// c20Blocked looks for a subscription goroutine of this case that has been blocked for minutes
// (the runtime annotates the state with "N minutes") on something other than its idle select and
// returns the innermost non-runtime frame it is blocked in.
func (h *c20Hist) blockedSubscription() (frame string, stacks []string) {
	for _, g := range c20Goroutines("handleSubscription") {
		if h.oldSubG[c20GoroutineID(g)] {
			continue
		}
		stacks = append(stacks, g)
		head := strings.SplitN(g, "\n", 2)[0]
		if !strings.Contains(head, "minutes") || strings.Contains(head, "[select") {
			continue
		}
		for _, l := range strings.Split(g, "\n")[1:] {
			if strings.HasPrefix(l, "\t") || strings.HasPrefix(l, "sync.") || strings.HasPrefix(l, "runtime.") || strings.HasPrefix(l, "internal/") {
				continue
			}
			if i := strings.LastIndex(l, "("); i > 0 {
				l = l[:i]
			}
			l = strings.TrimPrefix(l, "github.com/sourcenetwork/")
			return l, stacks
		}
	}
	return "", stacks
}

func c20ResList(rs []c20SubResult) []string {
	var out []string
	for _, r := range rs {
		out = append(out, fmt.Sprintf("%s errs=%v", r.Raw, r.Errs))
	}
	return out
}

func c20FirstErr(rs []c20SubResult) string {
	for _, r := range rs {
		if len(r.Errs) > 0 {
			return r.Errs[0]
		}
	}
	return ""
}

// ---------------------------------------------------------------------------------------
// operations

func (h *c20Hist) getDoc(id string) *client.Document {
	return h.getDocCtx(h.ctx, id)
}

func (h *c20Hist) getDocCtx(ctx context.Context, id string) *client.Document {
	did, err := client.NewDocIDFromString(id)
	core.Must(err)
	d, err := h.col.Get(ctx, did, false)
	core.Must(err)
	return d
}

// getDocErr is used inside operations (a storage fault may be armed): no panic on error.
func (h *c20Hist) getDocErr(ctx context.Context, col client.Collection, id string) (*client.Document, error) {
	did, err := client.NewDocIDFromString(id)
	if err != nil {
		return nil, err
	}
	return col.Get(ctx, did, false)
}

func (h *c20Hist) newDocMap() map[string]any {
	h.nextID++
	m := map[string]any{"name": fmt.Sprintf("d%d", h.nextID), "u": 1000 + h.nextID}
	if v := []any{1, 2, 3, nil}[h.rng.IntN(4)]; v != nil {
		m["i"] = v
	}
	if v := []any{"a", "b", nil}[h.rng.IntN(3)]; v != nil {
		m["s"] = v
	}
	m["n"] = 1 + h.rng.IntN(3)
	d, err := client.NewDocFromMap(m, h.col.Definition())
	core.Must(err)
	h.origin[d.ID().String()] = m
	return m
}

func (h *c20Hist) randPatch() map[string]any {
	m := map[string]any{}
	switch h.rng.IntN(4) {
	case 0:
		m["i"] = []any{1, 2, 3, nil}[h.rng.IntN(4)]
	case 1:
		m["s"] = []any{"a", "b", "c", nil}[h.rng.IntN(4)]
	case 2:
		m["i"] = 1 + h.rng.IntN(3)
		m["s"] = []string{"a", "b"}[h.rng.IntN(2)]
	default:
		m["n"] = 1 + h.rng.IntN(2)
	}
	return m
}

func (h *c20Hist) pick(list []string) string { return list[h.rng.IntN(len(list))] }

// pickN returns up to n distinct elements.
func (h *c20Hist) pickN(list []string, n int) []string {
	idx := h.rng.Perm(len(list))
	var out []string
	for _, i := range idx {
		if len(out) == n {
			break
		}
		out = append(out, list[i])
	}
	return out
}

func c20GQLErr(ctx context.Context, n *core.Node, req string) error {
	res := n.DB.ExecRequest(ctx, req)
	if len(res.GQL.Errors) > 0 {
		return res.GQL.Errors[0]
	}
	return nil
}

type c20Op struct {
	Kind  string
	Desc  string
	Multi bool // multi-document request
	Valid bool // expected to succeed without a fault
	Run   func(ctx context.Context) error
}

var c20SimpleKinds = []string{"create", "create", "update", "update", "update", "delete", "create_many", "update_filter", "delete_filter",
	"gql_create_multi", "gql_update_filter", "gql_multi", "other_create", "other_update"}
var c20InvalidKinds = []string{"invalid_create_duplicate", "invalid_create_unique", "invalid_update_deleted", "invalid_delete_missing",
	"invalid_gql_type", "invalid_gql_multi_last_fails", "invalid_create_many_dup"}

// genOp builds one operation of the given kind against the current contents; it never touches
// the marker document and touches each document at most once. ok=false: not applicable now.
func (h *c20Hist) genOp(kind string, exclude map[string]bool) (op c20Op, ok bool) {
	var live []string
	for _, id := range h.live {
		if !exclude[id] {
			live = append(live, id)
		}
	}
	op = c20Op{Kind: kind, Valid: true}
	switch kind {
	case "create":
		m := h.newDocMap()
		op.Desc = core.Canon(m)
		op.Run = func(ctx context.Context) error {
			d, err := client.NewDocFromMap(m, h.col.Definition())
			core.Must(err)
			return h.col.Create(ctx, d)
		}
	case "create_many":
		ms := []map[string]any{h.newDocMap(), h.newDocMap(), h.newDocMap()}
		op.Multi = true
		op.Desc = core.Canon(ms)
		op.Run = func(ctx context.Context) error {
			var ds []*client.Document
			for _, m := range ms {
				d, err := client.NewDocFromMap(m, h.col.Definition())
				core.Must(err)
				ds = append(ds, d)
			}
			return h.col.CreateMany(ctx, ds)
		}
	case "update":
		if len(live) == 0 {
			return op, false
		}
		id := h.pick(live)
		patch := h.randPatch()
		exclude[id] = true
		op.Desc = id + " " + core.Canon(patch)
		op.Run = func(ctx context.Context) error {
			d, err := h.getDocErr(ctx, h.col, id)
			if err != nil {
				return err
			}
			for k, v := range patch {
				core.Must(d.Set(k, v))
			}
			return h.col.Update(ctx, d)
		}
	case "delete":
		if len(live) == 0 {
			return op, false
		}
		id := h.pick(live)
		exclude[id] = true
		op.Desc = id
		op.Run = func(ctx context.Context) error {
			did, _ := client.NewDocIDFromString(id)
			_, err := h.col.Delete(ctx, did)
			return err
		}
	case "update_filter":
		if len(live) < 2 || len(exclude) > 0 {
			return op, false
		}
		f := []string{`{i: {_ge: 2}}`, `{s: {_eq: "a"}}`, `{i: {_eq: null}}`, `{u: {_ge: 1000}}`}[h.rng.IntN(4)]
		f = fmt.Sprintf(`{_and: [{name: {_ne: %q}}, %s]}`, c20Marker, f)
		patch := fmt.Sprintf(`{"s": %q}`, []string{"a", "b", "c"}[h.rng.IntN(3)])
		op.Multi = true
		op.Desc = f + " " + patch
		for _, id := range live {
			exclude[id] = true
		}
		op.Run = func(ctx context.Context) error { _, err := h.col.UpdateWithFilter(ctx, f, patch); return err }
	case "delete_filter":
		if len(live) < 3 || len(exclude) > 0 {
			return op, false
		}
		f := fmt.Sprintf(`{_and: [{name: {_ne: %q}}, {i: {_eq: %d}}]}`, c20Marker, 1+h.rng.IntN(3))
		op.Multi = true
		op.Desc = f
		for _, id := range live {
			exclude[id] = true
		}
		op.Run = func(ctx context.Context) error { _, err := h.col.DeleteWithFilter(ctx, f); return err }
	case "gql_create_multi":
		a, b := h.newDocMap(), h.newDocMap()
		req := fmt.Sprintf(`mutation { create_Doc(input: [%s, %s]) { _docID } }`, c05GQLInput(a), c05GQLInput(b))
		op.Multi = true
		op.Desc = req
		op.Run = func(ctx context.Context) error { return c20GQLErr(ctx, h.n, req) }
	case "gql_update_filter":
		if len(live) < 2 || len(exclude) > 0 {
			return op, false
		}
		req := fmt.Sprintf(`mutation { update_Doc(filter: {_and: [{name: {_ne: %q}}, {u: {_ge: %d}}]}, input: {i: %d}) { _docID } }`, c20Marker, 1000+h.rng.IntN(h.nextID+1), 1+h.rng.IntN(3))
		op.Multi = true
		op.Desc = req
		for _, id := range live {
			exclude[id] = true
		}
		op.Run = func(ctx context.Context) error { return c20GQLErr(ctx, h.n, req) }
	case "gql_multi":
		if len(live) < 2 {
			return op, false
		}
		ids := h.pickN(live, 2)
		exclude[ids[0]], exclude[ids[1]] = true, true
		req := fmt.Sprintf(`mutation { a: create_Doc(input: %s) { _docID } b: update_Doc(docID: %q, input: {i: %d}) { _docID } c: delete_Doc(docID: %q) { _docID } }`,
			c05GQLInput(h.newDocMap()), ids[0], 1+h.rng.IntN(3), ids[1])
		op.Multi = true
		op.Desc = req
		op.Run = func(ctx context.Context) error { return c20GQLErr(ctx, h.n, req) }
	case "other_create":
		h.nextID++
		m := map[string]any{"x": fmt.Sprintf("o%d", h.nextID), "v": h.rng.IntN(3)}
		op.Desc = core.Canon(m)
		op.Run = func(ctx context.Context) error {
			d, err := client.NewDocFromMap(m, h.oth.Definition())
			core.Must(err)
			return h.oth.Create(ctx, d)
		}
	case "other_update":
		if len(h.others) == 0 {
			return op, false
		}
		id := h.pick(h.others)
		if exclude[id] {
			return op, false
		}
		exclude[id] = true
		v := h.rng.IntN(5)
		op.Desc = fmt.Sprintf("%s v=%d", id, v)
		op.Run = func(ctx context.Context) error {
			d, err := h.getDocErr(ctx, h.oth, id)
			if err != nil {
				return err
			}
			core.Must(d.Set("v", v))
			return h.oth.Update(ctx, d)
		}
	// --- operations that fail by validation
	case "invalid_create_duplicate":
		if len(live) == 0 {
			return op, false
		}
		id := h.pick(live)
		op.Valid = false
		op.Desc = "same content as " + id
		req := h.dupCreateReq(id)
		op.Run = func(ctx context.Context) error { return c20GQLErr(ctx, h.n, req) }
	case "invalid_create_unique":
		if len(live) == 0 {
			return op, false
		}
		id := h.pick(live)
		op.Valid = false
		op.Desc = "unique value of " + id
		u := h.fieldOf(id, "u")
		h.nextID++
		req := fmt.Sprintf(`mutation { create_Doc(input: {name: "clash%d", u: %s, i: 1}) { _docID } }`, h.nextID, u)
		op.Run = func(ctx context.Context) error { return c20GQLErr(ctx, h.n, req) }
	case "invalid_update_deleted":
		if len(h.deleted) == 0 {
			return op, false
		}
		id := h.pick(h.deleted)
		op.Valid = false
		op.Desc = id
		op.Run = func(ctx context.Context) error {
			m, ok := h.origin[id]
			if !ok {
				return fmt.Errorf("(harness: creation input of %s unknown)", id)
			}
			d, err := client.NewDocFromMap(m, h.col.Definition())
			core.Must(err)
			core.Must(d.Set("i", 2))
			return h.col.Update(ctx, d)
		}
	case "invalid_delete_missing":
		op.Valid = false
		op.Run = func(ctx context.Context) error {
			d, err := client.NewDocFromMap(map[string]any{"name": "never", "u": -1}, h.col.Definition())
			core.Must(err)
			_, err = h.col.Delete(ctx, d.ID())
			if err == nil {
				err = fmt.Errorf("(no error; nothing deleted)")
			}
			return err
		}
	case "invalid_gql_type":
		if len(live) == 0 {
			return op, false
		}
		id := h.pick(live)
		op.Valid = false
		op.Desc = id
		op.Run = func(ctx context.Context) error {
			return c20GQLErr(ctx, h.n, fmt.Sprintf(`mutation { update_Doc(docID: %q, input: {i: "NaN"}) { _docID } }`, id))
		}
	case "invalid_gql_multi_last_fails":
		if len(live) == 0 {
			return op, false
		}
		id := h.pick(live)
		op.Valid = false
		op.Multi = true
		req := fmt.Sprintf(`mutation { a: create_Doc(input: %s) { _docID } b: update_Doc(docID: %q, input: {i: 3}) { _docID } c: %s }`,
			c05GQLInput(h.newDocMap()), id, strings.TrimSuffix(strings.TrimPrefix(h.dupCreateReq(id), "mutation { "), " }"))
		op.Desc = req
		op.Run = func(ctx context.Context) error { return c20GQLErr(ctx, h.n, req) }
	case "invalid_create_many_dup":
		m := h.newDocMap()
		op.Valid = false
		op.Multi = true
		op.Desc = core.Canon(m)
		op.Run = func(ctx context.Context) error {
			a, _ := client.NewDocFromMap(h.newDocMapFixed(9000), h.col.Definition())
			b, _ := client.NewDocFromMap(m, h.col.Definition())
			c, _ := client.NewDocFromMap(m, h.col.Definition())
			return h.col.CreateMany(ctx, []*client.Document{a, b, c})
		}
	default:
		panic("unknown op kind " + kind)
	}
	return op, true
}

func (h *c20Hist) newDocMapFixed(k int) map[string]any {
	h.nextID++
	return map[string]any{"name": fmt.Sprintf("x%d-%d", k, h.nextID), "u": k*1000 + h.nextID}
}

// dupCreateReq: a create request whose input equals the creation input of an existing document
// (same generated docID).
func (h *c20Hist) dupCreateReq(id string) string {
	m, ok := h.origin[id]
	if !ok {
		panic("no creation input recorded for " + id)
	}
	return fmt.Sprintf(`mutation { create_Doc(input: %s) { _docID } }`, c05GQLInput(m))
}

func (h *c20Hist) fieldOf(id, field string) string {
	rows, err := h.n.Rows(h.ctx, fmt.Sprintf(`query { Doc(docID: %q) { %s } }`, id, field), "Doc")
	core.Must(err)
	if len(rows) != 1 {
		panic("document not found: " + id)
	}
	return fmt.Sprint(rows[0][field])
}

// refresh re-reads which documents exist (ground truth for the generator, not an oracle).
func (h *c20Hist) refresh() {
	rows, err := h.n.Rows(h.ctx, `query { Doc(showDeleted: true) { _docID _deleted name } }`, "Doc")
	core.Must(err)
	h.live, h.deleted = nil, nil
	for _, r := range rows {
		id := fmt.Sprint(r["_docID"])
		if r["name"] == c20Marker {
			continue
		}
		if r["_deleted"] == true {
			h.deleted = append(h.deleted, id)
		} else {
			h.live = append(h.live, id)
		}
	}
	sort.Strings(h.live)
	sort.Strings(h.deleted)
	rows, err = h.n.Rows(h.ctx, `query { Other { _docID } }`, "Other")
	core.Must(err)
	h.others = nil
	for _, r := range rows {
		h.others = append(h.others, fmt.Sprint(r["_docID"]))
	}
	sort.Strings(h.others)
}

func (h *c20Hist) tuple(kind, outcome string) {
	h.tuples[fmt.Sprintf("%s|%s|%s|%d", kind, outcome, h.p.Config, h.p.Subs)] = true
	h.r.Count("outcome:"+outcome+":"+h.p.Config, 1)
	if outcome != "success" {
		h.failed = true
	}
}

// ---------------------------------------------------------------------------------------
// steps

// stepSimple: one operation; fault = "" | "random" (random k-th storage operation fails) |
// "commit" (the operation's own Commit fails: the position is found by executing the operation
// once inside an explicit transaction that is discarded, which must leave no trace either).
func (h *c20Hist) stepSimple(kind string, fault string) bool {
	if h.abort {
		return false
	}
	op, ok := h.genOp(kind, map[string]bool{})
	if !ok {
		return false
	}
	if op.Multi {
		h.multi = true
		h.r.Count("multi_document_requests", 1)
	}
	k := 0
	switch fault {
	case "random":
		k = 1 + h.rng.IntN(70)
		if h.rng.IntN(3) == 0 {
			k = 1 + h.rng.IntN(12)
		}
	case "commit":
		txn, err := h.n.DB.NewTxn(h.ctx, false)
		core.Must(err)
		h.n.Fault.Arm(0)
		derr := op.Run(db.InitContext(h.ctx, txn))
		ops, _ := h.n.Fault.Disarm()
		txn.Discard(h.ctx)
		h.logf("dry run of %s in a discarded transaction: %d storage operations (%v)", kind, len(ops), derr)
		h.tuple(kind+"-in-txn", "discard")
		k = len(ops) + 1
	}
	h.n.Fault.Arm(k)
	err, pan := c05CallGuarded(func() error { return op.Run(h.ctx) })
	_, fired := h.n.Fault.Disarm()
	if pan != "" {
		if !fired {
			panic(pan)
		}
		// a panic of an operation under an injected storage fault is the subject of C05, not of C20;
		// the node cannot be used any further
		h.r.Count("histories_aborted_by_panic_under_injected_fault", 1)
		h.r.Note("panic_under_injected_fault/" + c05PanicFrame(pan))
		h.logf("%s %s fault@%d -> PANIC %s", kind, op.Desc, k, strings.SplitN(pan, "\n", 2)[0])
		h.abort = true
		return false
	}
	outcome := "success"
	switch {
	case err != nil && fired:
		outcome = "injected-fault"
		if h.n.Fault.FailedOp.Method == "commit" {
			outcome = "failing-commit"
		}
	case err != nil:
		outcome = "validation-error"
	}
	h.logf("%s %s fault@%d fired=%v -> %s (%v)", kind, op.Desc, k, fired, outcome, err)
	if op.Valid && err != nil && !fired && !strings.Contains(err.Error(), "conflict") {
		panic(fmt.Sprintf("C20 generator: %s %s was expected to succeed: %v", kind, op.Desc, err))
	}
	if !op.Valid && err == nil {
		h.r.Note("operation_expected_to_fail_succeeded/" + kind)
	}
	h.tuple(kind, outcome)
	commits := h.newCommits()
	h.barrier()
	h.checkEvents(kind, outcome, h.takeEvents(), commits)
	judge := true
	if fired && err == nil {
		// the armed window stays open until the call has returned, the subscription goroutine reads
		// through the same store: the injected fault may have hit its query instead of the operation
		judge = false
		h.r.Count("fault_hit_after_the_operation", 1)
	}
	h.settleSubs(kind, outcome, commits, judge)
	h.refresh()
	return true
}

// stepBurst: several operations back to back without waiting in between; the event sequence must
// be the concatenation, in completion order, of the operations' commit sets.
func (h *c20Hist) stepBurst() bool {
	if h.abort {
		return false
	}
	nops := 3 + h.rng.IntN(3)
	var groups [][]c20Commit
	var all []c20Commit
	exclude := map[string]bool{}
	kinds := []string{"create", "update", "update", "delete", "create_many", "gql_create_multi", "other_create"}
	ran := 0
	for i := 0; i < nops; i++ {
		kind := kinds[h.rng.IntN(len(kinds))]
		op, ok := h.genOp(kind, exclude)
		if !ok {
			continue
		}
		err := op.Run(h.ctx)
		h.logf("burst %s %s -> %v", kind, op.Desc, err)
		if err != nil {
			panic(fmt.Sprintf("C20 generator: burst %s %s was expected to succeed: %v", kind, op.Desc, err))
		}
		if op.Multi {
			h.multi = true
			h.r.Count("multi_document_requests", 1)
		}
		cs := h.newCommits()
		groups = append(groups, cs)
		all = append(all, cs...)
		h.tuple(kind, "success")
		ran++
	}
	if ran == 0 {
		return false
	}
	h.r.Count("bursts", 1)
	h.barrier()
	evs := h.takeEvents()
	// order: consume the event sequence group by group
	pos := 0
	ordered := true
	for _, g := range groups {
		want := map[string]bool{}
		for _, c := range g {
			want[c.Cid] = true
		}
		for n := 0; n < len(g); n++ {
			if pos >= len(evs) || !want[evs[pos].Cid] {
				ordered = false
				break
			}
			delete(want, evs[pos].Cid)
			pos++
		}
		if !ordered {
			break
		}
	}
	h.checkEvents("burst", "success", evs, all)
	if !ordered && len(evs) == len(all) {
		h.violate("event/order-differs-from-completion-order", "update events of sequential operations of one caller arrived in an order different from the order in which the operations completed",
			map[string]any{"events": c20EventList(evs), "commit_groups_in_completion_order": groups})
	}
	h.r.Count("order_checks", 1)
	h.settleSubs("burst", "success", all, true)
	h.refresh()
	return true
}

// stepTxn: explicit transaction with 1-3 operations, then commit / discard / failing commit.
func (h *c20Hist) stepTxn(end string) bool {
	if h.abort {
		return false
	}
	txn, err := h.n.DB.NewTxn(h.ctx, false)
	core.Must(err)
	tctx := db.InitContext(h.ctx, txn)
	exclude := map[string]bool{}
	kinds := []string{"create", "update", "update", "delete", "create_many", "other_create"}
	nops := 1 + h.rng.IntN(3)
	ran := 0
	for i := 0; i < nops; i++ {
		kind := kinds[h.rng.IntN(len(kinds))]
		if i == 0 {
			kind = "create"
		}
		op, ok := h.genOp(kind, exclude)
		if !ok {
			continue
		}
		err := op.Run(tctx)
		h.logf("txn %s %s -> %v", kind, op.Desc, err)
		if err != nil {
			panic(fmt.Sprintf("C20 generator: %s inside an explicit transaction was expected to succeed: %v", kind, err))
		}
		if op.Multi {
			h.multi = true
		}
		ran++
	}
	// nothing may be announced (or visible in the store) before the commit
	h.barrier()
	early := h.takeEvents()
	earlyCommits := h.newCommits()
	if len(early) > 0 {
		h.violate("event/before-commit", fmt.Sprintf("%d update event(s) were published while the explicit transaction was still open", len(early)),
			map[string]any{"events": c20EventList(early)})
	}
	if len(earlyCommits) > 0 {
		h.violate("commit/visible-before-commit", fmt.Sprintf("%d commit block(s) are in the store while the explicit transaction is still open", len(earlyCommits)), map[string]any{"commits": earlyCommits})
	}
	h.r.Count("open_transaction_checks", 1)
	outcome := "success"
	judgeTxn := true
	switch end {
	case "commit":
		err = txn.Commit(h.ctx)
		if err != nil {
			panic(fmt.Sprintf("C20 generator: commit of an explicit transaction failed: %v", err))
		}
	case "discard":
		txn.Discard(h.ctx)
		outcome = "discard"
	case "failing-commit":
		h.n.Fault.Arm(1)
		err = txn.Commit(h.ctx)
		_, fired := h.n.Fault.Disarm()
		txn.Discard(h.ctx)
		if err == nil {
			// a background reader (a subscription still handling the trailing collection-level event of
			// the previous window) took the fault: the commit went through
			h.r.Count("fault_hit_after_the_operation", 1)
			judgeTxn = false
			_ = fired
		} else {
			outcome = "failing-commit"
		}
	}
	h.logf("txn end %s -> %s", end, outcome)
	h.tuple("txn("+fmt.Sprint(ran)+")", outcome)
	commits := h.newCommits()
	h.barrier()
	h.checkEvents("explicit-transaction", outcome, h.takeEvents(), commits)
	h.settleSubs("explicit-transaction", outcome, commits, judgeTxn)
	h.refresh()
	return true
}

// stepParallel: g callers work concurrently, each sequentially on its own documents. Per caller the
// events must appear in the caller's completion order; overall bijection with the store.
func (h *c20Hist) stepParallel() {
	if h.abort {
		return
	}
	g := 2 + h.rng.IntN(2)
	type call struct {
		doc string
		err error
	}
	// each caller owns two fresh documents
	own := make([][]string, g)
	for c := 0; c < g; c++ {
		for j := 0; j < 2; j++ {
			m := h.newDocMap()
			d, err := client.NewDocFromMap(m, h.col.Definition())
			core.Must(err)
			core.Must(h.col.Create(h.ctx, d))
			own[c] = append(own[c], d.ID().String())
		}
	}
	setup := h.newCommits()
	h.barrier()
	h.checkEvents("parallel-setup", "success", h.takeEvents(), setup)
	h.settleSubs("parallel-setup", "success", setup, true)

	plans := make([][]struct {
		doc   string
		patch map[string]any
	}, g)
	for c := 0; c < g; c++ {
		for j := 0; j < 4; j++ {
			plans[c] = append(plans[c], struct {
				doc   string
				patch map[string]any
			}{own[c][h.rng.IntN(2)], map[string]any{"f": float64(j), "n": 1}})
		}
	}
	logs := make([][]call, g)
	var wg sync.WaitGroup
	for c := 0; c < g; c++ {
		wg.Add(1)
		go func(c int) {
			defer wg.Done()
			col := h.n.Col(h.ctx, "Doc")
			for _, st := range plans[c] {
				did, _ := client.NewDocIDFromString(st.doc)
				var err error
				for attempt := 0; attempt < 5; attempt++ {
					var d *client.Document
					d, err = col.Get(h.ctx, did, false)
					if err != nil {
						break
					}
					for k, v := range st.patch {
						if err = d.Set(k, v); err != nil {
							break
						}
					}
					if err != nil {
						break
					}
					err = col.Update(h.ctx, d)
					if err == nil || !strings.Contains(err.Error(), "conflict") {
						break
					}
				}
				logs[c] = append(logs[c], call{st.doc, err})
			}
		}(c)
	}
	wg.Wait()
	h.r.Count("parallel_phases", 1)
	commits := h.newCommits()
	h.barrier()
	evs := h.takeEvents()
	h.logf("parallel phase: %d callers, %d commits, %d events", g, len(commits), len(evs))
	h.checkEvents("parallel-phase", "success", evs, commits)
	// per caller order: events of the caller's documents, in sequence, = its successful calls
	heightOf := map[string]uint64{}
	for _, cm := range commits {
		if !cm.Collection {
			blk := h.n.MustBlock(h.ctx, core.ParseCid(cm.Cid))
			heightOf[cm.Cid] = blk.Delta.GetPriority()
		}
	}
	for c := 0; c < g; c++ {
		mine := map[string]bool{own[c][0]: true, own[c][1]: true}
		var got, want []string
		lastH := map[string]uint64{}
		for _, e := range evs {
			if mine[e.DocID] {
				got = append(got, e.DocID)
				if hgt := heightOf[e.Cid]; hgt <= lastH[e.DocID] {
					h.violate("event/order-differs-from-commit-order", fmt.Sprintf("events of one document arrived out of commit order (height %d after %d)", hgt, lastH[e.DocID]), map[string]any{"events": c20EventList(evs)})
				} else {
					lastH[e.DocID] = hgt
				}
			}
		}
		for _, cl := range logs[c] {
			if cl.err == nil {
				want = append(want, cl.doc)
			} else {
				h.r.Count("parallel_calls_failed", 1)
			}
		}
		h.r.Count("order_checks", 1)
		if strings.Join(got, ",") != strings.Join(want, ",") {
			h.violate("event/order-differs-from-completion-order", fmt.Sprintf("caller %d completed updates on %v in this order, the events arrived as %v", c, want, got), map[string]any{"events": c20EventList(evs)})
		}
	}
	h.tuple("parallel", "success")
	h.settleSubs("parallel-phase", "success", nil, false) // every document is touched several times: only the marker is checked here
	h.refresh()
}

// ---------------------------------------------------------------------------------------

func runC20(ctx context.Context, c core.Case, r *core.Rec) {
	quietLogs()
	var p c20Params
	c.P(&p)
	h := &c20Hist{ctx: ctx, p: p, r: r, rng: c.Rng(), blocks: map[string]bool{}, tuples: map[string]bool{}, origin: map[string]map[string]any{}}
	h.n = fastNode(ctx, core.NodeOpts{Fault: true})
	defer h.n.Close()
	_, err := h.n.DB.AddSchema(ctx, c20SDL(p.Config))
	core.Must(err)
	h.col = h.n.Col(ctx, "Doc")
	h.oth = h.n.Col(ctx, "Other")
	h.docV = h.col.Schema().VersionID

	var rmu sync.Mutex
	onReceive := func(e *core.BusEvent) {
		if e.Name != event.UpdateName {
			return
		}
		at := map[string]any{}
		cc, err := cid.Decode(e.Cid)
		if err != nil {
			at["cid_invalid"] = err.Error()
		} else {
			dm, err := mh.Decode(cc.Hash())
			if err != nil || hex.EncodeToString(dm.Digest) != e.BlockSHA {
				at["hash_mismatch"] = true
			}
			b, err := h.n.Blockstore().Get(ctx, cc)
			if err != nil {
				at["unreadable"] = err.Error()
			} else if !bytes.Equal(b.RawData(), e.Block) {
				at["stored_bytes_differ"] = true
			}
		}
		if len(at) > 0 {
			e.AtReceipt = at
			rmu.Lock()
			h.badReceipt++
			rmu.Unlock()
		}
	}
	for i := 0; i < p.Subs; i++ {
		h.recs = append(h.recs, core.NewBusRecorder(h.n.DB.Events(), onReceive, event.UpdateName))
	}
	defer func() {
		for _, rc := range h.recs {
			rc.Close()
		}
	}()
	h.oldSubG = map[string]bool{}
	for _, g := range c20Goroutines("handleSubscription") {
		h.oldSubG[c20GoroutineID(g)] = true
	}
	filter := c20Filters[p.Filter%len(c20Filters)]
	h.openSub("filtered", fmt.Sprintf(`{_or: [{name: {_eq: %q}}, %s]}`, c20Marker, filter))
	h.openSub("unfiltered", "")
	defer func() {
		for _, s := range h.subs {
			s.cancel()
		}
		// a cancelled subscription goroutine only notices the cancellation at its next select
		h.n.DB.Events().Publish(event.NewMessage(event.UpdateName, "verif-wakeup"))
	}()
	h.barrier()

	// marker document + a few initial documents
	md, err := client.NewDocFromMap(map[string]any{"name": c20Marker, "u": 0, "f": 0.5}, h.col.Definition())
	core.Must(err)
	core.Must(h.col.Create(ctx, md))
	h.marker = md.ID().String()
	for i := 0; i < 3; i++ {
		d, err := client.NewDocFromMap(h.newDocMap(), h.col.Definition())
		core.Must(err)
		core.Must(h.col.Create(ctx, d))
	}
	commits := h.newCommits()
	h.barrier()
	h.checkEvents("initial-creates", "success", h.takeEvents(), commits)
	h.refresh()
	// the first marker round also consumes the results of the initial creates (the marker's own
	// creation matches every subscription and is accounted for as a changed document)
	h.settleSubs("initial-creates", "success", commits, true)

	steps := p.Steps
	script := p.Script
	for s := 0; s < steps || len(script) > 0; s++ {
		h.step++
		var kind string
		if len(script) > 0 {
			kind, script = script[0], script[1:]
		} else {
			switch x := h.rng.IntN(100); {
			case x < 45:
				kind = c20SimpleKinds[h.rng.IntN(len(c20SimpleKinds))]
			case x < 57:
				kind = c20InvalidKinds[h.rng.IntN(len(c20InvalidKinds))]
			case x < 68:
				kind = "fault:" + c20SimpleKinds[h.rng.IntN(len(c20SimpleKinds))]
			case x < 72:
				kind = "commitfault:" + c20SimpleKinds[h.rng.IntN(len(c20SimpleKinds))]
			case x < 80:
				kind = "burst"
			case x < 87:
				kind = "txn:commit"
			case x < 92:
				kind = "txn:discard"
			default:
				kind = "txn:failing-commit"
			}
		}
		switch {
		case kind == "burst":
			h.stepBurst()
		case kind == "parallel":
			h.stepParallel()
		case strings.HasPrefix(kind, "txn:"):
			h.stepTxn(strings.TrimPrefix(kind, "txn:"))
		case strings.HasPrefix(kind, "fault:"):
			h.stepSimple(strings.TrimPrefix(kind, "fault:"), "random")
		case strings.HasPrefix(kind, "commitfault:"):
			h.stepSimple(strings.TrimPrefix(kind, "commitfault:"), "commit")
		default:
			h.stepSimple(kind, "")
		}
		if len(h.live) > 9 {
			// keep the collection small
			h.step++
			h.stepSimple("delete", "")
		}
		if h.abort {
			break
		}
	}
	if p.Parallel && !h.abort {
		h.step++
		h.stepParallel()
	}
	if h.abort {
		r.Count("histories_aborted", 1)
		return
	}

	// --- end of history
	h.barrier()
	seq0 := c20CidSeq(h.recs[0].Events())
	for i := 1; i < len(h.recs); i++ {
		r.Count("subscriber_sequence_comparisons", 1)
		if si := c20CidSeq(h.recs[i].Events()); si != seq0 {
			h.violate("event/subscribers-see-different-sequences", fmt.Sprintf("bus subscribers 0 and %d received different event sequences", i), map[string]any{"subscriber_0": seq0, "subscriber_other": si})
		}
	}
	if h.badReceipt > 0 {
		var bad []string
		sig := "event/block-not-readable-at-receipt"
		for _, e := range h.recs[0].Events() {
			if e.AtReceipt != nil {
				bad = append(bad, fmt.Sprintf("doc=%q cid=%s %v", e.DocID, e.Cid, e.AtReceipt))
				if e.AtReceipt["hash_mismatch"] != nil || e.AtReceipt["stored_bytes_differ"] != nil {
					sig = "event/block-bytes-do-not-match-cid"
				}
			}
		}
		h.violate(sig, fmt.Sprintf("%d update event(s) carried a block that was not readable from the store, or whose bytes do not hash to the announced cid, when the event was received", h.badReceipt), map[string]any{"events": bad})
	}
	r.Count("receipt_checks", int64(len(h.recs[0].Events())*len(h.recs)))
	// cross-check with the commits query: document-level (_C) and collection-level commits = announced cids
	rows, err := h.n.Rows(ctx, `query { commits { cid docID fieldName } }`, "commits")
	core.Must(err)
	inQuery := map[string]bool{}
	for _, row := range rows {
		if row["fieldName"] == "_C" || row["docID"] == nil {
			inQuery[fmt.Sprint(row["cid"])] = true
		}
	}
	announced := map[string]bool{}
	for _, e := range h.recs[0].Events() {
		announced[e.Cid] = true
	}
	var onlyQ, onlyE []string
	for k := range inQuery {
		if !announced[k] {
			onlyQ = append(onlyQ, k)
		}
	}
	for k := range announced {
		if !inQuery[k] {
			onlyE = append(onlyE, k)
		}
	}
	r.Count("commits_query_crosschecks", 1)
	if len(onlyQ) > 0 || len(onlyE) > 0 {
		h.violate("event/set-differs-from-commits-query", fmt.Sprintf("at the end of the history the commits query lists %d document/collection-level commits that were never announced and %d announced cids are not listed", len(onlyQ), len(onlyE)),
			map[string]any{"only_in_commits_query": onlyQ, "only_announced": onlyE})
	}
	if h.failed && h.multi {
		r.Count("nontrivial_histories", 1)
		for t := range h.tuples {
			r.Nontrivial(t)
		}
	}
	r.Count("histories", 1)
	r.Sample(map[string]any{"params": p, "history_head": h.log[:min(len(h.log), 12)]})
}

func c20CidSeq(evs []core.BusEvent) string {
	var sb strings.Builder
	for _, e := range evs {
		sb.WriteString(e.Cid)
		sb.WriteByte(' ')
	}
	return sb.String()
}

func c20Cases(seed uint64, tier string) []core.Case {
	var cs []core.Case
	anchor := []string{"create", "create_many", "update", "gql_create_multi", "gql_multi", "other_create", "other_update", "update_filter",
		"invalid_create_duplicate", "invalid_create_unique", "invalid_gql_multi_last_fails", "invalid_create_many_dup", "invalid_delete_missing",
		"fault:update", "fault:create_many", "fault:gql_multi", "commitfault:update", "commitfault:create",
		"txn:commit", "txn:discard", "txn:failing-commit", "burst", "parallel", "delete", "update", "invalid_update_deleted", "delete_filter", "gql_update_filter", "burst"}
	for _, cfg := range []string{"plain", "branchable"} {
		for _, k := range []int{1, 2, 4} {
			cs = append(cs, core.MkCase("anchor/"+cfg, 1, c20Params{Config: cfg, Subs: k, Filter: 0, Script: anchor}))
		}
	}
	n := 200
	if tier == "thorough" {
		n = 5000
	}
	rng := rand.New(rand.NewPCG(seed, 2020))
	for i := 0; i < n; i++ {
		p := c20Params{Config: []string{"plain", "branchable"}[rng.IntN(2)], Subs: []int{1, 2, 4}[rng.IntN(3)], Steps: 12 + rng.IntN(12), Filter: rng.IntN(len(c20Filters)), Parallel: rng.IntN(4) == 0}
		cs = append(cs, core.MkCase("history/"+p.Config, rng.Uint64(), p))
	}
	return cs
}

func init() {
	var floors []string
	for _, cfg := range []string{"plain", "branchable"} {
		for _, o := range []string{"success", "validation-error", "injected-fault", "discard", "failing-commit"} {
			floors = append(floors, "outcome:"+o+":"+cfg)
		}
	}
	floors = append(floors, "evaluations", "events_seen", "collection_level_commits", "subscription_results", "subscription_windows", "multi_document_requests",
		"bursts", "parallel_phases", "order_checks", "open_transaction_checks", "subscriber_sequence_comparisons", "receipt_checks", "commits_query_crosschecks", "nontrivial_histories")
	core.Register(&core.Check{
		ID: "C20", Level: "exploration",
		Rule: "case = one mutation history on one node (plain or @branchable collection plus a second collection) observed by k in {1,2,4} bus recorders and two GraphQL subscriptions (generated filter / none): " +
			"creates, updates, deletes, filtered and multi-document requests, several mutations in one request, requests failing by validation, by an injected storage fault (random k) or by a failing Commit, " +
			"explicit transactions that commit / are discarded / fail at commit, bursts without intermediate barrier, a phase with 2-3 concurrent callers. evaluations = quiescent windows compared " +
			"(events vs new composite/collection blocks in /db/blocks). distinct = (operation kind, outcome, configuration, recorder count) seen in histories with >=1 failed or discarded operation and >=1 multi-document request.",
		Cases:       c20Cases,
		Run:         runC20,
		Floors:      floors,
		CaseTimeout: 900 * time.Second,
		Assumptions: []string{
			"ground truth for 'committed' = composite and collection blocks newly present in the raw block store after the operation returned (cross-checked with the commits query at the end of each history)",
			"quiescence of the bus = a sentinel message published by the harness has been received by every recorder (single command channel); quiescence of a GraphQL subscription = the result for a marker update that matches every filter has arrived (watchdog: 90 s, extended up to 450 s while no subscription goroutine is blocked; then reported as a stalled or deadlocked subscription)",
			"a GraphQL subscription result is expected for every non-delete document-level commit of the subscribed collection whose document matches the filter in an ordinary query right after the operation; results for delete commits are counted, not judged; every document is touched at most once per quiescent window",
			"single caller for most of the history; the concurrent phase uses disjoint documents per caller",
		},
	})
}
